/-
  Property C02 (part a) — the line recognisers agree with the CommonMark wording.

  Characterisation theorems, for EVERY line (induction / case analysis, no samples), over GM.Model.LineRec —
  the Lean model of goldmark's line recognisers, tied to the Go functions by the exhaustive function-level
  correspondence of harness component `linerec` (which also compares each real function with a Go regexp
  transcription of the specification's sentence).  Helper lemmas: GM/Proof/LineRec.lean.

  Proved here (all characterisations are for every line): thematic break, setext underline, list markers
  (bullet / ordered incl. the 1–9 digit rule and "space, tab or end of line after the marker", with the match
  array), the list-content offset rule (`calcListOffset`), opening and closing code fence, ATX opening sequence
  (+ no panic) and ATX content range, tabs-vs-spaces (`tabs_eq_spaces`, incl. the padding half).
  Open: nothing of this part's plan; the block driver that calls the recognisers is not modelled here.
-/
import GM.Model.LineRec
import GM.Proof.LineRec

namespace GM.Props.C02a
open GM GM.LineRec GM.Proof.LineRec

/-- `isThematicBreak_iff` (spec 4.1: "a line consisting of optionally up to three spaces of indentation,
    followed by a sequence of three or more matching `-`, `_`, or `*` characters, each followed optionally by
    any number of spaces or tabs"). For every line and start column: goldmark accepts iff the indentation
    is at most 3 columns and there is ONE marker `m ∈ {*, -, _}` such that every byte of the line is `m` or
    white space (`util.IsSpace`: space, tab, LF, CR) and `m` occurs at least three times. -/
theorem isThematicBreak_iff (line : Bytes) (off : Nat) :
    isThematicBreak line off = true ↔
      (indentWidth line off).1 ≤ 3 ∧
      ∃ m, isTBMark m ∧ (∀ c ∈ line, c = m ∨ isSpace c = true) ∧ 3 ≤ line.count m :=
  Proof.LineRec.isThematicBreak_iff line off

/-- `fence_close_iff` (spec 4.5: "the closing code fence must use the same character as the opening fence, and
    have at least as many backticks or tildes as the opening fence … may be preceded by up to three spaces of
    indentation, and may be followed only by spaces or tabs"). For an open fence of `len ≥ 1` characters `ch`
    (not a white-space byte): the line closes it iff its indentation is ≤ 3 columns and, after the indentation,
    it is `n ≥ len` copies of `ch` followed only by white space. -/
theorem fence_close_iff (line : Bytes) (off : Nat) (ch : UInt8) (len : Nat) (hch : isSpace ch = false) (hlen : 1 ≤ len) :
    fenceClose line off ch len = .ok true ↔
      (indentWidth line off).1 ≤ 3 ∧
      ∃ n ws, len ≤ n ∧ ws.all isSpace = true ∧ line.dropWhile isIndent = List.replicate n ch ++ ws :=
  fenceClose_iff line off ch len hch hlen

/-- the closing-fence test never panics for an opening length ≥ 1 (goldmark only records lengths ≥ 3) -/
theorem fence_close_noPanic (line : Bytes) (off : Nat) (ch : UInt8) (len : Nat) (hlen : 1 ≤ len) :
    ∃ b, fenceClose line off ch len = .ok b :=
  fenceClose_noPanic line off ch len hlen

/-- `atx_open_iff` (spec 4.2: "an opening sequence of 1–6 unescaped `#` characters … The opening sequence of `#`
    characters must be followed by spaces or tabs, or by the end of line"). With `pos` the block offset (first
    non-space byte; ≤ 3 columns by the openBlocks gate): goldmark opens a heading of level `n` iff
    `1 ≤ n ≤ 6` and the line from `pos` on is exactly `n` `#`s followed by nothing or by a white-space byte
    (`util.IsSpace`, which includes the line's own LF). -/
theorem atx_open_iff (line : Bytes) (pos n : Nat) :
    (∃ c, atxOpen line pos = .ok (some { level := n, content := c })) ↔
      1 ≤ n ∧ n ≤ 6 ∧ ∃ rest, line.drop pos = List.replicate n 35 ++ rest ∧
        (rest = [] ∨ ∃ d t, rest = d :: t ∧ isSpace d = true) :=
  atxOpen_iff line pos n

/-- ATX Open never panics: the backwards scan for the closing sequence (`for ; line[i] == '#' && i >= start; i--`)
    cannot reach index −1 because `start ≥ 1`. -/
theorem atx_open_noPanic (line : Bytes) (pos : Nat) : ∃ r, atxOpen line pos = .ok r :=
  atxOpen_noPanic line pos

/-- `calcListOffset`, no content after the marker (end of line: `match[4] = −1`): the content offset is 1,
    whatever the column `lo` at which the line view starts. -/
theorem calcListOffset_noContent (source : Bytes) (lo : Nat) : calcListOffset source (-1) lo = .ok 1 :=
  Proof.LineRec.calcListOffset_noContent source lo

/-- `calcListOffset`, only white space after the marker (the item starts with a blank line): 1, for every column. -/
theorem calcListOffset_blank (source : Bytes) (k lo : Nat) (hk : k ≤ source.length) (hb : isBlank (source.drop k) = true) :
    calcListOffset source k lo = .ok 1 :=
  Proof.LineRec.calcListOffset_blank source k lo hk hb

/-- `calcListOffset` (spec 5.2 rules 1 and 2): `n` spaces after the marker followed by a non-space byte give a
    content offset of `n` when `1 ≤ n ≤ 4` and of 1 when `n ≥ 5` (the rest is then an indented code block).
    With spaces the result does not depend on the column `lo` at which the line view starts. -/
theorem calcListOffset_spaces (source : Bytes) (k lo n : Nat) (c : UInt8) (t : Bytes) (hc : isSpace c = false)
    (hs : source.drop k = List.replicate n 32 ++ c :: t) :
    calcListOffset source k lo = .ok (if n > 4 then 1 else n) :=
  Proof.LineRec.calcListOffset_spaces source k lo n c t hc hs

/-- `calcListOffset_tab` (since /repo 3fb40b2). One tab after the marker, then content: the content offset is the
    width of that tab measured from the column where the marker ends IN THE LINE — `lo` (column at which the line
    view starts) plus `k` (bytes of indentation and marker, which are tab-free) — i.e. `4 − (lo + k) mod 4`, always
    between 1 and 4, so the "more than 4 → 1" cap never applies. E.g. `-⇥foo` at the start of a line: 3; the same
    item after a `> ` quote marker (`lo = 2`): 1. -/
theorem calcListOffset_tab (source : Bytes) (k lo : Nat) (c : UInt8) (t : Bytes) (hc : isSpace c = false)
    (hs : source.drop k = 9 :: c :: t) :
    calcListOffset source k lo = .ok (4 - (lo + k) % 4) :=
  Proof.LineRec.calcListOffset_tab source k lo c t hc hs

/-- `IndentPosition(line, col, width)` fails (−1) exactly when the line is indented by fewer than `width`
    columns — for every mix of tabs and spaces and every start column. -/
theorem indentPosition_fails_iff (bs : Bytes) (c width : Nat) :
    (indentPosition bs c width).1 < 0 ↔ (indentWidth bs c).1 < width :=
  Proof.LineRec.indentPosition_fails_iff bs c width

/-- `tabs_eq_spaces_partial`. Two white-space prefixes `p`, `q` (any mix of spaces and tabs) that reach the same
    column from start column `c`, in front of the same rest `r`: `IndentWidth` reports the same width (and the
    byte positions `|p|`, `|q|`), and for every width `IndentPosition` succeeds on one iff it succeeds on the
    other. (The padding half is `tabs_eq_spaces` below.) -/
theorem tabs_eq_spaces_partial (c : Nat) (p q r : Bytes) (hp : p.all isIndent = true) (hq : q.all isIndent = true)
    (hr : ∀ b ∈ r.head?, isIndent b = false) (hw : (indentWidth p c).1 = (indentWidth q c).1) :
    indentWidth (p ++ r) c = ((indentWidth p c).1, p.length) ∧
    indentWidth (q ++ r) c = ((indentWidth p c).1, q.length) ∧
    ∀ width, ((indentPosition (p ++ r) c width).1 < 0 ↔ (indentPosition (q ++ r) c width).1 < 0) :=
  tabs_eq_spaces c p q r hp hq hr hw


/-- `setextBar_iff` (spec 4.3: "a setext heading underline is a sequence of `=` characters or a sequence of `-`
    characters, with no more than 3 spaces of indentation and any number of trailing spaces or tabs"). For every
    line: `matchesSetextHeadingBar` answers `c` iff the line is `k ≤ 3` spaces, then `n ≥ 1` copies of `c ∈ {=, -}`,
    then only white space (`util.IsSpace`). (A TAB in the indentation is not accepted: only spaces are trimmed.) -/
theorem setextBar_iff (line : Bytes) (c : UInt8) :
    setextBar line = .ok (some c) ↔
      ∃ k n ws, k ≤ 3 ∧ 1 ≤ n ∧ (c = 61 ∨ c = 45) ∧ ws.all isSpace = true ∧
        line = List.replicate k 32 ++ (List.replicate n c ++ ws) :=
  Proof.LineRec.setextBar_iff line c

/-- `parseListItem_iff`, bullet half (spec 5.2: "a bullet list marker is a `-`, `+`, or `*` character"; the marker
    is followed by at least one space or tab, or by the end of the line; at most 3 spaces of indentation).
    Soundness and completeness: the type is `bullet` iff the line has exactly that shape. `restOK rest` = `rest` is
    empty or starts with LF, space or tab. -/
theorem parseListItem_bullet_iff (line : Bytes) :
    (parseListItem line).2 = .bullet ↔
      ∃ k c rest, k ≤ 3 ∧ isBullet c = true ∧ line = List.replicate k 32 ++ c :: rest ∧ restOK rest = true :=
  Proof.LineRec.parseListItem_bullet_iff line

/-- `parseListItem_iff`, ordered half (spec 5.2: "an ordered list marker is a sequence of 1–9 arabic digits,
    followed by either a `.` character or a `)` character"). The type is `ordered` iff the line is `k ≤ 3` spaces,
    1 to 9 digits, `.` or `)`, and then nothing / LF / space / tab. Ten digits are never a list item. -/
theorem parseListItem_ordered_iff (line : Bytes) :
    (parseListItem line).2 = .ordered ↔
      ∃ k ds d rest, k ≤ 3 ∧ 1 ≤ ds.length ∧ ds.length ≤ 9 ∧ ds.all isNumeric = true ∧ (d = 46 ∨ d = 41) ∧
        line = List.replicate k 32 ++ (ds ++ d :: rest) ∧ restOK rest = true :=
  Proof.LineRec.parseListItem_ordered_iff line

/-- the match array of an accepted bullet item: indentation `[0, k)`, marker `[k, k+1)`, rest from `k+1`
    (`-1` when the line ends after the marker) -/
theorem parseListItem_bullet_match (k : Nat) (c : UInt8) (rest : Bytes) (hk : k ≤ 3) (hb : isBullet c = true)
    (hr : restOK rest = true) :
    let m := (parseListItem (List.replicate k 32 ++ c :: rest)).1
    m.r0 = 0 ∧ m.r1 = k ∧ m.r2 = k ∧ m.r3 = (k + 1 : Nat) ∧ m.r4 = (if rest = [] then -1 else ((k + 1 : Nat) : Int)) :=
  Proof.LineRec.parseListItem_bullet_match k c rest hk hb hr

/-- the match array of an accepted ordered item: marker = digits and delimiter `[k, k + |ds| + 1)` -/
theorem parseListItem_ordered_match (k : Nat) (ds : Bytes) (d : UInt8) (rest : Bytes) (hk : k ≤ 3)
    (h1 : 1 ≤ ds.length) (h9 : ds.length ≤ 9) (hds : ds.all isNumeric = true) (hd : d = 46 ∨ d = 41)
    (hr : restOK rest = true) :
    let m := (parseListItem (List.replicate k 32 ++ (ds ++ d :: rest))).1
    m.r0 = 0 ∧ m.r1 = k ∧ m.r2 = k ∧ m.r3 = (k + ds.length + 1 : Nat) ∧
      m.r4 = (if rest = [] then -1 else ((k + ds.length + 1 : Nat) : Int)) :=
  Proof.LineRec.parseListItem_ordered_match k ds d rest hk h1 h9 hds hd hr

/-- `fence_open_iff` (spec 4.5: "a code fence is a sequence of at least three consecutive backtick characters or
    tildes … The line with the opening code fence may optionally contain some text following the code fence … If
    the info string comes after a backtick fence, it may not contain any backtick characters"). With `pos` the
    block offset (≤ 3 columns by the openBlocks gate): a fence `(c, n)` is opened iff `c` is a backtick or a
    tilde, the line from `pos` on is a maximal run of `n ≥ 3` copies of `c`, and — for backticks — no backtick
    occurs in the rest of the line. -/
theorem fence_open_iff (line : Bytes) (pos : Nat) (c : UInt8) (n : Nat) :
    (∃ info, fenceOpen line pos = .ok (some { char := c, indent := pos, length := n, info := info })) ↔
      (c = 96 ∨ c = 126) ∧ 3 ≤ n ∧
      ∃ rest, line.drop pos = List.replicate n c ++ rest ∧ rest.head? ≠ some c ∧ (c = 96 → (96 : UInt8) ∉ rest) :=
  fenceOpen_iff line pos c n

/-- `atx_content_range` (spec 4.2: "The raw contents of the heading are stripped of leading and trailing space or
    tabs … The optional closing sequence of `#`s must be preceded by spaces or tabs and may be followed by spaces
    or tabs only"). For EVERY indentation `pre` (the bytes before the block offset), level `n`, non-empty white
    space `s1` after the opening sequence, text `text ++ [d]` starting with a non-space, `h` hashes after `d`, and
    trailing white space `trail` (which contains the line's LF):
    * `d` not a space (and not `#`): the hashes are glued to the text, nothing is stripped — the heading's segment
      is exactly `text ++ [d] ++ #^h`;
    * `d` a space (then `h ≥ 1`): `#^h` is the closing sequence and is stripped — the segment is `text ++ [d]`
      (the spaces in front of the closing sequence stay in the segment; the inline phase trims them).
    In both cases it starts right after `s1`. -/
theorem atx_content_range (pre s1 text trail : Bytes) (d : UInt8) (n h : Nat)
    (hn1 : 1 ≤ n) (hn6 : n ≤ 6) (hs1 : s1 ≠ []) (hs1s : s1.all isSpace = true)
    (hhead : ∀ x ∈ (text ++ [d]).head?, isSpace x = false)
    (hd35 : d ≠ 35) (hdh : isSpace d = true → 1 ≤ h) (htrail : trail.all isSpace = true) :
    atxOpen (pre ++ (List.replicate n 35 ++ (s1 ++ (text ++ d :: (List.replicate h 35 ++ trail))))) pre.length =
      .ok (some { level := n,
                  content := some (pre.length + n + s1.length,
                    pre.length + n + s1.length + text.length + 1 + (if isSpace d = true then 0 else h)) }) :=
  Proof.LineRec.atx_content_range pre s1 text trail d n h hn1 hn6 hs1 hs1s hhead hd35 hdh htrail

/-- `indentPosition_column`. When the line is indented by at least `width > 0` columns, `IndentPosition` returns
    `(pos, padding)` such that the first `pos` bytes are spaces/tabs whose width from column `c` is exactly
    `width + padding`, with `padding ≤ 3`: position minus padding is exactly column `c + width`. -/
theorem indentPosition_column (bs : Bytes) (c width : Nat) (hw : 0 < width) (hok : width ≤ (indentWidth bs c).1) :
    ∃ m pad : Nat, indentPosition bs c width = ((m : Int), (pad : Int)) ∧ m ≤ bs.length ∧
      (bs.take m).all isIndent = true ∧ (indentWidth (bs.take m) c).1 = width + pad ∧ pad ≤ 3 :=
  Proof.LineRec.indentPosition_column bs c width hw hok

/-- `tabs_eq_spaces` (padding half). For two white-space prefixes reaching the same column in front of the same
    rest, and every width they cover: both `IndentPosition` calls succeed, and in both results the consumed
    prefix minus the padding is exactly `width` columns — the two spellings leave the children at the same column. -/
theorem tabs_eq_spaces (c : Nat) (p q r : Bytes) (hp : p.all isIndent = true) (hq : q.all isIndent = true)
    (hr : ∀ b ∈ r.head?, isIndent b = false) (hw : (indentWidth p c).1 = (indentWidth q c).1)
    (width : Nat) (hpos : 0 < width) (hle : width ≤ (indentWidth p c).1) :
    ∃ m₁ pad₁ m₂ pad₂ : Nat,
      indentPosition (p ++ r) c width = ((m₁ : Int), (pad₁ : Int)) ∧
      indentPosition (q ++ r) c width = ((m₂ : Int), (pad₂ : Int)) ∧
      (indentWidth ((p ++ r).take m₁) c).1 = width + pad₁ ∧ (indentWidth ((q ++ r).take m₂) c).1 = width + pad₂ ∧
      pad₁ ≤ 3 ∧ pad₂ ≤ 3 :=
  tabs_eq_spaces_padding c p q r hp hq hr hw width hpos hle

/-! ### non-vacuity and tests (byte literals: 32 ' ', 9 TAB, 10 LF, 35 '#', 42 '*', 45 '-', 96 '`', 97 'a') -/

example : isThematicBreak [32, 42, 32, 42, 9, 42, 10] 0 = true := by decide
example : isThematicBreak [45, 45, 10] 0 = false := by decide            -- two markers are not enough
example : isThematicBreak [45, 45, 42, 10] 0 = false := by decide        -- markers must match
example : fenceClose [32, 32, 96, 96, 96, 96, 32, 10] 0 96 3 = .ok true := by decide
example : fenceClose [96, 96, 10] 0 96 3 = .ok false := by decide         -- shorter than the opening fence
example : fenceClose [96, 96, 96, 97, 10] 0 96 3 = .ok false := by decide -- something after the fence
example : atxOpen [35, 35, 32, 97, 32, 35, 35, 10] 0 = .ok (some { level := 2, content := some (3, 5) }) := by decide  -- "a " : the space before the closing sequence stays, the inline phase trims it
example : atxOpen [35, 97, 10] 0 = .ok none := by decide                  -- `#a` is not a heading
example : atxOpen [35, 35, 35, 35, 35, 35, 35, 32, 97] 0 = .ok none := by decide   -- seven `#`
example : calcListOffset [45, 32, 32, 32, 32, 97] 1 0 = .ok 4 ∧ calcListOffset [45, 32, 32, 32, 32, 97] 1 3 = .ok 4 := by decide
example : calcListOffset [45, 32, 32, 32, 32, 32, 97] 1 0 = .ok 1 := by decide
-- `-⇥a`: the tab is 3 columns wide at the start of a line, 1 column wide after a `> ` marker (column 2)
example : calcListOffset [45, 9, 97] 1 0 = .ok 3 ∧ calcListOffset [45, 9, 97] 1 2 = .ok 1 := by decide
-- tab = spaces: `"\t"` and `"    "` reach column 4 from column 0; `" \t"` and `"  "` reach column 4 from column 2
example : (indentWidth [9] 0).1 = (indentWidth [32, 32, 32, 32] 0).1 := by decide
example : (indentWidth [32, 9] 2).1 = (indentWidth [32, 32] 2).1 := by decide
example : [(9 : UInt8)].all isIndent = true ∧ (∀ b ∈ [(97 : UInt8)].head?, isIndent b = false) := by decide
-- setext / list marker / fence open / ATX content: instances of the characterisations above, evaluated
example : setextBar [32, 61, 61, 32, 10] = .ok (some 61) := by decide
example : (parseListItem [49, 50, 51, 52, 53, 54, 55, 56, 57, 48, 46, 32, 97]).2 = .notList := by decide  -- ten digits
example : (parseListItem [49, 50, 51, 52, 53, 54, 55, 56, 57, 46, 32, 97]).2 = .ordered := by decide       -- nine digits
example : listOpen [50, 46, 32, 97, 10] true = none ∧ (listOpen [49, 46, 32, 97, 10] true).isSome = true := by decide
example : fenceOpen [96, 96, 96, 32, 97, 96, 10] 0 = .ok none := by decide   -- backtick in a backtick info string

-- atx_content_range instances: "  ## a b ##  \n" (closing sequence stripped), "# a#\n" (glued hashes kept)
example : atxOpen [32, 32, 35, 35, 32, 97, 32, 98, 32, 35, 35, 32, 32, 10] 2 =
    .ok (some { level := 2, content := some (5, 9) }) := by decide
example : atxOpen [35, 32, 97, 35, 10] 0 = .ok (some { level := 1, content := some (2, 4) }) := by decide
-- hypotheses of atx_content_range are satisfiable (pre = "  ", s1 = " ", text = "a ", d = 'b' / d = ' ')
example : ([32] : Bytes).all isSpace = true ∧ (∀ x ∈ ([97, 32] ++ [(98 : UInt8)]).head?, isSpace x = false) ∧
    (98 : UInt8) ≠ 35 ∧ (isSpace 98 = true → 1 ≤ 0) := by decide
example : restOK [] = true ∧ restOK [10] = true ∧ restOK [97] = false ∧ isBullet 43 = true := by decide
example : (parseListItem [32, 45, 9, 97]).2 = .bullet ∧ (parseListItem [45, 97]).2 = .notList := by decide
-- tabs_eq_spaces: IndentPosition("\t\tx", col 0, width 6) stops inside the 2nd tab with padding 2;
-- the spelling with 8 spaces stops after 6 spaces with padding 0: both at column 6
example : indentPosition [9, 9, 120] 0 6 = (2, 2) ∧ indentPosition [32, 32, 32, 32, 32, 32, 32, 32, 120] 0 6 = (6, 0) := by decide

end GM.Props.C02a
