/-
  Property C02 (part a) — the line recognisers agree with the CommonMark wording.

  Characterisation theorems, for EVERY line (induction / case analysis, no samples), over GM.Model.LineRec —
  the Lean model of goldmark's line recognisers, tied to the Go functions by the exhaustive function-level
  correspondence of harness component `linerec` (which also compares each real function with a Go regexp
  transcription of the specification's sentence).  Helper lemmas: GM/Proof/LineRec.lean.

  Proved here: thematic break, closing code fence, ATX opening sequence (+ no panic), the list-content
  offset rule (`calcListOffset`), tabs-vs-spaces (`tabs_eq_spaces`).
  NOT proved in Lean (covered by the exhaustive correspondence and the regexp oracles only): `setextBar_iff`,
  `parseListItem_iff`, `fence_open_iff`, the ATX content range, and the padding half of `tabs_eq_spaces`
  (that position − padding denotes the same column for both spellings).
-/
import GM.Model.LineRec
import GM.Proof.LineRec

namespace GM.Props.C02a
open GM GM.LineRec GM.Proof.LineRec

/-- `isThematicBreak_iff` (spec 4.1: "a line consisting of optionally up to three spaces of indentation,
    followed by a sequence of three or more matching `-`, `_`, or `*` characters, each followed optionally by
    any number of spaces or tabs"). For every line and start column: goldmark accepts iff the indentation
    is at most 3 columns and there is ONE marker `m ∈ {*, -, _}` such that every byte of the line is `m` or
    white space (`util.IsSpace`: space, tab, LF, CR) and `m` occurs at least three times. -/
theorem isThematicBreak_iff (line : Bytes) (off : Nat) :
    isThematicBreak line off = true ↔
      (indentWidth line off).1 ≤ 3 ∧
      ∃ m, isTBMark m ∧ (∀ c ∈ line, c = m ∨ isSpace c = true) ∧ 3 ≤ line.count m :=
  Proof.LineRec.isThematicBreak_iff line off

/-- `fence_close_iff` (spec 4.5: "the closing code fence must use the same character as the opening fence, and
    have at least as many backticks or tildes as the opening fence … may be preceded by up to three spaces of
    indentation, and may be followed only by spaces or tabs"). For an open fence of `len ≥ 1` characters `ch`
    (not a white-space byte): the line closes it iff its indentation is ≤ 3 columns and, after the indentation,
    it is `n ≥ len` copies of `ch` followed only by white space. -/
theorem fence_close_iff (line : Bytes) (off : Nat) (ch : UInt8) (len : Nat) (hch : isSpace ch = false) (hlen : 1 ≤ len) :
    fenceClose line off ch len = .ok true ↔
      (indentWidth line off).1 ≤ 3 ∧
      ∃ n ws, len ≤ n ∧ ws.all isSpace = true ∧ line.dropWhile isIndent = List.replicate n ch ++ ws :=
  fenceClose_iff line off ch len hch hlen

/-- the closing-fence test never panics for an opening length ≥ 1 (goldmark only records lengths ≥ 3) -/
theorem fence_close_noPanic (line : Bytes) (off : Nat) (ch : UInt8) (len : Nat) (hlen : 1 ≤ len) :
    ∃ b, fenceClose line off ch len = .ok b :=
  fenceClose_noPanic line off ch len hlen

/-- `atx_open_iff` (spec 4.2: "an opening sequence of 1–6 unescaped `#` characters … The opening sequence of `#`
    characters must be followed by spaces or tabs, or by the end of line"). With `pos` the block offset (first
    non-space byte; ≤ 3 columns by the openBlocks gate): goldmark opens a heading of level `n` iff
    `1 ≤ n ≤ 6` and the line from `pos` on is exactly `n` `#`s followed by nothing or by a white-space byte
    (`util.IsSpace`, which includes the line's own LF). -/
theorem atx_open_iff (line : Bytes) (pos n : Nat) :
    (∃ c, atxOpen line pos = .ok (some { level := n, content := c })) ↔
      1 ≤ n ∧ n ≤ 6 ∧ ∃ rest, line.drop pos = List.replicate n 35 ++ rest ∧
        (rest = [] ∨ ∃ d t, rest = d :: t ∧ isSpace d = true) :=
  atxOpen_iff line pos n

/-- ATX Open never panics: the backwards scan for the closing sequence (`for ; line[i] == '#' && i >= start; i--`)
    cannot reach index −1 because `start ≥ 1`. -/
theorem atx_open_noPanic (line : Bytes) (pos : Nat) : ∃ r, atxOpen line pos = .ok r :=
  atxOpen_noPanic line pos

/-- `calcListOffset`, no content after the marker (end of line: `match[4] = −1`): the content offset is 1. -/
theorem calcListOffset_noContent (source : Bytes) : calcListOffset source (-1) = .ok 1 :=
  Proof.LineRec.calcListOffset_noContent source

/-- `calcListOffset`, only white space after the marker (the item starts with a blank line): 1. -/
theorem calcListOffset_blank (source : Bytes) (k : Nat) (hk : k ≤ source.length) (hb : isBlank (source.drop k) = true) :
    calcListOffset source k = .ok 1 :=
  Proof.LineRec.calcListOffset_blank source k hk hb

/-- `calcListOffset` (spec 5.2 rules 1 and 2): `n` spaces after the marker followed by a non-space byte give a
    content offset of `n` when `1 ≤ n ≤ 4` and of 1 when `n ≥ 5` (the rest is then an indented code block). -/
theorem calcListOffset_spaces (source : Bytes) (k n : Nat) (c : UInt8) (t : Bytes) (hc : isSpace c = false)
    (hs : source.drop k = List.replicate n 32 ++ c :: t) :
    calcListOffset source k = .ok (if n > 4 then 1 else n) :=
  Proof.LineRec.calcListOffset_spaces source k n c t hc hs

/-- `IndentPosition(line, col, width)` fails (−1) exactly when the line is indented by fewer than `width`
    columns — for every mix of tabs and spaces and every start column. -/
theorem indentPosition_fails_iff (bs : Bytes) (c width : Nat) :
    (indentPosition bs c width).1 < 0 ↔ (indentWidth bs c).1 < width :=
  Proof.LineRec.indentPosition_fails_iff bs c width

/-- `tabs_eq_spaces_partial`. Two white-space prefixes `p`, `q` (any mix of spaces and tabs) that reach the same
    column from start column `c`, in front of the same rest `r`: `IndentWidth` reports the same width (and the
    byte positions `|p|`, `|q|`), and for every width `IndentPosition` succeeds on one iff it succeeds on the
    other. (Not proved: that on success position − padding denotes the same column.) -/
theorem tabs_eq_spaces_partial (c : Nat) (p q r : Bytes) (hp : p.all isIndent = true) (hq : q.all isIndent = true)
    (hr : ∀ b ∈ r.head?, isIndent b = false) (hw : (indentWidth p c).1 = (indentWidth q c).1) :
    indentWidth (p ++ r) c = ((indentWidth p c).1, p.length) ∧
    indentWidth (q ++ r) c = ((indentWidth p c).1, q.length) ∧
    ∀ width, ((indentPosition (p ++ r) c width).1 < 0 ↔ (indentPosition (q ++ r) c width).1 < 0) :=
  tabs_eq_spaces c p q r hp hq hr hw

/-! ### non-vacuity and tests (byte literals: 32 ' ', 9 TAB, 10 LF, 35 '#', 42 '*', 45 '-', 96 '`', 97 'a') -/

example : isThematicBreak [32, 42, 32, 42, 9, 42, 10] 0 = true := by decide
example : isThematicBreak [45, 45, 10] 0 = false := by decide            -- two markers are not enough
example : isThematicBreak [45, 45, 42, 10] 0 = false := by decide        -- markers must match
example : fenceClose [32, 32, 96, 96, 96, 96, 32, 10] 0 96 3 = .ok true := by decide
example : fenceClose [96, 96, 10] 0 96 3 = .ok false := by decide         -- shorter than the opening fence
example : fenceClose [96, 96, 96, 97, 10] 0 96 3 = .ok false := by decide -- something after the fence
example : atxOpen [35, 35, 32, 97, 32, 35, 35, 10] 0 = .ok (some { level := 2, content := some (3, 5) }) := by decide  -- "a " : the space before the closing sequence stays, the inline phase trims it
example : atxOpen [35, 97, 10] 0 = .ok none := by decide                  -- `#a` is not a heading
example : atxOpen [35, 35, 35, 35, 35, 35, 35, 32, 97] 0 = .ok none := by decide   -- seven `#`
example : calcListOffset [45, 32, 32, 32, 32, 97] 1 = .ok 4 := by decide
example : calcListOffset [45, 32, 32, 32, 32, 32, 97] 1 = .ok 1 := by decide
-- tab = spaces: `"\t"` and `"    "` reach column 4 from column 0; `" \t"` and `"  "` reach column 4 from column 2
example : (indentWidth [9] 0).1 = (indentWidth [32, 32, 32, 32] 0).1 := by decide
example : (indentWidth [32, 9] 2).1 = (indentWidth [32, 32] 2).1 := by decide
example : [(9 : UInt8)].all isIndent = true ∧ (∀ b ∈ [(97 : UInt8)].head?, isIndent b = false) := by decide
-- setext / list marker / fence open: evaluated, not characterised in Lean (see the header)
example : setextBar [32, 61, 61, 32, 10] = .ok (some 61) := by decide
example : (parseListItem [49, 50, 51, 52, 53, 54, 55, 56, 57, 48, 46, 32, 97]).2 = .notList := by decide  -- ten digits
example : (parseListItem [49, 50, 51, 52, 53, 54, 55, 56, 57, 46, 32, 97]).2 = .ordered := by decide       -- nine digits
example : listOpen [50, 46, 32, 97, 10] true = none ∧ (listOpen [49, 46, 32, 97, 10] true).isSome = true := by decide
example : fenceOpen [96, 96, 96, 32, 97, 96, 10] 0 = .ok none := by decide   -- backtick in a backtick info string

end GM.Props.C02a
