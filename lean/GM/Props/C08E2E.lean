/-
  GM.Props.C08E2E — property C08 AT HTML LEVEL on the composed model of `goldmark.Convert` (`GM.Convert.convertCore`: block phase with
  the link-reference transformer, inline phase, renderer):

      convertCore uc o (quotePrefix D) = "<blockquote>\n" ++ convertCore uc o D ++ "</blockquote>\n"

  for every option set, every source `D` of the class of package quotesim2 (`C08ClassG`: lists and blank lines; also `C08ClassF`,
  `C08ClassW`) without the byte `[`. `quotePrefix D` puts `> ` in front of every line of `D`.

  What is proved without hypothesis about the model (GM.Proof.E2EQuote): the block phase of both sources is the plain driver
  (`block_phase_bracket_free_eq`); the two block stores are related node by node (quotesim2's `StoreRel`); the renderer's view of every
  block node is the same — kinds, heading levels, list data, the VALUES of the lines / info strings / closures of code blocks and
  HTML blocks; the run-time check of the inline phase (`WF0`) passes on the moved lines; the renderer writes
  `<blockquote>⏎ … </blockquote>⏎` around the children.
  What is a NAMED HYPOTHESIS: `InlineQuoteStep D L L'` — the inline phase of ONE block answers the same renderer trees on the lines
  moved by the markers. It is needed only for blocks with inline content (Paragraph, Heading, TextBlock with lines), and it is PROVED
  for blocks of "good lines" (package cmfrag's `GoodLine`: plain text) — `convert_quote_prefix_good_lines` has no such hypothesis;
  neither has `convert_quote_prefix_raw_leaves` (documents whose leaves are code blocks, HTML blocks, thematic breaks).
  The theorems are stated for a source that converts (`convertCore uc o D = .ok html`); that EVERY source converts is
  `GM.Props.ConvertE2ENP.convert_total`, which cannot be imported here (name clash `GM.Blocks.NS` between GM.Proof.BlocksShapeJ and
  GM.Proof.QuoteSimDriver).
-/
import GM.Proof.E2EQuoteCheck
-- NOT imported: GM.Props.C08 (so that GM.Props.C08 can import this module and re-export)

namespace GM.Props.C08E2E
open GM GM.Text GM.Convert GM.Spec GM.E2E GM.Blocks GM.E2E.Quote

/-- **the renderer on Document[Blockquote[xs]]** (html.go:renderBlockquote): `<blockquote>⏎`, the children, `</blockquote>⏎` — for
    every renderer configuration and every list of children -/
theorem renderer_wraps_blockquote (rc : RCfg) (xs : List GM.Node) :
    render rc (.mk .document none [.mk .blockquote none xs]) =
      strBytes "<blockquote>\n" ++ render rc (.mk .document none xs) ++ strBytes "</blockquote>\n" :=
  render_quote rc xs

/-- **C08 at the level of the renderer's tree, from the store relation**: `parseDoc` of the block-quoted source is
    Document[Blockquote[children of `parseDoc D`]] -/
theorem parse_quote_prefix_of_store_relation : type_of% @parseDoc_quote_prefix_of_rel := @parseDoc_quote_prefix_of_rel

/-- **C08 at HTML level, from the store relation** (any class of sources for which the block-level simulation is proved) -/
theorem convert_quote_prefix_of_store_relation : type_of% @convert_quote_prefix_of_rel := @convert_quote_prefix_of_rel

/-- **`convert_quote_prefix` — C08 at HTML level, documents with lists and blank lines**: for every option set, every source of
    `C08ClassG` (no tab, no CR, not empty, last byte not a space, no setext underline pattern) without `[`, given the inline
    invariant for this source -/
theorem convert_quote_prefix (uc : List (Nat × (Bool × Bool))) (o : ROpts) (D : Bytes) (hc : C08ClassG D) (hb : NoBracket D)
    (KEY : InlineQuoteInvariantAt D) (html : Bytes) (h : convertCore uc o D = .ok html) :
    convertCore uc o (quotePrefix D) = .ok (strBytes "<blockquote>\n" ++ html ++ strBytes "</blockquote>\n") := by
  obtain ⟨sA, hA⟩ := GM.Props.Blocks.no_panic D
  obtain ⟨sB, hB, hrel, _⟩ := run_sim_listsG hc hA
  exact convert_quote_prefix_of_rel uc o D hb sA sB hA hB hrel (fun i _ _ => KEY _ _ (hrel.node i).lines) html h

/-- the same for `C08ClassF` (lists, no blank line) -/
theorem convert_quote_prefix_lists (uc : List (Nat × (Bool × Bool))) (o : ROpts) (D : Bytes) (hc : C08ClassF D) (hb : NoBracket D)
    (KEY : InlineQuoteInvariantAt D) (html : Bytes) (h : convertCore uc o D = .ok html) :
    convertCore uc o (quotePrefix D) = .ok (strBytes "<blockquote>\n" ++ html ++ strBytes "</blockquote>\n") := by
  obtain ⟨sA, hA⟩ := GM.Props.Blocks.no_panic D
  obtain ⟨sB, hB, hrel, _⟩ := run_sim_lists hc hA
  exact convert_quote_prefix_of_rel uc o D hb sA sB hA hB hrel (fun i _ _ => KEY _ _ (hrel.node i).lines) html h

/-- the same for `C08ClassW` (no final line feed needed, none of `- * + 0-9`) -/
theorem convert_quote_prefix_no_final_newline (uc : List (Nat × (Bool × Bool))) (o : ROpts) (D : Bytes) (hc : C08ClassW D)
    (hb : NoBracket D) (KEY : InlineQuoteInvariantAt D) (html : Bytes) (h : convertCore uc o D = .ok html) :
    convertCore uc o (quotePrefix D) = .ok (strBytes "<blockquote>\n" ++ html ++ strBytes "</blockquote>\n") := by
  obtain ⟨sA, hA⟩ := GM.Props.Blocks.no_panic D
  obtain ⟨sB, hB, hrel, _⟩ := run_sim hc.wider hA
  exact convert_quote_prefix_of_rel uc o D hb sA sB hA hB hrel (fun i _ _ => KEY _ _ (hrel.node i).lines) html h

/-- **without the inline hypothesis: documents whose leaves are raw blocks** — every block with lines is a CodeBlock, a
    FencedCodeBlock or an HTMLBlock (in any nesting of lists and quotes of the class) -/
theorem convert_quote_prefix_raw_leaves (uc : List (Nat × (Bool × Bool))) (o : ROpts) (D : Bytes) (hc : C08ClassG D)
    (hb : NoBracket D)
    (hraw : ∀ sA, GM.Blocks.run D = .ok sA → ∀ i, isRawKind (sA.nodes.getD i default).kind = false →
      (sA.nodes.getD i default).lines = [])
    (html : Bytes) (h : convertCore uc o D = .ok html) :
    convertCore uc o (quotePrefix D) = .ok (strBytes "<blockquote>\n" ++ html ++ strBytes "</blockquote>\n") := by
  obtain ⟨sA, hA⟩ := GM.Props.Blocks.no_panic D
  obtain ⟨sB, hB, hrel, _⟩ := run_sim_listsG hc hA
  exact convert_quote_prefix_of_rel uc o D hb sA sB hA hB hrel (fun i h1 h2 => absurd (hraw sA hA i h1) h2) html h

/-- **the inline hypothesis holds for blocks of plain-text lines** (cmfrag's `GoodLine`), wherever the lines lie -/
theorem inline_invariant_good_lines : type_of% @inlineQuoteStep_good := @inlineQuoteStep_good

/-- **without the inline hypothesis: any block structure of the class, plain-text inline content** — every Paragraph / Heading /
    TextBlock of the block tree of `D` consists of good lines (`GoodBlocks`) -/
theorem convert_quote_prefix_good_lines (uc : List (Nat × (Bool × Bool))) (o : ROpts) (D : Bytes) (hc : C08ClassG D)
    (hb : NoBracket D) (hg : ∀ sA, GM.Blocks.run D = .ok sA → GoodBlocks D sA)
    (html : Bytes) (h : convertCore uc o D = .ok html) :
    convertCore uc o (quotePrefix D) = .ok (strBytes "<blockquote>\n" ++ html ++ strBytes "</blockquote>\n") := by
  obtain ⟨sA, hA⟩ := GM.Props.Blocks.no_panic D
  obtain ⟨sB, hB, hrel, _⟩ := run_sim_listsG hc hA
  exact convert_quote_prefix_of_rel uc o D hb sA sB hA hB hrel (key_of_goodBlocks hrel (hg sA hA)) html h

/-- the executable form of the hypothesis `GoodBlocks`: run the block phase of `D`, test every block with inline content -/
def goodLinesCheck (D : Bytes) : Bool :=
  match GM.Blocks.run D with
  | .ok s => goodBlocksB D s
  | .error _ => false

/-- **… with decidable hypotheses**: `C08ClassG D`, `NoBracket D` and `goodLinesCheck D` are decidable -/
theorem convert_quote_prefix_checked (uc : List (Nat × (Bool × Bool))) (o : ROpts) (D : Bytes) (hc : C08ClassG D)
    (hb : NoBracket D) (hg : goodLinesCheck D = true) (html : Bytes) (h : convertCore uc o D = .ok html) :
    convertCore uc o (quotePrefix D) = .ok (strBytes "<blockquote>\n" ++ html ++ strBytes "</blockquote>\n") :=
  convert_quote_prefix_good_lines uc o D hc hb (fun sA hA => by
    unfold goodLinesCheck at hg
    rw [hA] at hg
    exact goodBlocksB_sound hg) html h

/-- the three hypotheses hold for a document with a heading, a two-item list with a nested paragraph, a fenced code block, an HTML
    block and a paragraph of two lines -/
example : C08ClassG (strBytes "# h\n\n- a\n- b c\n\n  d\n\n```\nc\n```\n\n<div>\nq\n</div>\n\nx\ny z\n") := by decide +kernel
example : NoBracket (strBytes "# h\n\n- a\n- b c\n\n  d\n\n```\nc\n```\n\n<div>\nq\n</div>\n\nx\ny z\n") := by decide +kernel
example : goodLinesCheck (strBytes "# h\n\n- a\n- b c\n\n  d\n\n```\nc\n```\n\n<div>\nq\n</div>\n\nx\ny z\n") = true := by
  decide +kernel
/-- … and fail where they should: emphasis is not a good line -/
example : goodLinesCheck (strBytes "x\n*y* z\n") = false := by decide +kernel

/-! ### non-vacuity: the equation on literals, both sides evaluated by the kernel -/

/-- a heading, a list, a fenced code block, an HTML block (unsafe output off: the omission comment), a paragraph of two lines.
    (Sources with emphasis are evaluated by the interpreter only — `decide +kernel` does not reduce the delimiter pass; e.g.
    `x⏎*y* z⏎`, where `precendingCharacter` reads the byte in front of the continuation line, converts to
    `<blockquote>⏎<p>x⏎<em>y</em> z</p>⏎</blockquote>⏎` under the prefix.) -/
example : (convertCore [] {} (quotePrefix (strBytes "# h\n\n- a\n- b\n\n```\nc\n```\n\n<div>\nq\n</div>\n\nx\ny z\n"))).toOption =
    (convertCore [] {} (strBytes "# h\n\n- a\n- b\n\n```\nc\n```\n\n<div>\nq\n</div>\n\nx\ny z\n")).toOption.map
      (fun html => strBytes "<blockquote>\n" ++ html ++ strBytes "</blockquote>\n") := by decide +kernel

example : (convertCore [] {} (strBytes "# h\n\n- a\n- b\n\n```\nc\n```\n\n<div>\nq\n</div>\n\nx\ny z\n")).toOption.isSome = true := by
  decide +kernel

example : quotePrefix (strBytes "x\ny z\n") = strBytes "> x\n> y z\n" := by decide +kernel

example : (convertCore [] {} (strBytes "> x\n> y z\n")).toOption =
    some (strBytes "<blockquote>\n<p>x\ny z</p>\n</blockquote>\n") := by decide +kernel

end GM.Props.C08E2E
