/-
  Property C02, package `cmfrag` — the FIRST CONFORMANCE THEOREMS: for an explicit, infinite, decidable fragment of
  CommonMark documents (GM.Spec.CMFrag; stages 1–3: paragraphs of text lines with soft line breaks, separated / preceded /
  followed by any number of blank lines, every printable ASCII character in every spelling the specification
  licenses; stage 4: + ATX headings and thematic breaks; stage 5: + fenced code blocks; stage 6: + blocks directly
  behind each other where the specification allows it) the composed model of `goldmark.Convert` (GM.Convert.convertCore: block phase with the link-reference
  transformer, inline phase, renderer; tied to the real `Convert` byte for byte by component `convert`) produces
  exactly the HTML the specification prescribes, for ALL documents of the fragment.
  The renderer options are the ones component `cmspec` configures goldmark with: `html.WithUnsafe()`,
  `html.WithXHTML()` (`cmOpts`). Proofs: GM/Proof/CMFrag*.lean (symbolic execution of the block phase line by line,
  the inline phase on lines that never consult an inline parser, the renderer on Document[Paragraph[Text…]]).
-/
import GM.Proof.CMFragMain
import GM.Proof.CMFrag4Main
import GM.Proof.CMFrag5Main
import GM.Proof.CMFrag6Main

namespace GM.Props.C02Frag
open GM GM.Spec.CM GM.Spec.CMFrag GM.Proof.CMFrag

/-- **Conformance on the fragment (stages 1–3).** For EVERY document `d` of the fragment — any number of
    paragraphs, each a non-empty sequence of lines; a line is a non-empty run of printable ASCII characters in any
    licensed spelling (literal, backslash escape, decimal / hexadecimal character reference with leading zeros,
    named entity) that starts with a literal letter, ends with a literal letter or digit and has no literal `!`;
    `gap` extra blank lines in front of every paragraph, `trail` blank lines at the end — and for every assignment
    `uc` of Unicode classes (irrelevant here: the source is ASCII), the model of goldmark's `Convert` on the
    Markdown source `spellF d` returns, without error, exactly the prescribed HTML `expectedF d`: every paragraph
    `<p>`…`</p>` + newline, its lines joined by a newline (soft line break), `& < > "` escaped. -/
theorem fragment_conforms (d : FDoc) (h : Frag d) (uc : List (Nat × (Bool × Bool))) :
    GM.Convert.convertCore uc { unsafe_ := true, xhtml := true, hardWraps := false } (spellF d) = .ok (expectedF d) :=
  GM.Proof.CMFrag.fragment_conforms d h uc

/-- … and the renderer options do not matter on this fragment as long as HardWraps is off (no raw HTML, no void
    element, no dangerous URL is involved): the same holds for `goldmark.New()` without `WithUnsafe` / `WithXHTML`. -/
theorem fragment_conforms_any_options (o : GM.Convert.ROpts) (ho : o.hardWraps = false) (d : FDoc) (h : Frag d)
    (uc : List (Nat × (Bool × Bool))) : GM.Convert.convertCore uc o (spellF d) = .ok (expectedF d) :=
  GM.Proof.CMFrag.fragment_conforms_any o ho d h uc

/-- **Stage 1: one paragraph of one line.** For every line `l` of the fragment, the source `l` + newline is
    converted to `<p>` + the text, HTML-escaped + `</p>` + newline. -/
theorem single_line_conforms (l : FLine) (h : lineOK l = true) (uc : List (Nat × (Bool × Bool))) :
    GM.Convert.convertCore uc { unsafe_ := true, xhtml := true, hardWraps := false } (escSpell l ++ [10]) =
      .ok (strBytes "<p>" ++ escHtml (plain l) ++ strBytes "</p>\n") := by
  have hf : Frag { items := [{ block := .para [l] }] } := by
    simp [Frag, fragB, GM.Spec.CMFrag.blockOK, h]
  have := GM.Proof.CMFrag.fragment_conforms { items := [{ block := .para [l] }] } hf uc
  simpa [spellF, GM.Spec.CMFrag.spellItems, GM.Spec.CMFrag.blanks, spellBlock, spellLine, expectedF, expBlock,
    GM.Spec.CMFrag.joinNl, cmOpts] using this

/-- plain text in bytes: ASCII letters, digits and spaces, first byte a letter, last byte a letter or digit -/
def plainText (b : Bytes) : Bool :=
  b.all (fun c => isAlnumC c || c == 32) &&
    (match b.head?, b.getLast? with
     | some a, some z => isLetter a && isAlnumC z
     | _, _ => false)

/-- **Stage 1 in bytes.** One line of plain text (letters, digits, spaces — also several in a row — starting with a
    letter and ending with a letter or digit) followed by a line feed is converted to `<p>`, the same bytes, `</p>`,
    line feed. -/
theorem plain_line_conforms (b : Bytes) (h : plainText b = true) (uc : List (Nat × (Bool × Bool))) :
    GM.Convert.convertCore uc { unsafe_ := true, xhtml := true, hardWraps := false } (b ++ [10]) =
      .ok (strBytes "<p>" ++ b ++ strBytes "</p>\n") := by
  have key : ∀ c : UInt8, (isAlnumC c || c == 32) = true →
      charOK ⟨c, .lit⟩ = true ∧ spellChar ⟨c, .lit⟩ = [c] ∧ escHtmlByte c = [c] :=
    GM.forall_uint8 _ (by decide +kernel)
  simp only [plainText, Bool.and_eq_true, List.all_eq_true] at h
  obtain ⟨hall, hends⟩ := h
  have hsp : escSpell (b.map fun c => (⟨c, .lit⟩ : TChar)) = b := by
    simp only [escSpell, List.flatMap_map]
    have : ∀ (l : Bytes), (∀ c ∈ l, (isAlnumC c || c == 32) = true) →
        l.flatMap (fun c => spellChar ⟨c, .lit⟩) = l := by
      intro l
      induction l with
      | nil => intro _; rfl
      | cons a t ih =>
        intro hl
        simp only [List.flatMap_cons, (key a (hl a (by simp))).2.1, ih (fun c hc => hl c (by simp [hc]))]
        rfl
    exact this b hall
  have hpl : plain (b.map fun c => (⟨c, .lit⟩ : TChar)) = b := by
    simp only [plain, List.map_map]
    have : ((fun x : TChar => x.c) ∘ fun c => (⟨c, .lit⟩ : TChar)) = id := rfl
    rw [this, List.map_id]
  have hesc : escHtml b = b := by
    have : ∀ (l : Bytes), (∀ c ∈ l, (isAlnumC c || c == 32) = true) → escHtml l = l := by
      intro l
      induction l with
      | nil => intro _; rfl
      | cons a t ih =>
        intro hl
        have := ih (fun c hc => hl c (by simp [hc]))
        simp only [escHtml, List.flatMap_cons, (key a (hl a (by simp))).2.2] at this ⊢
        rw [this]; rfl
    exact this b hall
  have hok : lineOK (b.map fun c => (⟨c, .lit⟩ : TChar)) = true := by
    cases b with
    | nil => simp at hends
    | cons a t =>
      simp only [List.head?_cons] at hends
      cases hz : (a :: t).getLast? with
      | none => rw [hz] at hends; simp at hends
      | some z =>
        rw [hz] at hends
        simp only [Bool.and_eq_true] at hends
        have hz' : ((a :: t).map fun c => (⟨c, .lit⟩ : TChar)).getLast? = some ⟨z, .lit⟩ := by
          rw [List.getLast?_map, hz]; rfl
        simp only [lineOK, List.map_cons, List.head?_cons]
        simp only [List.map_cons] at hz'
        rw [hz']
        simp only [firstOK, lastOK, hends.1, hends.2, Bool.and_eq_true, List.all_eq_true, beq_self_eq_true, and_self, true_and]
        refine ⟨rfl, ?_⟩
        intro t' ht'
        simp only [List.mem_cons, List.mem_map] at ht'
        rcases ht' with rfl | ⟨c, hc, rfl⟩
        · exact (key a (hall a (by simp))).1
        · exact (key c (hall c (by simp [hc]))).1
  have := single_line_conforms _ hok uc
  rw [hsp, hpl, hesc] at this
  exact this

/-- **The fragment's prescribed HTML is the spec model's.** `expectedF d` is `expected` (GM.Spec.CommonMark, the
    reference renderer written from the specification text) of the same document embedded into the spec model. -/
theorem fragment_expected_is_spec (d : FDoc) : expectedF d = expected (embed d) :=
  GM.Proof.CMFrag.expectedF_eq_expected_any d

/-- **The fragment's source is the spec model's.** For a non-empty fragment document without extra blank lines,
    `spellF d` is `spell` of the embedded document, byte for byte (the spec model writes exactly one blank line
    between blocks; the fragment additionally allows more, and blank lines in front and behind). -/
theorem fragment_spell_is_spec (d : FDoc) (h : Frag d) (hb : noExtraBlanks d = true) (hne : d.items ≠ []) :
    spellF d = spell (embed d) :=
  GM.Proof.CMFrag.spellF_eq_spell d h hb hne

/-- **Conformance stated on the spec model itself**: for every non-empty fragment document without extra blank
    lines, the model of goldmark converts the source the spec model spells to the HTML the spec model expects. -/
theorem fragment_conforms_spec (d : FDoc) (h : Frag d) (hb : noExtraBlanks d = true) (hne : d.items ≠ [])
    (uc : List (Nat × (Bool × Bool))) :
    GM.Convert.convertCore uc { unsafe_ := true, xhtml := true, hardWraps := false } (spell (embed d)) =
      .ok (expected (embed d)) := by
  rw [← fragment_spell_is_spec d h hb hne, ← fragment_expected_is_spec d]
  exact fragment_conforms d h uc

/-- **Block phase on the fragment.** The block phase (`parser.parseBlocks` with the link-reference paragraph
    transformer and its run-time check) on the source of a fragment document ends normally — no Go panic, no
    contract monitor, fuel suffices — and leaves the Document with exactly one closed Paragraph per paragraph of
    the document (lines = the source lines, the last one without its line feed) and an empty reference map. -/
theorem fragment_block_phase (d : FDoc) (h : Frag d) :
    ∃ s bs, GM.Convert.blockPhase true (spellF d) = .ok s ∧ bs.length = d.items.length ∧
      s.nodes = addKids { kind := .document } 0 d.items.length :: mkParas (closedOf 0 (d.items.map conv)) bs ∧
      s.pc.refs = [] := by
  have hg := frag_good h
  have hblk : ∀ it ∈ d.items.map conv, it.2 ≠ [] ∧ ∀ l ∈ it.2, BlkLine l :=
    fun it hit => ⟨(hg it hit).1, fun l hl => ((hg it hit).2 l hl).blk
      (quiet_no_nl l 0 false ((hg it hit).2 l hl).quiet)⟩
  obtain ⟨s, bs, h1, h2, h3, h4⟩ := runT_doc (d.items.map conv) d.trail hblk
  exact ⟨s, bs, by rw [spellF_raw]; exact h1, by simpa using h2, by simpa using h3, h4⟩

/-- **Inline phase on quiet lines.** For a paragraph whose source lines are non-empty, contain no line feed, never
    make the byte loop of `parseBlock` consult an inline parser (`quiet`) and end neither in white space nor in a
    backslash, the inline phase yields exactly one Text node per line, with a soft line break on all but the last. -/
theorem inline_phase_quiet_lines (env : GM.Inl.Env) (henv : env.escapedSpace = false) (pre post : Bytes)
    (ls : List Bytes) (hne : ls ≠ []) (hg : ∀ l ∈ ls, GoodLine l) :
    GM.Inl.parseBlock env (pre ++ paraBytes ls ++ post) (paraSegs pre.length ls) = .ok (paraKids pre.length ls) :=
  parseBlock_quiet env henv pre post ls hne hg

/-- every line of the fragment, as source bytes, is such a line -/
theorem fragment_lines_quiet (l : FLine) (h : lineOK l = true) : GoodLine (escSpell l) := goodLine_of_lineOK l h

/-! ### stage 4: ATX headings and thematic breaks between the paragraphs -/

/-- **Conformance on the stage-4 fragment.** For EVERY document `d` whose blocks are paragraphs (as above), ATX
    headings (`#`…`######`, one space, a line of fragment text, no closing sequence) and thematic breaks (three or
    more `*`, `-` or `_`), every two blocks separated by at least one blank line (so `---` never stands directly
    under a paragraph: no setext reading), with any number of further blank lines in front, between and behind: the
    model of goldmark's `Convert` on the source `spellG d` returns exactly the prescribed HTML `expectedG d`
    (`<hN>`text`</hN>`, `<hr />`, `<p>`…`</p>`). -/
theorem fragment4_conforms (d : GDoc) (h : GFrag d) (uc : List (Nat × (Bool × Bool))) :
    GM.Convert.convertCore uc { unsafe_ := true, xhtml := true, hardWraps := false } (spellG d) = .ok (expectedG d) :=
  GM.Proof.CMFrag.fragment4_conforms d h uc

/-- the stage-4 prescribed HTML is `expected` of the spec model GM.Spec.CommonMark on the embedded document -/
theorem fragment4_expected_is_spec (d : GDoc) (h : GFrag d) : expectedG d = expected (gembed d) :=
  GM.Proof.CMFrag.expectedG_eq_expected d h

/-- the stage-4 source is `spell` of the spec model on the embedded document (non-empty, no extra blank lines) -/
theorem fragment4_spell_is_spec (d : GDoc) (h : GFrag d) (hb : gnoExtraBlanks d = true) (hne : d.items ≠ []) :
    spellG d = spell (gembed d) :=
  GM.Proof.CMFrag.spellG_eq_spell d h hb hne

/-- **Stage-4 conformance stated on the spec model itself.** -/
theorem fragment4_conforms_spec (d : GDoc) (h : GFrag d) (hb : gnoExtraBlanks d = true) (hne : d.items ≠ [])
    (uc : List (Nat × (Bool × Bool))) :
    GM.Convert.convertCore uc { unsafe_ := true, xhtml := true, hardWraps := false } (spell (gembed d)) =
      .ok (expected (gembed d)) := by
  rw [← fragment4_spell_is_spec d h hb hne, ← fragment4_expected_is_spec d h]
  exact fragment4_conforms d h uc

/-- one ATX heading: `#`×level, a space, the text, a line feed ↦ `<hN>`text`</hN>` -/
theorem heading_conforms (level : Nat) (l : FLine) (h1 : 1 ≤ level) (h6 : level ≤ 6) (hl : lineOK l = true)
    (uc : List (Nat × (Bool × Bool))) :
    GM.Convert.convertCore uc { unsafe_ := true, xhtml := true, hardWraps := false }
        (List.replicate level 35 ++ [32] ++ escSpell l ++ [10]) =
      .ok (strBytes "<h" ++ [UInt8.ofNat (48 + level)] ++ [62] ++ escHtml (plain l) ++ strBytes "</h" ++
        [UInt8.ofNat (48 + level)] ++ strBytes ">\n") := by
  have hf : GFrag { items := [{ block := .heading level l }] } := by
    simp [GFrag, gfragB, gblockOK, hl, h1, h6]
  have := GM.Proof.CMFrag.fragment4_conforms { items := [{ block := .heading level l }] } hf uc
  simpa [spellG, spellGItems, GM.Spec.CMFrag.blanks, spellGBlock, expectedG, expGBlock, cmOpts] using this

/-! ### stage 5 (first part): fenced code blocks -/

/-- **Conformance on the stage-5 fragment.** For EVERY document `d` whose blocks are paragraphs, ATX headings, thematic
    breaks (as in stage 4) and FENCED CODE BLOCKS — an opening fence of 3+n backticks or tildes directly followed by an
    info string of letters and digits (possibly empty), any number of content lines of printable ASCII characters
    that are empty or start with a character that is neither a space nor the fence character, a closing fence of the
    same characters and length — blocks separated by at least one blank line: the model of goldmark's `Convert` on
    `spellH d` returns exactly the prescribed HTML `expectedH d` (`<pre><code class="language-INFO">` + the content
    lines, HTML-escaped, each with its line feed + `</code></pre>`). -/
theorem fragment5_conforms (d : HDoc) (h : HFrag d) (uc : List (Nat × (Bool × Bool))) :
    GM.Convert.convertCore uc { unsafe_ := true, xhtml := true, hardWraps := false } (spellH d) = .ok (expectedH d) :=
  GM.Proof.CMFrag.fragment5_conforms d h uc

/-- the stage-5 prescribed HTML is `expected` of the spec model on the embedded document -/
theorem fragment5_expected_is_spec (d : HDoc) (h : HFrag d) : expectedH d = expected (hembed d) :=
  GM.Proof.CMFrag.expectedH_eq_expected d h

/-- the stage-5 source is `spell` of the spec model on the embedded document (non-empty, no extra blank lines) -/
theorem fragment5_spell_is_spec (d : HDoc) (h : HFrag d) (hb : hnoExtraBlanks d = true) (hne : d.items ≠ []) :
    spellH d = spell (hembed d) :=
  GM.Proof.CMFrag.spellH_eq_spell d h hb hne

/-- **Stage-5 conformance stated on the spec model itself.** -/
theorem fragment5_conforms_spec (d : HDoc) (h : HFrag d) (hb : hnoExtraBlanks d = true) (hne : d.items ≠ [])
    (uc : List (Nat × (Bool × Bool))) :
    GM.Convert.convertCore uc { unsafe_ := true, xhtml := true, hardWraps := false } (spell (hembed d)) =
      .ok (expected (hembed d)) := by
  rw [← fragment5_spell_is_spec d h hb hne, ← fragment5_expected_is_spec d h]
  exact fragment5_conforms d h uc

/-! ### stage 6: blocks directly behind each other -/

/-- **Conformance on the stage-6 fragment.** For EVERY document `d` of paragraphs, ATX headings, thematic breaks and
    fenced code blocks (as in stage 5) in which a block may follow the previous one WITHOUT a blank line wherever the
    specification allows that for these blocks — behind an ATX heading, a thematic break or a closed fence: any block;
    behind a paragraph: an ATX heading, a fenced code block, a thematic break of `*` or `_` (not a further text line:
    continuation; not `---`: setext underline) — and otherwise any number of blank lines between, in front and
    behind: the model of goldmark's `Convert` on `spellK d` returns exactly the prescribed HTML `expectedK d`. -/
theorem fragment6_conforms (d : KDoc) (h : KFrag d) (uc : List (Nat × (Bool × Bool))) :
    GM.Convert.convertCore uc { unsafe_ := true, xhtml := true, hardWraps := false } (spellK d) = .ok (expectedK d) :=
  GM.Proof.CMFrag.fragment6_conforms d h uc

/-- … for ANY renderer options with XHTML on and HardWraps off: `WithUnsafe` plays no role on the fragment -/
theorem fragment6_conforms_any_options (o : GM.Convert.ROpts) (ho : o.hardWraps = false) (hx : o.xhtml = true)
    (d : KDoc) (h : KFrag d) (uc : List (Nat × (Bool × Bool))) :
    GM.Convert.convertCore uc o (spellK d) = .ok (expectedK d) :=
  GM.Proof.CMFrag.fragment6_conforms_any o ho hx d h uc

/-- the stage-6 prescribed HTML is `expected` of the spec model on the embedded document (choice `abut` per block) -/
theorem fragment6_expected_is_spec (d : KDoc) (h : KFrag d) : expectedK d = expected (kembed d) :=
  GM.Proof.CMFrag.expectedK_eq_expected d h

/-- the stage-6 source is `spell` of the spec model on the embedded document (non-empty, nothing in front / behind,
    at most one blank line between two blocks) -/
theorem fragment6_spell_is_spec (d : KDoc) (h : KFrag d) (hb : knoExtraBlanks d = true) (hne : d.items ≠ []) :
    spellK d = spell (kembed d) :=
  GM.Proof.CMFrag.spellK_eq_spell d h hb hne

/-- **Stage-6 conformance stated on the spec model itself**, including its choice "no blank line before this block". -/
theorem fragment6_conforms_spec (d : KDoc) (h : KFrag d) (hb : knoExtraBlanks d = true) (hne : d.items ≠ [])
    (uc : List (Nat × (Bool × Bool))) :
    GM.Convert.convertCore uc { unsafe_ := true, xhtml := true, hardWraps := false } (spell (kembed d)) =
      .ok (expected (kembed d)) := by
  rw [← fragment6_spell_is_spec d h hb hne, ← fragment6_expected_is_spec d h]
  exact fragment6_conforms d h uc

/-! ### what is NOT proved yet (statements only): the next stages of the fragment -/

/-- remainder (open): ATX closing sequences, spaced thematic breaks, leading indentation 1–3, info strings with other characters,
    longer closing fences, unclosed fences; indented code blocks, block quotes, tight bullet lists. The full statement stays the searched one: for every well-formed document of
    GM.Spec.CommonMark written without tabs (with tabs goldmark deviates: KNOWN_FINDINGS, notes/status_C02.md),
    `convertCore (spell d) = expected d` up to the line feed in front of `</blockquote>`, `</li>` (component
    `cmspec` compares after that normalisation; on the fragment no normalisation is needed). NOT a theorem. -/
def SpacesOnlyConformance : Prop :=
  ∀ d : Doc, wellFormed d = true → d.tabMode = 0 → d.tabQuote = 0 → d.tabQuoteD = 0 → d.tabList = 0 → ∀ uc,
    (GM.Convert.convertCore uc { unsafe_ := true, xhtml := true, hardWraps := false } (spell d)).map normalise =
      .ok (normalise (expected d))

/-! ### non-vacuity and tests (examples on literals are tests, not theorems) -/

/-- a concrete 3-block document: `Hello w&ouml;…` -/
def sample : FDoc :=
  { items := [
      { gap := 1, block := .para [[⟨72, .lit⟩, ⟨105, .lit⟩, ⟨32, .lit⟩, ⟨60, .named⟩, ⟨120, .lit⟩],
                                   [⟨97, .lit⟩, ⟨42, .bs⟩, ⟨98, .lit⟩]] },
      { gap := 0, block := .para [[⟨99, .lit⟩, ⟨38, .dec 2⟩, ⟨34, .lit⟩, ⟨100, .lit⟩]] },
      { gap := 2, block := .para [[⟨101, .lit⟩]] } ],
    trail := 1 }

-- test: the sample is in the fragment
example : Frag sample := by decide
-- test: its source: blank line, `Hi &lt;x`, `a\*b`, blank, `c&#0038;"d`, three blank lines, `e`, blank line
example : spellF sample = strBytes "\nHi &lt;x\na\\*b\n\nc&#0038;\"d\n\n\n\ne\n\n" := by decide +kernel
-- test: its prescribed HTML
example : expectedF sample = strBytes "<p>Hi &lt;x\na*b</p>\n<p>c&amp;&quot;d</p>\n<p>e</p>\n" := by decide +kernel
-- test: the theorem on the sample
example : GM.Convert.convertCore [] { unsafe_ := true, xhtml := true, hardWraps := false } (spellF sample) =
    .ok (expectedF sample) := fragment_conforms sample (by decide) []
-- test: hypotheses of the spec-model form are satisfiable
example : Frag { items := [{ block := .para [[⟨97, .lit⟩]] }] } ∧
    noExtraBlanks { items := [{ block := .para [[⟨97, .lit⟩]] }] } = true := by decide
-- test: a stage-4 document (heading, thematic break, paragraph) is in the fragment; source and prescribed HTML
def sample4 : GDoc :=
  { items := [ { block := .heading 2 [⟨84, .lit⟩, ⟨35, .bs⟩, ⟨49, .lit⟩] }, { gap := 1, block := .thematic 1 0 },
               { block := .para [[⟨97, .lit⟩], [⟨98, .lit⟩]] } ], trail := 0 }
example : GFrag sample4 := by decide
example : spellG sample4 = strBytes "## T\\#1\n\n\n---\n\na\nb\n" := by decide +kernel
example : expectedG sample4 = strBytes "<h2>T#1</h2>\n<hr />\n<p>a\nb</p>\n" := by decide +kernel
example : GM.Convert.convertCore [] { unsafe_ := true, xhtml := true, hardWraps := false } (spellG sample4) =
    .ok (expectedG sample4) := fragment4_conforms sample4 (by decide) []
-- test: a stage-5 document (fenced code with info, paragraph, fenced code without content)
def sample5 : HDoc :=
  { items := [ { block := .fcode false 0 [103, 111] [[120, 60, 121], [], [35, 32, 122]] },
               { block := .base (.para [[⟨97, .lit⟩]]) }, { gap := 1, block := .fcode true 1 [] [] } ], trail := 0 }
example : HFrag sample5 := by decide
example : spellH sample5 = strBytes "```go\nx<y\n\n# z\n```\n\na\n\n\n~~~~\n~~~~\n" := by decide +kernel
example : expectedH sample5 =
    strBytes "<pre><code class=\"language-go\">x&lt;y\n\n# z\n</code></pre>\n<p>a</p>\n<pre><code></code></pre>\n" := by
  decide +kernel
example : GM.Convert.convertCore [] { unsafe_ := true, xhtml := true, hardWraps := false } (spellH sample5) =
    .ok (expectedH sample5) := fragment5_conforms sample5 (by decide) []
-- test: plain text in bytes
example : plainText (strBytes "Hello  world 42") = true := by decide +kernel
example : GM.Convert.convertCore [] { unsafe_ := true, xhtml := true, hardWraps := false } (strBytes "Hello  world 42" ++ [10]) =
    .ok (strBytes "<p>" ++ strBytes "Hello  world 42" ++ strBytes "</p>\n") :=
  plain_line_conforms _ (by decide +kernel) []
-- test: a stage-6 document: heading, paragraph directly behind it, `***` directly behind the paragraph, fence directly
-- behind that, paragraph directly behind the closed fence, blank line, heading directly interrupted … (all abutting)
def sample6 : KDoc :=
  { items := [ { sep := 0, block := .base (.heading 1 [⟨84, .lit⟩]) },
               { sep := 0, block := .base (.para [[⟨97, .lit⟩], [⟨98, .lit⟩]]) },
               { sep := 0, block := .base (.thematic 0 0) },
               { sep := 0, block := .fcode false 0 [] [[120]] },
               { sep := 0, block := .base (.para [[⟨99, .lit⟩]]) },
               { sep := 0, block := .base (.heading 2 [⟨100, .lit⟩]) },
               { sep := 2, block := .base (.thematic 1 1) } ], trail := 1 }
example : KFrag sample6 := by decide
example : spellK sample6 = strBytes "# T\na\nb\n***\n```\nx\n```\nc\n## d\n\n\n----\n\n" := by decide +kernel
example : expectedK sample6 =
    strBytes "<h1>T</h1>\n<p>a\nb</p>\n<hr />\n<pre><code>x\n</code></pre>\n<p>c</p>\n<h2>d</h2>\n<hr />\n" := by
  decide +kernel
example : GM.Convert.convertCore [] { unsafe_ := true, xhtml := true, hardWraps := false } (spellK sample6) =
    .ok (expectedK sample6) := fragment6_conforms sample6 (by decide) []
-- test: a paragraph directly followed by `---` or by a text line is NOT in the fragment
example : ¬ KFrag { items := [ { block := .base (.para [[⟨97, .lit⟩]]) }, { sep := 0, block := .base (.thematic 1 0) } ] } := by
  decide
-- tests (kernel-evaluated) of why the two exclusions are needed: in the model, as in CommonMark, `---` directly under a
-- paragraph makes a setext heading (4.3) and a text line directly under a paragraph continues it (4.8)
def okIs (r : Except GM.Convert.Err Bytes) (b : Bytes) : Bool := match r with | .ok x => x == b | .error _ => false
example : okIs (GM.Convert.convertCore [] { unsafe_ := true, xhtml := true, hardWraps := false } (strBytes "a\n---\n"))
    (strBytes "<h2>a</h2>\n") = true := by decide +kernel
example : okIs (GM.Convert.convertCore [] { unsafe_ := true, xhtml := true, hardWraps := false } (strBytes "a\nb\n"))
    (strBytes "<p>a\nb</p>\n") = true := by decide +kernel
-- test: a good line
example : GoodLine [97, 32, 98] := fragment_lines_quiet [⟨97, .lit⟩, ⟨32, .lit⟩, ⟨98, .lit⟩] (by decide)

end GM.Props.C02Frag
