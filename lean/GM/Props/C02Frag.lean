/-
  Property C02, package `cmfrag` — the FIRST CONFORMANCE THEOREMS: for an explicit, infinite, decidable fragment of
  CommonMark documents (GM.Spec.CMFrag; stages 1–3: paragraphs of text lines with soft line breaks, separated / preceded /
  followed by any number of blank lines, every printable ASCII character in every spelling the specification
  licenses; stage 4: + ATX headings and thematic breaks; stage 5: + fenced code blocks; stage 6: + blocks directly
  behind each other where the specification allows it; round 2 — stage 7: no final line feed; 8: code spans; 9: backslash
  hard breaks; 10: inside a block quote; 11: `*` emphasis / strong; 12: indented code blocks; 13: THE UNION of 1–9, 11,
  12 (also quoted); 14: nested block quotes of any depth; 16: inline links; 17: images; 18: URI autolinks; 19: raw
  inline HTML tags; 20: `_` emphasis; round 3 — 21: THE FULL UNION (13 + all atoms of 16–20 mixed); 22 / 23: nested quotes
  for the wider class of quotesim2) the composed model of `goldmark.Convert` (GM.Convert.convertCore: block phase with the link-reference
  transformer, inline phase, renderer; tied to the real `Convert` byte for byte by component `convert`) produces
  exactly the HTML the specification prescribes, for ALL documents of the fragment.
  The renderer options are the ones component `cmspec` configures goldmark with: `html.WithUnsafe()`,
  `html.WithXHTML()` (`cmOpts`). Proofs: GM/Proof/CMFrag*.lean (symbolic execution of the block phase line by line,
  the inline phase on lines that never consult an inline parser, the renderer on Document[Paragraph[Text…]]).
-/
import GM.Proof.CMFragMain
import GM.Proof.CMFrag4Main
import GM.Proof.CMFrag5Main
import GM.Proof.CMFrag6Main
import GM.Proof.CMFrag7Main
import GM.Proof.CMFrag12Main
import GM.Proof.CMFragSpec12
import GM.Proof.CMFrag8Main
import GM.Proof.CMFrag9Main
import GM.Proof.CMFragQMain
import GM.Proof.CMFragQMainE
import GM.Proof.CMFrag11Main
import GM.Proof.CMFragNFrag
import GM.Proof.CMFrag16Main
import GM.Proof.CMFrag17Main
import GM.Proof.CMFrag18Main
import GM.Proof.CMFrag19Main
import GM.Proof.CMFrag20Main
import GM.Proof.CMFrag22Frag
import GM.Proof.CMFrag21Frag
import GM.Proof.CMFragSpec21Src
import GM.Proof.CMFrag13Inl
import GM.Proof.CMFragSpec13
import GM.Proof.CMFragSpecN

namespace GM.Props.C02Frag
open GM GM.Spec.CM GM.Spec.CMFrag GM.Proof.CMFrag

/-- **Conformance on the fragment (stages 1–3).** For EVERY document `d` of the fragment — any number of
    paragraphs, each a non-empty sequence of lines; a line is a non-empty run of printable ASCII characters in any
    licensed spelling (literal, backslash escape, decimal / hexadecimal character reference with leading zeros,
    named entity) that starts with a literal letter, ends with a literal letter or digit and has no literal `!`;
    `gap` extra blank lines in front of every paragraph, `trail` blank lines at the end — and for every assignment
    `uc` of Unicode classes (irrelevant here: the source is ASCII), the model of goldmark's `Convert` on the
    Markdown source `spellF d` returns, without error, exactly the prescribed HTML `expectedF d`: every paragraph
    `<p>`…`</p>` + newline, its lines joined by a newline (soft line break), `& < > "` escaped. -/
theorem fragment_conforms (d : FDoc) (h : Frag d) (uc : List (Nat × (Bool × Bool))) :
    GM.Convert.convertCore uc { unsafe_ := true, xhtml := true, hardWraps := false } (spellF d) = .ok (expectedF d) :=
  GM.Proof.CMFrag.fragment_conforms d h uc

/-- … and the renderer options do not matter on this fragment as long as HardWraps is off (no raw HTML, no void
    element, no dangerous URL is involved): the same holds for `goldmark.New()` without `WithUnsafe` / `WithXHTML`. -/
theorem fragment_conforms_any_options (o : GM.Convert.ROpts) (ho : o.hardWraps = false) (d : FDoc) (h : Frag d)
    (uc : List (Nat × (Bool × Bool))) : GM.Convert.convertCore uc o (spellF d) = .ok (expectedF d) :=
  GM.Proof.CMFrag.fragment_conforms_any o ho d h uc

/-- **Stage 1: one paragraph of one line.** For every line `l` of the fragment, the source `l` + newline is
    converted to `<p>` + the text, HTML-escaped + `</p>` + newline. -/
theorem single_line_conforms (l : FLine) (h : lineOK l = true) (uc : List (Nat × (Bool × Bool))) :
    GM.Convert.convertCore uc { unsafe_ := true, xhtml := true, hardWraps := false } (escSpell l ++ [10]) =
      .ok (strBytes "<p>" ++ escHtml (plain l) ++ strBytes "</p>\n") := by
  have hf : Frag { items := [{ block := .para [l] }] } := by
    simp [Frag, fragB, GM.Spec.CMFrag.blockOK, h]
  have := GM.Proof.CMFrag.fragment_conforms { items := [{ block := .para [l] }] } hf uc
  simpa [spellF, GM.Spec.CMFrag.spellItems, GM.Spec.CMFrag.blanks, spellBlock, spellLine, expectedF, expBlock,
    GM.Spec.CMFrag.joinNl, cmOpts] using this

/-- plain text in bytes: ASCII letters, digits and spaces, first byte a letter, last byte a letter or digit -/
def plainText (b : Bytes) : Bool :=
  b.all (fun c => isAlnumC c || c == 32) &&
    (match b.head?, b.getLast? with
     | some a, some z => isLetter a && isAlnumC z
     | _, _ => false)

/-- **Stage 1 in bytes.** One line of plain text (letters, digits, spaces — also several in a row — starting with a
    letter and ending with a letter or digit) followed by a line feed is converted to `<p>`, the same bytes, `</p>`,
    line feed. -/
theorem plain_line_conforms (b : Bytes) (h : plainText b = true) (uc : List (Nat × (Bool × Bool))) :
    GM.Convert.convertCore uc { unsafe_ := true, xhtml := true, hardWraps := false } (b ++ [10]) =
      .ok (strBytes "<p>" ++ b ++ strBytes "</p>\n") := by
  have key : ∀ c : UInt8, (isAlnumC c || c == 32) = true →
      charOK ⟨c, .lit⟩ = true ∧ spellChar ⟨c, .lit⟩ = [c] ∧ escHtmlByte c = [c] :=
    GM.forall_uint8 _ (by decide +kernel)
  simp only [plainText, Bool.and_eq_true, List.all_eq_true] at h
  obtain ⟨hall, hends⟩ := h
  have hsp : escSpell (b.map fun c => (⟨c, .lit⟩ : TChar)) = b := by
    simp only [escSpell, List.flatMap_map]
    have : ∀ (l : Bytes), (∀ c ∈ l, (isAlnumC c || c == 32) = true) →
        l.flatMap (fun c => spellChar ⟨c, .lit⟩) = l := by
      intro l
      induction l with
      | nil => intro _; rfl
      | cons a t ih =>
        intro hl
        simp only [List.flatMap_cons, (key a (hl a (by simp))).2.1, ih (fun c hc => hl c (by simp [hc]))]
        rfl
    exact this b hall
  have hpl : plain (b.map fun c => (⟨c, .lit⟩ : TChar)) = b := by
    simp only [plain, List.map_map]
    have : ((fun x : TChar => x.c) ∘ fun c => (⟨c, .lit⟩ : TChar)) = id := rfl
    rw [this, List.map_id]
  have hesc : escHtml b = b := by
    have : ∀ (l : Bytes), (∀ c ∈ l, (isAlnumC c || c == 32) = true) → escHtml l = l := by
      intro l
      induction l with
      | nil => intro _; rfl
      | cons a t ih =>
        intro hl
        have := ih (fun c hc => hl c (by simp [hc]))
        simp only [escHtml, List.flatMap_cons, (key a (hl a (by simp))).2.2] at this ⊢
        rw [this]; rfl
    exact this b hall
  have hok : lineOK (b.map fun c => (⟨c, .lit⟩ : TChar)) = true := by
    cases b with
    | nil => simp at hends
    | cons a t =>
      simp only [List.head?_cons] at hends
      cases hz : (a :: t).getLast? with
      | none => rw [hz] at hends; simp at hends
      | some z =>
        rw [hz] at hends
        simp only [Bool.and_eq_true] at hends
        have hz' : ((a :: t).map fun c => (⟨c, .lit⟩ : TChar)).getLast? = some ⟨z, .lit⟩ := by
          rw [List.getLast?_map, hz]; rfl
        simp only [lineOK, List.map_cons, List.head?_cons]
        simp only [List.map_cons] at hz'
        rw [hz']
        simp only [firstOK, lastOK, hends.1, hends.2, Bool.and_eq_true, List.all_eq_true, beq_self_eq_true, and_self, true_and]
        refine ⟨rfl, ?_⟩
        intro t' ht'
        simp only [List.mem_cons, List.mem_map] at ht'
        rcases ht' with rfl | ⟨c, hc, rfl⟩
        · exact (key a (hall a (by simp))).1
        · exact (key c (hall c (by simp [hc]))).1
  have := single_line_conforms _ hok uc
  rw [hsp, hpl, hesc] at this
  exact this

/-- **The fragment's prescribed HTML is the spec model's.** `expectedF d` is `expected` (GM.Spec.CommonMark, the
    reference renderer written from the specification text) of the same document embedded into the spec model. -/
theorem fragment_expected_is_spec (d : FDoc) : expectedF d = expected (embed d) :=
  GM.Proof.CMFrag.expectedF_eq_expected_any d

/-- **The fragment's source is the spec model's.** For a non-empty fragment document without extra blank lines,
    `spellF d` is `spell` of the embedded document, byte for byte (the spec model writes exactly one blank line
    between blocks; the fragment additionally allows more, and blank lines in front and behind). -/
theorem fragment_spell_is_spec (d : FDoc) (h : Frag d) (hb : noExtraBlanks d = true) (hne : d.items ≠ []) :
    spellF d = spell (embed d) :=
  GM.Proof.CMFrag.spellF_eq_spell d h hb hne

/-- **Conformance stated on the spec model itself**: for every non-empty fragment document without extra blank
    lines, the model of goldmark converts the source the spec model spells to the HTML the spec model expects. -/
theorem fragment_conforms_spec (d : FDoc) (h : Frag d) (hb : noExtraBlanks d = true) (hne : d.items ≠ [])
    (uc : List (Nat × (Bool × Bool))) :
    GM.Convert.convertCore uc { unsafe_ := true, xhtml := true, hardWraps := false } (spell (embed d)) =
      .ok (expected (embed d)) := by
  rw [← fragment_spell_is_spec d h hb hne, ← fragment_expected_is_spec d]
  exact fragment_conforms d h uc

/-- **Block phase on the fragment.** The block phase (`parser.parseBlocks` with the link-reference paragraph
    transformer and its run-time check) on the source of a fragment document ends normally — no Go panic, no
    contract monitor, fuel suffices — and leaves the Document with exactly one closed Paragraph per paragraph of
    the document (lines = the source lines, the last one without its line feed) and an empty reference map. -/
theorem fragment_block_phase (d : FDoc) (h : Frag d) :
    ∃ s bs, GM.Convert.blockPhase true (spellF d) = .ok s ∧ bs.length = d.items.length ∧
      s.nodes = addKids { kind := .document } 0 d.items.length :: mkParas (closedOf 0 (d.items.map conv)) bs ∧
      s.pc.refs = [] := by
  have hg := frag_good h
  have hblk : ∀ it ∈ d.items.map conv, it.2 ≠ [] ∧ ∀ l ∈ it.2, BlkLine l :=
    fun it hit => ⟨(hg it hit).1, fun l hl => ((hg it hit).2 l hl).blk
      (quiet_no_nl l 0 false ((hg it hit).2 l hl).quiet)⟩
  obtain ⟨s, bs, h1, h2, h3, h4⟩ := runT_doc (d.items.map conv) d.trail hblk
  exact ⟨s, bs, by rw [spellF_raw]; exact h1, by simpa using h2, by simpa using h3, h4⟩

/-- **Inline phase on quiet lines.** For a paragraph whose source lines are non-empty, contain no line feed, never
    make the byte loop of `parseBlock` consult an inline parser (`quiet`) and end neither in white space nor in a
    backslash, the inline phase yields exactly one Text node per line, with a soft line break on all but the last. -/
theorem inline_phase_quiet_lines (env : GM.Inl.Env) (henv : env.escapedSpace = false) (pre post : Bytes)
    (ls : List Bytes) (hne : ls ≠ []) (hg : ∀ l ∈ ls, GoodLine l) :
    GM.Inl.parseBlock env (pre ++ paraBytes ls ++ post) (paraSegs pre.length ls) = .ok (paraKids pre.length ls) :=
  parseBlock_quiet env henv pre post ls hne hg

/-- every line of the fragment, as source bytes, is such a line -/
theorem fragment_lines_quiet (l : FLine) (h : lineOK l = true) : GoodLine (escSpell l) := goodLine_of_lineOK l h

/-! ### stage 4: ATX headings and thematic breaks between the paragraphs -/

/-- **Conformance on the stage-4 fragment.** For EVERY document `d` whose blocks are paragraphs (as above), ATX
    headings (`#`…`######`, one space, a line of fragment text, no closing sequence) and thematic breaks (three or
    more `*`, `-` or `_`), every two blocks separated by at least one blank line (so `---` never stands directly
    under a paragraph: no setext reading), with any number of further blank lines in front, between and behind: the
    model of goldmark's `Convert` on the source `spellG d` returns exactly the prescribed HTML `expectedG d`
    (`<hN>`text`</hN>`, `<hr />`, `<p>`…`</p>`). -/
theorem fragment4_conforms (d : GDoc) (h : GFrag d) (uc : List (Nat × (Bool × Bool))) :
    GM.Convert.convertCore uc { unsafe_ := true, xhtml := true, hardWraps := false } (spellG d) = .ok (expectedG d) :=
  GM.Proof.CMFrag.fragment4_conforms d h uc

/-- the stage-4 prescribed HTML is `expected` of the spec model GM.Spec.CommonMark on the embedded document -/
theorem fragment4_expected_is_spec (d : GDoc) (h : GFrag d) : expectedG d = expected (gembed d) :=
  GM.Proof.CMFrag.expectedG_eq_expected d h

/-- the stage-4 source is `spell` of the spec model on the embedded document (non-empty, no extra blank lines) -/
theorem fragment4_spell_is_spec (d : GDoc) (h : GFrag d) (hb : gnoExtraBlanks d = true) (hne : d.items ≠ []) :
    spellG d = spell (gembed d) :=
  GM.Proof.CMFrag.spellG_eq_spell d h hb hne

/-- **Stage-4 conformance stated on the spec model itself.** -/
theorem fragment4_conforms_spec (d : GDoc) (h : GFrag d) (hb : gnoExtraBlanks d = true) (hne : d.items ≠ [])
    (uc : List (Nat × (Bool × Bool))) :
    GM.Convert.convertCore uc { unsafe_ := true, xhtml := true, hardWraps := false } (spell (gembed d)) =
      .ok (expected (gembed d)) := by
  rw [← fragment4_spell_is_spec d h hb hne, ← fragment4_expected_is_spec d h]
  exact fragment4_conforms d h uc

/-- one ATX heading: `#`×level, a space, the text, a line feed ↦ `<hN>`text`</hN>` -/
theorem heading_conforms (level : Nat) (l : FLine) (h1 : 1 ≤ level) (h6 : level ≤ 6) (hl : lineOK l = true)
    (uc : List (Nat × (Bool × Bool))) :
    GM.Convert.convertCore uc { unsafe_ := true, xhtml := true, hardWraps := false }
        (List.replicate level 35 ++ [32] ++ escSpell l ++ [10]) =
      .ok (strBytes "<h" ++ [UInt8.ofNat (48 + level)] ++ [62] ++ escHtml (plain l) ++ strBytes "</h" ++
        [UInt8.ofNat (48 + level)] ++ strBytes ">\n") := by
  have hf : GFrag { items := [{ block := .heading level l }] } := by
    simp [GFrag, gfragB, gblockOK, hl, h1, h6]
  have := GM.Proof.CMFrag.fragment4_conforms { items := [{ block := .heading level l }] } hf uc
  simpa [spellG, spellGItems, GM.Spec.CMFrag.blanks, spellGBlock, expectedG, expGBlock, cmOpts] using this

/-! ### stage 5 (first part): fenced code blocks -/

/-- **Conformance on the stage-5 fragment.** For EVERY document `d` whose blocks are paragraphs, ATX headings, thematic
    breaks (as in stage 4) and FENCED CODE BLOCKS — an opening fence of 3+n backticks or tildes directly followed by an
    info string of letters and digits (possibly empty), any number of content lines of printable ASCII characters
    that are empty or start with a character that is neither a space nor the fence character, a closing fence of the
    same characters and length — blocks separated by at least one blank line: the model of goldmark's `Convert` on
    `spellH d` returns exactly the prescribed HTML `expectedH d` (`<pre><code class="language-INFO">` + the content
    lines, HTML-escaped, each with its line feed + `</code></pre>`). -/
theorem fragment5_conforms (d : HDoc) (h : HFrag d) (uc : List (Nat × (Bool × Bool))) :
    GM.Convert.convertCore uc { unsafe_ := true, xhtml := true, hardWraps := false } (spellH d) = .ok (expectedH d) :=
  GM.Proof.CMFrag.fragment5_conforms d h uc

/-- the stage-5 prescribed HTML is `expected` of the spec model on the embedded document -/
theorem fragment5_expected_is_spec (d : HDoc) (h : HFrag d) : expectedH d = expected (hembed d) :=
  GM.Proof.CMFrag.expectedH_eq_expected d h

/-- the stage-5 source is `spell` of the spec model on the embedded document (non-empty, no extra blank lines) -/
theorem fragment5_spell_is_spec (d : HDoc) (h : HFrag d) (hb : hnoExtraBlanks d = true) (hne : d.items ≠ []) :
    spellH d = spell (hembed d) :=
  GM.Proof.CMFrag.spellH_eq_spell d h hb hne

/-- **Stage-5 conformance stated on the spec model itself.** -/
theorem fragment5_conforms_spec (d : HDoc) (h : HFrag d) (hb : hnoExtraBlanks d = true) (hne : d.items ≠ [])
    (uc : List (Nat × (Bool × Bool))) :
    GM.Convert.convertCore uc { unsafe_ := true, xhtml := true, hardWraps := false } (spell (hembed d)) =
      .ok (expected (hembed d)) := by
  rw [← fragment5_spell_is_spec d h hb hne, ← fragment5_expected_is_spec d h]
  exact fragment5_conforms d h uc

/-! ### stage 6: blocks directly behind each other -/

/-- **Conformance on the stage-6 fragment.** For EVERY document `d` of paragraphs, ATX headings, thematic breaks and
    fenced code blocks (as in stage 5) in which a block may follow the previous one WITHOUT a blank line wherever the
    specification allows that for these blocks — behind an ATX heading, a thematic break or a closed fence: any block;
    behind a paragraph: an ATX heading, a fenced code block, a thematic break of `*` or `_` (not a further text line:
    continuation; not `---`: setext underline) — and otherwise any number of blank lines between, in front and
    behind: the model of goldmark's `Convert` on `spellK d` returns exactly the prescribed HTML `expectedK d`. -/
theorem fragment6_conforms (d : KDoc) (h : KFrag d) (uc : List (Nat × (Bool × Bool))) :
    GM.Convert.convertCore uc { unsafe_ := true, xhtml := true, hardWraps := false } (spellK d) = .ok (expectedK d) :=
  GM.Proof.CMFrag.fragment6_conforms d h uc

/-- … for ANY renderer options with XHTML on and HardWraps off: `WithUnsafe` plays no role on the fragment -/
theorem fragment6_conforms_any_options (o : GM.Convert.ROpts) (ho : o.hardWraps = false) (hx : o.xhtml = true)
    (d : KDoc) (h : KFrag d) (uc : List (Nat × (Bool × Bool))) :
    GM.Convert.convertCore uc o (spellK d) = .ok (expectedK d) :=
  GM.Proof.CMFrag.fragment6_conforms_any o ho hx d h uc

/-- the stage-6 prescribed HTML is `expected` of the spec model on the embedded document (choice `abut` per block) -/
theorem fragment6_expected_is_spec (d : KDoc) (h : KFrag d) : expectedK d = expected (kembed d) :=
  GM.Proof.CMFrag.expectedK_eq_expected d h

/-- the stage-6 source is `spell` of the spec model on the embedded document (non-empty, nothing in front / behind,
    at most one blank line between two blocks) -/
theorem fragment6_spell_is_spec (d : KDoc) (h : KFrag d) (hb : knoExtraBlanks d = true) (hne : d.items ≠ []) :
    spellK d = spell (kembed d) :=
  GM.Proof.CMFrag.spellK_eq_spell d h hb hne

/-- **Stage-6 conformance stated on the spec model itself**, including its choice "no blank line before this block". -/
theorem fragment6_conforms_spec (d : KDoc) (h : KFrag d) (hb : knoExtraBlanks d = true) (hne : d.items ≠ [])
    (uc : List (Nat × (Bool × Bool))) :
    GM.Convert.convertCore uc { unsafe_ := true, xhtml := true, hardWraps := false } (spell (kembed d)) =
      .ok (expected (kembed d)) := by
  rw [← fragment6_spell_is_spec d h hb hne, ← fragment6_expected_is_spec d h]
  exact fragment6_conforms d h uc

/-! ### stage 7: a missing final line feed -/

/-- **Conformance without the final line feed.** For EVERY stage-6 document `d` that ends with a block (`trail = 0`,
    at least one block), written WITHOUT the line feed of its last line (`spellKE d` = `spellK d` minus its last
    byte; the last line may be a paragraph line, an ATX heading, a thematic break or the closing fence of a fenced
    code block, behind a blank line or directly behind the previous block): the model of goldmark's `Convert` returns
    exactly the same prescribed HTML `expectedK d`. -/
theorem fragment7_conforms (d : KDoc) (h : KFragE d) (uc : List (Nat × (Bool × Bool))) :
    GM.Convert.convertCore uc { unsafe_ := true, xhtml := true, hardWraps := false } (spellKE d) = .ok (expectedK d) :=
  GM.Proof.CMFrag.fragment7_conforms d h uc

/-- the prescribed HTML is `expected` of the spec model with the choice `finalNewline := false` -/
theorem fragment7_expected_is_spec (d : KDoc) (h : KFragE d) : expectedK d = expected (kembedE d) :=
  GM.Proof.CMFrag.expectedKE_eq_expected d h

/-- the source without final line feed is `spell` of the spec model with `finalNewline := false` -/
theorem fragment7_spell_is_spec (d : KDoc) (h : KFragE d) (hb : knoExtraBlanks d = true) :
    spellKE d = spell (kembedE d) :=
  GM.Proof.CMFrag.spellKE_eq_spell d h hb

/-- **Stage-7 conformance stated on the spec model itself** (its axis "missing final newline"). -/
theorem fragment7_conforms_spec (d : KDoc) (h : KFragE d) (hb : knoExtraBlanks d = true)
    (uc : List (Nat × (Bool × Bool))) :
    GM.Convert.convertCore uc { unsafe_ := true, xhtml := true, hardWraps := false } (spell (kembedE d)) =
      .ok (expected (kembedE d)) := by
  rw [← fragment7_spell_is_spec d h hb, ← fragment7_expected_is_spec d h]
  exact fragment7_conforms d h uc

/-! ### stage 8: code spans inside paragraph lines -/

/-- **Conformance with code spans.** For EVERY document of paragraphs (`RDoc`) whose lines are made of text atoms (any
    licensed spelling of every character, as in stage 1–3) alternating with CODE SPANS — one backtick, a non-empty run of
    ASCII letters and digits, one backtick — each line beginning and ending with text (`RFrag`, decidable), with any
    number of blank lines between the paragraphs and at both ends: the model of goldmark's `Convert` returns exactly the
    prescribed HTML (`<code>…</code>` in place of every span). The span may touch the text on both sides (`a`x`b`),
    stand behind an escaped backtick or backslash, several spans per line, several lines per paragraph. -/
theorem fragment8_conforms (d : RDoc) (h : RFrag d) (uc : List (Nat × (Bool × Bool))) :
    GM.Convert.convertCore uc { unsafe_ := true, xhtml := true, hardWraps := false } (spellR d) = .ok (expectedR d) :=
  GM.Proof.CMFrag.fragment8_conforms d h uc

/-- the prescribed HTML is `expected` of the spec model on `rembed d` (text / `Inline.code` / soft breaks) -/
theorem fragment8_expected_is_spec (d : RDoc) (h : RFrag d) : expectedR d = expected (rembed d) :=
  GM.Proof.CMFrag.expectedR_eq_expected d h

/-- the source is `spell` of the spec model, byte for byte, when there are no extra blank lines -/
theorem fragment8_spell_is_spec (d : RDoc) (h : RFrag d) (hb : rnoExtraBlanks d = true) (hne : d.items ≠ []) :
    spellR d = spell (rembed d) :=
  GM.Proof.CMFrag.spellR_eq_spell d h hb hne

/-- **Stage-8 conformance stated on the spec model itself.** -/
theorem fragment8_conforms_spec (d : RDoc) (h : RFrag d) (hb : rnoExtraBlanks d = true) (hne : d.items ≠ [])
    (uc : List (Nat × (Bool × Bool))) :
    GM.Convert.convertCore uc { unsafe_ := true, xhtml := true, hardWraps := false } (spell (rembed d)) =
      .ok (expected (rembed d)) := by
  rw [← fragment8_spell_is_spec d h hb hne, ← fragment8_expected_is_spec d h]
  exact fragment8_conforms d h uc

/-- the same documents without the line feed of the last line (`spellR d` minus its last byte when `trail = 0`) -/
theorem fragment8_conforms_no_final_newline (d : RDoc) (h : RFrag d) (hne : d.items ≠ [])
    (uc : List (Nat × (Bool × Bool))) :
    GM.Convert.convertCore uc { unsafe_ := true, xhtml := true, hardWraps := false }
      (GM.Proof.CMFrag.rawDoc6E (GM.Proof.CMFrag.paraItems true (GM.Proof.CMFrag.itemsOfR d))) = .ok (expectedR d) :=
  GM.Proof.CMFrag.fragment8_conforms_nofinal d h hne uc

/-! ### stage 9: hard line breaks written with a backslash -/

/-- **Conformance with hard line breaks.** For EVERY document of paragraphs (`BDoc`) whose lines are stage-1–3 text lines,
    every line except the last of its paragraph optionally followed by a BACKSLASH (`BFrag`, decidable): the model of
    goldmark's `Convert` returns exactly the prescribed HTML — `<br />` and a line feed behind a hard line. -/
theorem fragment9_conforms (d : BDoc) (h : BFrag d) (uc : List (Nat × (Bool × Bool))) :
    GM.Convert.convertCore uc { unsafe_ := true, xhtml := true, hardWraps := false } (spellBD d) = .ok (expectedBD d) :=
  GM.Proof.CMFrag.fragment9_conforms d h uc

/-- the prescribed HTML is `expected` of the spec model on `bembed d` (text / `Inline.hardBreak true 0` / soft breaks) -/
theorem fragment9_expected_is_spec (d : BDoc) (h : BFrag d) : expectedBD d = expected (bembed d) :=
  GM.Proof.CMFrag.expectedBD_eq_expected d h

theorem fragment9_spell_is_spec (d : BDoc) (h : BFrag d) (hb : bnoExtraBlanks d = true) (hne : d.items ≠ []) :
    spellBD d = spell (bembed d) :=
  GM.Proof.CMFrag.spellBD_eq_spell d h hb hne

/-- **Stage-9 conformance stated on the spec model itself.** -/
theorem fragment9_conforms_spec (d : BDoc) (h : BFrag d) (hb : bnoExtraBlanks d = true) (hne : d.items ≠ [])
    (uc : List (Nat × (Bool × Bool))) :
    GM.Convert.convertCore uc { unsafe_ := true, xhtml := true, hardWraps := false } (spell (bembed d)) =
      .ok (expected (bembed d)) := by
  rw [← fragment9_spell_is_spec d h hb hne, ← fragment9_expected_is_spec d h]
  exact fragment9_conforms d h uc

theorem fragment9_conforms_no_final_newline (d : BDoc) (h : BFrag d) (hne : d.items ≠ [])
    (uc : List (Nat × (Bool × Bool))) :
    GM.Convert.convertCore uc { unsafe_ := true, xhtml := true, hardWraps := false }
      (GM.Proof.CMFrag.rawDoc6E (GM.Proof.CMFrag.paraItems true (GM.Proof.CMFrag.itemsOfB d))) = .ok (expectedBD d) :=
  GM.Proof.CMFrag.fragment9_conforms_nofinal d h hne uc

/-! ### stage 10: a stage-6 document inside one block quote -/

/-- what stage 10 needs from packages e2e and tnopanic: on a source without `[` the block phase with the
    link-reference-definition transformer is the plain block phase. (`GM.Props.ConvertE2E.block_phase_bracket_free` gives
    `blockPhase guard src = run src ∨ ∃ e, blockPhase guard src = .error e`; `GM.Props.ConvertNP.block_phase_total` excludes
    the error.) -/
abbrev BlockPhaseBracketFree : Prop := GM.Proof.CMFrag.BPFree

/-- **Conformance inside a block quote — composing quotesim2's simulation with stage 6.** For EVERY stage-6 document `d`
    with at least one block whose source `spellK d` contains none of `-`, `*`, `+`, a digit, `[`, tab, CR (`QFrag`,
    decidable): the source with `"> "` in front of EVERY line (`spellQ d`; blank lines too) is converted by the model of
    goldmark's `Convert` to `<blockquote>` LF, the stage-6 HTML of `d`, `</blockquote>` LF. Proof: the block phase on the
    prefixed source simulates the one on `spellK d` (`GM.Blocks.run_sim`, package quotesim2: same nodes below one
    Blockquote, every segment moved behind the markers of its line); the block phase with the paragraph transformer is
    that run (`BlockPhaseBracketFree`); the inline phase on the moved segments of every paragraph / heading gives the
    same nodes; the code lines have the same values. -/
theorem fragment10_conforms (H : BlockPhaseBracketFree) (d : KDoc) (h : QFrag d) (uc : List (Nat × (Bool × Bool))) :
    GM.Convert.convertCore uc { unsafe_ := true, xhtml := true, hardWraps := false } (spellQ d) = .ok (expectedQ d) :=
  GM.Proof.CMFrag.fragmentQ_conforms H d h uc

/-- the quoted document without the line feed of its last line (`spellQE d` = `"> "` in front of every line of `spellKE d`) -/
theorem fragment10_conforms_no_final_newline (H : BlockPhaseBracketFree) (d : KDoc) (h : QFragE d)
    (uc : List (Nat × (Bool × Bool))) :
    GM.Convert.convertCore uc { unsafe_ := true, xhtml := true, hardWraps := false } (spellQE d) = .ok (expectedQ d) :=
  GM.Proof.CMFrag.fragmentQE_conforms H d h uc

/-- the prescribed HTML is `expected` of the spec model on `qembed d` = one `Block.quote` around `kembed d` -/
theorem fragment10_expected_is_spec (d : KDoc) (h : QFrag d) : expectedQ d = expected (qembed d) :=
  GM.Proof.CMFrag.expectedQ_eq_expected d (GM.Proof.CMFrag.qfrag_kfrag d h)

/-! ### stage 11: emphasis and strong emphasis (next to code spans) inside paragraph lines -/

/-- **Conformance with emphasis.** For EVERY document of paragraphs (`EDoc`) whose lines are made of text atoms (any
    licensed spelling of every character) alternating with code spans, `*x*` and `**x**` (x a non-empty run of ASCII
    letters and digits), each line beginning and ending with text (`EFrag`, decidable): the model of goldmark's `Convert`
    returns exactly the prescribed HTML (`<em>x</em>`, `<strong>x</strong>`). NO condition on the characters next to
    the `*` runs is needed (the content is alphanumeric, so the opening run is left-flanking and the closing run
    right-flanking whatever stands outside — letters, spaces, punctuation in any spelling, an escaped `\*`): the tie
    enumerates all 95 characters × 7 spellings on both sides. -/
theorem fragment11_conforms (d : EDoc) (h : EFrag d) (uc : List (Nat × (Bool × Bool))) :
    GM.Convert.convertCore uc { unsafe_ := true, xhtml := true, hardWraps := false } (spellE d) = .ok (expectedE d) :=
  GM.Proof.CMFrag.fragment11_conforms d h uc

/-- the prescribed HTML is `expected` of the spec model on `eembed d` (`Inline.emph` / `Inline.strong` with the `*` choice) -/
theorem fragment11_expected_is_spec (d : EDoc) (h : EFrag d) : expectedE d = expected (eembed d) :=
  GM.Proof.CMFrag.expectedE_eq_expected d h

theorem fragment11_spell_is_spec (d : EDoc) (h : EFrag d) (hb : enoExtraBlanks d = true) (hne : d.items ≠ []) :
    spellE d = spell (eembed d) :=
  GM.Proof.CMFrag.spellE_eq_spell d h hb hne

/-- **Stage-11 conformance stated on the spec model itself.** -/
theorem fragment11_conforms_spec (d : EDoc) (h : EFrag d) (hb : enoExtraBlanks d = true) (hne : d.items ≠ [])
    (uc : List (Nat × (Bool × Bool))) :
    GM.Convert.convertCore uc { unsafe_ := true, xhtml := true, hardWraps := false } (spell (eembed d)) =
      .ok (expected (eembed d)) := by
  rw [← fragment11_spell_is_spec d h hb hne, ← fragment11_expected_is_spec d h]
  exact fragment11_conforms d h uc

/-! ### stage 14: nested block quotes, any depth -/

/-- **Conformance inside `k + 1` nested block quotes, for every `k`.** For every stage-10 document `d` (`QFrag`) and
    every `k`: the source with `"> "` put in front of every line `k + 1` times (`> > > text`; `spellNQ k d`) is converted
    by the model of goldmark's `Convert` to `k + 1` nested `<blockquote>` elements around the stage-6 HTML of `d`. Proof:
    quotesim2's simulation `run_sim` ITERATED (`nest_run`: the class of the simulation is kept by the prefix), with an
    invariant saying which node of the `j`-th run represents which block (`Rep`: its lines lie somewhere in the `j` times
    prefixed source, in order; kept by `NodeRel`), the tree of a store of that shape (`QShapeN`, `treeOf_qshapeN`), and the
    inline phase on lines given by positions. `k = 0` is `fragment10_conforms`. -/
theorem fragment14_conforms (H : BlockPhaseBracketFree) (k : Nat) (d : KDoc) (h : QFrag d)
    (uc : List (Nat × (Bool × Bool))) :
    GM.Convert.convertCore uc { unsafe_ := true, xhtml := true, hardWraps := false } (spellNQ k d) =
      .ok (expectedNQ k d) :=
  GM.Proof.CMFrag.fragmentNQ_conforms H k d h uc

/-- the prescribed HTML is `expected` of the spec model on `k + 1` nested `Block.quote`s around `kembed d` -/
theorem fragment14_expected_is_spec (k : Nat) (d : KDoc) (h : QFrag d) : expectedNQ k d = expected (nqembed k d) :=
  GM.Proof.CMFrag.expectedNQ_eq_expected k d (GM.Proof.CMFrag.qfrag_kfrag d h)

/-! ### stage 12: indented code blocks -/

/-- **Conformance on the stage-12 fragment.** For EVERY document `d` of paragraphs, ATX headings, thematic breaks,
    fenced code blocks (as in stage 6) and INDENTED CODE BLOCKS (one or more lines of four spaces followed by printable
    ASCII text that does not start with a space), where blocks follow each other with or without blank lines as
    CommonMark allows — an indented code block needs a blank line behind a paragraph (4.4: it cannot interrupt a
    paragraph), any block may directly follow an indented code block, and no indented code block follows an indented
    code block (with only blank lines between them they would be ONE block): the model of goldmark's `Convert` on
    `spellIc d` returns exactly the prescribed HTML `expectedI d`. In particular the blank lines behind an indented code
    block — which goldmark first appends to the open block and removes again when it closes the block — never reach the
    output. -/
theorem fragment12_conforms (d : IDoc) (h : IFrag d) (uc : List (Nat × (Bool × Bool))) :
    GM.Convert.convertCore uc { unsafe_ := true, xhtml := true, hardWraps := false } (spellIc d) = .ok (expectedI d) :=
  GM.Proof.CMFrag.fragment12_conforms d h uc

/-- … and the same documents written WITHOUT the line feed of their last line (`trail = 0`, at least one block; the last
    block may be an indented code block whose last line ends the source): the same HTML -/
theorem fragment12_conforms_no_final_newline (d : IDoc) (h : IFragE d) (uc : List (Nat × (Bool × Bool))) :
    GM.Convert.convertCore uc { unsafe_ := true, xhtml := true, hardWraps := false } (spellIcE d) = .ok (expectedI d) :=
  GM.Proof.CMFrag.fragment12_conforms_no_final_newline d h uc

/-- the stage-12 prescribed HTML is `expected` of the spec model on the embedded document (an indented code block is the
    spec model's `Block.icode`) -/
theorem fragment12_expected_is_spec (d : IDoc) (h : IFrag d) : expectedI d = expected (iembed d) :=
  GM.Proof.CMFrag.expectedI_eq_expected d h

/-- … so on every stage-12 source the model of `Convert` returns the HTML of the spec model for the embedded document -/
theorem fragment12_conforms_spec_html (d : IDoc) (h : IFrag d) (uc : List (Nat × (Bool × Bool))) :
    GM.Convert.convertCore uc { unsafe_ := true, xhtml := true, hardWraps := false } (spellIc d) =
      .ok (expected (iembed d)) := by
  rw [← fragment12_expected_is_spec d h]
  exact fragment12_conforms d h uc

/-- a non-empty stage-12 document without extra blank lines — nothing in front / behind, at most one blank line between
    two blocks and exactly one in front of and behind every indented code block (the spec model has no `abut` choice for
    `Block.icode`) — is spelled byte for byte like the embedded document of the spec model -/
theorem fragment12_spell_is_spec (d : IDoc) (h : IFrag d) (hb : inoExtraBlanks d = true) (hne : d.items ≠ []) :
    spellIc d = spell (iembed d) :=
  GM.Proof.CMFrag.spellIc_eq_spell d h hb hne

/-- … so for these documents the statement is entirely in terms of the spec model -/
theorem fragment12_conforms_spec (d : IDoc) (h : IFrag d) (hb : inoExtraBlanks d = true) (hne : d.items ≠ [])
    (uc : List (Nat × (Bool × Bool))) :
    GM.Convert.convertCore uc { unsafe_ := true, xhtml := true, hardWraps := false } (spell (iembed d)) =
      .ok (expected (iembed d)) := by
  rw [← fragment12_spell_is_spec d h hb hne, ← fragment12_expected_is_spec d h]
  exact fragment12_conforms d h uc

/-- stage 6 is the part of stage 12 without indented code blocks -/
theorem fragment12_extends_6 (d : KDoc) : spellIc d.toI = spellK d ∧ expectedI d.toI = expectedK d :=
  ⟨GM.Proof.CMFrag.spellI_toI d, GM.Proof.CMFrag.expectedI_toI d⟩

/-! ### stage 13: the union — every block kind of stage 6 / 7 / 12 with rich lines -/

/-- **Conformance of the union fragment.** For EVERY document `d : UDocS` — paragraphs, ATX headings, thematic breaks,
    fenced code blocks and INDENTED CODE BLOCKS (stage 12: lines of printable ASCII behind four spaces; not directly behind
    a paragraph, and never behind another indented code block, however many blank lines lie between them), abutting where
    CommonMark allows (stage 6), where every paragraph line and every heading text is a RICH line (text in any licensed
    spelling alternating with code spans, `*x*`, `**x**`) and a paragraph line that is not the last may end with a
    backslash HARD BREAK (`UFrag`, decidable): the model of goldmark's `Convert` returns exactly the prescribed HTML.
    This one statement contains stages 1–6, 8, 9, 11 and 12. -/
theorem fragment13_conforms (d : UDocS) (h : UFrag d) (uc : List (Nat × (Bool × Bool))) :
    GM.Convert.convertCore uc { unsafe_ := true, xhtml := true, hardWraps := false } (spellU d) = .ok (expectedU d) :=
  GM.Proof.CMFrag.fragment13_conforms_of GM.Proof.CMFrag.u13InlG_holds d h uc

/-- … written without the final line feed (contains stage 7); here the LAST block is not an indented code block
    (`ulastNotIc`; that case is `fragment12_conforms_no_final_newline`) -/
theorem fragment13_conforms_no_final_newline (d : UDocS) (h : UFragE d) (uc : List (Nat × (Bool × Bool))) :
    GM.Convert.convertCore uc { unsafe_ := true, xhtml := true, hardWraps := false } (spellUE d) = .ok (expectedU d) :=
  GM.Proof.CMFrag.fragment13E_conforms_of GM.Proof.CMFrag.u13InlG_holds d h uc

/-- the prescribed HTML / the source are `expected` / `spell` of the spec model on `uembed d` -/
theorem fragment13_expected_is_spec (d : UDocS) (h : UFrag d) : expectedU d = expected (uembed d) :=
  GM.Proof.CMFrag.expectedU_eq_expected d h

theorem fragment13_spell_is_spec (d : UDocS) (h : UFrag d) (hb : unoExtraBlanks d = true) (hne : d.items ≠ []) :
    spellU d = spell (uembed d) :=
  GM.Proof.CMFrag.spellU_eq_spell d h hb hne

/-- **The union stated on the spec model itself.** -/
theorem fragment13_conforms_spec (d : UDocS) (h : UFrag d) (hb : unoExtraBlanks d = true) (hne : d.items ≠ [])
    (uc : List (Nat × (Bool × Bool))) :
    GM.Convert.convertCore uc { unsafe_ := true, xhtml := true, hardWraps := false } (spell (uembed d)) =
      .ok (expected (uembed d)) := by
  rw [← fragment13_spell_is_spec d h hb hne, ← fragment13_expected_is_spec d h]
  exact fragment13_conforms d h uc

/-- **The union inside `k + 1` nested block quotes** (contains stages 10 and 14 except for the final-line-feed variant):
    for every union document with at least one block whose source has none of `-`, `*`, `+`, a digit, `[`, tab, CR
    (`UQFrag`; so no emphasis atoms — `*` is a possible list marker and outside quotesim2's class) and which has NO
    indented code block, and every `k`. -/
theorem fragment13_conforms_quoted (H : BlockPhaseBracketFree) (k : Nat) (d : UDocS) (h : UQFrag d)
    (uc : List (Nat × (Bool × Bool))) :
    GM.Convert.convertCore uc { unsafe_ := true, xhtml := true, hardWraps := false } (quoteLinesN (k + 1) (spellU d)) =
      .ok (wrapQ (k + 1) (expectedU d)) :=
  GM.Proof.CMFrag.fragment13NQ_conforms_of H GM.Proof.CMFrag.u13InlG_holds k d h uc

/-- for `k = 0` this is `spellUQ d ↦ expectedUQ d`, and `expectedUQ d` is `expected` of the spec model -/
theorem fragment13_quoted_expected_is_spec (d : UDocS) (h : UQFrag d) : expectedUQ d = expected (uqembed d) :=
  GM.Proof.CMFrag.expectedUQ_eq_expected d (GM.Proof.CMFrag.uqfrag_ufrag h)

/-! ### stage 16: inline links -/

/-- **Conformance with inline links.** For EVERY document of paragraphs (`LDoc`) whose lines are text atoms (any licensed
    spelling of every character) alternating with INLINE LINKS `[t](d)` — `t` a non-empty run of ASCII letters and digits,
    `d` a non-empty run of letters, digits and `/`, no title —, each line beginning and ending with text (`LFrag`,
    decidable): the model of goldmark's `Convert` returns exactly the prescribed HTML (`<a href="d">t</a>`). No condition
    on the characters next to the brackets is needed (an escaped `\[`, `\]`, `\!` included). -/
theorem fragment16_conforms (d : LDoc) (h : LFrag d) (uc : List (Nat × (Bool × Bool))) :
    GM.Convert.convertCore uc { unsafe_ := true, xhtml := true, hardWraps := false } (spellL d) = .ok (expectedL d) :=
  GM.Proof.CMFrag.fragment16_conforms d h uc

theorem fragment16_expected_is_spec (d : LDoc) (h : LFrag d) : expectedL d = expected (lembed d) :=
  GM.Proof.CMFrag.expectedL_eq_expected d h

theorem fragment16_spell_is_spec (d : LDoc) (h : LFrag d) (hb : lnoExtraBlanks d = true) (hne : d.items ≠ []) :
    spellL d = spell (lembed d) :=
  GM.Proof.CMFrag.spellL_eq_spell d h hb hne

/-- **Stage-16 conformance stated on the spec model itself.** -/
theorem fragment16_conforms_spec (d : LDoc) (h : LFrag d) (hb : lnoExtraBlanks d = true) (hne : d.items ≠ [])
    (uc : List (Nat × (Bool × Bool))) :
    GM.Convert.convertCore uc { unsafe_ := true, xhtml := true, hardWraps := false } (spell (lembed d)) =
      .ok (expected (lembed d)) := by
  rw [← fragment16_spell_is_spec d h hb hne, ← fragment16_expected_is_spec d h]
  exact fragment16_conforms d h uc

/-! ### stage 17: images -/

/-- **Conformance with images.** As stage 16 with IMAGES `![t](d)` in place of the links (`ImgDoc`, `ImgFrag`): the model of
    goldmark's `Convert` returns `<img src="d" alt="t" />` for every image. -/
theorem fragment17_conforms (d : ImgDoc) (h : ImgFrag d) (uc : List (Nat × (Bool × Bool))) :
    GM.Convert.convertCore uc { unsafe_ := true, xhtml := true, hardWraps := false } (spellImg d) = .ok (expectedImg d) :=
  GM.Proof.CMFrag.fragment17_conforms d h uc

theorem fragment17_expected_is_spec (d : ImgDoc) (h : ImgFrag d) : expectedImg d = expected (imgembed d) :=
  GM.Proof.CMFrag.expectedImg_eq_expected d h

theorem fragment17_spell_is_spec (d : ImgDoc) (h : ImgFrag d) (hb : imgnoExtraBlanks d = true) (hne : d.items ≠ []) :
    spellImg d = spell (imgembed d) :=
  GM.Proof.CMFrag.spellImg_eq_spell d h hb hne

theorem fragment17_conforms_spec (d : ImgDoc) (h : ImgFrag d) (hb : imgnoExtraBlanks d = true) (hne : d.items ≠ [])
    (uc : List (Nat × (Bool × Bool))) :
    GM.Convert.convertCore uc { unsafe_ := true, xhtml := true, hardWraps := false } (spell (imgembed d)) =
      .ok (expected (imgembed d)) := by
  rw [← fragment17_spell_is_spec d h hb hne, ← fragment17_expected_is_spec d h]
  exact fragment17_conforms d h uc

/-! ### stage 18: URI autolinks -/

/-- **Conformance with URI autolinks.** For EVERY document of paragraphs (`ADoc`) whose lines are text atoms alternating
    with AUTOLINKS `<s:r>` — `s` a scheme of 2 to 32 ASCII letters, `r` a non-empty run of letters, digits, `/` and `.` —,
    each line beginning and ending with text (`AFrag`): the model of goldmark's `Convert` returns
    `<a href="s:r">s:r</a>` for every autolink. (A scheme of 33 letters is OUTSIDE the fragment: there goldmark deviates
    from CommonMark 6.5 — see notes/status_cmfrag.md, findings.) -/
theorem fragment18_conforms (d : ADoc) (h : AFrag d) (uc : List (Nat × (Bool × Bool))) :
    GM.Convert.convertCore uc { unsafe_ := true, xhtml := true, hardWraps := false } (spellAD d) = .ok (expectedAD d) :=
  GM.Proof.CMFrag.fragment18_conforms d h uc

theorem fragment18_expected_is_spec (d : ADoc) (h : AFrag d) : expectedAD d = expected (aembed d) :=
  GM.Proof.CMFrag.expectedAD_eq_expected d h

theorem fragment18_spell_is_spec (d : ADoc) (h : AFrag d) (hb : anoExtraBlanks d = true) (hne : d.items ≠ []) :
    spellAD d = spell (aembed d) :=
  GM.Proof.CMFrag.spellAD_eq_spell d h hb hne

theorem fragment18_conforms_spec (d : ADoc) (h : AFrag d) (hb : anoExtraBlanks d = true) (hne : d.items ≠ [])
    (uc : List (Nat × (Bool × Bool))) :
    GM.Convert.convertCore uc { unsafe_ := true, xhtml := true, hardWraps := false } (spell (aembed d)) =
      .ok (expected (aembed d)) := by
  rw [← fragment18_spell_is_spec d h hb hne, ← fragment18_expected_is_spec d h]
  exact fragment18_conforms d h uc

/-! ### stage 19: raw inline HTML tags -/

/-- **Conformance with raw inline HTML.** For EVERY document of paragraphs (`H19Doc`) whose lines are text atoms
    alternating with OPEN TAGS `<n>` and CLOSING TAGS `</n>` (`n` = an ASCII letter followed by letters and digits, no
    attributes), each line beginning and ending with text (`H19Frag`): with `html.WithUnsafe()` the model of goldmark's
    `Convert` passes every tag through verbatim. (The autolink parser, which shares the trigger `<`, declines; names of
    block-level elements — `div`, `pre`, `script` — are harmless in inline position.) -/
theorem fragment19_conforms (d : H19Doc) (h : H19Frag d) (uc : List (Nat × (Bool × Bool))) :
    GM.Convert.convertCore uc { unsafe_ := true, xhtml := true, hardWraps := false } (spellH19 d) = .ok (expectedH19 d) :=
  GM.Proof.CMFrag.fragment19_conforms d h uc

theorem fragment19_expected_is_spec (d : H19Doc) (h : H19Frag d) : expectedH19 d = expected (h19embed d) :=
  GM.Proof.CMFrag.expectedH19_eq_expected d h

theorem fragment19_spell_is_spec (d : H19Doc) (h : H19Frag d) (hb : h19noExtraBlanks d = true) (hne : d.items ≠ []) :
    spellH19 d = spell (h19embed d) :=
  GM.Proof.CMFrag.spellH19_eq_spell d h hb hne

theorem fragment19_conforms_spec (d : H19Doc) (h : H19Frag d) (hb : h19noExtraBlanks d = true) (hne : d.items ≠ [])
    (uc : List (Nat × (Bool × Bool))) :
    GM.Convert.convertCore uc { unsafe_ := true, xhtml := true, hardWraps := false } (spell (h19embed d)) =
      .ok (expected (h19embed d)) := by
  rw [← fragment19_spell_is_spec d h hb hne, ← fragment19_expected_is_spec d h]
  exact fragment19_conforms d h uc

/-! ### stage 20: underscore emphasis -/

/-- **Conformance with `_` emphasis.** For EVERY document of paragraphs (`UnDoc`) whose lines are text atoms alternating
    with `_x_` and `__x__` (x a non-empty run of ASCII letters and digits) such that the SOURCE byte directly in front of
    an opening run and the one directly behind a closing run is not a letter or digit (6.2, rules 2 / 4 / 6 / 8: with
    alphanumeric neighbours `a_b_c` is literal text — the tie checks that too, on non-members) (`UnFrag`): the model of
    goldmark's `Convert` returns `<em>x</em>` / `<strong>x</strong>`. -/
theorem fragment20_conforms (d : UnDoc) (h : UnFrag d) (uc : List (Nat × (Bool × Bool))) :
    GM.Convert.convertCore uc { unsafe_ := true, xhtml := true, hardWraps := false } (spellUn d) = .ok (expectedUn d) :=
  GM.Proof.CMFrag.fragment20_conforms d h uc

theorem fragment20_expected_is_spec (d : UnDoc) (h : UnFrag d) : expectedUn d = expected (unembed d) :=
  GM.Proof.CMFrag.expectedUn_eq_expected d h

theorem fragment20_spell_is_spec (d : UnDoc) (h : UnFrag d) (hb : unnoExtraBlanks d = true) (hne : d.items ≠ []) :
    spellUn d = spell (unembed d) :=
  GM.Proof.CMFrag.spellUn_eq_spell d h hb hne

theorem fragment20_conforms_spec (d : UnDoc) (h : UnFrag d) (hb : unnoExtraBlanks d = true) (hne : d.items ≠ [])
    (uc : List (Nat × (Bool × Bool))) :
    GM.Convert.convertCore uc { unsafe_ := true, xhtml := true, hardWraps := false } (spell (unembed d)) =
      .ok (expected (unembed d)) := by
  rw [← fragment20_spell_is_spec d h hb hne, ← fragment20_expected_is_spec d h]
  exact fragment20_conforms d h uc

/-! ### stage 22: quoted documents of the wider class (digits, `*`, `+`, `-` inside; `*` emphasis inside quotes) -/

/-- **Nested block quotes, wider class.** As `fragment14_conforms`, for every stage-6 document with at least one block
    whose source has no tab, CR, `[` and in which NO LINE ENDS IN `-` OR `=` (up to trailing spaces; `noBarEnd` — no rest of
    a line is a setext underline: quotesim2's class `C08ClassG`, which allows list markers and blank lines) — `GQFrag`,
    decidable. So `***` thematic breaks, digits, `-`, `+`, `*` inside text lines are covered; excluded are `---` breaks and
    lines ending in `-` / `=`. -/
theorem fragment22_conforms (H : BlockPhaseBracketFree) (k : Nat) (d : KDoc) (h : GQFrag d)
    (uc : List (Nat × (Bool × Bool))) :
    GM.Convert.convertCore uc { unsafe_ := true, xhtml := true, hardWraps := false } (spellNQ k d) =
      .ok (expectedNQ k d) :=
  GM.Proof.CMFrag.fragment22_conforms_of H k d h uc

/-- **The union fragment inside `k + 1` nested block quotes, wider class**: now WITH `*` emphasis atoms (`GUQFrag`: a
    union document with at least one block, without indented code blocks, source without tab, CR, `[`, no line ending in
    `-` / `=`). -/
theorem fragment22_conforms_union (H : BlockPhaseBracketFree) (k : Nat) (d : UDocS) (h : GUQFrag d)
    (uc : List (Nat × (Bool × Bool))) :
    GM.Convert.convertCore uc { unsafe_ := true, xhtml := true, hardWraps := false } (quoteLinesN (k + 1) (spellU d)) =
      .ok (wrapQ (k + 1) (expectedU d)) :=
  GM.Proof.CMFrag.fragment22U_conforms_of H GM.Proof.CMFrag.u13InlG_holds k d h uc

/-! ### stage 21: the union with ALL inline atoms in its rich lines -/

/-- **Conformance of the full union.** For EVERY document `d : F21Doc` — paragraphs, ATX headings, thematic breaks, fenced
    and indented code blocks, abutting where CommonMark allows (stages 6, 12) — where every paragraph line and every heading
    text is a rich line whose non-text atoms are, IN ANY MIX, code spans, `*x*` / `**x**`, `_x_` / `__x__` (the source bytes
    outside an underscore run not alphanumeric), inline links `[t](d)`, images `![t](d)`, URI autolinks `<s:r>`, raw tags
    `<n>` / `</n>`, and a paragraph line that is not the last may end with a backslash hard break (`F21Frag`, decidable):
    the model of goldmark's `Convert` returns exactly the prescribed HTML. Contains stages 1–9, 11–13, 16–20. (Emphasis
    delimiters stay pending across links / images until the end of the block: `link_step21`, `processDelimiters_rawS21`.) -/
theorem fragment21_conforms (d : F21Doc) (h : F21Frag d) (uc : List (Nat × (Bool × Bool))) :
    GM.Convert.convertCore uc { unsafe_ := true, xhtml := true, hardWraps := false } (spellF21 d) = .ok (expectedF21 d) :=
  GM.Proof.CMFrag.fragment21_conforms d h uc

/-- … written without the final line feed (the last block not an indented code block) -/
theorem fragment21_conforms_no_final_newline (d : F21Doc) (h : F21FragE d) (uc : List (Nat × (Bool × Bool))) :
    GM.Convert.convertCore uc { unsafe_ := true, xhtml := true, hardWraps := false } (spellF21E d) = .ok (expectedF21 d) :=
  GM.Proof.CMFrag.fragment21E_conforms d h uc

theorem fragment21_expected_is_spec (d : F21Doc) (h : F21Frag d) : expectedF21 d = expected (f21embed d) :=
  GM.Proof.CMFrag.expectedF21_eq_expected d h

theorem fragment21_spell_is_spec (d : F21Doc) (h : F21Frag d) (hb : f21noExtraBlanks d = true) (hne : d.items ≠ []) :
    spellF21 d = spell (f21embed d) :=
  GM.Proof.CMFrag.spellF21_eq_spell d h hb hne

/-- **The full union stated on the spec model itself.** -/
theorem fragment21_conforms_spec (d : F21Doc) (h : F21Frag d) (hb : f21noExtraBlanks d = true) (hne : d.items ≠ [])
    (uc : List (Nat × (Bool × Bool))) :
    GM.Convert.convertCore uc { unsafe_ := true, xhtml := true, hardWraps := false } (spell (f21embed d)) =
      .ok (expected (f21embed d)) := by
  rw [← fragment21_spell_is_spec d h hb hne, ← fragment21_expected_is_spec d h]
  exact fragment21_conforms d h uc

/-! ### stage 23: the full union inside nested block quotes -/

/-- **The full union inside `k + 1` nested block quotes** (`GF21QFrag`: at least one block, no indented code block, source
    without tab, CR, `[` — so no link / image atoms —, no line ending in `-` / `=`): autolinks, raw tags, code spans, `*` and
    `_` emphasis, hard breaks inside quotes of any depth. -/
theorem fragment23_conforms (H : BlockPhaseBracketFree) (k : Nat) (d : F21Doc) (h : GF21QFrag d)
    (uc : List (Nat × (Bool × Bool))) :
    GM.Convert.convertCore uc { unsafe_ := true, xhtml := true, hardWraps := false }
      (quoteLinesN (k + 1) (spellF21 d)) = .ok (wrapQ (k + 1) (expectedF21 d)) :=
  GM.Proof.CMFrag.fragment23_conforms_of H k d h uc

/-! ### what is NOT proved yet (statements only): the next stages of the fragment -/

/-- remainder (open): ATX closing sequences, spaced thematic breaks, leading indentation 1–3, info strings with other
    characters, longer closing fences, unclosed fences; setext headings (the orphaned paragraph node changes the shape of the
    node store the block-phase proofs write out), blank lines inside indented code blocks, lists, HTML blocks, link reference definitions;
    inline: links with titles / angle destinations / reference links, images with titles, e-mail autolinks, raw HTML with attributes / comments, the inline atoms of stages 16–20 together with those of the union, nested emphasis, code spans with spaces or longer backtick
    runs, hard breaks by trailing spaces; block quotes with lazy continuation lines or without the space behind `>`,
    quoted documents containing `-`, `*`, `+`, digits or `[` (outside the classes of quotesim2 / e2e). The full statement
    stays the searched one: for every well-formed document of
    GM.Spec.CommonMark written without tabs (with tabs goldmark deviates: KNOWN_FINDINGS, notes/status_C02.md),
    `convertCore (spell d) = expected d` up to the line feed in front of `</blockquote>`, `</li>` (component
    `cmspec` compares after that normalisation; on the fragment no normalisation is needed). NOT a theorem. -/
def SpacesOnlyConformance : Prop :=
  ∀ d : Doc, wellFormed d = true → d.tabMode = 0 → d.tabQuote = 0 → d.tabQuoteD = 0 → d.tabList = 0 → ∀ uc,
    (GM.Convert.convertCore uc { unsafe_ := true, xhtml := true, hardWraps := false } (spell d)).map normalise =
      .ok (normalise (expected d))

/-! ### non-vacuity and tests (examples on literals are tests, not theorems) -/

/-- a concrete 3-block document: `Hello w&ouml;…` -/
def sample : FDoc :=
  { items := [
      { gap := 1, block := .para [[⟨72, .lit⟩, ⟨105, .lit⟩, ⟨32, .lit⟩, ⟨60, .named⟩, ⟨120, .lit⟩],
                                   [⟨97, .lit⟩, ⟨42, .bs⟩, ⟨98, .lit⟩]] },
      { gap := 0, block := .para [[⟨99, .lit⟩, ⟨38, .dec 2⟩, ⟨34, .lit⟩, ⟨100, .lit⟩]] },
      { gap := 2, block := .para [[⟨101, .lit⟩]] } ],
    trail := 1 }

-- test: the sample is in the fragment
example : Frag sample := by decide
-- test: its source: blank line, `Hi &lt;x`, `a\*b`, blank, `c&#0038;"d`, three blank lines, `e`, blank line
example : spellF sample = strBytes "\nHi &lt;x\na\\*b\n\nc&#0038;\"d\n\n\n\ne\n\n" := by decide +kernel
-- test: its prescribed HTML
example : expectedF sample = strBytes "<p>Hi &lt;x\na*b</p>\n<p>c&amp;&quot;d</p>\n<p>e</p>\n" := by decide +kernel
-- test: the theorem on the sample
example : GM.Convert.convertCore [] { unsafe_ := true, xhtml := true, hardWraps := false } (spellF sample) =
    .ok (expectedF sample) := fragment_conforms sample (by decide) []
-- test: hypotheses of the spec-model form are satisfiable
example : Frag { items := [{ block := .para [[⟨97, .lit⟩]] }] } ∧
    noExtraBlanks { items := [{ block := .para [[⟨97, .lit⟩]] }] } = true := by decide
-- test: a stage-4 document (heading, thematic break, paragraph) is in the fragment; source and prescribed HTML
def sample4 : GDoc :=
  { items := [ { block := .heading 2 [⟨84, .lit⟩, ⟨35, .bs⟩, ⟨49, .lit⟩] }, { gap := 1, block := .thematic 1 0 },
               { block := .para [[⟨97, .lit⟩], [⟨98, .lit⟩]] } ], trail := 0 }
example : GFrag sample4 := by decide
example : spellG sample4 = strBytes "## T\\#1\n\n\n---\n\na\nb\n" := by decide +kernel
example : expectedG sample4 = strBytes "<h2>T#1</h2>\n<hr />\n<p>a\nb</p>\n" := by decide +kernel
example : GM.Convert.convertCore [] { unsafe_ := true, xhtml := true, hardWraps := false } (spellG sample4) =
    .ok (expectedG sample4) := fragment4_conforms sample4 (by decide) []
-- test: a stage-5 document (fenced code with info, paragraph, fenced code without content)
def sample5 : HDoc :=
  { items := [ { block := .fcode false 0 [103, 111] [[120, 60, 121], [], [35, 32, 122]] },
               { block := .base (.para [[⟨97, .lit⟩]]) }, { gap := 1, block := .fcode true 1 [] [] } ], trail := 0 }
example : HFrag sample5 := by decide
example : spellH sample5 = strBytes "```go\nx<y\n\n# z\n```\n\na\n\n\n~~~~\n~~~~\n" := by decide +kernel
example : expectedH sample5 =
    strBytes "<pre><code class=\"language-go\">x&lt;y\n\n# z\n</code></pre>\n<p>a</p>\n<pre><code></code></pre>\n" := by
  decide +kernel
example : GM.Convert.convertCore [] { unsafe_ := true, xhtml := true, hardWraps := false } (spellH sample5) =
    .ok (expectedH sample5) := fragment5_conforms sample5 (by decide) []
-- test: plain text in bytes
example : plainText (strBytes "Hello  world 42") = true := by decide +kernel
example : GM.Convert.convertCore [] { unsafe_ := true, xhtml := true, hardWraps := false } (strBytes "Hello  world 42" ++ [10]) =
    .ok (strBytes "<p>" ++ strBytes "Hello  world 42" ++ strBytes "</p>\n") :=
  plain_line_conforms _ (by decide +kernel) []
-- test: a stage-6 document: heading, paragraph directly behind it, `***` directly behind the paragraph, fence directly
-- behind that, paragraph directly behind the closed fence, blank line, heading directly interrupted … (all abutting)
def sample6 : KDoc :=
  { items := [ { sep := 0, block := .base (.heading 1 [⟨84, .lit⟩]) },
               { sep := 0, block := .base (.para [[⟨97, .lit⟩], [⟨98, .lit⟩]]) },
               { sep := 0, block := .base (.thematic 0 0) },
               { sep := 0, block := .fcode false 0 [] [[120]] },
               { sep := 0, block := .base (.para [[⟨99, .lit⟩]]) },
               { sep := 0, block := .base (.heading 2 [⟨100, .lit⟩]) },
               { sep := 2, block := .base (.thematic 1 1) } ], trail := 1 }
example : KFrag sample6 := by decide
example : spellK sample6 = strBytes "# T\na\nb\n***\n```\nx\n```\nc\n## d\n\n\n----\n\n" := by decide +kernel
example : expectedK sample6 =
    strBytes "<h1>T</h1>\n<p>a\nb</p>\n<hr />\n<pre><code>x\n</code></pre>\n<p>c</p>\n<h2>d</h2>\n<hr />\n" := by
  decide +kernel
example : GM.Convert.convertCore [] { unsafe_ := true, xhtml := true, hardWraps := false } (spellK sample6) =
    .ok (expectedK sample6) := fragment6_conforms sample6 (by decide) []
-- test: a paragraph directly followed by `---` or by a text line is NOT in the fragment
example : ¬ KFrag { items := [ { block := .base (.para [[⟨97, .lit⟩]]) }, { sep := 0, block := .base (.thematic 1 0) } ] } := by
  decide
-- test: stage 7 on a document ending in a closing fence without line feed, directly behind a paragraph
def sample7 : KDoc :=
  { items := [ { sep := 1, block := .base (.para [[⟨97, .lit⟩]]) }, { sep := 0, block := .fcode false 0 [103, 111] [[120]] } ] }
example : KFragE sample7 := by decide
example : spellKE sample7 = strBytes "\na\n```go\nx\n```" := by decide +kernel
example : GM.Convert.convertCore [] { unsafe_ := true, xhtml := true, hardWraps := false } (spellKE sample7) =
    .ok (expectedK sample7) := fragment7_conforms sample7 (by decide) []
-- tests (kernel-evaluated) of why the two exclusions are needed: in the model, as in CommonMark, `---` directly under a
-- paragraph makes a setext heading (4.3) and a text line directly under a paragraph continues it (4.8)
def okIs (r : Except GM.Convert.Err Bytes) (b : Bytes) : Bool := match r with | .ok x => x == b | .error _ => false
example : okIs (GM.Convert.convertCore [] { unsafe_ := true, xhtml := true, hardWraps := false } (strBytes "a\n---\n"))
    (strBytes "<h2>a</h2>\n") = true := by decide +kernel
example : okIs (GM.Convert.convertCore [] { unsafe_ := true, xhtml := true, hardWraps := false } (strBytes "a\nb\n"))
    (strBytes "<p>a\nb</p>\n") = true := by decide +kernel
-- test: stage 8 — two code spans touching the text, a second line
def sample8 : RDoc :=
  { items := [ { lines := [[.txt [⟨97, .lit⟩], .code [120], .txt [⟨98, .lit⟩, ⟨32, .lit⟩], .code [121, 49], .txt [⟨99, .lit⟩]],
                           [.txt [⟨100, .lit⟩]]] } ] }
example : RFrag sample8 := by decide
example : spellR sample8 = strBytes "a`x`b `y1`c\nd\n" := by decide +kernel
example : expectedR sample8 = strBytes "<p>a<code>x</code>b <code>y1</code>c\nd</p>\n" := by decide +kernel
example : GM.Convert.convertCore [] { unsafe_ := true, xhtml := true, hardWraps := false } (spellR sample8) =
    .ok (expectedR sample8) := fragment8_conforms sample8 (by decide) []
-- test: stage 9 — a hard and a soft break
def sample9 : BDoc :=
  { items := [ { lines := [⟨[⟨97, .lit⟩], true⟩, ⟨[⟨98, .lit⟩], false⟩, ⟨[⟨99, .lit⟩], false⟩] } ] }
example : BFrag sample9 := by decide
example : spellBD sample9 = strBytes "a\\\nb\nc\n" := by decide +kernel
example : expectedBD sample9 = strBytes "<p>a<br />\nb\nc</p>\n" := by decide +kernel
example : GM.Convert.convertCore [] { unsafe_ := true, xhtml := true, hardWraps := false } (spellBD sample9) =
    .ok (expectedBD sample9) := fragment9_conforms sample9 (by decide) []
-- test: stage 10 — heading, paragraph, fence, `___` inside a quote
def sample10 : KDoc :=
  { items := [ { sep := 0, block := .base (.heading 1 [⟨84, .lit⟩]) },
               { sep := 0, block := .base (.para [[⟨97, .lit⟩], [⟨98, .lit⟩]]) },
               { sep := 0, block := .fcode false 0 [] [[120]] },
               { sep := 1, block := .base (.thematic 2 0) } ] }
example : QFrag sample10 := by decide
example : spellQ sample10 = strBytes "> # T\n> a\n> b\n> ```\n> x\n> ```\n> \n> ___\n" := by decide +kernel
example : expectedQ sample10 =
    strBytes "<blockquote>\n<h1>T</h1>\n<p>a\nb</p>\n<pre><code>x\n</code></pre>\n<hr />\n</blockquote>\n" := by decide +kernel
example : okIs (GM.Convert.convertCore [] { unsafe_ := true, xhtml := true, hardWraps := false } (spellQ sample10))
    (expectedQ sample10) = true := by decide +kernel
-- test: stage 11 — emphasis touching text, strong, a code span
def sample11 : EDoc :=
  { items := [ { lines := [[.txt [⟨97, .lit⟩], .em [98], .txt [⟨99, .lit⟩, ⟨32, .lit⟩], .strong [100], .txt [⟨46, .lit⟩], .code [120],
                            .txt [⟨101, .lit⟩]]] } ] }
example : EFrag sample11 := by decide
example : spellE sample11 = strBytes "a*b*c **d**.`x`e\n" := by decide +kernel
example : expectedE sample11 = strBytes "<p>a<em>b</em>c <strong>d</strong>.<code>x</code>e</p>\n" := by decide +kernel
example : GM.Convert.convertCore [] { unsafe_ := true, xhtml := true, hardWraps := false } (spellE sample11) =
    .ok (expectedE sample11) := fragment11_conforms sample11 (by decide) []
-- test: stage 14 — three nested quotes
example : spellNQ 2 sample10 =
    strBytes "> > > # T\n> > > a\n> > > b\n> > > ```\n> > > x\n> > > ```\n> > > \n> > > ___\n" := by decide +kernel
example : okIs (GM.Convert.convertCore [] { unsafe_ := true, xhtml := true, hardWraps := false } (spellNQ 2 sample10))
    (expectedNQ 2 sample10) = true := by decide +kernel
-- test: stage 13 — heading with a code span, paragraph with emphasis and a hard break, fence directly behind it,
-- indented code block directly behind the closed fence
def sample13 : UDocS :=
  { items := [ { sep := 0, block := .heading 2 [.txt [⟨97, .lit⟩, ⟨32, .lit⟩], .code [120], .txt [⟨32, .lit⟩, ⟨98, .lit⟩]] },
               { sep := 0, block := .para [⟨[.txt [⟨99, .lit⟩], .em [100], .txt [⟨101, .lit⟩]], true⟩, ⟨[.txt [⟨102, .lit⟩]], false⟩] },
               { sep := 0, block := .fcode false 0 [] [[121]] },
               { sep := 0, block := .icode [[60, 122]] } ] }
example : UFrag sample13 := by decide
example : spellU sample13 = strBytes "## a `x` b\nc*d*e\\\nf\n```\ny\n```\n    <z\n" := by decide +kernel
example : expectedU sample13 =
    strBytes "<h2>a <code>x</code> b</h2>\n<p>c<em>d</em>e<br />\nf</p>\n<pre><code>y\n</code></pre>\n<pre><code>&lt;z\n</code></pre>\n" := by decide +kernel
example : GM.Convert.convertCore [] { unsafe_ := true, xhtml := true, hardWraps := false } (spellU sample13) =
    .ok (expectedU sample13) := fragment13_conforms sample13 (by decide) []
-- test: stage 16 — two links, one touching the text
def sample16 : LDoc :=
  { items := [ { lines := [[.txt [⟨97, .lit⟩, ⟨32, .lit⟩], .link [98] [47, 99], .txt [⟨100, .lit⟩], .link [101, 102] [103], .txt [⟨46, .lit⟩, ⟨104, .lit⟩]]] } ] }
example : LFrag sample16 := by decide
example : spellL sample16 = strBytes "a [b](/c)d[ef](g).h\n" := by decide +kernel
example : expectedL sample16 = strBytes "<p>a <a href=\"/c\">b</a>d<a href=\"g\">ef</a>.h</p>\n" := by decide +kernel
example : GM.Convert.convertCore [] { unsafe_ := true, xhtml := true, hardWraps := false } (spellL sample16) =
    .ok (expectedL sample16) := fragment16_conforms sample16 (by decide) []
-- test: stage 12 — paragraph, blank line, indented code (two lines), blank lines, heading, indented code directly
-- behind it, fence directly behind that, indented code directly behind the closed fence, `***` directly behind it
def sample12 : IDoc :=
  { items := [ { sep := 0, block := .h (.base (.para [[⟨97, .lit⟩]])) },
               { sep := 1, block := .icode [[120, 60, 121], [45, 32, 122]] },
               { sep := 2, block := .h (.base (.heading 2 [⟨104, .lit⟩])) },
               { sep := 0, block := .icode [[35, 32, 113]] },
               { sep := 0, block := .h (.fcode false 0 [] []) },
               { sep := 0, block := .icode [[107]] },
               { sep := 0, block := .h (.base (.thematic 0 0)) } ], trail := 2 }
example : IFrag sample12 := by decide
example : spellIc sample12 = strBytes "a\n\n    x<y\n    - z\n\n\n## h\n    # q\n```\n```\n    k\n***\n\n\n" := by
  decide +kernel
example : expectedI sample12 = strBytes ("<p>a</p>\n<pre><code>x&lt;y\n- z\n</code></pre>\n<h2>h</h2>\n" ++
    "<pre><code># q\n</code></pre>\n<pre><code></code></pre>\n<pre><code>k\n</code></pre>\n<hr />\n") := by
  decide +kernel
example : GM.Convert.convertCore [] { unsafe_ := true, xhtml := true, hardWraps := false } (spellIc sample12) =
    .ok (expectedI sample12) := fragment12_conforms sample12 (by decide) []
-- test: stage 12 without final line feed, ending in an indented code block
def sample12E : IDoc :=
  { items := [ { sep := 0, block := .h (.base (.heading 1 [⟨84, .lit⟩])) }, { sep := 0, block := .icode [[120], [121, 32]] } ] }
example : IFragE sample12E := by decide
example : spellIcE sample12E = strBytes "# T\n    x\n    y " := by decide +kernel
example : expectedI sample12E = strBytes "<h1>T</h1>\n<pre><code>x\ny \n</code></pre>\n" := by decide +kernel
example : GM.Convert.convertCore [] { unsafe_ := true, xhtml := true, hardWraps := false } (spellIcE sample12E) =
    .ok (expectedI sample12E) := fragment12_conforms_no_final_newline sample12E (by decide) []
-- test: an indented line directly under a paragraph, and two indented code blocks behind each other, are NOT in the
-- fragment
example : ¬ IFrag { items := [ { block := .h (.base (.para [[⟨97, .lit⟩]])) }, { sep := 0, block := .icode [[120]] } ] } := by
  decide
example : ¬ IFrag { items := [ { block := .icode [[120]] }, { sep := 2, block := .icode [[121]] } ] } := by decide
-- test: stage 17 / 18 — an image, an autolink
def sample17 : ImgDoc := { items := [ { lines := [[.txt [⟨97, .lit⟩], .img [98] [47, 99], .txt [⟨100, .lit⟩]]] } ] }
example : ImgFrag sample17 := by decide
example : spellImg sample17 = strBytes "a![b](/c)d\n" := by decide +kernel
example : expectedImg sample17 = strBytes "<p>a<img src=\"/c\" alt=\"b\" />d</p>\n" := by decide +kernel
example : GM.Convert.convertCore [] { unsafe_ := true, xhtml := true, hardWraps := false } (spellImg sample17) =
    .ok (expectedImg sample17) := fragment17_conforms sample17 (by decide) []
def sample18 : ADoc := { items := [ { lines := [[.txt [⟨97, .lit⟩, ⟨32, .lit⟩], .auto [104, 116, 116, 112] [47, 47, 120, 46, 121], .txt [⟨46, .lit⟩, ⟨98, .lit⟩]]] } ] }
example : AFrag sample18 := by decide
example : spellAD sample18 = strBytes "a <http://x.y>.b\n" := by decide +kernel
example : expectedAD sample18 = strBytes "<p>a <a href=\"http://x.y\">http://x.y</a>.b</p>\n" := by decide +kernel
example : GM.Convert.convertCore [] { unsafe_ := true, xhtml := true, hardWraps := false } (spellAD sample18) =
    .ok (expectedAD sample18) := fragment18_conforms sample18 (by decide) []
-- test: stage 19 / 20
def sample19 : H19Doc := { items := [ { lines := [[.txt [⟨97, .lit⟩, ⟨32, .lit⟩], .open [98], .txt [⟨99, .lit⟩], .close [98], .txt [⟨32, .lit⟩, ⟨100, .lit⟩]]] } ] }
example : H19Frag sample19 := by decide
example : spellH19 sample19 = strBytes "a <b>c</b> d\n" := by decide +kernel
example : GM.Convert.convertCore [] { unsafe_ := true, xhtml := true, hardWraps := false } (spellH19 sample19) =
    .ok (expectedH19 sample19) := fragment19_conforms sample19 (by decide) []
def sample20 : UnDoc := { items := [ { lines := [[.txt [⟨97, .lit⟩, ⟨32, .lit⟩], .em [98], .txt [⟨32, .lit⟩, ⟨99, .lit⟩, ⟨40, .lit⟩], .strong [100], .txt [⟨41, .lit⟩, ⟨101, .lit⟩]]] } ] }
example : UnFrag sample20 := by decide
example : spellUn sample20 = strBytes "a _b_ c(__d__)e\n" := by decide +kernel
example : expectedUn sample20 = strBytes "<p>a <em>b</em> c(<strong>d</strong>)e</p>\n" := by decide +kernel
example : GM.Convert.convertCore [] { unsafe_ := true, xhtml := true, hardWraps := false } (spellUn sample20) =
    .ok (expectedUn sample20) := fragment20_conforms sample20 (by decide) []
example : ¬ UnFrag { items := [ { lines := [[.txt [⟨97, .lit⟩], .em [98], .txt [⟨99, .lit⟩]]] } ] } := by decide
-- test: stage 22 — digits, `*`, `-` inside the text and a `***` break inside two quotes
def sample22 : KDoc :=
  { items := [ { sep := 0, block := .base (.para [[⟨97, .lit⟩, ⟨49, .lit⟩, ⟨32, .lit⟩, ⟨45, .lit⟩, ⟨32, .lit⟩, ⟨42, .bs⟩, ⟨98, .lit⟩]]) },
               { sep := 0, block := .base (.thematic 0 0) } ] }
example : GQFrag sample22 := by decide
example : ¬ QFrag sample22 := by decide
example : spellNQ 1 sample22 = strBytes "> > a1 - \\*b\n> > ***\n" := by decide +kernel
example : okIs (GM.Convert.convertCore [] { unsafe_ := true, xhtml := true, hardWraps := false } (spellNQ 1 sample22))
    (expectedNQ 1 sample22) = true := by decide +kernel
-- test: a good line
example : GoodLine [97, 32, 98] := fragment_lines_quiet [⟨97, .lit⟩, ⟨32, .lit⟩, ⟨98, .lit⟩] (by decide)

end GM.Props.C02Frag
