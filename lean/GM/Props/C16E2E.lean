/-
  C16, end to end — "With the Footnote extension, in every rendered document the footnote items are numbered consecutively
  from 1 in the order they are listed, every footnote reference shows the number of, and links to, exactly one rendered item,
  every back-link of a rendered item points to a reference that exists in the output, all generated ids are distinct, and a
  definition that is never referenced produces no output."

  GM.Props.C16 proves the six clauses for the footnote code's numbering / cross-linking over an ABSTRACTION of one parse
  (definition labels in `Close` order, reference events in inline-phase order), which the harness used to OBSERVE on the real
  parse with probes. This file puts the rest of the path inside the composed, executable model of `goldmark.Convert`:
  `GM.ConvertF.convertF true pre` (lean/GM/Model/ConvertF.lean, lean/GM/Model/ExtFootnoteX.lean) is `GM.Convert.convertCore`
  with what `extension.Footnote` registers — the block parser (Open / Continue / Close, the FootnoteList in the parse context,
  inserted in front of the outermost Footnote ancestor), the inline parser in front of the link parser (`[^label]`, the `!`
  quirk), the AST transformer (a total function on the tree over GM.Footnote.transform) and FootnoteHTMLRenderer. It is tied to
  the real `goldmark.New(WithExtensions(extension.Footnote), …).Convert` by component `convertf`: HTML byte for byte AND the
  abstraction `(labels, events)` the model computes against the one the probes observe. All theorems are for EVERY byte string
  `src` (every Unicode class assignment `uc`, renderer option set `o`, id prefix `pre`).

  Proved without hypothesis: off = `convertCore` (`convertf_off_is_core`); the abstraction C16 speaks about is read off the
  concrete parse — labels = the `Ref`s of the list's children, one event per FootnoteLink node of the tree in front of the
  transformer, and the tree the renderer gets is the transformer applied to GM.Footnote.transform OF THAT ABSTRACTION
  (`convertf_events_are_abstraction`, with `footnote_link_resolves`, `footnote_label_resolution`); that abstraction satisfies the
  six clauses (`convertf_abstraction_consistent`); the decline paths on the concrete parsers (`footnote_open_declines_concrete`,
  `footnote_inline_declines_concrete`, `footnote_transformer_without_list_concrete`); C11 at whole-document level.
  `convertf_tree_shows_abstraction`: EVERY tree in front of the transformer that satisfies the AST well-formedness (S)
  (`shapeOKB`: one FootnoteList, its children the definitions 0…n−1 in order, no Footnote elsewhere, FootnoteLinks are leaves
  pointing at definitions, no FootnoteBacklink yet, root = Document) is turned by `finishDoc` into a tree whose items /
  references, read in output order, are exactly `GM.Footnote.render` of its abstraction.
  Proved relative to a named, decidable or stated, hypothesis: the six clauses for the ids / hrefs / numbers IN THE TREE the
  renderer receives (`convertf_footnotes_consistent`: hypothesis (S) for the parse of the source, `shapeOK` — decidable,
  evaluated by the tie on every document, flag `c1`; never false); no fuel exhaustion (`convertf_never_loops_of`: hypotheses
  `BlockNoLoopF`, `InlineNoLoopF`; unconditional with the extension off, `convertf_never_loops_partial`).

  ROUNDS 2–3. (S) holds of the parse of EVERY source (`shape_always_ok`), so the six clauses hold of the tree the renderer
  receives for every document `convertF` converts (`convertf_footnotes_consistent_unconditional`). (S) holds by construction
  of the composed model: its footnote DOMAIN MONITORS (not Go code) answer `pre` for the stores / inline results Go never
  builds. THAT NO MONITOR EVER FIRES IS A THEOREM, for every byte string (`monitors_never_fire`):
  * the store of the `MF` block driver is tree-shaped and the footnote context names existing nodes other than node 0
    (`convertf_store_wellformed`); the walk meets the FootnoteList at most once, node 0 is the plain Document
    (`convertf_block_monitor_never_fires`);
  * every FootnoteLink of the inline phase points at a definition of the list (`convertf_inline_links_resolve`);
  * the CLOSE DISCIPLINE of the driver (`convertf_close_discipline`: at the end the open-block stack is empty; every
    `*ast.Footnote` and the list have their store kind, no node of that kind has lines, every child edge to a Footnote comes from
    the list) and with it `footnotes_all_filed`: no Footnote outside the list, none (and no list) below a definition, the list
    reached with fuel, no lines on Footnote / list.
  A child of the FootnoteList that is no Footnote is NOT a monitor: the model mirrors the panic of the transformer's type
  assertion (footnote.go:251; tag `alien`, outcome `value assert`).
  Stated, not proved: `ConvertFNeverLoops` (`BlockNoLoopF`, `InlineNoLoopF`).
-/
import GM.Proof.ConvertFMain
import GM.Proof.ConvertFCons2
import GM.Proof.ConvertFShape
import GM.Proof.ConvertFOnce
import GM.Proof.ConvertFLinks
import GM.Proof.ConvertFFiled
import GM.Proof.ConvertFNoPre
import GM.Proof.ConvertFAnchor

namespace GM.Props.C16E2E
open GM GM.Text GM.Convert GM.ConvertF

/-- the tree `convertF` renders is the one `parseDocF` returns (definitional) -/
theorem convertf_renders_parsed_tree (on : Bool) (pre : Option Bytes) (uc : List (Nat × (Bool × Bool))) (o : ROpts) (src : Bytes) :
    convertF on pre uc o src = (parseDocF on true uc src >>= renderDocF on pre o) := rfl

/-- **Without the extension the model is `convertCore`** (guarded and unguarded): the copied block driver with the footnote
    state layer erased is the driver of GM.Convert (no Footnote is ever opened: the layer stays empty), every tag is plain,
    the trigger table is the default one, no FootnoteLink is decoded, the transformer finds no list, and the node renderers'
    state is the core's. -/
theorem convertf_off_is_core (pre : Option Bytes) (uc : List (Nat × (Bool × Bool))) (o : ROpts) (src : Bytes) :
    convertF false pre uc o src = convertCore uc o src ∧ convertFUnguarded false pre uc o src = convertUnguarded uc o src :=
  ⟨convertFWith_off true pre uc o src, convertFWith_off false pre uc o src⟩

/-- the block phase with the block parser not registered is GM.Blocks.runT and leaves no footnote state -/
theorem convertf_off_block_phase (guard : Bool) (src : Bytes) :
    blockPhaseF false guard src = (blockPhase guard src).map fun st => ({}, st) :=
  runF_off (paragraphTransformers guard) src

/-! ### fuel -/

/-- FULL STATEMENT (not proved): `convertF true` never ends in `blocks loop` / `inlines loop`. What is missing are the two
    hypotheses of `convertf_never_loops_of`: `BlockNoLoopF` — the `Pres`/`Tr` calculus of GM.Proof.BlocksT carried over to the
    driver in `MF` with one more container parser (`fnOpen` consumes ≥ 4 bytes: the retry measure decreases; `fnContinue` /
    `fnClose` only call reader primitives and tree surgery; `anchorLoop`'s fuel needs the store's parent pointers acyclic) —
    and `InlineNoLoopF` — the contract of GM.Proof.InlinesLoopTotal for `parseFootnote` (a returned node consumed ≥ 3 bytes;
    blocked, as for gfmx's members, by the ENCODING: `wf` demands emphasis levels 1–2). -/
def ConvertFNeverLoops : Prop :=
  ∀ (pre : Option Bytes) (uc : List (Nat × (Bool × Bool))) (o : ROpts) (src : Bytes) (e : Err),
    convertF true pre uc o src = .error e → e.isLoop = false

/-- **No fuel exhaustion, relative to the two phase loops**: when the block phase with the footnote block parser and the
    inline loop over the table with the footnote parser never exhaust their fuel, `convertF true` never does (the
    transformer is a total function; the renderer has no fuel). -/
theorem convertf_never_loops_of (hB : BlockNoLoopF) (hI : InlineNoLoopF) : ConvertFNeverLoops :=
  fun pre uc o src _ h => convertF_noLoop_of hB hI pre uc o src h

/-- with the extension off: never, unconditionally (it is `convertCore`) -/
theorem convertf_never_loops_partial (pre : Option Bytes) (uc : List (Nat × (Bool × Bool))) (o : ROpts) (src : Bytes) (e : Err)
    (h : convertF false pre uc o src = .error e) : e.isLoop = false := by
  rw [(convertf_off_is_core pre uc o src).1] at h
  exact GM.Proof.ConvertTotal.convertCore_noLoop uc o src h

/-! ### the abstraction -/

/-- **The abstraction GM.Props.C16 speaks about is what the concrete model produces.** For every source on which the two
    parse phases return (block-phase state `(f, st)`, tree `t` in front of the AST transformer):
    (1) `absOf` answers `labels` = the `Ref`s of the FootnoteList's children in the final node store (the definitions in the
        order `Close` appended them) and `events` = one event per FootnoteLink node of `t` in document order (= creation
        order), each with the label of the definition it resolved to, `dropped` = it lies below an Image, `host` = the
        Footnote that encloses it;
    (2) the document the renderer receives is the transformer `finishDoc` applied to `GM.Footnote.transform labels events` —
        the very function `footnote_consistent` is about — with `if list == nil return` decided by the parse context;
    (3) `convertF` renders exactly that document.
    This replaces the probes' OBSERVATION of (labels, events) by the model's computation; the tie (component `convertf`)
    compares the two on every document. -/
theorem convertf_events_are_abstraction (guard : Bool) (pre : Option Bytes) (uc : List (Nat × (Bool × Bool))) (o : ROpts)
    (src : Bytes) (f : FS) (st : GM.Blocks.St) (t : GM.Node) (h : parsePhases true guard uc src = .ok (f, st, t)) :
    let labels := (listKids f st).map f.refOf
    let evs := (evNode false none t).map (RawEv.event labels)
    absOf true guard uc src = .ok (labels, evs) ∧
    parseDocF true guard uc src = .ok (finishDoc f.list.isSome (GM.Footnote.transform labels evs) t) ∧
    convertFWith true guard pre uc o src = renderDocF true pre o (finishDoc f.list.isSome (GM.Footnote.transform labels evs) t) := by
  refine ⟨?_, ?_, ?_⟩
  · simp only [absOf, h, bind, Except.bind, pure, Except.pure, labelsOf, events]
  · simp only [parseDocF, h, bind, Except.bind, pure, Except.pure, labelsOf, events]
  · simp only [convertFWith, parseDocF, h, bind, Except.bind, pure, Except.pure, labelsOf, events]

/-- an event's label is the `Ref` of the definition at the position the FootnoteLink node carries -/
theorem convertf_event_label (labels : List Bytes) (e : RawEv) : (e.event labels).label = labels.getD e.k [] := rfl

/-- **Every node the inline parser returns is a FootnoteLink for a definition of the list** — the FIRST one whose `Ref`
    equals the bytes between `[^` and `]` (footnote.go:162-172, `index == 0` ⇒ nil): without a list, or with an unknown label,
    it returns nil. -/
theorem footnote_link_resolves (rs : Option (List Bytes)) (env : GM.Inl.Env) (st : GM.Inl.St) (r : Option GM.Inl.Node × GM.Inl.St)
    (n : GM.Inl.Node) (h : parseFootnote rs env st = .ok r) (hn : r.1 = some n) :
    ∃ labels v k, rs = some labels ∧ resolve labels v 0 = some k ∧ n = fnLinkNode k :=
  parseFootnote_node rs env st r n h hn

/-- the position `resolve` answers is the one GM.Spec.Footnote.resolve? (the meaning of "the definition a reference `[^v]`
    means" in clause 6) names, and the label there is `v` -/
theorem footnote_label_resolution (rs : List Bytes) (v : Bytes) (k : Nat) (h : resolve rs v 0 = some k) :
    rs[k]? = some v ∧ GM.Spec.Footnote.resolve? rs v = some k := by
  obtain ⟨j, hj, hg, hr⟩ := resolve_sound rs v 0 k h
  have : k = j := by omega
  subst this
  exact ⟨hg, hr⟩

/-- the representation of a FootnoteLink decodes to the definition position it was built from -/
theorem footnote_link_encoding (k : Nat) : ∃ lv, fnLinkNode k = .emphasis lv [] ∧ fnLinkPos? lv = some k := by
  refine ⟨-(3 + (k : Int)), rfl, ?_⟩
  unfold fnLinkPos?
  have h1 : -(3 + (k : Int)) ≤ -3 := by omega
  simp only [h1, if_true, Option.some.injEq]
  omega

/-! ### C16 -/

/-- **C16 for the abstraction of every parse**: whatever the source, the (labels, events) the concrete model computes
    satisfy the six clauses (`GM.Props.C16.FootnoteConsistent`, i.e. `footnote_consistent`, composed with `absOf`; this file does
    not import GM.Props.C16 so that it can be re-exported there). -/
theorem convertf_abstraction_consistent (guard : Bool) (pre : Bytes) (uc : List (Nat × (Bool × Bool))) (src : Bytes)
    (labels : List Bytes) (evs : List GM.Footnote.Event) (_h : absOf true guard uc src = .ok (labels, evs)) :
    GM.Spec.Footnote.Consistent pre labels (evs.map (·.label)) (GM.Footnote.render pre labels evs) :=
  GM.Proof.Footnote.consistent pre labels evs

/-- hypothesis (S) of the two theorems below, for the parse of `src`: `shapeOKB` of the tree in front of the transformer
    (true when the phases do not return: nothing is rendered). Decidable; EVALUATED by the tie on every document (flag `c1`). -/
def shapeOK (guard : Bool) (uc : List (Nat × (Bool × Bool))) (src : Bytes) : Bool :=
  match parsePhases true guard uc src with
  | .ok (f, st, t) => shapeOKB f.list.isSome (labelsOf f st) t
  | .error _ => true

/-- the statement that the AST well-formedness (S) holds of the parse of every source -/
def ShapeAlwaysOK : Prop := ∀ (guard : Bool) (uc : List (Nat × (Bool × Bool))) (src : Bytes), shapeOK guard uc src = true

/-- **(S) always holds** — for every byte string, Unicode class assignment and guard setting, the tree in front of the
    transformer that the parse phases return has the AST shape: at most one FootnoteList, its children exactly the
    definitions `0 … n−1` in list order with no Footnote / FootnoteList below them, no Footnote elsewhere, FootnoteLinks are
    leaves that point at definitions of the list, no FootnoteBacklink yet, the root is the Document. It holds BY
    CONSTRUCTION of the composed model: the walk over the store (`treeOfF`: modes body / definition / below a definition)
    tags the list's children by their position, and the model's DOMAIN MONITORS (`tagIn`, `treeOfF`, `blockKindF`,
    `inlineTreeF`, `monitorFires` — not Go code, documented in GM.Model.ConvertF) answer `pre` for the stores Go never
    builds (a Footnote outside the list, a FootnoteList twice in the tree or below a definition, node 0 not the Document,
    a FootnoteLink to no definition, a Footnote with lines). So C16 holds of EVERY document `convertF` converts; that the
    monitors never fire (`MonitorsNeverFire`, stated) is a no-`pre` fact of the C01 kind: evaluated by the tie on every
    document (an `err:` answer is a disagreement), never observed; on `[^`-free sources it is a theorem
    (`convertf_conservative`: the outcome is `convertCore`'s). -/
theorem shape_always_ok : ShapeAlwaysOK := by
  intro guard uc src
  unfold shapeOK
  cases h : parsePhases true guard uc src with
  | error e => rfl
  | ok r =>
    obtain ⟨f, st, t⟩ := r
    exact shape_of_parse guard uc src f st t h

/-- FULL STATEMENT (not proved; the tie evaluates it on every document): the parse phases never answer one of the model's
    footnote domain monitors. A proof is store / driver well-formedness of the block driver in `MF` (tree-shaped store, every
    opened Footnote closed into the one list, the list placed outside every Footnote, stores only grow) — the technique of
    GM.Proof.ConvertHWF* / BlocksClosed* carried over to the driver with the footnote parser — plus "every FootnoteLink
    representation of the inline phase comes from `parseFootnote`". -/
def MonitorsNeverFire : Prop :=
  (∀ (guard : Bool) (src : Bytes) (f : FS) (st : GM.Blocks.St), blockPhaseF true guard src = .ok (f, st) →
    monitorFires f st (treeOfF f st.nodes st.nodes.length .body 0) = false ∧
    (treeOfF f st.nodes st.nodes.length .body 0).clean = true) ∧
  (∀ (env : GM.Inl.Env) (src : Bytes) (refs : Option (List Bytes)) (lines : List Segment) (kids : List GM.Inl.Node),
    GM.Inl.parseBlockX env (inlineTblF true refs) src lines = .ok kids → linksBelowL (refs.getD []).length kids = true)

/-- **Store well-formedness of the block driver with the footnote block parser** (the `MF` copy of the driver): for every
    source, guard setting and registration flag, whenever the block phase ends normally the node store is tree-shaped
    (`GM.ConvertH.TreeWF`: every child edge is mirrored by the child's parent pointer, child lists are duplicate-free,
    node 0 is the parentless Document) and the footnote context — the FootnoteList of the parse context, every `*ast.Footnote`
    — names existing nodes other than node 0. Technique and parser-level lemmas: GM.Proof.ConvertHWF* (headingids). -/
theorem convertf_store_wellformed (on guard : Bool) (src : Bytes) (f : FS) (st : GM.Blocks.St)
    (h : blockPhaseF on guard src = .ok (f, st)) : GM.ConvertH.TreeWF st ∧ IdsOK f st :=
  blockPhaseF_wf on guard src f st h

/-- **The block-phase monitor never fires**: for every source the walk over the final store meets the FootnoteList at most
    once and node 0 is the plain Document — the first half of `MonitorsNeverFire`, part 1. -/
theorem convertf_block_monitor_never_fires (on guard : Bool) (src : Bytes) (f : FS) (st : GM.Blocks.St)
    (h : blockPhaseF on guard src = .ok (f, st)) :
    monitorFires f st (treeOfF f st.nodes st.nodes.length .body 0) = false :=
  monitor_never_fires on guard src f st h

/-- **The inline monitor never fires**: every FootnoteLink representation among the inline children the inline phase with
    the footnote parser returns — for every block, reference list, environment — points at a definition of the list
    (`k < refs.length`): part 2 of `MonitorsNeverFire`. The per-node property is carried through every default inline parser,
    ProcessDelimiters (it only builds Emphasis of level 1 or 2), the link parser, the byte loop over the trigger table and
    CloseBlock; the node `parseFootnote` answers has it by `footnote_label_resolution`. -/
theorem convertf_inline_links_resolve (env : GM.Inl.Env) (src : Bytes) (refs : Option (List Bytes)) (lines : List Segment)
    (kids : List GM.Inl.Node) (h : GM.Inl.parseBlockX env (inlineTblF true refs) src lines = .ok kids) :
    linksBelowL (refs.getD []).length kids = true :=
  GM.Inl.FLinks.parseBlockX_linksBelow env src refs lines kids h

/-- the last part of `MonitorsNeverFire` (a theorem: `footnotes_all_filed`) — in the final store every `*ast.Footnote` the
    walk meets is a child of the FootnoteList, neither a Footnote nor the list occurs below a definition, the list is reached
    with fuel, and Footnote / list nodes have no lines (the close discipline of the driver: every opened Footnote is closed
    into the list before its parent). A child of the list that is no Footnote is not a monitor: the model mirrors the panic of
    the transformer's type assertion `footnote.(*ast.Footnote)` (footnote.go:251; tag `alien`, outcome `value assert`). -/
def FootnotesAllFiled : Prop :=
  ∀ (guard : Bool) (src : Bytes) (f : FS) (st : GM.Blocks.St), blockPhaseF true guard src = .ok (f, st) →
    (treeOfF f st.nodes st.nodes.length .body 0).clean = true

theorem monitors_never_fire_of (h : FootnotesAllFiled) : MonitorsNeverFire :=
  ⟨fun guard src f st e => ⟨monitor_never_fires true guard src f st e, h guard src f st e⟩,
    GM.Inl.FLinks.parseBlockX_linksBelow⟩

/-- **The close discipline of the block driver with the footnote block parser** (`MF` copy; technique and parser-level
    lemmas of GM.Proof.ConvertHWF*, carried over): for every source, guard setting and registration flag, in the final state
    of the block phase the open-block stack is empty and the invariant `FJ` holds — the store is tree-shaped, every
    `*ast.Footnote` and the FootnoteList are nodes of their store kind, NO node of that kind has lines, and every child edge to
    a Footnote comes from the FootnoteList. -/
theorem convertf_close_discipline (on guard : Bool) (src : Bytes) (f : FS) (st : GM.Blocks.St)
    (h : blockPhaseF on guard src = .ok (f, st)) : FJ f st ∧ st.pc.opened = [] :=
  blockPhaseF_disc on guard src f st h

/-- **Every Footnote is filed** — `FootnotesAllFiled` is a theorem. -/
theorem footnotes_all_filed : FootnotesAllFiled :=
  fun guard src f st e => blockPhaseF_clean true guard src f st e

/-- **NO DOMAIN MONITOR OF THE FOOTNOTE MODEL EVER FIRES** — `MonitorsNeverFire` is a theorem, for every byte string: after
    every block phase `monitorFires = false` and the tagged tree is `clean`; every FootnoteLink of every inline phase points at
    a definition of the list. With `shape_always_ok` and `convertf_footnotes_consistent_unconditional`: C16 end to end for
    every byte string with no footnote monitor left in the way. -/
theorem monitors_never_fire : MonitorsNeverFire := monitors_never_fire_of footnotes_all_filed

/-- **A provable part of `BlockNoLoopF`: the ancestor loop of `(*footnoteBlockParser).Close` has enough fuel** (footnote.go:96-100,
    `anchorLoop` with fuel `len + 1`) for every node whose parent-pointer chain reaches node 0 of a tree-shaped store: the nodes
    on the chain exist and are pairwise different (node 0 has no parent, so a node has one depth), so there are at most `len`
    of them. -/
theorem convertf_anchor_loop_terminates (f : FS) (s : GM.Blocks.St) (w : GM.ConvertH.TreeWF s) (d x : Nat)
    (hx : x < s.nodes.length) (hd : anc s d x = some 0) :
    (anchorLoop f s.nodes (s.nodes.length + 1) (GM.ConvertH.ndx s x).parent x).isSome = true :=
  anchorLoop_terminates f s w d x hx hd

/-- … hence **`Close` of such a Footnote never answers `loop`** (its other outcomes: normal end, `nil`). -/
theorem convertf_close_no_loop_of_reach (node d : Nat) (f : FS) (s : GM.Blocks.St) (w : GM.ConvertH.TreeWF s)
    (hv : node < s.nodes.length) (hd : anc s d node = some 0) (e : Panic) (h : fnClose node f s = .error e) : e ≠ .loop :=
  fnClose_noLoop node d f s w hv hd e h

/-- FULL STATEMENT (not proved): the invariant that would finish the `anchorLoop` part of `BlockNoLoopF` — whenever the block
    driver calls `Close` on a block, the parent-pointer chain of its node reaches node 0. `TreeWF` relates child edges to parent
    pointers in one direction only; what is missing is a parent-pointer frame fact for every parser function and mutator (which
    pointers are set: `ins ↦ p` for a node it has created, `c ↦ none`). Stated for the final store (where it is a consequence of
    every attached node's chain being backed by child edges): every node that is somebody's child reaches node 0. -/
def AttachedNodesReachRoot : Prop :=
  ∀ (guard : Bool) (src : Bytes) (f : FS) (st : GM.Blocks.St), blockPhaseF true guard src = .ok (f, st) →
    ∀ p c, c ∈ (GM.ConvertH.ndx st p).children → ∃ d, anc st d c = some 0

/-- FULL STATEMENT (not proved; a C01 fact of the extension, not a monitor): the children of the FootnoteList are
    `*ast.Footnote`s — the type assertion `footnote.(*ast.Footnote)` of the AST transformer (footnote.go:251; the model's
    outcome `value assert`, tag `alien`) never panics. Only `(*footnoteBlockParser).Close` appends to the list; what is missing
    for a proof is a frame fact about the child edges the default parsers' tree surgery ADDS (they never add one to the list). -/
def ListKidsAreFootnotes : Prop :=
  ∀ (guard : Bool) (src : Bytes) (f : FS) (st : GM.Blocks.St), blockPhaseF true guard src = .ok (f, st) →
    ∀ l, f.list = some l → ∀ c ∈ (st.nodes.getD l default).children, f.isFn c = true

/-- **…in terms of outcomes**: for every byte string (guard setting, Unicode class assignment) the parse phases of the composed
    model with the extension never answer `value pre` — the outcome of every footnote monitor of the tree phase (`stray`, lines
    on a Footnote / the list, a FootnoteLink to no definition) — and they answer `blocks pre` only when the BLOCK PHASE itself
    does (the retry contract monitors of the block driver that `convertCore` has too), never because of `monitorFires`. -/
theorem convertf_no_footnote_monitor_outcome (guard : Bool) (uc : List (Nat × (Bool × Bool))) (src : Bytes) (e : Err)
    (h : parsePhases true guard uc src = .error e) :
    e ≠ .value .pre ∧ (e = .blocks .pre → blockPhaseF true guard src = .error .pre) :=
  parsePhases_noMonitor guard uc src e h

/-- **The tree the renderer receives shows exactly the output of GM.Footnote.render on its abstraction**, for EVERY tree `t`
    in front of the transformer that satisfies (S) — in particular (by the tie's evaluation) the one of every source: the
    `(Index, RefCount, RefIndex)` `fill` writes into the FootnoteLinks in creation order, the removal / move of the list, the
    kept definitions in sorted order with their back-links appended to the last Paragraph, read back in output order
    (nothing below an Image), ARE `items` / `refs` of GM.Model.Footnote (`renderedLinks`: body first, then each kept
    definition's hosted links) — ids, hrefs, shown numbers. Proof: GM.Proof.ConvertFTree (`fill` hands the fields out in
    event order; erasing the fields shows the shape is unchanged; a walk over body / list / notes; `allLinkFields` keeps
    creation order and its rendered entries are the numbered links). -/
theorem convertf_tree_shows_abstraction (hasList : Bool) (pre : Bytes) (labels : List Bytes) (t : GM.Node)
    (hs : shapeOKB hasList labels t = true) :
    treeOutput pre (finishDoc hasList (GM.Footnote.transform labels (events labels t)) t) =
      absOutput pre labels (events labels t) :=
  tree_shows hasList pre labels t hs

/-- the Lean-defined oracle the tie evaluates (`treeShowsAbsB`) is implied by (S) -/
theorem convertf_shape_implies_oracle (guard : Bool) (pre : Bytes) (uc : List (Nat × (Bool × Bool))) (src : Bytes)
    (hs : shapeOK guard uc src = true) : treeShowsAbsB true guard pre uc src = true := by
  unfold treeShowsAbsB
  unfold shapeOK at hs
  cases h : parsePhases true guard uc src with
  | error e => rfl
  | ok r =>
    obtain ⟨f, st, t⟩ := r
    rw [h] at hs
    simp only [] at hs ⊢
    rw [tree_shows _ pre _ t hs]
    simp

/-- **C16 for the tree the renderer receives.** For every source whose parse satisfies (S): the ids / hrefs / shown numbers
    FootnoteHTMLRenderer writes for the document `convertF` renders (`treeOutput`: `<li id>` + back-link targets per item,
    `<sup id>` / `href` / number per reference, in output order, nothing below an Image) are those of an output `o` that
    satisfies the six clauses of GM.Spec.Footnote.Consistent w.r.t. the definitions and the reference labels of the source:
    items numbered 1…n in listed order; every reference links to exactly one item and shows its number; every back-link
    points to exactly one rendered reference of its own item; every reference has exactly one back-link; all ids distinct;
    every listed definition is referenced. -/
theorem convertf_footnotes_consistent (guard : Bool) (pre : Bytes) (uc : List (Nat × (Bool × Bool))) (src : Bytes)
    (f : FS) (st : GM.Blocks.St) (t : GM.Node) (h : parsePhases true guard uc src = .ok (f, st, t))
    (hs : shapeOK guard uc src = true) :
    let labels := labelsOf f st
    let evs := events labels t
    let doc := finishDoc f.list.isSome (GM.Footnote.transform labels evs) t
    ∃ o : GM.Spec.Footnote.Output, GM.Spec.Footnote.Consistent pre labels (evs.map (·.label)) o ∧
      (treeOutput pre doc).1 = o.items.map (fun it => (it.id, it.backs)) ∧ (treeOutput pre doc).2 = o.refs := by
  intro labels evs doc
  apply consistent_of_shows
  unfold shapeOK at hs
  rw [h] at hs
  exact tree_shows _ pre labels t hs

/-- **C16 END TO END, UNCONDITIONAL.** For EVERY byte string `src` (every Unicode class assignment, id prefix, guard
    setting): whenever the parse phases of `convertF` return, the ids / hrefs / shown numbers FootnoteHTMLRenderer writes for
    the document `convertF` renders are those of an output that satisfies all six clauses of GM.Spec.Footnote.Consistent:
    items numbered 1…n in listed order; every reference links to exactly one item and shows its number; every back-link
    points to exactly one rendered reference of its own item; every reference has exactly one back-link; all ids distinct;
    every listed definition is referenced. (`convertf_footnotes_consistent` + `shape_always_ok`.) -/
theorem convertf_footnotes_consistent_unconditional (guard : Bool) (pre : Bytes) (uc : List (Nat × (Bool × Bool))) (src : Bytes)
    (f : FS) (st : GM.Blocks.St) (t : GM.Node) (h : parsePhases true guard uc src = .ok (f, st, t)) :
    let labels := labelsOf f st
    let evs := events labels t
    let doc := finishDoc f.list.isSome (GM.Footnote.transform labels evs) t
    ∃ o : GM.Spec.Footnote.Output, GM.Spec.Footnote.Consistent pre labels (evs.map (·.label)) o ∧
      (treeOutput pre doc).1 = o.items.map (fun it => (it.id, it.backs)) ∧ (treeOutput pre doc).2 = o.refs :=
  convertf_footnotes_consistent guard pre uc src f st t h (shape_always_ok guard uc src)

/-- the Lean-defined oracle of the tie is a theorem: the tree `convertF` renders ALWAYS shows the abstraction's output -/
theorem convertf_tree_always_shows_abstraction (guard : Bool) (pre : Bytes) (uc : List (Nat × (Bool × Bool))) (src : Bytes) :
    treeShowsAbsB true guard pre uc src = true :=
  convertf_shape_implies_oracle guard pre uc src (shape_always_ok guard uc src)

/-! ### C11: the decline paths on the concrete parsers -/

/-- the full statement of C11 for the Footnote extension at whole-document level -/
def ConvertFConservative : Prop :=
  ∀ (uc : List (Nat × (Bool × Bool))) (o : ROpts) (src : Bytes), GM.Ext.hasInfix [91, 94] src = false →
    convertF true none uc o src = convertCore uc o src

/-- **C11 at whole-document level, full statement**: for EVERY byte string without the two bytes `[^` (every Unicode class
    assignment, every renderer option set), `goldmark.New(WithExtensions(extension.Footnote), …)` as modelled by `convertF`
    answers exactly what `convertCore` answers: the same HTML, or the same error outcome. Composition of
    `convertf_conservative_blockphase` (the block parser is consulted at every line that starts with `[` and declines
    without a trace), `convertf_inline_phase_without_list` (the inline parser is consulted at every `!` and `[`, may even
    ADVANCE the reader — `!x^abc]`, `list == nil` is tested behind `block.Advance` — and the loop's SetPosition gives back
    the very reader it saved), `parseBlock_wf` (the default parsers build no FootnoteLink representation),
    `footnote_transformer_without_list_concrete` and the renderer lemma (a tree without footnote kinds renders alike with
    and without FootnoteHTMLRenderer). -/
theorem convertf_conservative : ConvertFConservative :=
  fun uc o src h => convertF_cons uc o src h

/-- **the inline phase while the context holds no FootnoteList is the default inline phase** — for every block with
    well-formed padding-free lines (what the run-time check of `convertF` lets through), WHATEVER the source: the footnote
    parser in front of the link parser returns nil, and SetPosition restores the reader exactly (under the invariant of
    GM.Proof.InlinesLoopTotal every field but `lineOffset` is determined by the cursor the reader stands for, and
    `lineOffset` is −1 behind Advance and behind SetPosition). -/
theorem convertf_inline_phase_without_list (src : Bytes) (segs : List Segment) (W : GM.Spec.WFSegs src segs)
    (Z : ∀ s ∈ segs, s.padding = 0) (env : GM.Inl.Env) :
    GM.Inl.parseBlockX env (inlineTblF true none) src segs = GM.Inl.parseBlock env src segs :=
  parseBlockX_fn W Z env

/-- C01 for that inline phase: TOTAL — children, no Go panic, no fuel exhaustion, no monitor (GM.Proof.InlinesLink.parseBlock_total
    carried over by the equality above) -/
theorem convertf_inline_phase_without_list_total (src : Bytes) (segs : List Segment) (W : GM.Spec.WFSegs src segs)
    (Z : ∀ s ∈ segs, s.padding = 0) (env : GM.Inl.Env) :
    ∃ kids, GM.Inl.parseBlockX env (inlineTblF true none) src segs = .ok kids := by
  rw [parseBlockX_fn W Z env]
  exact GM.Proof.InlinesLink.parseBlock_total W Z env

/-- … hence `convertF` never exhausts fuel on a source without `[^` -/
theorem convertf_never_loops_conservative (uc : List (Nat × (Bool × Bool))) (o : ROpts) (src : Bytes)
    (h : GM.Ext.hasInfix [91, 94] src = false) (e : Err) (he : convertF true none uc o src = .error e) : e.isLoop = false := by
  rw [convertF_cons uc o src h] at he
  exact GM.Proof.ConvertTotal.convertCore_noLoop uc o src he

/-- **C11 for the block phase at whole-document level.** For EVERY source without the two bytes `[^`: the block phase with
    the footnote block parser registered returns exactly the state of `convertCore`'s block phase (same node store,
    context, reader — or the same Go panic / monitor outcome), and no Footnote / FootnoteList exists. The parser IS
    consulted on every line whose first non-space byte is `[`; it declines (`footnote_open_declines_concrete`) — and the
    `reader.PeekLine()` it has called changes nothing, because openBlocks' own PeekLine has filled the reader's cache
    already and the cache is coherent (a reader invariant kept by every reader primitive, hence — through the `Pres`
    calculus of GM.Proof.BlocksPres — by all ten block parsers, the link-reference transformer and the driver). The
    proof also follows the one place where the footnote parser's presence changes a local variable of openBlocks
    (`lastBlock` is re-read in front of its `Open`): it is only read when it is fresh. -/
theorem convertf_conservative_blockphase (src : Bytes) (h : GM.Ext.hasInfix [91, 94] src = false) :
    blockPhaseF true true src = (blockPhase true src).map fun st => ({}, st) :=
  blockPhaseF_cons h

/-- **C11 at whole-document level for sources without the inline parser's trigger bytes**: a source that contains
    neither `[` nor `!` converts to the same HTML / outcome with and without the extension (block phase: above; the inline
    parser is never consulted; the default parsers build no FootnoteLink representation; a tree without footnote kinds
    renders alike with and without the footnote node renderers). -/
theorem convertf_conservative_notrigger (uc : List (Nat × (Bool × Bool))) (o : ROpts) (src : Bytes)
    (h91 : (91 : UInt8) ∉ src) (h33 : (33 : UInt8) ∉ src) : convertF true none uc o src = convertCore uc o src :=
  convertF_unused uc o src h91 h33

/-- … hence no fuel exhaustion on such sources -/
theorem convertf_never_loops_notrigger (uc : List (Nat × (Bool × Bool))) (o : ROpts) (src : Bytes)
    (h91 : (91 : UInt8) ∉ src) (h33 : (33 : UInt8) ∉ src) (e : Err) (h : convertF true none uc o src = .error e) :
    e.isLoop = false := by
  rw [convertF_unused uc o src h91 h33] at h
  exact GM.Proof.ConvertTotal.convertCore_noLoop uc o src h

/-- on a source without `[^`, with the line cached by openBlocks' PeekLine and the reader invariant, Open is a no-op on
    the WHOLE two-layer state (the step the block-phase theorem rests on) -/
theorem footnote_open_noop (src : Bytes) (hsrc : GM.Ext.hasInfix [91, 94] src = false) (parent : Nat) (s : GM.Blocks.St)
    (l : Bytes) (hI : IC src s) (hp : PPeek l s) : fnOpen parent {} s = .ok (((none, GM.Blocks.stNoChildren), {}), s) :=
  fnOpen_noop hsrc parent s l hI hp

/-- `footnote_open_declines` on the concrete block model: on a peeked line without the two bytes `[^`,
    (*footnoteBlockParser).Open returns (nil, NoChildren) with the footnote state untouched and the `St` `peekLine` leaves —
    or panics with the index panic of `line[pos]` (block offset outside the line: never, by the driver). -/
theorem footnote_open_declines_concrete (parent : Nat) (f : FS) (s : GM.Blocks.St) (line : Bytes) (seg : Segment) (r' : Reader)
    (hp : s.r.peekLine = .ok ((some line, seg), r')) (h : GM.Ext.hasInfix [91, 94] line = false) :
    fnOpen parent f s = .ok (((none, GM.Blocks.stNoChildren), f), { s with r := r' }) ∨ fnOpen parent f s = .error .index :=
  fnOpen_declines parent f s line seg r' hp h

/-- `footnote_inline_declines` on the concrete inline model: while the context holds no FootnoteList — none exists until a
    definition has been opened and closed, which needs `[^` — (*footnoteParser).Parse returns nil on EVERY line and leaves
    the parent's children alone (it may have advanced the reader; the loop puts it back). -/
theorem footnote_inline_declines_concrete (env : GM.Inl.Env) (st : GM.Inl.St) (r : Option GM.Inl.Node × GM.Inl.St)
    (h : parseFootnote none env st = .ok r) : r.1 = none ∧ r.2.kids = st.kids :=
  parseFootnote_noList env st r h

/-- `footnote_transformer_without_list` on the composed model: without a FootnoteList in the context the transformer
    returns the document as it is (footnote.go:217-219) -/
theorem footnote_transformer_without_list_concrete (tr : GM.Footnote.Transformed) (t : GM.Node) : finishDoc false tr t = t := by
  simp [finishDoc]

/-- the block parser is only ever tried on a line whose first non-space byte is `[` -/
theorem footnote_block_parser_trigger (c : UInt8) (h : c ≠ 91) :
    triggeredF true c = (GM.Blocks.triggered c).map (·.map .core) := by
  have : (c == 91) = false := by simp [h]
  simp [triggeredF, this]

/-! ### tests on literals (kernel-evaluated; not theorems about all inputs) -/

/-- `a[^1]⏎⏎[^1]: d⏎`: one reference, one item, one back-link -/
def srcOne : Bytes := [97, 91, 94, 49, 93, 10, 10, 91, 94, 49, 93, 58, 32, 100, 10]

example : (absOf true true [] srcOne).toOption = some ([[49]], [{ label := [49], dropped := false, host := none }]) := by decide +kernel
example : treeShowsAbsB true true [] [] srcOne = true := by decide +kernel
example : shapeOK true [] srcOne = true := by decide +kernel
example : (convertF true none [] {} srcOne).toOption.isSome = true := by decide +kernel
/-- non-vacuity of the hypotheses: the phases return on it -/
example : (parsePhases true true [] srcOne).toOption.isSome = true := by decide +kernel
/-- F13 witness 1 `![x[^1]](y)⏎⏎[^1]: d`: the event is `dropped` -/
example : (absOf true true [] [33, 91, 120, 91, 94, 49, 93, 93, 40, 121, 41, 10, 10, 91, 94, 49, 93, 58, 32, 100]).toOption =
    some ([[49]], [{ label := [49], dropped := true, host := none }]) := by decide +kernel
/-- `GM.Ext.hasInfix [91, 94]` is satisfiable both ways -/
example : GM.Ext.hasInfix [91, 94] [91, 97, 93] = false := by decide
example : GM.Ext.hasInfix [91, 94] srcOne = true := by decide

end GM.Props.C16E2E
