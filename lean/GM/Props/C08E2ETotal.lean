/-
  GM.Props.C08E2ETotal — the HTML-level theorems of GM.Props.C08E2E (C08) and GM.Props.C09E2E (C09 first half, empty `A`) WITHOUT the
  hypothesis "the source converts": composed with `GM.Props.ConvertE2ENP.convert_total` (every byte string converts). Possible since
  the name clash `GM.Blocks.NS` (wf0's BlocksShapeJ vs QuoteSimDriver) is gone.
-/
import GM.Props.C08E2E
import GM.Props.C09E2E
import GM.Props.ConvertE2ENP

namespace GM.Props.C08E2ETotal
open GM GM.Text GM.Convert GM.Spec GM.E2E GM.Blocks GM.Blocks.Sh GM.E2E.Quote GM.E2E.Shift
open GM.Props.ConvertE2ENP (convert_total)

/-! ### C08 -/

/-- **C08 at HTML level, lists and blank lines (`C08ClassG`), no `[`, given the inline invariant for `D`**: `D` converts, and the
    block-quoted source converts to `<blockquote>⏎` + that HTML + `</blockquote>⏎` -/
theorem convert_quote_prefix_total (uc : List (Nat × (Bool × Bool))) (o : ROpts) (D : Bytes) (hc : C08ClassG D) (hb : NoBracket D)
    (KEY : InlineQuoteInvariantAt D) :
    ∃ html, convertCore uc o D = .ok html ∧
      convertCore uc o (quotePrefix D) = .ok (strBytes "<blockquote>\n" ++ html ++ strBytes "</blockquote>\n") := by
  obtain ⟨html, h⟩ := convert_total uc o D
  exact ⟨html, h, GM.Props.C08E2E.convert_quote_prefix uc o D hc hb KEY html h⟩

/-- the same for `C08ClassF` (lists, no blank line) -/
theorem convert_quote_prefix_lists_total (uc : List (Nat × (Bool × Bool))) (o : ROpts) (D : Bytes) (hc : C08ClassF D)
    (hb : NoBracket D) (KEY : InlineQuoteInvariantAt D) :
    ∃ html, convertCore uc o D = .ok html ∧
      convertCore uc o (quotePrefix D) = .ok (strBytes "<blockquote>\n" ++ html ++ strBytes "</blockquote>\n") := by
  obtain ⟨html, h⟩ := convert_total uc o D
  exact ⟨html, h, GM.Props.C08E2E.convert_quote_prefix_lists uc o D hc hb KEY html h⟩

/-- the same for `C08ClassW` (no final line feed needed) -/
theorem convert_quote_prefix_no_final_newline_total (uc : List (Nat × (Bool × Bool))) (o : ROpts) (D : Bytes) (hc : C08ClassW D)
    (hb : NoBracket D) (KEY : InlineQuoteInvariantAt D) :
    ∃ html, convertCore uc o D = .ok html ∧
      convertCore uc o (quotePrefix D) = .ok (strBytes "<blockquote>\n" ++ html ++ strBytes "</blockquote>\n") := by
  obtain ⟨html, h⟩ := convert_total uc o D
  exact ⟨html, h, GM.Props.C08E2E.convert_quote_prefix_no_final_newline uc o D hc hb KEY html h⟩

/-- **no inline hypothesis: documents whose leaves are raw blocks** -/
theorem convert_quote_prefix_raw_leaves_total (uc : List (Nat × (Bool × Bool))) (o : ROpts) (D : Bytes) (hc : C08ClassG D)
    (hb : NoBracket D)
    (hraw : ∀ sA, GM.Blocks.run D = .ok sA → ∀ i, isRawKind (sA.nodes.getD i default).kind = false →
      (sA.nodes.getD i default).lines = []) :
    ∃ html, convertCore uc o D = .ok html ∧
      convertCore uc o (quotePrefix D) = .ok (strBytes "<blockquote>\n" ++ html ++ strBytes "</blockquote>\n") := by
  obtain ⟨html, h⟩ := convert_total uc o D
  exact ⟨html, h, GM.Props.C08E2E.convert_quote_prefix_raw_leaves uc o D hc hb hraw html h⟩

/-- **no inline hypothesis: any block structure of the class, plain-text inline content** (`GoodBlocks`) -/
theorem convert_quote_prefix_good_lines_total (uc : List (Nat × (Bool × Bool))) (o : ROpts) (D : Bytes) (hc : C08ClassG D)
    (hb : NoBracket D) (hg : ∀ sA, GM.Blocks.run D = .ok sA → GoodBlocks D sA) :
    ∃ html, convertCore uc o D = .ok html ∧
      convertCore uc o (quotePrefix D) = .ok (strBytes "<blockquote>\n" ++ html ++ strBytes "</blockquote>\n") := by
  obtain ⟨html, h⟩ := convert_total uc o D
  exact ⟨html, h, GM.Props.C08E2E.convert_quote_prefix_good_lines uc o D hc hb hg html h⟩

/-- **… all hypotheses decidable** (`C08ClassG D`, `NoBracket D`, `goodLinesCheck D`) -/
theorem convert_quote_prefix_checked_total (uc : List (Nat × (Bool × Bool))) (o : ROpts) (D : Bytes) (hc : C08ClassG D)
    (hb : NoBracket D) (hg : GM.Props.C08E2E.goodLinesCheck D = true) :
    ∃ html, convertCore uc o D = .ok html ∧
      convertCore uc o (quotePrefix D) = .ok (strBytes "<blockquote>\n" ++ html ++ strBytes "</blockquote>\n") := by
  obtain ⟨html, h⟩ := convert_total uc o D
  exact ⟨html, h, GM.Props.C08E2E.convert_quote_prefix_checked uc o D hc hb hg html h⟩

/-! ### C09 first half, empty `A` -/

/-- **C09 first half at HTML level, empty `A`, given the inline invariant**: `"# h\n"` and `b` convert, and `"\n# h\n\n" ++ b`
    converts to the concatenation -/
theorem heading_then_blocks_html_total (uc : List (Nat × (Bool × Bool))) (o : ROpts) (h b : Bytes) (hh : ∀ c ∈ h, c ≠ 10)
    (hbh : NoBracket h) (hbb : NoBracket b)
    (KEYh : ∀ sh, GM.Blocks.run (hlB h) = .ok sh → InlineMoveStep (hlB h) (docB h b) 1 (sh.nodes.getD 1 default).lines)
    (KEYb : ∀ sb, GM.Blocks.run b = .ok sb → ∀ j, isRawKind (sb.nodes.getD j default).kind = false →
      (sb.nodes.getD j default).lines ≠ [] →
      InlineMoveStep b (docB h b) ((pre h).length : Int) (sb.nodes.getD j default).lines) :
    ∃ htmlH htmlB, convertCore uc o (hlB h) = .ok htmlH ∧ convertCore uc o b = .ok htmlB ∧
      convertCore uc o (docB h b) = .ok (htmlH ++ htmlB) := by
  obtain ⟨htmlH, h1⟩ := convert_total uc o (hlB h)
  obtain ⟨htmlB, h2⟩ := convert_total uc o b
  exact ⟨htmlH, htmlB, h1, h2, GM.Props.C09E2E.heading_then_blocks_html uc o h b hh hbh hbb KEYh KEYb htmlH htmlB h1 h2⟩

/-- **no inline hypothesis: plain-text inline content** (`GoodBlocks`) -/
theorem heading_then_blocks_html_good_lines_total (uc : List (Nat × (Bool × Bool))) (o : ROpts) (h b : Bytes)
    (hh : ∀ c ∈ h, c ≠ 10) (hbh : NoBracket h) (hbb : NoBracket b)
    (hgh : ∀ sh, GM.Blocks.run (hlB h) = .ok sh → GoodBlocks (hlB h) sh)
    (hgb : ∀ sb, GM.Blocks.run b = .ok sb → GoodBlocks b sb) :
    ∃ htmlH htmlB, convertCore uc o (hlB h) = .ok htmlH ∧ convertCore uc o b = .ok htmlB ∧
      convertCore uc o (docB h b) = .ok (htmlH ++ htmlB) := by
  obtain ⟨htmlH, h1⟩ := convert_total uc o (hlB h)
  obtain ⟨htmlB, h2⟩ := convert_total uc o b
  exact ⟨htmlH, htmlB, h1, h2,
    GM.Props.C09E2E.heading_then_blocks_html_good_lines uc o h b hh hbh hbb hgh hgb htmlH htmlB h1 h2⟩

/-- **… all hypotheses decidable** -/
theorem heading_then_blocks_html_checked_total (uc : List (Nat × (Bool × Bool))) (o : ROpts) (h b : Bytes)
    (hh : ∀ c ∈ h, c ≠ 10) (hbh : NoBracket h) (hbb : NoBracket b)
    (hgh : GM.Props.C08E2E.goodLinesCheck (hlB h) = true) (hgb : GM.Props.C08E2E.goodLinesCheck b = true) :
    ∃ htmlH htmlB, convertCore uc o (hlB h) = .ok htmlH ∧ convertCore uc o b = .ok htmlB ∧
      convertCore uc o (docB h b) = .ok (htmlH ++ htmlB) := by
  obtain ⟨htmlH, h1⟩ := convert_total uc o (hlB h)
  obtain ⟨htmlB, h2⟩ := convert_total uc o b
  exact ⟨htmlH, htmlB, h1, h2,
    GM.Props.C09E2E.heading_then_blocks_html_checked uc o h b hh hbh hbb hgh hgb htmlH htmlB h1 h2⟩

end GM.Props.C08E2ETotal
