/-
  Property C20 — registered parsers, transformers and renderers are applied strictly by priority.
  Only property theorems and their non-vacuity examples live here; helper lemmas are in GM/Proof/Registry.lean,
  the model (util.PrioritizedSlice, parser/renderer configuration, table build, dispatch) in GM/Model/Registry.lean.

  Every theorem quantifies over EVERY sorting function satisfying `SortContract` (a sorted permutation;
  `sort.Slice` is unstable, so nothing may depend on how it orders ties), over every registration order and
  over every distribution of the registrations over the three carriers (`mdNew`).
-/
import GM.Model.Registry
import GM.Proof.Registry

namespace GM.Props.C20
open GM GM.Registry

/-- `sorted_unique`. The registrations reach the configuration through any mix of carriers — constructor
    options, `WithParserOptions`/`WithRendererOptions`, extensions — and in any order. If their priorities are
    pairwise distinct, then what the first `Parse`/`Render` works with is THE ascending arrangement `t` of the
    registrations: it does not depend on the order, on the carriers, or on the sorting function. -/
theorem sorted_unique {α} (sort : List (PV α) → List (PV α)) (hs : SortContract sort)
    (ctor : List (PV α)) (opts : List (MdOption α)) (t : List (PV α))
    (ht : t.Perm (ctor ++ opts.flatMap MdOption.values)) (hasc : Ascending t)
    (distinct : (ctor ++ opts.flatMap MdOption.values).Pairwise (fun a b => a.prio ≠ b.prio)) :
    sort (mdNew ctor opts) = t :=
  Proof.Registry.sorted_is_the_ascending hs (ht.trans (Proof.Registry.mdNew_perm ctor opts).symm) hasc
    (Proof.Registry.distinct_perm (Proof.Registry.mdNew_perm ctor opts).symm distinct)

/-- `sorted_unique`, relational form: two configurations holding the same registrations (however ordered and
    carried) and two sorting functions give the same sorted configuration. -/
theorem sorted_order_independent {α} (s₁ s₂ : List (PV α) → List (PV α)) (h₁ : SortContract s₁) (h₂ : SortContract s₂)
    (ctor₁ ctor₂ : List (PV α)) (opts₁ opts₂ : List (MdOption α))
    (same : (ctor₁ ++ opts₁.flatMap MdOption.values).Perm (ctor₂ ++ opts₂.flatMap MdOption.values))
    (distinct : (ctor₁ ++ opts₁.flatMap MdOption.values).Pairwise (fun a b => a.prio ≠ b.prio)) :
    s₁ (mdNew ctor₁ opts₁) = s₂ (mdNew ctor₂ opts₂) :=
  Proof.Registry.sorted_unique h₁ h₂
    (((Proof.Registry.mdNew_perm ctor₁ opts₁).trans same).trans (Proof.Registry.mdNew_perm ctor₂ opts₂).symm)
    (Proof.Registry.distinct_perm (Proof.Registry.mdNew_perm ctor₁ opts₁).symm distinct)

/-- `trigger_table`. For every byte `b` the list consulted at a line starting with `b` is: the parsers whose
    `Trigger()` contains `b` (once per occurrence), in sorted order, followed by all trigger-less parsers in
    sorted order; a byte nobody is triggered by, and a block offset beyond the line, fall back to the
    trigger-less parsers alone. -/
theorem trigger_table (sort : List (PV BlockParser) → List (PV BlockParser)) (_hs : SortContract sort)
    (config : List (PV BlockParser)) (c : Option UInt8) :
    lookupBlock (buildBlock (sort config)) c =
      match c with
      | none => frees ((sort config).map (·.val))
      | some b => match triggered b ((sort config).map (·.val)) with
        | [] => frees ((sort config).map (·.val))
        | l => l ++ frees ((sort config).map (·.val)) :=
  Proof.Registry.lookupBlock_spec (sort config) c

/-- `trigger_table` when no parser names a byte twice: both parts are sub-lists of the sorted configuration,
    hence ascending in priority. -/
theorem trigger_table_ascending (sort : List (PV BlockParser) → List (PV BlockParser)) (hs : SortContract sort)
    (config : List (PV BlockParser)) (b : UInt8)
    (nodup : ∀ v ∈ config, (v.val.trig.getD []).Nodup) :
    let T := (sort config).filter (fun v => (v.val.trig.getD []).contains b)
    let F := (sort config).filter (fun v => v.val.trig.isNone)
    lookupBlock (buildBlock (sort config)) (some b) = (if T = [] then F else T ++ F).map (·.val) ∧
      Ascending T ∧ Ascending F := by
  intro T F
  refine ⟨?_, (hs.asc config).filter _, (hs.asc config).filter _⟩
  rw [Proof.Registry.lookupBlock_spec]
  have hn : ∀ p ∈ (sort config).map (·.val), (p.trig.getD []).Nodup := by
    intro p hp
    obtain ⟨v, hv, rfl⟩ := List.mem_map.mp hp
    exact nodup v ((hs.perm config).mem_iff.mp hv)
  simp only [Proof.Registry.triggered_eq_filter b _ hn, Proof.Registry.frees_filter]
  have e : List.filter (fun p => (p.trig.getD []).contains b) ((sort config).map (·.val)) = T.map (·.val) := by
    simp [T, List.filter_map, Function.comp_def]
  rw [e]
  cases hT : T with
  | nil => simp [F]
  | cons a t => simp [F]

/-- the inline table: for every byte, the parsers triggered by it in sorted order (nil when there is none) -/
theorem inline_table (sort : List (PV InlineParser) → List (PV InlineParser)) (_hs : SortContract sort)
    (config : List (PV InlineParser)) (b : UInt8) :
    buildInline (sort config) b =
      match triggeredI b ((sort config).map (·.val)) with
      | [] => none
      | l => some l :=
  Proof.Registry.buildInline_tab (sort config) b

/-- `free_after_triggered`. Whatever list is consulted splits into a front part of parsers triggered by the
    byte and a back part of trigger-less parsers: a trigger-less parser is never asked before a triggered one. -/
theorem free_after_triggered (sort : List (PV BlockParser) → List (PV BlockParser)) (_hs : SortContract sort)
    (config : List (PV BlockParser)) (b : UInt8) :
    ∃ T F, lookupBlock (buildBlock (sort config)) (some b) = T ++ F ∧
      (∀ p ∈ T, b ∈ p.trig.getD []) ∧ (∀ p ∈ F, p.trig = none) := by
  refine ⟨triggered b ((sort config).map (·.val)), frees ((sort config).map (·.val)), ?_, ?_, ?_⟩
  · rw [Proof.Registry.lookupBlock_spec]
    cases h : triggered b ((sort config).map (·.val)) <;> simp
    all_goals simp [h]
  · intro p hp; exact (Proof.Registry.triggered_mem hp).2
  · intro p hp
    have := (List.mem_filter.mp hp).2
    simpa using this

/-- `first_accept_wins`. One pass over a parser list (block parsers with the skipping rules, inline parsers
    with none): the winner is the first parser in list order that is not skipped and accepts; the parsers
    asked are exactly the non-skipped parsers before it, in list order, then the winner; nobody after the
    winner is asked. -/
theorem first_accept_wins {α} (skip accept : α → Bool) (ps : List α) :
    (consult skip accept ps).2 = ps.find? (fun p => !skip p && accept p) ∧
    (consult skip accept ps).1 =
      (ps.takeWhile (fun p => skip p || !accept p)).filter (fun p => !skip p) ++
        (ps.find? (fun p => !skip p && accept p)).toList ∧
    (consult skip accept ps).1.Sublist ps := by
  rw [Proof.Registry.consult_spec]
  refine ⟨rfl, rfl, ?_⟩
  rw [← Proof.Registry.consult_spec]
  exact Proof.Registry.consult_asked_sublist skip accept ps

/-- The property sentence for block parsers in one statement: on a line starting with byte `b`, the parsers
    actually asked (whatever they answer, whatever the skipping rules pass over) are registered parsers, asked in
    the order "triggered before trigger-less, ascending priority within each class" — for every registration
    order and every admissible sort. (`nodup`: no parser names the same trigger byte twice.) -/
theorem block_parsers_asked_by_priority (sort : List (PV BlockParser) → List (PV BlockParser)) (hs : SortContract sort)
    (config : List (PV BlockParser)) (b : UInt8) (nodup : ∀ v ∈ config, (v.val.trig.getD []).Nodup)
    (skip accept : BlockParser → Bool) :
    ∃ A : List (PV BlockParser),
      (consult skip accept (lookupBlock (buildBlock (sort config)) (some b))).1 = A.map (·.val) ∧
      (∀ a ∈ A, a ∈ config) ∧ A.Pairwise AskedBefore :=
  Proof.Registry.asked_by_priority hs config b nodup skip accept

/-- `transformers_ascending`. Paragraph and AST transformers are held in sorted order (hence ascending in
    priority, for every sort); on one paragraph the transformers run are a prefix of that order, ending with the
    first one that detached the paragraph. -/
theorem transformers_ascending {α} (sort : List (PV α) → List (PV α)) (hs : SortContract sort)
    (config : List (PV α)) (removes : α → Bool) :
    buildTransformers (sort config) = (sort config).map (·.val) ∧ Ascending (sort config) ∧
    (transformParagraph removes (buildTransformers (sort config))).1 =
      (buildTransformers (sort config)).takeWhile (fun t => !removes t) ++
        ((buildTransformers (sort config)).find? removes).toList := by
  refine ⟨rfl, hs.asc config, ?_⟩
  unfold transformParagraph
  rw [Proof.Registry.consult_spec]
  simp

/-- `renderer_min_wins`. If `m` registers kind `k` and every other registration of `k` has a strictly larger
    priority value, the function installed for `k` is `m`'s — for every registration order, carrier mix and
    sort. -/
theorem renderer_min_wins (sort : List (PV NodeRenderer) → List (PV NodeRenderer)) (hs : SortContract sort)
    (ctor : List (PV NodeRenderer)) (opts : List (MdOption NodeRenderer)) (k : Nat) (m : PV NodeRenderer)
    (hm : m ∈ ctor ++ opts.flatMap MdOption.values) (hk : k ∈ m.val.kinds)
    (hmin : ∀ v ∈ ctor ++ opts.flatMap MdOption.values, k ∈ v.val.kinds → v ≠ m → m.prio < v.prio) :
    dispatchKind (buildRenderer (sort (mdNew ctor opts))) k = some m.val.id := by
  have p := Proof.Registry.mdNew_perm ctor opts
  exact Proof.Registry.renderer_min hs (mdNew ctor opts) k m (p.mem_iff.mpr hm) hk
    (fun v hv => hmin v (p.mem_iff.mp hv))

/-- `missing_kind_skipped`, part 1: a kind has no function exactly when no renderer registered it — whether
    the kind lies inside the function slice or beyond its end (the lookup is bounds-checked, there is no
    panicking branch). -/
theorem missing_kind_iff (sort : List (PV NodeRenderer) → List (PV NodeRenderer)) (hs : SortContract sort)
    (config : List (PV NodeRenderer)) (k : Nat) :
    dispatchKind (buildRenderer (sort config)) k = none ↔ ∀ v ∈ config, k ∉ v.val.kinds :=
  Proof.Registry.dispatch_none_iff hs config k

theorem kind_beyond_table (table : List (Option Nat)) (k : Nat) (h : table.length ≤ k) :
    dispatchKind table k = none :=
  Proof.Registry.dispatch_beyond table k h

/-- `missing_kind_skipped`, part 2: walking a node whose kind has no function calls nothing for the node and
    yields exactly the walk of its children (all of them, until one reports stop). -/
theorem missing_kind_skipped (table : List (Option Nat)) (script : Nat → Nat → Bool → Status) (k : Nat)
    (cs : List Tree) (h : dispatchKind table k = none) :
    walk table script (.node k cs) =
      ((walkList table script cs).1, if (walkList table script cs).2 = .stop then .stop else .continue) :=
  Proof.Registry.walk_missing table script k cs h

/-- `ties_harmless`. Equal priorities matter only between block parsers triggered by a common byte, or between
    two trigger-less ones: if neither occurs, every consulted list is independent of registration order and of
    the sorting function, although the sorted configurations themselves may differ. -/
theorem ties_harmless (s₁ s₂ : List (PV BlockParser) → List (PV BlockParser)) (h₁ : SortContract s₁) (h₂ : SortContract s₂)
    (l₁ l₂ : List (PV BlockParser)) (same : l₁.Perm l₂)
    (noTieSharing : ∀ b, (l₁.filter (fun v => (v.val.trig.getD []).contains b)).Pairwise (fun a b => a.prio ≠ b.prio))
    (noTieFree : (l₁.filter (fun v => v.val.trig.isNone)).Pairwise (fun a b => a.prio ≠ b.prio))
    (c : Option UInt8) :
    lookupBlock (buildBlock (s₁ l₁)) c = lookupBlock (buildBlock (s₂ l₂)) c :=
  Proof.Registry.ties_harmless_lookup h₁ h₂ same noTieSharing noTieFree c

/-- the same for node renderers: ties between renderers that share no kind are harmless — only the minimum
    per kind matters (this is `renderer_min_wins` read for two sorts) -/
theorem ties_harmless_renderers (s₁ s₂ : List (PV NodeRenderer) → List (PV NodeRenderer)) (h₁ : SortContract s₁)
    (h₂ : SortContract s₂) (l₁ l₂ : List (PV NodeRenderer)) (same : l₁.Perm l₂) (k : Nat)
    (noTieSharing : (l₁.filter (fun v => v.val.kinds.contains k)).Pairwise (fun a b => a.prio ≠ b.prio)) :
    dispatchKind (buildRenderer (s₁ l₁)) k = dispatchKind (buildRenderer (s₂ l₂)) k := by
  rw [Proof.Registry.dispatch_build, Proof.Registry.dispatch_build,
    Proof.Registry.sorted_filter_unique h₁ h₂ same _ noTieSharing]

/-! ### non-vacuity: the hypotheses are satisfiable, the statements are about non-trivial values (tests) -/

/-- two different sorting functions satisfy the contract (they order ties differently) -/
example : SortContract (isort (α := Nat)) := Proof.Registry.isort_contract
example : SortContract (isortRev (α := Nat)) := Proof.Registry.isortRev_contract
example : (isort [⟨5, 1⟩, ⟨5, 2⟩]).map (·.val) ≠ (isortRev [(⟨5, 1⟩ : PV Nat), ⟨5, 2⟩]).map (·.val) := by decide

def pA : PV BlockParser := ⟨150, ⟨1, some [42], true, true⟩⟩          -- probe on '*'
def pB : PV BlockParser := ⟨200, ⟨101, some [45, 42, 95], true, false⟩⟩ -- thematic break: '-', '*', '_'
def pC : PV BlockParser := ⟨1000, ⟨109, none, false, false⟩⟩           -- paragraph
def pD : PV BlockParser := ⟨50, ⟨2, none, true, true⟩⟩                 -- trigger-less probe

/-- test: three carriers, scrambled order; '*' gives probe, thematic break, then the free ones ascending -/
example : (lookupBlock (buildBlock (isort (mdNew [pC] [.withExtensions [[pB]], .withOptions [pD], .withExtensions [[pA]]])))
    (some 42)).map (·.id) = [1, 101, 2, 109] := by decide
example : (lookupBlock (buildBlock (isortRev (mdNew [pA, pD] [.withOptions [pB, pC]]))) (some 42)).map (·.id)
    = [1, 101, 2, 109] := by decide
/-- test: a byte nobody is triggered by falls back to the free list -/
example : (lookupBlock (buildBlock (isort [pA, pB, pC, pD])) (some 97)).map (·.id) = [2, 109] := by decide
/-- test: hypotheses of `sorted_unique` hold for this configuration -/
example : ([pC] ++ [MdOption.withExtensions [[pB]], .withOptions [pD]].flatMap MdOption.values).Pairwise
    (fun a b => a.prio ≠ b.prio) := by decide
/-- test: first accept: the thematic-break parser (101) accepts, the probe before it was asked, nobody after -/
example : (consult (skipBlock false false) (fun p => p.id == 101) (lookupBlock (buildBlock (isort [pA, pB, pC, pD])) (some 42))).1.map (·.id)
    = [1, 101] := by decide
/-- test: a parser that cannot interrupt a paragraph is passed over while a paragraph is open -/
example : (consult (skipBlock true false) (fun _ => false) (lookupBlock (buildBlock (isort [pA, pB, pC, pD])) (some 42))).1.map (·.id)
    = [1, 101, 2] := by decide

def rH : PV NodeRenderer := ⟨1000, ⟨400, [1, 3, 7, 15]⟩⟩     -- "html": kinds up to 15
def rX : PV NodeRenderer := ⟨100, ⟨1, [15]⟩⟩                 -- override of kind 15
def rY : PV NodeRenderer := ⟨2000, ⟨2, [7]⟩⟩                 -- a too-late override of kind 7

/-- tests: the lowest value wins whatever the order; kind 9 (inside the table) and 16, 99 (beyond) are skipped -/
example : dispatchKind (buildRenderer (isort [rH, rX, rY])) 15 = some 1 := by decide
example : dispatchKind (buildRenderer (isortRev [rY, rX, rH])) 15 = some 1 := by decide
example : dispatchKind (buildRenderer (isort [rY, rH, rX])) 7 = some 400 := by decide
example : (buildRenderer (isort [rH, rX, rY])).length = 16 := by decide
example : dispatchKind (buildRenderer (isort [rH, rX, rY])) 9 = none ∧
    dispatchKind (buildRenderer (isort [rH, rX, rY])) 16 = none ∧
    dispatchKind (buildRenderer (isort [rH, rX, rY])) 99 = none := by decide
/-- test: the children of a function-less node (kind 99) are rendered -/
example : (walk (buildRenderer (isort [rH, rX])) (fun _ _ _ => .continue) (.node 99 [.node 15 [], .node 3 []])).1 =
    [⟨1, 15, true⟩, ⟨1, 15, false⟩, ⟨400, 3, true⟩, ⟨400, 3, false⟩] := by decide

/-- A tie that is NOT harmless: two parsers on '*' with equal priority — the two admissible sorts disagree, so
    the hypothesis `noTieSharing` of `ties_harmless` cannot be dropped (and the property text's "distinct
    priorities" proviso is necessary). -/
example :
    (lookupBlock (buildBlock (isort [⟨5, ⟨1, some [42], true, true⟩⟩, ⟨5, ⟨2, some [42], true, true⟩⟩])) (some 42)).map (·.id) ≠
    (lookupBlock (buildBlock (isortRev [⟨5, ⟨1, some [42], true, true⟩⟩, ⟨5, ⟨2, some [42], true, true⟩⟩])) (some 42)).map (·.id) := by
  decide

end GM.Props.C20
