/-
  Property C12 — the source buffer is never written.
  Proved here, over a heap of Go byte slices WITH capacity (so `append` stores in place whenever it fits):
  no sequence of CopyOnWriteBuffer operations and no Segment.Value call stores into any array that existed
  before the call — in particular not into the array backing the source / the input slice — and the
  bytes of all pre-existing arrays are unchanged; the buffer's result aliases the input only when nothing
  was written. The pre-repair Segment.Value is kept as a refuting witness (it did store into the source).
  The REST of the code base is tied to this by a kernel-checked obligation over a write-site inventory that is
  REGENERATED from the tree under test on every run (GM.Gen.SliceWrites; extractor harness/cmd/gmgen/gen_slicewrites.go):
  every byte-slice write primitive (index store, copy, append, clear, a []byte handed to a writing library call or
  to a goldmark function that writes through that parameter) in parser/, text/, util/, renderer/, extension/, ast/
  and the root package has a destination the writing function owns (freshly allocated, the copy-on-write buffer's
  own buffer behind its guard, or a parameter whose every call site is checked), or is on the reviewed allow-list
  of GM.Spec.SliceWrites.
  What neither the model nor the inventory can exhibit: the origin analysis is intra-procedural (plus result /
  written-parameter summaries of statically resolved goldmark callees); memory reached through struct fields,
  interfaces or reflection is classified `field`/`call`/`unknown`, i.e. never trusted, but a slice that is stored
  in a field and written elsewhere through a FRESH-looking alias is outside it. That part is searched: the harness
  converts every document from a PROT_READ mapping whose spare capacity is read-only too (component `rosource`).
-/
import GM.Proof.Slices
import GM.Spec.SliceWrites

namespace GM.Props.C12
open GM GM.Slices

/-- CopyOnWriteBuffer never stores into an array that existed when it was created: after ANY sequence of
    Write/Append operations every old array is bit-identical and every logged store hit a newer array. -/
theorem cow_never_writes_origin (grow : Nat → Nat) (h0 : Heap) (s : Slice) (ops : List CowOp) :
    Extends h0 (cowRun grow h0 s ops).1 := (cowInv_run grow h0 s ops).1

/-- … in particular the bytes seen through the original slice are unchanged. -/
theorem cow_input_untouched (grow : Nat → Nat) (h0 : Heap) (s : Slice) (ops : List CowOp)
    (hs : s.arr < h0.arrs.length) : (cowRun grow h0 s ops).1.arrs[s.arr]? = h0.arrs[s.arr]? :=
  (cowInv_run grow h0 s ops).1.old s.arr hs

/-- Bytes() is the caller's slice itself exactly as long as nothing was written (then the heap is untouched
    too); once something was written the result lives in an array allocated by the buffer. -/
theorem cow_result_aliases_only_when_unchanged (grow : Nat → Nat) (h0 : Heap) (s : Slice) (ops : List CowOp) :
    ((cowRun grow h0 s ops).2.copied = false → (cowRun grow h0 s ops).2.buf = s ∧ (cowRun grow h0 s ops).1 = h0) ∧
    ((cowRun grow h0 s ops).2.copied = true → h0.arrs.length ≤ (cowRun grow h0 s ops).2.buf.arr) :=
  (cowInv_run grow h0 s ops).2

/-- Segment.Value (as repaired by 8e80f0e) never stores into a pre-existing array, whatever the padding, the
    forced newline and the spare capacity of the source slice. -/
theorem segment_value_never_writes_source (grow : Nat → Nat) (h0 : Heap) (src : Slice)
    (start stop padding : Nat) (fn : Bool) (hsrc : src.arr < h0.arrs.length) :
    Extends h0 (segValue grow h0 src start stop padding fn).1 :=
  extends_segValue grow h0 src start stop padding fn hsrc

/-- Refuting witness for the code before the repair (a test on one concrete heap): a source "ab" held in a
    4-byte array, segment [0,2) without trailing newline, ForceNewline set — the old Segment.Value stored
    the newline INTO the source's array. -/
theorem segment_value_old_wrote_source :
    (segValueOld (fun n => 2 * n) { arrs := [[97, 98, 0, 0]], stores := [] } ⟨0, 0, 2, 4⟩ 0 2 0 true).1.stores = [0] := by
  decide

/-- non-vacuity (test): on the same heap the repaired function allocates instead -/
example :
    (segValue (fun n => 2 * n) { arrs := [[97, 98, 0, 0]], stores := [] } ⟨0, 0, 2, 4⟩ 0 2 0 true).1.stores = [] ∧
    (segValue (fun n => 2 * n) { arrs := [[97, 98, 0, 0]], stores := [] } ⟨0, 0, 2, 4⟩ 0 2 0 true).2.arr = 1 := by
  decide

/-- non-vacuity (test): a buffer that appends in place into ITS OWN spare capacity does log stores, all into
    its own array 1, never into array 0 -/
example :
    (cowRun (fun n => 2 * n) { arrs := [[1, 2, 3]], stores := [] } ⟨0, 0, 3, 3⟩ [.append [4], .append [5], .write [6]]).1.stores = [1, 1, 1] := by
  decide

/-- Regenerated fact: every byte-slice write site of goldmark writes to memory its function owns (fresh, the
    copy-on-write buffer behind its guard, a call-site-checked parameter) or is a reviewed exception. A new
    `append(view, …)`, `bytes.NewBuffer(view)`, `view[i] = c`, `copy(view, …)`, `strconv.AppendInt(view, …)` with
    `view` derived from a parameter, a call result, a field or a global breaks this theorem. -/
theorem facts_slice_writes_fresh : Spec.sliceWritesOK Gen.sliceWrites = true := by decide +kernel

/-- Regenerated fact (sanity / non-vacuity of the inventory): it is not empty and contains the write sites the
    property text itself points at. -/
theorem facts_slice_writes_cover : Spec.sliceWritesCover Gen.sliceWrites = true := by decide +kernel

/-- Regenerated fact: the four mutators of CopyOnWriteBuffer have the guard shape the heap model stands for. -/
theorem facts_cow_sites_guarded : Spec.cowSitesGuarded Gen.sliceWrites = true := by decide +kernel

/-- test: the predicate is not trivially true — a site whose destination derives from a parameter, or from a call
    result, is rejected; the same site with a fresh destination is accepted -/
example : Spec.sliceWritesOK [⟨"parser", "ids.Generate", "append", "result[:base]", .param, "param:0", "parser.go", 1⟩] = false ∧
    Spec.sliceWritesOK [⟨"parser", "parseAttributeString", "writer:bytes.NewBuffer", "line[:i]", .call, "call", "attribute.go", 1⟩] = false ∧
    Spec.sliceWritesOK [⟨"parser", "ids.Generate", "append", "result", .fresh, "", "parser.go", 1⟩] = true := by decide

end GM.Props.C12
