/-
  Property C14 — writer failures surface as errors and never corrupt what was written.

  Theorems about the model GM.Model.Bufio of renderer/renderer.go:157-173 (`Render`: bufio wrap unless the
  destination is a util.BufWriter; early `return err`; final `writer.Flush()`), Go's bufio.Writer
  (Flush / Write / WriteString / WriteByte / WriteRune) and markdown.go:115-119 (`Convert`).
  Every theorem quantifies over EVERY list `calls` of Write/WriteString/WriteByte/WriteRune calls (whatever the
  node renderers output; they ignore all per-write results), every fault offset `k`, every failure mode,
  destinations with and without io.StringWriter, and both ways a destination reaches Render
  (`Dest.From u0 d pre`: wrapped plain writer, or a caller-supplied bufio.Writer of any positive size on which
  the caller already made any calls `pre`). `nodeErr = some j` = a node renderer returns an error after `j` calls.
-/
import GM.Model.Bufio
import GM.Proof.Bufio

namespace GM.Props.C14
open GM GM.Bufio GM.Proof.Bufio

/-- The bytes the destination accepted are a prefix of the concatenation of all chunks handed to the
    buffered writer (the caller's earlier ones, then the node renderers'), whatever fails wherever. -/
theorem accepted_is_prefix (mode : Mode) (k : Nat) (sw : Bool) (d : Dest) (pre calls : List Call)
    (nodeErr : Option Nat) (hd : Dest.From (Under.new mode k sw) d pre) :
    (render d calls nodeErr).1.u.acc <+: allBytes (pre ++ calls) := by
  have h := (render_spec closed_true (new_fresh mode k sw) trivial hd calls nodeErr).1.acc_prefix
  rw [allBytes_append]
  refine List.IsPrefix.trans h ((List.prefix_append_right_inj _).2 ?_)
  cases nodeErr with
  | none => exact List.prefix_refl _
  | some j => exact allBytes_take_prefix calls j

/-- If the destination ever returned an error, Render returns a non-nil error; when no node renderer failed it
    is exactly the destination's (sticky) error, otherwise it is the node renderer's. -/
theorem error_surfaces (mode : Mode) (k : Nat) (sw : Bool) (d : Dest) (pre calls : List Call)
    (nodeErr : Option Nat) (hd : Dest.From (Under.new mode k sw) d pre)
    (hfailed : (render d calls nodeErr).1.u.failed = true) :
    (render d calls nodeErr).2 ≠ none ∧ (nodeErr = none → (render d calls nodeErr).2 = some .injected) ∧
    (nodeErr ≠ none → (render d calls nodeErr).2 = some .node) := by
  obtain ⟨hi, h1, h2⟩ := render_spec closed_true (new_fresh mode k sw) trivial hd calls nodeErr
  have he := hi.err_iff_failed.1 hfailed
  cases nodeErr with
  | none =>
    have := (h1 rfl).1
    rw [he] at this
    simp [this]
  | some j => simp [h2 j rfl]

/-- Conversely Render reports the destination's error only if the destination really failed, and then
    something was lost: the accepted bytes are a strict prefix. -/
theorem error_only_if_failed (mode : Mode) (k : Nat) (sw : Bool) (d : Dest) (pre calls : List Call)
    (hd : Dest.From (Under.new mode k sw) d pre) (e : Err) (he : (render d calls none).2 = some e) :
    e = .injected ∧ (render d calls none).1.u.failed = true ∧
    (render d calls none).1.u.acc.length < (allBytes (pre ++ calls)).length := by
  obtain ⟨hi, h1, _⟩ := render_spec closed_true (new_fresh mode k sw) trivial hd calls none
  rw [(h1 rfl).1] at he
  obtain ⟨a, b, _, c⟩ := hi.herr e he
  exact ⟨a, b, by simpa [allBytes_append, made] using c⟩

/-- A destination that never fails: Render returns nil and the destination has received every byte. -/
theorem no_fault_complete (k : Nat) (sw : Bool) (d : Dest) (pre calls : List Call)
    (hd : Dest.From (Under.new .ok k sw) d pre) :
    (render d calls none).2 = none ∧ (render d calls none).1.u.acc = allBytes (pre ++ calls) := by
  obtain ⟨hi, h1, _⟩ := render_spec closed_ok (new_fresh .ok k sw) ⟨rfl, rfl⟩ hd calls none
  have he := hi.err_iff_failed.2 hi.hP.2
  obtain ⟨h2, h3⟩ := h1 rfl
  refine ⟨by rw [h2, he], ?_⟩
  have := complete_of_no_err hi he (h3 he)
  simpa [allBytes_append, made] using this

/-- Short write + error from offset `k` (on that call and every later one): the destination holds exactly the
    first `k` bytes of the output, and Render returns the destination's error iff the output is longer than `k`
    — for every `k`, below, at or beyond any buffer boundary. -/
theorem short_fault_exact (k : Nat) (sw : Bool) (d : Dest) (pre calls : List Call)
    (hd : Dest.From (Under.new .short k sw) d pre) :
    (render d calls none).1.u.acc = (allBytes (pre ++ calls)).take k ∧
    (render d calls none).2 = if k < (allBytes (pre ++ calls)).length then some .injected else none := by
  have hP0 : PShort k (Under.new .short k sw) := by
    refine ⟨rfl, fun _ => by simp [Under.new, Under.acc], fun h => by simp [Under.new] at h⟩
  obtain ⟨hi, h1, _⟩ := render_spec (closed_short k) (new_fresh .short k sw) hP0 hd calls none
  obtain ⟨h2, h3⟩ := h1 rfl
  have htot : allBytes pre ++ allBytes (made calls none) = allBytes (pre ++ calls) := by simp [allBytes_append, made]
  rw [htot] at hi
  obtain ⟨_, hs1, hs2⟩ := hi.hP
  cases hf : (render d calls none).1.u.failed with
  | true =>
    have he := hi.err_iff_failed.1 hf
    obtain ⟨_, _, hp, hlt⟩ := hi.herr _ he
    have hk := (hs2 hf).1
    refine ⟨?_, ?_⟩
    · have := prefix_length_eq hp
      rwa [hk] at this
    · rw [h2, he, if_pos (by omega)]
  | false =>
    have he := hi.err_iff_failed.2 hf
    have hc := complete_of_no_err hi he (h3 he)
    have hk := hs1 hf
    refine ⟨?_, ?_⟩
    · rw [hc, List.take_of_length_le (by rw [← hc]; omega)]
    · rw [h2, he, if_neg (by rw [← hc]; omega)]

/-- A destination that fails on every call: it accepts nothing, and Render returns its error unless there was
    nothing to write at all. -/
theorem always_fault (k : Nat) (sw : Bool) (d : Dest) (pre calls : List Call)
    (hd : Dest.From (Under.new .always k sw) d pre) :
    (render d calls none).1.u.acc = [] ∧
    (allBytes (pre ++ calls) ≠ [] → (render d calls none).2 = some .injected) := by
  obtain ⟨hi, h1, _⟩ := render_spec closed_always (new_fresh .always k sw) ⟨rfl, (new_fresh .always k sw).1⟩ hd calls none
  obtain ⟨h2, h3⟩ := h1 rfl
  refine ⟨hi.hP.2, ?_⟩
  intro hne
  cases hf : (render d calls none).1.u.failed with
  | true => rw [h2, hi.err_iff_failed.1 hf]
  | false =>
    have he := hi.err_iff_failed.2 hf
    have hc := complete_of_no_err hi he (h3 he)
    rw [hi.hP.2] at hc
    exact absurd (by simpa [allBytes_append, made] using hc.symm) hne

/-- When a node renderer returns an error after `j` calls, Render returns that error (nothing is flushed),
    and what the destination holds is a prefix of what the renderers wrote before the error. -/
theorem node_error_returned (mode : Mode) (k : Nat) (sw : Bool) (d : Dest) (pre calls : List Call) (j : Nat)
    (hd : Dest.From (Under.new mode k sw) d pre) :
    (render d calls (some j)).2 = some .node ∧
    (render d calls (some j)).1.u.acc <+: allBytes (pre ++ calls.take j) := by
  obtain ⟨hi, _, h2⟩ := render_spec closed_true (new_fresh mode k sw) trivial hd calls (some j)
  refine ⟨h2 j rfl, ?_⟩
  simpa [allBytes_append, made] using hi.acc_prefix

/-- No panic (no out-of-range store in WriteByte) and every loop of the model terminates within its fuel. -/
theorem never_panics_fuel_suffices (mode : Mode) (k : Nat) (sw : Bool) (d : Dest) (pre calls : List Call)
    (nodeErr : Option Nat) (hd : Dest.From (Under.new mode k sw) d pre) :
    (render d calls nodeErr).1.panicked = false ∧ (render d calls nodeErr).1.starved = false := by
  obtain ⟨hi, _, _⟩ := render_spec closed_true (new_fresh mode k sw) trivial hd calls nodeErr
  exact ⟨hi.np, hi.ns⟩

/-- `Convert` returns Render's result unchanged, whatever the parser and the node renderers do. -/
theorem convert_returns_render_error {Doc : Type} (parse : Bytes → Doc) (rend : Doc → List Call × Option Nat)
    (src : Bytes) (d : Dest) :
    convert parse rend src d = render d (rend (parse src)).1 (rend (parse src)).2 := rfl

/-! ### non-vacuity / tests on literals (not theorems) -/

-- both constructors of `Dest.From` are inhabited: the wrapped path and a supplied 16-byte bufio.Writer with history
example : Dest.From (Under.new .short 5 false) (.plain (Under.new .short 5 false)) [] := .wrapped
example : Dest.From (Under.new .short 5 true) (.buf ((fresh 16 (Under.new .short 5 true)).run [.writeByte 1])) [.writeByte 1] :=
  .supplied 16 (by decide) _
-- the hypothesis of `error_surfaces` is satisfiable: 3-byte buffer, 7 bytes written, the destination takes 5
example : (render (.buf (fresh 3 (Under.new .short 5 false))) [.write [1, 2, 3, 4], .writeByte 5, .writeString [6, 7]] none).1.u.failed = true := by decide
example : (render (.buf (fresh 3 (Under.new .short 5 false))) [.write [1, 2, 3, 4], .writeByte 5, .writeString [6, 7]] none).2 = some .injected := by decide
example : (render (.buf (fresh 3 (Under.new .short 5 false))) [.write [1, 2, 3, 4], .writeByte 5, .writeString [6, 7]] none).1.u.acc = [1, 2, 3, 4, 5] := by decide
-- the early-return path loses buffered bytes but reports the node error
example : (render (.plain (Under.new .ok 0 false)) [.write [1, 2, 3]] (some 1)).2 = some .node := by decide
example : (render (.plain (Under.new .ok 0 false)) [.write [1, 2, 3]] (some 1)).1.u.acc = [] := by decide
-- a zero-size buffer (only the zero value `bufio.Writer{}` has one; excluded by `Dest.From`) does panic in WriteByte
example : ((fresh 0 (Under.new .ok 0 false)).run [.writeByte 1]).panicked = true := by decide

end GM.Props.C14
