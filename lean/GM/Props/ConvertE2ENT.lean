/-
  GM.Props.ConvertE2ENT — END-TO-END TOTALITY for goldmark with a parser built WITHOUT paragraph transformers
  (`parser.NewParser(parser.WithBlockParsers(parser.DefaultBlockParsers()...), parser.WithInlineParsers(
  parser.DefaultInlineParsers()...))`: the configuration GM.Model.Blocks.Driver models; no link reference definitions), and
  what it gives for the default configuration `convertCore`.

  `GM.E2E.convertT pts guard uc o src` is `GM.Convert.convertWith` with the list of paragraph transformers as a parameter
  (`convert_with_is_convertT`: `convertWith guard = convertT (paragraphTransformers guard) guard` by `rfl`);
  `convertNT = convertT [] true`. Composes: `runT [] = run` (GM.Proof.E2ERunEq), `GM.Props.Blocks.no_panic` /
  `lines_in_range`, package wf0's `GM.Props.Wf0.inline_lines_wf0` / `inline_lines_ordered`, `GM.Props.Inlines.parseBlock_total`,
  and the frame invariants / renderer-side totality of package e2e. Kept apart from GM.Props.ConvertE2E because it needs wf0
  (round 2). Proofs: GM/Proof/E2ENT.lean.
-/
import GM.Proof.E2ENT

namespace GM.Props.ConvertE2ENT
open GM GM.Text GM.Convert GM.Spec GM.E2E

/-- `convert_with_is_convertT`: the composed model is the instance `pts = paragraphTransformers guard` -/
theorem convert_with_is_convertT (guard : Bool) (uc : List (Nat × (Bool × Bool))) (o : ROpts) (src : Bytes) :
    convertWith guard uc o src = convertT (paragraphTransformers guard) guard uc o src := rfl

/-- **`convert_total_without_transformers`** — for EVERY byte string, every Unicode class assignment and every renderer
    option set, the pipeline without paragraph transformers answers HTML: no Go panic of the block phase (all ten
    parsers), none of the inline phase, no `Segment.Value` panic while a node renderer resolves a segment, no node
    renderer panic; the run-time `WF0` check on the lines handed to the inline phase passes; no fuel bound, contract
    monitor or modelling precondition is hit. -/
theorem convert_total_without_transformers (uc : List (Nat × (Bool × Bool))) (o : ROpts) (src : Bytes) :
    ∃ html, convertNT uc o src = .ok html :=
  convertNT_total uc o src

/-- `convert_total_of_store`: the DEFAULT pipeline answers HTML on every source on which its block phase (with the
    link-reference transformer) answers a store whose raw segments are in range and whose inline-bearing blocks have `WF0`
    lines (`StoreTot`) — what remains of C01 for `convertCore` is exactly "the block phase with the transformer answers
    such a store". -/
theorem convert_total_of_store (uc : List (Nat × (Bool × Bool))) (o : ROpts) (src : Bytes) (st : GM.Blocks.St)
    (hst : blockPhase true src = .ok st) (hS : StoreTot src st) : ∃ html, convertCore uc o src = .ok html :=
  convertT_total_of_store (paragraphTransformers_keep true) uc o src st hst hS

/-- **`convert_total_of_block_facts`** — the interface to the block-phase packages (tnopanic: `block_phase_total`,
    `block_phase_lines_wellformed`; wf0: the close discipline). `convertCore` answers HTML on every source on which the
    block phase with the link-reference transformer answers a store in which (i) every line is in range, (ii) the lines of
    every non-raw block with lines are `WFSegs`, (iii) every line of a non-raw block has padding 0. CAUTION: (iii) store-wide is FALSE for the driver with
    transformers on some sources (see `convert_total_of_tree_facts`); this form is for drivers without them. Nothing else about the
    block phase is needed: the info / closure segments, heading levels and the root are frame invariants of this package,
    the inline phase is total on `WF0` lines, its segments resolve, no node renderer panics. -/
theorem convert_total_of_block_facts (uc : List (Nat × (Bool × Bool))) (o : ROpts) (src : Bytes) (st : GM.Blocks.St)
    (hst : blockPhase true src = .ok st)
    (hL : ∀ n ∈ st.nodes, ∀ t ∈ n.lines, 0 ≤ t.start ∧ t.start ≤ t.stop ∧ t.stop ≤ src.length ∧ 0 ≤ t.padding)
    (hW : ∀ n ∈ st.nodes, GM.Proof.BlocksWF0.isRaw n.kind = false → n.lines ≠ [] → WFSegs src n.lines)
    (hP : ∀ n ∈ st.nodes, GM.Proof.BlocksWF0.isRaw n.kind = false → ∀ t ∈ n.lines, t.padding = 0) :
    ∃ html, convertCore uc o src = .ok html :=
  convertCore_total_of_facts uc o src st hst hL hW hP

/-- **`convert_total_of_tree_facts`** — the same interface in TREE form. The store of the driver WITH transformers contains
    nodes that are not in the tree (a Paragraph that was transformed away; a setext Heading abandoned on the `goto retry`
    behind it keeps a padded line: tnopanic's witness `> [a]: /u⏎>⇥===⏎`), so "padding 0" is only true of attached nodes —
    and `docTree` only visits the tree: (iii) is needed of the non-raw nodes that are somebody's child, and the Document has
    no lines. -/
theorem convert_total_of_tree_facts (uc : List (Nat × (Bool × Bool))) (o : ROpts) (src : Bytes) (st : GM.Blocks.St)
    (hst : blockPhase true src = .ok st)
    (hL : ∀ n ∈ st.nodes, ∀ t ∈ n.lines, 0 ≤ t.start ∧ t.start ≤ t.stop ∧ t.stop ≤ src.length ∧ 0 ≤ t.padding)
    (hW : ∀ n ∈ st.nodes, GM.Proof.BlocksWF0.isRaw n.kind = false → n.lines ≠ [] → WFSegs src n.lines)
    (hP : ∀ p c, c ∈ (st.nodes.getD p default).children → GM.Proof.BlocksWF0.isRaw (st.nodes.getD c default).kind = false →
      ∀ t ∈ (st.nodes.getD c default).lines, t.padding = 0)
    (h0 : (st.nodes.getD 0 default).lines = []) :
    ∃ html, convertCore uc o src = .ok html :=
  convertCore_total_of_tree_facts uc o src st hst hL hW hP h0

/-- **`convert_total_of_block_phase_theorems`** — C01 END TO END for the default pipeline from statements about its block
    phase, in the shapes package tnopanic states / announces them (`GM.Props.ConvertNP.block_phase_total`,
    `block_phase_lines_wellformed`, and the tree-walk form of the close discipline): the block phase with the link-reference
    transformer always answers a store with `NodesOK`; the lines of its non-raw blocks are `WFSegs`; every line of a non-raw
    node that is somebody's child has padding 0; the Document has no lines. Then for EVERY byte string, Unicode-class
    assignment and option set `convertCore` answers HTML — no error outcome of any phase. -/
theorem convert_total_of_block_phase_theorems
    (hTot : ∀ src, ∃ s, blockPhase true src = .ok s ∧ GM.Blocks.NodesOK src s ∧ GM.Blocks.KidsOK s)
    (hWF : ∀ src s, blockPhase true src = .ok s →
      (∀ n ∈ s.nodes, GM.Proof.BlocksWF0.isRaw n.kind = false → GM.Blocks.OrdFrom 0 n.lines ∧
          (∀ t ∈ n.lines, t.start < t.stop ∧ t.forceNewline = false) ∧ (n.lines ≠ [] → WFSegs src n.lines)) ∧
      (∀ n ∈ s.nodes, n.kind = .paragraph → ∀ t ∈ n.lines, GM.Blocks.NonBlankSeg src t))
    (hPad : ∀ src s, blockPhase true src = .ok s →
      (∀ p c, c ∈ (s.nodes.getD p default).children → GM.Proof.BlocksWF0.isRaw (s.nodes.getD c default).kind = false →
        ∀ t ∈ (s.nodes.getD c default).lines, t.padding = 0) ∧ (s.nodes.getD 0 default).lines = [])
    (uc : List (Nat × (Bool × Bool))) (o : ROpts) (src : Bytes) : ∃ html, convertCore uc o src = .ok html := by
  obtain ⟨st, hst, hN, _⟩ := hTot src
  exact convertCore_total_of_tree_facts uc o src st hst (fun n hn t ht => (hN n hn).lines t ht)
    (fun n hn hr hne => ((hWF src st hst).1 n hn hr).2.2 hne) (hPad src st hst).1 (hPad src st hst).2

/-- `store_of_plain_driver_is_total`: the store of the transformer-free block phase has `StoreTot`, every source -/
theorem store_of_plain_driver_is_total (src : Bytes) (st : GM.Blocks.St) (h : GM.Blocks.run src = .ok st) :
    StoreTot src st :=
  run_storeTot src st h

/-- `convert_total_of_block_phase_agreement`: `convertCore` answers HTML on every source on which the block phase with
    the link-reference transformer ends with the node store of the transformer-free one (sources without `[`, once "a
    Paragraph handed to a transformer has WF lines" is carried through the driver with transformers). -/
theorem convert_total_of_block_phase_agreement (uc : List (Nat × (Bool × Bool))) (o : ROpts) (src : Bytes)
    (hA : ∃ st st', blockPhase true src = .ok st ∧ GM.Blocks.run src = .ok st' ∧ st.nodes = st'.nodes) :
    ∃ html, convertCore uc o src = .ok html :=
  convertCore_total_of_agree uc o src hA

/-! ### C05 -/

/-- `parse_ast_exists_without_transformers`: the parser without transformers always answers a tree (with segments) -/
theorem parse_ast_exists_without_transformers (uc : List (Nat × (Bool × Bool))) (src : Bytes) :
    ∃ a, parseAstT [] true uc src = .ok a :=
  parseAstNT_exists uc src

/-- `store_hyps_of_plain_driver`: ALL FOUR store hypotheses of `parser_output_wellformed_partial` are theorems for the
    transformer-free block phase, every source — `lines` (`GM.Props.Blocks.lines_in_range`), `ord` (wf0 `all_lines_ordered`, the
    raw kinds included), `noLines` (wf0 `container_nodes_no_lines`), `listShape` (the children of a List are ListItems:
    `KidsOK` of the final store; a ListItem is only ever a child of a List: GM.Proof.E2EList). -/
theorem store_hyps_of_plain_driver (src : Bytes) (st : GM.Blocks.St) (h : GM.Blocks.run src = .ok st) :
    StoreHypsCore src st :=
  run_storeHypsCore src st h

/-- **`parser_output_wellformed_without_transformers`** — C05 END TO END, unconditional, for the parser without paragraph
    transformers: for EVERY byte string and Unicode-class assignment the parse phases answer a tree, and its position dump
    (the format of the harness' dumper) passes `Spec.wfAst` with `len(source)`: clause (a) sibling / parent links and
    counts, no node twice; (b) the root is the Document, children of Lists are ListItems and ListItems only occur there,
    inline nodes only below blocks that take them, Heading levels 1..6, Emphasis levels 1..2; (c) every segment inside the
    source, a block's lines in order, inline segments in order inside their block's lines. -/
theorem parser_output_wellformed_without_transformers (uc : List (Nat × (Bool × Bool))) (src : Bytes) :
    ∃ a, parseAstT [] true uc src = .ok a ∧ wfAst src.length (dumpAst a) = none :=
  parseAstNT_wfAst uc src

/-- **`block_phase_items_under_lists`** — for EVERY source: in the store the block phase WITH the link-reference transformer
    returns (guarded or not), a ListItem is only ever a child of a List, and every child index is a node of the store.
    (An invariant that is NOT blind to child lists: the two edge-adding writes of ast.go — `AppendChild`, `InsertBefore` —
    are obligations; the four places that add an edge know that the new child is a fresh node of another kind, or that
    `listItemParser.Open` has just checked `parent.(*ast.List)`.) -/
theorem block_phase_items_under_lists (guard : Bool) (src : Bytes) (st : GM.Blocks.St)
    (h : blockPhase guard src = .ok st) :
    ∀ i, ∀ c ∈ (st.nodes.getD i default).children, c < st.nodes.length ∧
      ((st.nodes.getD c default).kind = .listItem → (st.nodes.getD i default).kind = .list) :=
  GM.E2E.LI.blockPhase_lc guard src st h

/-- `list_shape_of_kids_ok`: with `KidsOK` (tnopanic `block_phase_total`) the store hypothesis `listShape` of the default
    pipeline is a theorem -/
theorem list_shape_of_kids_ok (guard : Bool) (src : Bytes) (st : GM.Blocks.St) (h : blockPhase guard src = .ok st)
    (hK : GM.Blocks.KidsOK st) : ListShape st :=
  listShape_of_halves hK (blockPhase_itemsUnderLists guard src st h)

/-- `parser_output_wellformed_of_block_phase_facts` — C05 END TO END for the default pipeline from facts about its block
    phase in the shapes the block-phase packages state them: `NodesOK` and `KidsOK` (tnopanic `block_phase_total`), the
    order of the lines of every block (tnopanic `block_phase_lines_wellformed` has the non-raw kinds) and "Document / List
    have no lines" — wf0 has the last two for `run` (`all_lines_ordered`, `container_nodes_no_lines`), NOT yet for the
    driver with the transformer. The other half of the list shape is `block_phase_items_under_lists`. -/
theorem parser_output_wellformed_of_block_phase_facts (uc : List (Nat × (Bool × Bool))) (src : Bytes) (a : ATree)
    (h : parseAst true uc src = .ok a)
    (hN : ∀ st, blockPhase true src = .ok st → GM.Blocks.NodesOK src st ∧ GM.Blocks.KidsOK st)
    (hO : ∀ st, blockPhase true src = .ok st → ∀ n ∈ st.nodes, GM.Blocks.OrdFrom 0 n.lines)
    (hNL : ∀ st, blockPhase true src = .ok st → ∀ n ∈ st.nodes, (n.kind = .document ∨ n.kind = .list) → n.lines = []) :
    wfAst src.length (dumpAst a) = none :=
  GM.E2E.parseAst_wfAst_core uc src a h (fun st hst =>
    { lines := fun n hn t ht => ((hN st hst).1 n hn).lines t ht
      ord := fun n hn => ordFrom_of_OrdFrom _ _ (hO st hst n hn)
      noLines := hNL st hst
      listShape := list_shape_of_kids_ok true src st hst (hN st hst).2 })

/-- `parser_output_wellformed_of_store`: `parser_output_wellformed_partial` for ANY list of paragraph transformers that
    keep the three frame invariants (`PTsGood`; the empty list and the default list do) -/
theorem parser_output_wellformed_of_store {pts : List GM.Blocks.PT} {src : Bytes} (hp : PTsGood src pts)
    (uc : List (Nat × (Bool × Bool))) (a : ATree) (h : parseAstT pts true uc src = .ok a)
    (hS : ∀ st, GM.Blocks.runT pts src = .ok st → StoreHypsCore src st) : wfAst src.length (dumpAst a) = none :=
  parseAstT_wfAst hp uc a h hS

/-! ### sources without `[` -/

/-- **`convert_bracket_free`** — for EVERY source without `[`: `convertCore` answers what the pipeline without paragraph
    transformers answers (which is always HTML), or it ends in a block-phase error -/
theorem convert_bracket_free (uc : List (Nat × (Bool × Bool))) (o : ROpts) (src : Bytes) (hb : NoBracket src) :
    convertCore uc o src = convertNT uc o src ∨ ∃ p, convertCore uc o src = .error (.blocks p) := by
  rcases Rel.runT_rel src hb true with h | ⟨e, h⟩
  · left
    show convertT (paragraphTransformers true) true uc o src = convertT [] true uc o src
    unfold convertT parseDocT
    rw [show GM.Blocks.runT (paragraphTransformers true) src = GM.Blocks.runT [] src from h]
  · right
    refine ⟨e, ?_⟩
    show convertT (paragraphTransformers true) true uc o src = _
    unfold convertT parseDocT
    rw [show GM.Blocks.runT (paragraphTransformers true) src = .error e from h]
    rfl

/-- **`convert_total_bracket_free`** — with "the block phase of the default pipeline never errs" (tnopanic `block_phase_total`),
    `convertCore` answers HTML on every source without `[` — and it is the HTML of the pipeline without transformers -/
theorem convert_total_bracket_free (uc : List (Nat × (Bool × Bool))) (o : ROpts) (src : Bytes) (hb : NoBracket src)
    (hTot : ∃ s, blockPhase true src = .ok s) : ∃ html, convertCore uc o src = .ok html ∧ convertNT uc o src = .ok html := by
  obtain ⟨html, hh⟩ := convertNT_total uc o src
  obtain ⟨s, hs⟩ := hTot
  rcases Rel.runT_rel src hb true with h | ⟨e, h⟩
  · have e1 : convertCore uc o src = convertNT uc o src := by
      show convertT (paragraphTransformers true) true uc o src = convertT [] true uc o src
      unfold convertT parseDocT
      rw [h]
    exact ⟨html, by rw [e1]; exact hh, hh⟩
  · have hs' : GM.Blocks.runT (paragraphTransformers true) src = .ok s := hs
    rw [hs'] at h
    cases h

/-- **`parser_output_wellformed_bracket_free`** — C05 END TO END, unconditional, for the DEFAULT pipeline on every source
    without `[`: whenever the parse phases answer a tree, its position dump passes `Spec.wfAst` — all four store hypotheses
    are theorems, because the store is the store of the transformer-free block phase (`block_phase_bracket_free`) -/
theorem parser_output_wellformed_bracket_free (uc : List (Nat × (Bool × Bool))) (src : Bytes) (hb : NoBracket src) (a : ATree)
    (h : parseAst true uc src = .ok a) : wfAst src.length (dumpAst a) = none := by
  refine GM.E2E.parseAst_wfAst_core uc src a h (fun st hst => ?_)
  rcases blockPhase_noBracket true src hb with h1 | ⟨e, h1⟩
  · rw [hst] at h1
    exact run_storeHypsCore src st h1.symm
  · rw [hst] at h1; cases h1

/-! ### tests on literals (kernel-evaluated) -/

/-- the two pipelines agree on a document without `[` … -/
example : (convertNT [] {} (strBytes "# a\n\n> b\n> c\n\n- d\n")).toOption =
      some (strBytes "<h1>a</h1>\n<blockquote>\n<p>b\nc</p>\n</blockquote>\n<ul>\n<li>d</li>\n</ul>\n") ∧
    (convertCore [] {} (strBytes "# a\n\n> b\n> c\n\n- d\n")).toOption =
      some (strBytes "<h1>a</h1>\n<blockquote>\n<p>b\nc</p>\n</blockquote>\n<ul>\n<li>d</li>\n</ul>\n") := by
  decide +kernel

/-- … and differ on a link reference definition (the transformer-free parser has none) -/
example : (convertNT [] {} (strBytes "[a]: /u\n\n[a]\n")).toOption = some (strBytes "<p>[a]: /u</p>\n<p>[a]</p>\n") := by
  decide +kernel
example : (convertCore [] {} (strBytes "[a]: /u\n\n[a]\n")).toOption = some (strBytes "<p><a href=\"/u\">a</a></p>\n") := by
  decide +kernel

/-- the unconditional C05 theorem, instantiated (the tree exists and its dump is accepted) — and evaluated by the kernel on
    a document with a list, a quote, a setext heading, raw HTML and a fenced block -/
example : ((parseAstT [] true [] (strBytes "- a\n\n> b\nc\n===\n\n<div>\n\n```go\nz\n```\n")).toOption.map
    fun a => wfAst 35 (dumpAst a)) = some none := by decide +kernel

/-- `PTsGood` is satisfiable -/
example (src : Bytes) : PTsGood src [] := ptsGood_nil src
example (src : Bytes) : PTsGood src (paragraphTransformers true) := ptsGood_default src true

end GM.Props.ConvertE2ENT
