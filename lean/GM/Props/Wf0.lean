/-
  GM.Props.Wf0 — the LINE PROTOCOL of goldmark's block phase (`parser.parseBlocks` with the ten default block parsers,
  no paragraph transformers), over the executable model GM.Model.Blocks that the `blocks` correspondence ties to the
  real parser. A shared lemma file (no entry of its own in properties_cfg.py): GM.Props.C05 / C01 re-export from here.

  PROVED for EVERY byte string:
  * `inline_lines_wf0`            — `GM.Props.Blocks.InlineLinesWF0 src`: every inline-bearing block of the final store
                                    has `WF0` lines (what the inline phase assumes of its input).
  * `nonraw_lines_padding_zero`, `open_stack_empty_at_end` — the CLOSE DISCIPLINE at the end of the run: every segment
                                    of every non-raw block has padding 0; the open-block stack is empty.
  * `inline_lines_ordered`        — C05(c) ORDER clause for every block that is not raw (everything but CodeBlock,
                                    FencedCodeBlock, HTMLBlock): its line segments increase.
  * `inline_lines_in_range_and_ordered` — range + order together for those blocks.
  * `lines_ordered_reduction`, `inline_wf0_reduction`, `inline_wf0_remaining` — what `GM.Props.Blocks.LinesInRange` /
    `InlineLinesWF0` are equivalent to.
  * `inline_segments_nonempty`, `inline_lines_wellformed`, `inline_bearing_wellformed` — every segment of a non-raw
                                    block is non-empty without ForceNewline; its line list is `WFSegs`.
  PROVED per parser / per driver function (from the reader invariant `RI`, every state): which segment paragraph Open /
  Continue / Close, ATX Open, setext Open / Close and list Close put into the tree (`paragraph_open_line`, …); the close
  discipline of `closeBlocks`, `openBlocks`, one pass of the line loop (`close_blocks_discipline`, …).
  * `lines_in_range_and_ordered`  — `GM.Props.Blocks.LinesInRange src`: C05(c) with the order clause for EVERY node
                                    (`raw_lines_ordered`: the three raw kinds; `all_lines_ordered`).
  * `container_nodes_no_lines`    — Document / Blockquote / List / ListItem / ThematicBreak nodes have no lines.
  * `list_shape`, `list_item_parent`, `store_hyps_core_run` — a child is a ListItem exactly when its parent is a List; the
                                    four store facts of the end-to-end proof of C05 in one statement.
  NOT proved: everything about the driver WITH paragraph transformers (`runT`). See notes/status_wf0.md.
-/
import GM.Proof.BlocksClosedAll
import GM.Proof.BlocksShape
import GM.Props.Blocks

namespace GM.Props.Wf0
open GM GM.Text GM.Spec GM.Blocks GM.Proof.Reader
open GM.Proof.BlocksWF0 (isRaw inlineBearing allInlineWF0 BlocksEstablishWF0)
open GM.Proof.InlinesReader (WF0)

/-! ### whole runs, every byte string -/

/-- **C05(c), order clause, every source.** When the block phase returns, every block of the store that is not raw —
    `!IsRaw()`: Document, Paragraph, TextBlock, ThematicBreak, Blockquote, Heading, List, ListItem; in particular every
    block whose lines the inline phase reads — has increasing line segments: the first starts at or behind 0, each next
    one at or behind the previous `Stop`. (Reachable from the Document or not: replaced paragraphs are included.) -/
theorem inline_lines_ordered (src : Bytes) (s : St) (h : GM.Blocks.run src = .ok s) :
    ∀ n ∈ s.nodes, isRaw n.kind = false → OrdFrom 0 n.lines :=
  run_ordered src s h

/-- the same for the source the block phase always answers on (`GM.Props.Blocks.no_panic`): there IS a final store,
    and it has the property -/
theorem inline_lines_ordered_total (src : Bytes) :
    ∃ s, GM.Blocks.run src = .ok s ∧ ∀ n ∈ s.nodes, isRaw n.kind = false → OrdFrom 0 n.lines := by
  obtain ⟨s, h⟩ := run_ok src
  exact ⟨s, h, run_ordered src s h⟩

/-- **C05(c) for non-raw blocks, both clauses, as the Boolean the driver evaluates** (`GM.Blocks.linesOK`, op
    `blocks lines`): every line inside the source, padding ≥ 0, and a line never starts before the previous line's stop. -/
theorem inline_lines_in_range_and_ordered (src : Bytes) (s : St) (h : GM.Blocks.run src = .ok s) :
    ∀ n ∈ s.nodes, isRaw n.kind = false → linesOK src.length (-1) n.lines = true := by
  intro n hn hr
  rw [linesOK_iff]
  exact ⟨(nodesOK_of_run h n hn).lines, OrdFrom.mono (by decide) (run_ordered src s h n hn hr)⟩

/-- **Every segment of a non-raw block is non-empty and carries no ForceNewline, every source.** (A Paragraph's lines
    hold a byte that is not white space from the moment they are taken — `paragraph_open_line`, `paragraph_continue_line`
    — so the trims of `Close` cannot empty them; ATX bodies are non-empty; setext `Close` and list `Close` copy.) -/
theorem inline_segments_nonempty (src : Bytes) (s : St) (h : GM.Blocks.run src = .ok s) :
    ∀ n ∈ s.nodes, isRaw n.kind = false → ∀ t ∈ n.lines, t.start < t.stop ∧ t.forceNewline = false :=
  run_segs_nonempty src s h

/-- **The lines of every non-raw block that has lines are WELL FORMED, every source**: `WFSegs src n.lines`
    (GM.Spec.Cursor) — a non-empty list of non-empty segments inside the source that increase, padding ≥ 0, no
    ForceNewline. This is the predicate `GM.LinkRef.guardedTransform` checks (`wfSegsB`) and, up to `padding = 0`, the
    `WF0` the inline-phase theorems assume. -/
theorem inline_lines_wellformed (src : Bytes) (s : St) (h : GM.Blocks.run src = .ok s) :
    ∀ n ∈ s.nodes, isRaw n.kind = false → n.lines ≠ [] → WFSegs src n.lines :=
  run_wfsegs src s h

/-- **what `LinesInRange` still needs**: the range clause is proved for all blocks and the order clause for the non-raw
    ones, so `GM.Props.Blocks.LinesInRange src` is equivalent to the order clause for the three raw kinds alone. -/
theorem lines_ordered_reduction (src : Bytes) :
    GM.Props.Blocks.LinesInRange src ↔
      ∀ s, GM.Blocks.run src = .ok s → ∀ n ∈ s.nodes, isRaw n.kind = true → OrdFrom 0 n.lines := by
  unfold GM.Props.Blocks.LinesInRange
  constructor
  · intro hh s hs n hn _
    exact (allLinesOK_iff_ordered hs).1 (hh s hs) n hn
  · intro hh s hs
    refine (allLinesOK_iff_ordered hs).2 (fun n hn => ?_)
    cases hr : isRaw n.kind with
    | true => exact hh s hs n hn hr
    | false => exact run_ordered src s hs n hn hr

/-- **C05(c), order clause for the three raw kinds, every source.** The line segments of every CodeBlock,
    FencedCodeBlock and HTMLBlock of the final store increase: each line is appended on its own source line, at or
    behind the line start — `preserveLeadingTabInCodeBlock`, which moves a segment start one byte back onto a tab, never
    leaves the line, because a virtual padding only exists behind a tab of the current line (`PadL`). -/
theorem raw_lines_ordered (src : Bytes) (s : St) (h : GM.Blocks.run src = .ok s) :
    ∀ n ∈ s.nodes, isRaw n.kind = true → OrdFrom 0 n.lines :=
  run_ordered_raw src s h

/-- **C05(c) with the order clause, every source** (`GM.Props.Blocks.LinesInRange src` is a theorem): when the block
    phase returns, the line segments of EVERY node of the store lie inside the source (0 ≤ start ≤ stop ≤ len,
    padding ≥ 0) and increase (each starts at or behind the previous stop). -/
theorem lines_in_range_and_ordered (src : Bytes) : GM.Props.Blocks.LinesInRange src :=
  (lines_ordered_reduction src).2 (fun s hs => run_ordered_raw src s hs)

/-- the same, spelled out per node -/
theorem all_lines_ordered (src : Bytes) (s : St) (h : GM.Blocks.run src = .ok s) :
    ∀ n ∈ s.nodes, OrdFrom 0 n.lines := by
  intro n hn
  cases hr : isRaw n.kind with
  | true => exact run_ordered_raw src s h n hn hr
  | false => exact run_ordered src s h n hn hr

/-- **containers carry no lines, every source**: in the final store, Document, Blockquote, List, ListItem and
    ThematicBreak nodes have an empty line list (`Lines().Len() == 0`): no block parser ever appends to them. -/
theorem container_nodes_no_lines (src : Bytes) (s : St) (h : GM.Blocks.run src = .ok s) :
    ∀ n ∈ s.nodes, noLinesKind n.kind = true → n.lines = [] :=
  run_no_lines src s h

/-- **`list_shape`, every source**: in the final store of the block phase a child node is a ListItem exactly when its
    parent is a List (children lists; `st.nodes.getD i default` is node `i`). "Children of a List are ListItems" is the
    list invariant of the no-panic proof; "a ListItem only ever hangs under a List" holds because the one call that
    attaches the node a parser has built (`parent.AppendChild`, parser.go:1003) attaches a FRESH node of the parser's
    kind, and listItemParser.Open answers a node only when `parent` is a List (list_item.go:25-28). -/
theorem list_shape (src : Bytes) (s : St) (h : GM.Blocks.run src = .ok s) :
    ∀ i, ∀ c ∈ (s.nodes.getD i default).children,
      ((s.nodes.getD c default).kind = .listItem ↔ (s.nodes.getD i default).kind = .list) :=
  run_list_shape src s h

/-- the same on parent pointers: a node with a parent is a ListItem exactly when that parent is a List -/
theorem list_item_parent (src : Bytes) (s : St) (h : GM.Blocks.run src = .ok s) :
    ∀ i p, (nd s i).parent = some p → ((nd s i).kind = .listItem ↔ (nd s p).kind = .list) :=
  run_item_parent src s h

/-- **the four store facts the end-to-end proof of C05 (`wfAst`) takes as hypotheses (`GM.E2E.StoreHypsCore`: `lines`,
    `ord`, `noLines`, `listShape`), for the final store of `run`, every source** — stated here without importing the
    end-to-end files; `OrdFrom` is `GM.Blocks.OrdFrom` (the recursion of `GM.E2E.ordFrom`). -/
theorem store_hyps_core_run (src : Bytes) (s : St) (h : GM.Blocks.run src = .ok s) :
    (∀ n ∈ s.nodes, ∀ t ∈ n.lines, 0 ≤ t.start ∧ t.start ≤ t.stop ∧ t.stop ≤ src.length ∧ 0 ≤ t.padding) ∧
    (∀ n ∈ s.nodes, OrdFrom 0 n.lines) ∧
    (∀ n ∈ s.nodes, (n.kind = .document ∨ n.kind = .list) → n.lines = []) ∧
    (∀ i, ∀ c ∈ (s.nodes.getD i default).children,
      ((s.nodes.getD c default).kind = .listItem ↔ (s.nodes.getD i default).kind = .list)) :=
  GM.Blocks.store_hyps_core_run src s h

/-- `InlineLinesWF0` in parts (GM.Proof.BlocksOrd.allInlineWF0_iff_parts), as a statement about the property -/
theorem inline_wf0_reduction (src : Bytes) :
    GM.Props.Blocks.InlineLinesWF0 src ↔
      ∀ s, GM.Blocks.run src = .ok s → ∀ n ∈ s.nodes, inlineBearing n = true →
        OrdFrom 0 n.lines ∧ ∀ t ∈ n.lines, t.start < t.stop ∧ t.padding = 0 ∧ t.forceNewline = false := by
  unfold GM.Props.Blocks.InlineLinesWF0 BlocksEstablishWF0
  exact ⟨fun hh s hs => (allInlineWF0_iff_parts hs).1 (hh s hs), fun hh s hs => (allInlineWF0_iff_parts hs).2 (hh s hs)⟩

/-- **what the hand-over to the inline phase still needs**: with order, range, non-emptiness and "no ForceNewline"
    proved, `InlineLinesWF0 src` (every inline-bearing block has `WF0` lines) is equivalent to ONE fact: every line
    segment of an inline-bearing block of the final store has padding 0. -/
theorem inline_wf0_remaining (src : Bytes) :
    GM.Props.Blocks.InlineLinesWF0 src ↔
      ∀ s, GM.Blocks.run src = .ok s → ∀ n ∈ s.nodes, inlineBearing n = true → ∀ t ∈ n.lines, t.padding = 0 := by
  rw [inline_wf0_reduction]
  constructor
  · intro hh s hs n hn hb t ht; exact ((hh s hs n hn hb).2 t ht).2.1
  · intro hh s hs n hn hb
    have hr : isRaw n.kind = false := by
      simp only [inlineBearing, Bool.and_eq_true, Bool.not_eq_true'] at hb
      exact hb.1
    refine ⟨run_ordered src s hs n hn hr, fun t ht => ?_⟩
    obtain ⟨h1, h2⟩ := run_segs_nonempty src s hs n hn hr t ht
    exact ⟨h1, hh s hs n hn hb t ht, h2⟩

/-- the hand-over, as far as it is proved: every inline-bearing block of the final store has `WFSegs` lines (all of
    `WF0` but `padding = 0`) -/
theorem inline_bearing_wellformed (src : Bytes) (s : St) (h : GM.Blocks.run src = .ok s) :
    ∀ n ∈ s.nodes, inlineBearing n = true → WFSegs src n.lines := by
  intro n hn hb
  simp only [inlineBearing, Bool.and_eq_true, Bool.not_eq_true'] at hb
  exact run_wfsegs src s h n hn hb.1 (by intro e; rw [e] at hb; simp at hb)

/-! ### the close discipline -/

/-- **padding 0 at the end, every source.** When the block phase returns, every line segment of every block of the
    store that is not raw has padding 0: each Paragraph / setext heading was handed to its parser's `Close`
    (paragraphParser.Close trims the lines and resets the padding) before the run ended, and the lines that setext /
    list `Close` copy into Headings / TextBlocks are copied from closed paragraphs. -/
theorem nonraw_lines_padding_zero (src : Bytes) (s : St) (h : GM.Blocks.run src = .ok s) :
    ∀ n ∈ s.nodes, isRaw n.kind = false → ∀ t ∈ n.lines, t.padding = 0 :=
  run_closed src s h

/-- **the open-block stack is empty when the block phase returns**, every source: every block that was pushed has
    been popped by `closeBlocks` (which hands it to `Close`: see `close_blocks_discipline`). -/
theorem open_stack_empty_at_end (src : Bytes) (s : St) (h : GM.Blocks.run src = .ok s) : s.pc.opened = [] :=
  run_opened_nil src s h

/-- **`InlineLinesWF0`, every source** (the premise `GM.Props.Blocks.InlineLinesWF0 src` of the end-to-end theorems is
    a theorem): when the block phase returns, the lines of every inline-bearing block of the store (not raw, with at
    least one line) are `WF0` — non-empty segments inside the source that increase, padding 0, no ForceNewline. -/
theorem inline_lines_wf0 (src : Bytes) : GM.Props.Blocks.InlineLinesWF0 src :=
  (inline_wf0_remaining src).2 (fun s hs n hn hb => by
    have hr : isRaw n.kind = false := by
      simp only [inlineBearing, Bool.and_eq_true, Bool.not_eq_true'] at hb
      exact hb.1
    exact run_closed src s hs n hn hr)

/-- the same, spelled out: `WF0 src n.lines` for every inline-bearing block `n` of the final store -/
theorem inline_bearing_wf0 (src : Bytes) (s : St) (h : GM.Blocks.run src = .ok s) :
    ∀ n ∈ s.nodes, inlineBearing n = true →
      OrdFrom 0 n.lines ∧ ∀ t ∈ n.lines, t.start < t.stop ∧ t.padding = 0 ∧ t.forceNewline = false :=
  (inline_wf0_reduction src).1 (inline_lines_wf0 src) s h

/-- **closeBlocks under the close discipline** (parser.go:900-918), any state: if every block of the stack is attached
    and every non-raw node has padding 0 unless it is the node of an open Paragraph / setext block (`CInv`), then
    `closeBlocks(from, to)` hands EVERY block of the range to its parser's `Close` (none is skipped as detached), the
    stack becomes `take to ++ drop (from+1)`, and the invariant holds of the new stack — provided the Paragraph /
    setext blocks that stay open are guarded (`Guard`: their parent is not a Paragraph and not an item of a list that is
    being closed) and a closing setext heading's paragraph is not an open block. -/
theorem close_blocks_discipline : type_of% @closeBlocks_cl := @closeBlocks_cl
/-- **closeBlocks never skips a `Close`** under the close discipline: its loop (with the `Parent() != nil` test of
    parser.go:904-909) equals the loop without the test (`GM.Blocks.closeAll`) as a state transformer. -/
theorem close_blocks_never_skips : type_of% @closeList_eq_closeAll := @closeList_eq_closeAll
/-- the loop of closeBlocks in the same form, for a list of blocks given top first -/
theorem close_list_discipline : type_of% @closeList_cl := @closeList_cl
/-- one `Close` call: the closed block's node has padding 0 afterwards; only Paragraph nodes can be detached -/
theorem close_one_discipline : type_of% @bpClose_cl := @bpClose_cl
/-- **openBlocks under the close discipline** (parser.go:928-1024): from a clean line start, the invariant holds of the
    new stack; every node built by the call hangs below the parent of the call or below another new node, and no new
    node's parent is a Paragraph (`OW`); if the answer is not `newBlocksOpened` the stack is unchanged. -/
theorem open_blocks_discipline : type_of% @openBlocks_cl := @openBlocks_cl
/-- one pass of the `for i` loop of parseBlocks (parser.go:1081-1123) keeps the close discipline -/
theorem line_loop_discipline : type_of% @GM.Blocks.L.lineLoop_cl := @GM.Blocks.L.lineLoop_cl
/-- the open blocks are consistent with their parsers: the node of an open block has the kind its parser builds and is
    inside the store -/
theorem open_block_kind : type_of% @CInv.kinds := @CInv.kinds

/-! ### the invariant behind it, for the integrator of further proofs -/

/-- **the per-line protocol, as an invariant of `openBlocks`** (parser.go:928-1024): from a state in which every non-raw
    block's lines increase and end at or before `L`, a Paragraph has a line, `temporaryParagraphKey` points to a
    Paragraph and every open block has the kind its parser builds (`Inv src L s`), with the reader standing for a
    cursor at or behind `L`, a normal end of `openBlocks` leaves such a state for a bound `E` that the reader's line end
    has reached — at most one segment per block was appended, behind `L`. For EVERY state, not only reachable ones. -/
theorem open_blocks_keeps_order (src : Bytes) (L : Int) (parent : Nat) (blank : Bool) (s : St) (c : RCur)
    (r' : OpenResult) (s' : St) (hc : Clean src L s c) (h : openBlocks parent blank s = .ok (r', s')) : Dirty src s' :=
  openBlocks_ord L parent blank s c r' s' hc h

/-- **closeBlocks only trims, cuts and copies** (parser.go:900-918): it keeps the invariant for every bound, does not
    move the reader and leaves a sub-list of the open-block stack. -/
theorem close_blocks_keeps_order (src : Bytes) (B : Int) (s s' : St) (frm to : Int) (hi : Inv src B s)
    (hsrc : s.r.source = src) (e : closeBlocks frm to s = .ok ((), s')) :
    Inv src B s' ∧ s'.r = s.r ∧ (∀ b ∈ s'.pc.opened, b ∈ s.pc.opened) ∧ KG s s' :=
  closeBlocks_inv frm to hi hsrc e

/-! ### per parser: the segment each call puts into the tree (from the reader invariant `RI`, every state) -/

/-- paragraphParser.Open (paragraph.go:24-34): nothing, or a parentless Paragraph whose single line is the rest of the
    current source line behind its leading white space: `c.p ≤ start < stop = lineEnd src c.p`, padding 0, no
    ForceNewline. -/
theorem paragraph_open_line : type_of% @paragraphOpen_line := @paragraphOpen_line
/-- paragraphParser.Continue (paragraph.go:36-44): `Close` with nothing changed, or exactly the reader's segment
    `[c.p, lineEnd src c.p)` with the reader's padding is appended, and it holds a byte that is not white space. -/
theorem paragraph_continue_line : type_of% @paragraphContinue_line := @paragraphContinue_line
/-- paragraphParser.Close (paragraph.go:46-64): every line becomes a sub-segment of itself with padding 0 and without
    ForceNewline; lines that held a non-space byte stay non-empty. -/
theorem paragraph_close_lines : type_of% @paragraphClose_lines := @paragraphClose_lines
/-- closed paragraphs are `WF0`: increasing, in-range lines that hold non-space bytes become `WF0` under the trims -/
theorem closed_paragraph_wf0 : type_of% @wf0_of_closed := @wf0_of_closed
/-- atxHeadingParser.Open (atx_heading.go:82-166): no line, or one: `c.p < start < stop ≤ lineEnd src c.p`, padding 0 -/
theorem atx_open_line : type_of% @atxOpen_line := @atxOpen_line
/-- setextHeadingParser.Open (setext_headings.go:55-76): the Heading's (temporary) line is the reader's segment; the
    context key points to the last opened block, a Paragraph that is a child of `parent` -/
theorem setext_open_line : type_of% @setextOpen_line := @setextOpen_line
/-- setextHeadingParser.Close (setext_headings.go:82-118), branch `tmp.Lines().Len() != 0`: the Heading gets exactly
    the paragraph's lines; every other node keeps its lines; kinds never change -/
theorem setext_close_copies : type_of% @setextClose_copy := @setextClose_copy
/-- listParser.Close (list.go:247-279): existing nodes keep lines and kind; every node it adds is a TextBlock carrying
    the lines of a Paragraph of the store -/
theorem list_close_copies : type_of% @listClose_copies := @listClose_copies
/-- `Continue` of the raw leaf parsers writes only its own node (which keeps its kind) -/
theorem code_continue_writes_own_node : type_of% @codeContinue_frn := @codeContinue_frn
theorem fenced_continue_writes_own_node : type_of% @fencedContinue_frn := @fencedContinue_frn
theorem html_continue_writes_own_node : type_of% @htmlContinue_frn := @htmlContinue_frn

/-! ### tests (non-vacuity; examples, not theorems) -/

/-- test: the order predicate accepts increasing lines and rejects overlapping ones -/
example : OrdFrom 0 [{ start := 0, stop := 2 }, { start := 2, stop := 5 }] := ⟨by decide, by decide, trivial⟩
example : ¬ OrdFrom 0 [{ start := 0, stop := 3 }, { start := 2, stop := 5 }] := fun h => absurd h.2.1 (by decide)

/-- test: a source with a lazy continuation line inside a quote, a setext heading and a tight list: three non-raw
    blocks of the final tree carry lines (Paragraph `2:4,4:5`, Heading `7:8`, TextBlock `15:17,19:20`), so
    `inline_lines_ordered` is not vacuous on it -/
example : GM.Proof.BlocksWF0.bearing (strBytes "> a\nb\n\nc\n===\n- d\n  e\n") = 3 := by decide +kernel

/-- test: padded segments do occur in final stores — on raw blocks (`-\t\tcode`: the CodeBlock's one line is `3:8` with
    padding 2), so "padding 0" is a fact about the non-raw blocks only -/
example : (match GM.Blocks.run (strBytes "-\t\tcode\n") with
    | .ok st => st.nodes.any (fun n => isRaw n.kind && n.lines.any (fun t => t.padding != 0))
    | .error _ => false) = true := by decide +kernel

/-- test: a source with an indented code block inside a list item behind tabs (where `preserveLeadingTabInCodeBlock`
    acts), a fenced block inside a quote and an HTML block: the final store has raw blocks with several lines, so
    `raw_lines_ordered` is not vacuous on it, and the Boolean oracle of C05(c) agrees -/
example : (match GM.Blocks.run (strBytes "-\t\ta\n\t\tb\n> ```\n> x\n> y\n<div>\nz\n") with
    | .ok st => (st.nodes.filter (fun n => isRaw n.kind && decide (2 ≤ n.lines.length))).length
    | .error _ => 0) = 3 := by decide +kernel
example : GM.Blocks.checkLines (strBytes "-\t\ta\n\t\tb\n> ```\n> x\n> y\n<div>\nz\n") = "ok" := by decide +kernel

/-- test: `list_shape` is not vacuous: a source with two lists (one nested in a quote) — the store has four ListItem
    nodes, each with a parent -/
example : (match GM.Blocks.run (strBytes "- a\n- b\n\n> 1. c\n> 2. d\n") with
    | .ok st => (st.nodes.filter (fun n => n.kind == .listItem && n.parent.isSome)).length
    | .error _ => 0) = 4 := by decide +kernel

/-- test: `Inv` holds for the state the block phase starts in (the hypothesis of `close_blocks_keeps_order` is
    satisfiable) -/
example : Inv [97] 0 (initSt [97]) where
  nrb := fun i => by
    cases i with
    | zero => exact NodeB.nil _ rfl
    | succ k => exact NodeB.nil _ rfl
  pne := fun i hk => by
    cases i with
    | zero => cases hk
    | succ k => cases hk
  pnb := fun i hk => by
    cases i with
    | zero => cases hk
    | succ k => cases hk
  tmpk := fun t ht => by cases ht
  kinds := fun b hb => by cases hb
  nodes := fun n hn => by
    simp only [initSt, List.mem_singleton] at hn
    subst hn
    exact ⟨(fun t ht => by cases ht), fun _ => rfl⟩

end GM.Props.Wf0
