/-
  Property C02 — CommonMark conformance on constructed documents and rewritten spec examples.
  Level "other": the property itself (goldmark's HTML for every constructed document equals the HTML the
  specification prescribes) is decided by correspondence between the Lean spec-side model and the
  implementation (component `cmspec`), not by a theorem. The theorems listed here are the mechanism laws that
  ARE proved; each package contributes its own file (C02c = package cmspec; the integrator adds the imports of
  C02a / C02b from the recogniser packages).
-/
import GM.Props.C02c
import GM.Props.Consts.Parser
import GM.Props.C02Emph
import GM.Props.C02Esc
import GM.Props.C02LinkFix
import GM.Props.C02Frag
import GM.Props.C02Link
import GM.Props.C02FragInteg

namespace GM.Props.C02
open GM GM.Spec.CM

/-- escapes axis (`write_undoes_spelling`): the text-writer model undoes every licensed spelling of printable
    ASCII text, for all strings and all per-character choices. -/
theorem escSpell_decodes (cs : List TChar) (hp : ∀ t ∈ cs, printable t.c = true) :
    GM.write false (escSpell cs) = GM.rawWrite (plain cs) := C02c.escSpell_decodes_default cs hp

/-- … for either value of the writer's EscapedSpace option. -/
theorem escSpell_decodes_any (escSpace : Bool) (cs : List TChar) (hp : ∀ t ∈ cs, printable t.c = true) :
    GM.write escSpace (escSpell cs) = GM.rawWrite (plain cs) := C02c.escSpell_decodes escSpace cs hp

/-- the spec side's HTML escaping of text is the writer's RawWrite -/
theorem escHtml_eq_rawWrite (b : Bytes) : escHtml b = GM.rawWrite b := C02c.escHtml_eq_rawWrite b

/-- the expected HTML of every tree is tag-balanced -/
theorem expected_balanced (d : Doc) : Proof.CMSpecTree.balanced (expectedPieces d) = true := C02c.expected_balanced d

/-- `expected` depends on the structure only, never on a spelling choice (true by construction) -/
theorem spell_choice_independent_expected (d : Doc) : expected (eraseDoc d) = expected d :=
  C02c.spell_choice_independent_expected d

/-- (package consts) the regular expressions, tag list, limits and marker bytes of parser/*.go are the ones the block / inline models were written against (obligations over the regenerated GM.Gen.Consts; `./check` names the constant when one changes) -/
theorem consts_html_block_regexps_tied : GM.Spec.Consts.allOk GM.Spec.Consts.htmlBlockRegexps = true := GM.Props.Consts.Parser.html_block_regexps_tied
/-- (package consts) `allowedBlockTags` and the type 2-5 closers of parser/html_block.go are the block model's -/
theorem consts_html_block_tags_tied : GM.Spec.Consts.allOk GM.Spec.Consts.htmlBlockTags = true := GM.Props.Consts.Parser.html_block_tags_tied
/-- (package consts) the raw-HTML tag expressions of parser/raw_html.go are the ones the inline model's matchers were written against -/
theorem consts_raw_html_regexps_tied : GM.Spec.Consts.allOk GM.Spec.Consts.rawHtmlRegexps = true := GM.Props.Consts.Parser.raw_html_regexps_tied
/-- (package consts) the autolink expressions and bounds of parser/auto_link.go are the inline model's -/
theorem consts_autolink_regexps_tied : GM.Spec.Consts.allOk GM.Spec.Consts.autolinkRegexps = true := GM.Props.Consts.Parser.autolink_regexps_tied
/-- (package consts) the numeric limits of the parsers (label length 999, list start 9 digits, indents 3/4, fence 3, ATX 6, ...) are the models' -/
theorem consts_limits_tied : GM.Spec.Consts.allOk GM.Spec.Consts.limits = true := GM.Props.Consts.Parser.limits_tied
/-- (package consts) bullet / delimiter / fence / heading / emphasis marker bytes are the models' -/
theorem consts_markers_tied : GM.Spec.Consts.allOk GM.Spec.Consts.markers = true := GM.Props.Consts.Parser.markers_tied

/-- (re-export of `GM.Props.C02Emph.emph_preserves_text`) `emph_preserves_text`: writing the tree back — every `<em>` node as one, every `<strong>` node as two of its
    delimiter characters around its children, text and line breaks as they are — gives exactly the characters of
    the token sequence (= the source with escape backslashes removed).  So the text content of the prescribed HTML
    (`textOfL`: the same traversal without the delimiter characters of the nodes) is the source with exactly the
    consumed delimiter characters and the escape backslashes removed, in order; no character is lost, duplicated
    or invented, and a delimiter character is dropped only as part of a matched pair. -/
theorem emph_preserves_text : type_of% @GM.Props.C02Emph.emph_preserves_text := @GM.Props.C02Emph.emph_preserves_text

/-- (re-export of `GM.Props.C02Emph.emph_sound_rules_1_8`) `emph_sound_rules_1_8` (and 9/10): every `<em>` / `<strong>` node of the tree — at any depth — was made from
    two DIFFERENT delimiter runs of the token sequence, the opening one before the closing one, of the node's
    delimiter character, where the first can open and the second can close emphasis (rules 1-8, computed by `mkRun`
    from left- and right-flanking) and the pair satisfies the multiple-of-3 condition of rules 9/10 (`matchesRun`). -/
theorem emph_sound_rules_1_8 : type_of% @GM.Props.C02Emph.emph_sound_rules_1_8 := @GM.Props.C02Emph.emph_sound_rules_1_8

/-- (re-export of `GM.Props.C02Emph.emph_html_balanced`) the prescribed HTML is tag-balanced: it is the concatenation of an event sequence (`<em>` `<strong>` `</em>`
    `</strong>`, escaped text / line endings / `<br />`) in which every closing tag closes the innermost open element and
    nothing stays open — for the tree of EVERY token sequence -/
theorem emph_html_balanced : type_of% @GM.Props.C02Emph.emph_html_balanced := @GM.Props.C02Emph.emph_html_balanced

/-- (re-export of `GM.Props.C02Emph.emph_html_text`) the text content of the prescribed HTML (tags stripped; still entity-escaped) is the escaped text content of the
    tree, i.e. by `emph_preserves_text` the escaped source without escape backslashes and consumed delimiters -/
theorem emph_html_text : type_of% @GM.Props.C02Emph.emph_html_text := @GM.Props.C02Emph.emph_html_text

/-- (re-export of `GM.Props.C02Emph.openers_bottom_is_optimisation`) the `openers_bottom` table of the spec's appendix is a pure optimisation of this reference (which leaves it out):
    the closing loop WITH a table that remembers, per key, how many bottom-most stack entries a failed search has
    ruled out (`Proof.CMEmphMemo.parseM`; a count, clamped when the stack shrinks, instead of the appendix's pointer)
    computes the same tree for EVERY token sequence when the key is the appendix's — delimiter character, whether the
    closer can also open, closer length mod 3.  More generally (`Proof.CMEmphMemo.parseM_eq`) for every key that
    determines which openers a closer may take. -/
theorem emph_openers_bottom_is_optimisation : type_of% @GM.Props.C02Emph.openers_bottom_is_optimisation := @GM.Props.C02Emph.openers_bottom_is_optimisation

/-- (re-export of `GM.Props.C02Frag.fragment_conforms`) **Conformance on the fragment (stages 1–3).** For EVERY document `d` of the fragment — any number of
    paragraphs, each a non-empty sequence of lines; a line is a non-empty run of printable ASCII characters in any
    licensed spelling (literal, backslash escape, decimal / hexadecimal character reference with leading zeros,
    named entity) that starts with a literal letter, ends with a literal letter or digit and has no literal `!`;
    `gap` extra blank lines in front of every paragraph, `trail` blank lines at the end — and for every assignment
    `uc` of Unicode classes (irrelevant here: the source is ASCII), the model of goldmark's `Convert` on the
    Markdown source `spellF d` returns, without error, exactly the prescribed HTML `expectedF d`: every paragraph
    `<p>`…`</p>` + newline, its lines joined by a newline (soft line break), `& < > "` escaped. -/
theorem fragment_conforms : type_of% @GM.Props.C02Frag.fragment_conforms := @GM.Props.C02Frag.fragment_conforms

/-- (re-export of `GM.Props.C02Frag.fragment4_conforms`) **Conformance on the stage-4 fragment.** For EVERY document `d` whose blocks are paragraphs (as above), ATX
    headings (`#`…`######`, one space, a line of fragment text, no closing sequence) and thematic breaks (three or
    more `*`, `-` or `_`), every two blocks separated by at least one blank line (so `---` never stands directly
    under a paragraph: no setext reading), with any number of further blank lines in front, between and behind: the
    model of goldmark's `Convert` on the source `spellG d` returns exactly the prescribed HTML `expectedG d`
    (`<hN>`text`</hN>`, `<hr />`, `<p>`…`</p>`). -/
theorem fragment4_conforms : type_of% @GM.Props.C02Frag.fragment4_conforms := @GM.Props.C02Frag.fragment4_conforms

/-- (re-export of `GM.Props.C02Frag.fragment5_conforms`) **Conformance on the stage-5 fragment.** For EVERY document `d` whose blocks are paragraphs, ATX headings, thematic
    breaks (as in stage 4) and FENCED CODE BLOCKS — an opening fence of 3+n backticks or tildes directly followed by an
    info string of letters and digits (possibly empty), any number of content lines of printable ASCII characters
    that are empty or start with a character that is neither a space nor the fence character, a closing fence of the
    same characters and length — blocks separated by at least one blank line: the model of goldmark's `Convert` on
    `spellH d` returns exactly the prescribed HTML `expectedH d` (`<pre><code class="language-INFO">` + the content
    lines, HTML-escaped, each with its line feed + `</code></pre>`). -/
theorem fragment5_conforms : type_of% @GM.Props.C02Frag.fragment5_conforms := @GM.Props.C02Frag.fragment5_conforms

/-- (re-export of `GM.Props.C02Frag.fragment6_conforms`) **Conformance on the stage-6 fragment.** For EVERY document `d` of paragraphs, ATX headings, thematic breaks and
    fenced code blocks (as in stage 5) in which a block may follow the previous one WITHOUT a blank line wherever the
    specification allows that for these blocks — behind an ATX heading, a thematic break or a closed fence: any block;
    behind a paragraph: an ATX heading, a fenced code block, a thematic break of `*` or `_` (not a further text line:
    continuation; not `---`: setext underline) — and otherwise any number of blank lines between, in front and
    behind: the model of goldmark's `Convert` on `spellK d` returns exactly the prescribed HTML `expectedK d`. -/
theorem fragment6_conforms : type_of% @GM.Props.C02Frag.fragment6_conforms := @GM.Props.C02Frag.fragment6_conforms

/-- (re-export of `GM.Props.C02Frag.fragment6_conforms_spec`) **Stage-6 conformance stated on the spec model itself**, including its choice "no blank line before this block". -/
theorem fragment6_conforms_spec : type_of% @GM.Props.C02Frag.fragment6_conforms_spec := @GM.Props.C02Frag.fragment6_conforms_spec

/-- (re-export of `GM.Props.C02Frag.plain_line_conforms`) **Stage 1 in bytes.** One line of plain text (letters, digits, spaces — also several in a row — starting with a
    letter and ending with a letter or digit) followed by a line feed is converted to `<p>`, the same bytes, `</p>`,
    line feed. -/
theorem plain_line_conforms : type_of% @GM.Props.C02Frag.plain_line_conforms := @GM.Props.C02Frag.plain_line_conforms

/-- (re-export of `GM.Props.C02Frag.fragment_block_phase`) **Block phase on the fragment.** The block phase (`parser.parseBlocks` with the link-reference paragraph
    transformer and its run-time check) on the source of a fragment document ends normally — no Go panic, no
    contract monitor, fuel suffices — and leaves the Document with exactly one closed Paragraph per paragraph of
    the document (lines = the source lines, the last one without its line feed) and an empty reference map. -/
theorem fragment_block_phase : type_of% @GM.Props.C02Frag.fragment_block_phase := @GM.Props.C02Frag.fragment_block_phase

/-- (re-export of `GM.Props.C02Frag.inline_phase_quiet_lines`) **Inline phase on quiet lines.** For a paragraph whose source lines are non-empty, contain no line feed, never
    make the byte loop of `parseBlock` consult an inline parser (`quiet`) and end neither in white space nor in a
    backslash, the inline phase yields exactly one Text node per line, with a soft line break on all but the last. -/
theorem inline_phase_quiet_lines : type_of% @GM.Props.C02Frag.inline_phase_quiet_lines := @GM.Props.C02Frag.inline_phase_quiet_lines

/-- (re-export of `GM.Props.C02Link.dest_form_sound`) `dest_form_sound`: whenever the reference accepts the parenthesised part of an inline link, the destination it
    reports satisfies the grammar of the form it was recognised in — first form: the content of `<…>` has no line
    ending and no unescaped `<` or `>`; second form: no space, no ASCII control character, does not start with `<`,
    and every unescaped parenthesis belongs to a balanced pair (`bareDepth 0 … = some 0`). -/
theorem link_dest_form_sound : type_of% @GM.Props.C02Link.dest_form_sound := @GM.Props.C02Link.dest_form_sound

/-- (re-export of `GM.Props.C02Link.links_not_nested`) `links_not_nested` (6.3: "Links may not contain other links, at any level of nesting"): in the tree the reference
    builds for ANY inline content no link node has a link below it, at any depth, also not inside the description
    of an image inside it (the active / inactive bookkeeping of the bracket stack). -/
theorem links_not_nested : type_of% @GM.Props.C02Link.links_not_nested := @GM.Props.C02Link.links_not_nested

/-- (re-export of `GM.Props.C02Link.link_html_balanced`) the prescribed HTML of every tree is tag-balanced: the concatenation of an event sequence in which `<a …>` and
    `</a>` nest properly (images, breaks, text and raw HTML are leaves; raw HTML is opaque) -/
theorem link_html_balanced : type_of% @GM.Props.C02Link.link_html_balanced := @GM.Props.C02Link.link_html_balanced
/-- (re-export of `GM.Props.C02Esc.escape_state_does_not_cross_line_end`, package escfix, repair 24c9f23) in every state in which an iteration of
    the line loop of parseBlock begins (the first, and the one after every end of line; not behind a `goto retry`) the flag `escaped`
    is false — for ANY inline parsers and block: a backslash never escapes across a line end (CommonMark 2.4 / 6.7) -/
theorem escape_state_does_not_cross_line_end : type_of% @GM.Props.C02Esc.escape_state_does_not_cross_line_end := @GM.Props.C02Esc.escape_state_does_not_cross_line_end

/-- (re-export of `GM.Props.C02Esc.lineLoop_line_end_resets`) the same on the concrete inline phase: after the end of a line the loop goes on with
    `escaped = false`, whatever the byte loop left in the flag -/
theorem lineLoop_line_end_resets : type_of% @GM.Props.C02Esc.lineLoop_line_end_resets := @GM.Props.C02Esc.lineLoop_line_end_resets

/-- (re-export of `GM.Props.C02Esc.findClosure_stop_excludes_padding`, package escfix, repair 9e57c92) FindClosure on a block reader over lines
    with ANY virtual paddings, closer not a space: the last segment it hands out stops exactly at the source offset of a closer byte
    (the padding at the head of the peeked line is not counted) -/
theorem findClosure_stop_excludes_padding : type_of% @GM.Props.C02Esc.findClosure_stop_excludes_padding := @GM.Props.C02Esc.findClosure_stop_excludes_padding

/-- (re-export of `GM.Props.C02LinkFix.model_destination_agrees_with_reference_pointy`, package linkfix, repair 5e850d1) goldmark's `<…>` link destination
    (model `GM.Inl.destAngle`), on every line without an inner line ending, is exactly what the specification-side scanner `GM.Spec.CMLink.pointy` returns:
    same raw destination, same rest, rejected iff rejected -/
theorem model_destination_agrees_with_reference_pointy : type_of% @GM.Props.C02LinkFix.model_destination_agrees_with_reference_pointy := @GM.Props.C02LinkFix.model_destination_agrees_with_reference_pointy

/-- (re-export of `GM.Props.C02LinkFix.model_destination_agrees_with_reference_bare`, repair ce3b6c4) … and the bracket-free destination (`destPlain` / `destOpened`),
    on every line whose only white-space / control characters are spaces and line feeds, is what `GM.Spec.CMLink.bare` returns -/
theorem model_destination_agrees_with_reference_bare : type_of% @GM.Props.C02LinkFix.model_destination_agrees_with_reference_bare := @GM.Props.C02LinkFix.model_destination_agrees_with_reference_bare

/-- (re-export of `GM.Props.C02Frag.fragment7_conforms`) **Conformance without the final line feed.** For EVERY stage-6 document `d` that ends with a block (`trail = 0`,
    at least one block), written WITHOUT the line feed of its last line (`spellKE d` = `spellK d` minus its last
    byte; the last line may be a paragraph line, an ATX heading, a thematic break or the closing fence of a fenced
    code block, behind a blank line or directly behind the previous block): the model of goldmark's `Convert` returns
    exactly the same prescribed HTML `expectedK d`. -/
theorem fragment7_conforms : type_of% @GM.Props.C02Frag.fragment7_conforms := @GM.Props.C02Frag.fragment7_conforms

/-- (re-export of `GM.Props.C02Frag.fragment7_conforms_spec`) **Stage-7 conformance stated on the spec model itself** (its axis "missing final newline"). -/
theorem fragment7_conforms_spec : type_of% @GM.Props.C02Frag.fragment7_conforms_spec := @GM.Props.C02Frag.fragment7_conforms_spec

/-- (re-export of `GM.Props.C02Frag.fragment8_conforms`) **Conformance with code spans.** For EVERY document of paragraphs (`RDoc`) whose lines are made of text atoms (any
    licensed spelling of every character, as in stage 1–3) alternating with CODE SPANS — one backtick, a non-empty run of
    ASCII letters and digits, one backtick — each line beginning and ending with text (`RFrag`, decidable), with any
    number of blank lines between the paragraphs and at both ends: the model of goldmark's `Convert` returns exactly the
    prescribed HTML (`<code>…</code>` in place of every span). The span may touch the text on both sides (`a`x`b`),
    stand behind an escaped backtick or backslash, several spans per line, several lines per paragraph. -/
theorem fragment8_conforms : type_of% @GM.Props.C02Frag.fragment8_conforms := @GM.Props.C02Frag.fragment8_conforms

/-- (re-export of `GM.Props.C02Frag.fragment9_conforms`) **Conformance with hard line breaks.** For EVERY document of paragraphs (`BDoc`) whose lines are stage-1–3 text lines,
    every line except the last of its paragraph optionally followed by a BACKSLASH (`BFrag`, decidable): the model of
    goldmark's `Convert` returns exactly the prescribed HTML — `<br />` and a line feed behind a hard line. -/
theorem fragment9_conforms : type_of% @GM.Props.C02Frag.fragment9_conforms := @GM.Props.C02Frag.fragment9_conforms

/-- (re-export of `GM.Props.C02Frag.fragment11_conforms`) **Conformance with emphasis.** For EVERY document of paragraphs (`EDoc`) whose lines are made of text atoms (any
    licensed spelling of every character) alternating with code spans, `*x*` and `**x**` (x a non-empty run of ASCII
    letters and digits), each line beginning and ending with text (`EFrag`, decidable): the model of goldmark's `Convert`
    returns exactly the prescribed HTML (`<em>x</em>`, `<strong>x</strong>`). NO condition on the characters next to
    the `*` runs is needed (the content is alphanumeric, so the opening run is left-flanking and the closing run
    right-flanking whatever stands outside — letters, spaces, punctuation in any spelling, an escaped `\*`): the tie
    enumerates all 95 characters × 7 spellings on both sides. -/
theorem fragment11_conforms : type_of% @GM.Props.C02Frag.fragment11_conforms := @GM.Props.C02Frag.fragment11_conforms

/-- (re-export of `GM.Props.C02Frag.fragment12_conforms`) **Conformance on the stage-12 fragment.** For EVERY document `d` of paragraphs, ATX headings, thematic breaks,
    fenced code blocks (as in stage 6) and INDENTED CODE BLOCKS (one or more lines of four spaces followed by printable
    ASCII text that does not start with a space), where blocks follow each other with or without blank lines as
    CommonMark allows — an indented code block needs a blank line behind a paragraph (4.4: it cannot interrupt a
    paragraph), any block may directly follow an indented code block, and no indented code block follows an indented
    code block (with only blank lines between them they would be ONE block): the model of goldmark's `Convert` on
    `spellIc d` returns exactly the prescribed HTML `expectedI d`. In particular the blank lines behind an indented code
    block — which goldmark first appends to the open block and removes again when it closes the block — never reach the
    output. -/
theorem fragment12_conforms : type_of% @GM.Props.C02Frag.fragment12_conforms := @GM.Props.C02Frag.fragment12_conforms

/-- (re-export of `GM.Props.C02Frag.fragment13_conforms`) **Conformance of the union fragment.** For EVERY document `d : UDocS` — paragraphs, ATX headings, thematic breaks,
    fenced code blocks and INDENTED CODE BLOCKS (stage 12: lines of printable ASCII behind four spaces; not directly behind
    a paragraph, and never behind another indented code block, however many blank lines lie between them), abutting where
    CommonMark allows (stage 6), where every paragraph line and every heading text is a RICH line (text in any licensed
    spelling alternating with code spans, `*x*`, `**x**`) and a paragraph line that is not the last may end with a
    backslash HARD BREAK (`UFrag`, decidable): the model of goldmark's `Convert` returns exactly the prescribed HTML.
    This one statement contains stages 1–6, 8, 9, 11 and 12. -/
theorem fragment13_conforms : type_of% @GM.Props.C02Frag.fragment13_conforms := @GM.Props.C02Frag.fragment13_conforms

/-- (re-export of `GM.Props.C02Frag.fragment13_conforms_spec`) **The union stated on the spec model itself.** -/
theorem fragment13_conforms_spec : type_of% @GM.Props.C02Frag.fragment13_conforms_spec := @GM.Props.C02Frag.fragment13_conforms_spec

/-- (re-export of `GM.Props.C02Frag.fragment16_conforms`) **Conformance with inline links.** For EVERY document of paragraphs (`LDoc`) whose lines are text atoms (any licensed
    spelling of every character) alternating with INLINE LINKS `[t](d)` — `t` a non-empty run of ASCII letters and digits,
    `d` a non-empty run of letters, digits and `/`, no title —, each line beginning and ending with text (`LFrag`,
    decidable): the model of goldmark's `Convert` returns exactly the prescribed HTML (`<a href="d">t</a>`). No condition
    on the characters next to the brackets is needed (an escaped `\[`, `\]`, `\!` included). -/
theorem fragment16_conforms : type_of% @GM.Props.C02Frag.fragment16_conforms := @GM.Props.C02Frag.fragment16_conforms

/-- (re-export of `GM.Props.C02Frag.fragment17_conforms`) **Conformance with images.** As stage 16 with IMAGES `![t](d)` in place of the links (`ImgDoc`, `ImgFrag`): the model of
    goldmark's `Convert` returns `<img src="d" alt="t" />` for every image. -/
theorem fragment17_conforms : type_of% @GM.Props.C02Frag.fragment17_conforms := @GM.Props.C02Frag.fragment17_conforms

/-- (re-export of `GM.Props.C02Frag.fragment18_conforms`) **Conformance with URI autolinks.** For EVERY document of paragraphs (`ADoc`) whose lines are text atoms alternating
    with AUTOLINKS `<s:r>` — `s` a scheme of 2 to 32 ASCII letters, `r` a non-empty run of letters, digits, `/` and `.` —,
    each line beginning and ending with text (`AFrag`): the model of goldmark's `Convert` returns
    `<a href="s:r">s:r</a>` for every autolink. (A scheme of 33 letters is OUTSIDE the fragment: there goldmark deviates
    from CommonMark 6.5 — see notes/status_cmfrag.md, findings.) -/
theorem fragment18_conforms : type_of% @GM.Props.C02Frag.fragment18_conforms := @GM.Props.C02Frag.fragment18_conforms

/-- (re-export of `GM.Props.C02Frag.fragment19_conforms`) **Conformance with raw inline HTML.** For EVERY document of paragraphs (`H19Doc`) whose lines are text atoms
    alternating with OPEN TAGS `<n>` and CLOSING TAGS `</n>` (`n` = an ASCII letter followed by letters and digits, no
    attributes), each line beginning and ending with text (`H19Frag`): with `html.WithUnsafe()` the model of goldmark's
    `Convert` passes every tag through verbatim. (The autolink parser, which shares the trigger `<`, declines; names of
    block-level elements — `div`, `pre`, `script` — are harmless in inline position.) -/
theorem fragment19_conforms : type_of% @GM.Props.C02Frag.fragment19_conforms := @GM.Props.C02Frag.fragment19_conforms

/-- (re-export of `GM.Props.C02Frag.fragment20_conforms`) **Conformance with `_` emphasis.** For EVERY document of paragraphs (`UnDoc`) whose lines are text atoms alternating
    with `_x_` and `__x__` (x a non-empty run of ASCII letters and digits) such that the SOURCE byte directly in front of
    an opening run and the one directly behind a closing run is not a letter or digit (6.2, rules 2 / 4 / 6 / 8: with
    alphanumeric neighbours `a_b_c` is literal text — the tie checks that too, on non-members) (`UnFrag`): the model of
    goldmark's `Convert` returns `<em>x</em>` / `<strong>x</strong>`. -/
theorem fragment20_conforms : type_of% @GM.Props.C02Frag.fragment20_conforms := @GM.Props.C02Frag.fragment20_conforms

/-- (re-export of `GM.Props.C02Frag.fragment12_conforms_no_final_newline`) … and the same documents written WITHOUT the line feed of their last line (`trail = 0`, at least one block; the last
    block may be an indented code block whose last line ends the source): the same HTML -/
theorem fragment12_conforms_no_final_newline : type_of% @GM.Props.C02Frag.fragment12_conforms_no_final_newline := @GM.Props.C02Frag.fragment12_conforms_no_final_newline

/-- (re-export of `GM.Props.C02Frag.fragment13_conforms_no_final_newline`) … written without the final line feed (contains stage 7); here the LAST block is not an indented code block
    (`ulastNotIc`; that case is `fragment12_conforms_no_final_newline`) -/
theorem fragment13_conforms_no_final_newline : type_of% @GM.Props.C02Frag.fragment13_conforms_no_final_newline := @GM.Props.C02Frag.fragment13_conforms_no_final_newline

/-- (re-export of `GM.Props.C02FragInteg.block_phase_bracket_free_holds`) on a source without `[` the block phase of the default pipeline IS the transformer-free driver's run -/
theorem block_phase_bracket_free_holds : type_of% @GM.Props.C02FragInteg.block_phase_bracket_free_holds := @GM.Props.C02FragInteg.block_phase_bracket_free_holds

/-- (re-export of `GM.Props.C02FragInteg.fragment10_conforms`) **Conformance inside one block quote** (stage 10): for every stage-6 fragment document without `-`, `*`, `+`, digits, `[`, written with
    `> ` in front of every line, the composed model answers the prescribed HTML of the quoted document — no hypothesis left. -/
theorem fragment10_conforms : type_of% @GM.Props.C02FragInteg.fragment10_conforms := @GM.Props.C02FragInteg.fragment10_conforms

/-- (re-export of `GM.Props.C02FragInteg.fragment10_conforms_no_final_newline`) the same without the line feed of the last line -/
theorem fragment10_conforms_no_final_newline : type_of% @GM.Props.C02FragInteg.fragment10_conforms_no_final_newline := @GM.Props.C02FragInteg.fragment10_conforms_no_final_newline

/-- (re-export of `GM.Props.C02FragInteg.fragment14_conforms`) **Conformance inside `k+1` nested block quotes**, every `k` (stage 14) -/
theorem fragment14_conforms : type_of% @GM.Props.C02FragInteg.fragment14_conforms := @GM.Props.C02FragInteg.fragment14_conforms

/-- (re-export of `GM.Props.C02FragInteg.fragment13_conforms_quoted`) **The union fragment inside `k+1` nested block quotes** (stage 13, quoted) -/
theorem fragment13_conforms_quoted : type_of% @GM.Props.C02FragInteg.fragment13_conforms_quoted := @GM.Props.C02FragInteg.fragment13_conforms_quoted

/-- (re-export of `GM.Props.C02Frag.fragment21_conforms`) **Conformance of the full union.** For EVERY document `d : F21Doc` — paragraphs, ATX headings, thematic breaks, fenced
    and indented code blocks, abutting where CommonMark allows (stages 6, 12) — where every paragraph line and every heading
    text is a rich line whose non-text atoms are, IN ANY MIX, code spans, `*x*` / `**x**`, `_x_` / `__x__` (the source bytes
    outside an underscore run not alphanumeric), inline links `[t](d)`, images `![t](d)`, URI autolinks `<s:r>`, raw tags
    `<n>` / `</n>`, and a paragraph line that is not the last may end with a backslash hard break (`F21Frag`, decidable):
    the model of goldmark's `Convert` returns exactly the prescribed HTML. Contains stages 1–9, 11–13, 16–20. (Emphasis
    delimiters stay pending across links / images until the end of the block: `link_step21`, `processDelimiters_rawS21`.) -/
theorem fragment21_conforms : type_of% @GM.Props.C02Frag.fragment21_conforms := @GM.Props.C02Frag.fragment21_conforms

/-- (re-export of `GM.Props.C02Frag.fragment21_conforms_no_final_newline`) … written without the final line feed (the last block not an indented code block) -/
theorem fragment21_conforms_no_final_newline : type_of% @GM.Props.C02Frag.fragment21_conforms_no_final_newline := @GM.Props.C02Frag.fragment21_conforms_no_final_newline

/-- (re-export of `GM.Props.C02Frag.fragment21_conforms_spec`) **The full union stated on the spec model itself.** -/
theorem fragment21_conforms_spec : type_of% @GM.Props.C02Frag.fragment21_conforms_spec := @GM.Props.C02Frag.fragment21_conforms_spec

/-- (re-export of `GM.Props.C02FragInteg.fragment22_conforms`) **Nested block quotes, wider class** (stage 22: digits, `*`, `+`, `-` inside; no line ending in `-` / `=`) -/
theorem fragment22_conforms : type_of% @GM.Props.C02FragInteg.fragment22_conforms := @GM.Props.C02FragInteg.fragment22_conforms

/-- (re-export of `GM.Props.C02FragInteg.fragment22_conforms_union`) **The union fragment with `*` emphasis inside nested block quotes** (stage 22) -/
theorem fragment22_conforms_union : type_of% @GM.Props.C02FragInteg.fragment22_conforms_union := @GM.Props.C02FragInteg.fragment22_conforms_union

/-- (re-export of `GM.Props.C02FragInteg.fragment23_conforms`) **The full union (stage 21) inside nested block quotes** (stage 23) -/
theorem fragment23_conforms : type_of% @GM.Props.C02FragInteg.fragment23_conforms := @GM.Props.C02FragInteg.fragment23_conforms

end GM.Props.C02
