/-
  Property C02 — CommonMark conformance on constructed documents and rewritten spec examples.
  Level "other": the property itself (goldmark's HTML for every constructed document equals the HTML the
  specification prescribes) is decided by correspondence between the Lean spec-side model and the
  implementation (component `cmspec`), not by a theorem. The theorems listed here are the mechanism laws that
  ARE proved; each package contributes its own file (C02c = package cmspec; the integrator adds the imports of
  C02a / C02b from the recogniser packages).
-/
import GM.Props.C02c

namespace GM.Props.C02
open GM GM.Spec.CM

/-- escapes axis (`write_undoes_spelling`): the text-writer model undoes every licensed spelling of printable
    ASCII text, for all strings and all per-character choices. -/
theorem escSpell_decodes (cs : List TChar) (hp : ∀ t ∈ cs, printable t.c = true) :
    GM.write false (escSpell cs) = GM.rawWrite (plain cs) := C02c.escSpell_decodes_default cs hp

/-- … for either value of the writer's EscapedSpace option. -/
theorem escSpell_decodes_any (escSpace : Bool) (cs : List TChar) (hp : ∀ t ∈ cs, printable t.c = true) :
    GM.write escSpace (escSpell cs) = GM.rawWrite (plain cs) := C02c.escSpell_decodes escSpace cs hp

/-- the spec side's HTML escaping of text is the writer's RawWrite -/
theorem escHtml_eq_rawWrite (b : Bytes) : escHtml b = GM.rawWrite b := C02c.escHtml_eq_rawWrite b

/-- the expected HTML of every tree is tag-balanced -/
theorem expected_balanced (d : Doc) : Proof.CMSpecTree.balanced (expectedPieces d) = true := C02c.expected_balanced d

/-- `expected` depends on the structure only, never on a spelling choice (true by construction) -/
theorem spell_choice_independent_expected (d : Doc) : expected (eraseDoc d) = expected d :=
  C02c.spell_choice_independent_expected d

end GM.Props.C02
