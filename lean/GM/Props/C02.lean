/-
  Property C02 — CommonMark conformance on constructed documents and rewritten spec examples.
  Level "other": the property itself (goldmark's HTML for every constructed document equals the HTML the
  specification prescribes) is decided by correspondence between the Lean spec-side model and the
  implementation (component `cmspec`), not by a theorem. The theorems listed here are the mechanism laws that
  ARE proved; each package contributes its own file (C02c = package cmspec; the integrator adds the imports of
  C02a / C02b from the recogniser packages).
-/
import GM.Props.C02c
import GM.Props.Consts.Parser
import GM.Props.C02Emph

namespace GM.Props.C02
open GM GM.Spec.CM

/-- escapes axis (`write_undoes_spelling`): the text-writer model undoes every licensed spelling of printable
    ASCII text, for all strings and all per-character choices. -/
theorem escSpell_decodes (cs : List TChar) (hp : ∀ t ∈ cs, printable t.c = true) :
    GM.write false (escSpell cs) = GM.rawWrite (plain cs) := C02c.escSpell_decodes_default cs hp

/-- … for either value of the writer's EscapedSpace option. -/
theorem escSpell_decodes_any (escSpace : Bool) (cs : List TChar) (hp : ∀ t ∈ cs, printable t.c = true) :
    GM.write escSpace (escSpell cs) = GM.rawWrite (plain cs) := C02c.escSpell_decodes escSpace cs hp

/-- the spec side's HTML escaping of text is the writer's RawWrite -/
theorem escHtml_eq_rawWrite (b : Bytes) : escHtml b = GM.rawWrite b := C02c.escHtml_eq_rawWrite b

/-- the expected HTML of every tree is tag-balanced -/
theorem expected_balanced (d : Doc) : Proof.CMSpecTree.balanced (expectedPieces d) = true := C02c.expected_balanced d

/-- `expected` depends on the structure only, never on a spelling choice (true by construction) -/
theorem spell_choice_independent_expected (d : Doc) : expected (eraseDoc d) = expected d :=
  C02c.spell_choice_independent_expected d

/-- (package consts) the regular expressions, tag list, limits and marker bytes of parser/*.go are the ones the block / inline models were written against (obligations over the regenerated GM.Gen.Consts; `./check` names the constant when one changes) -/
theorem consts_html_block_regexps_tied : GM.Spec.Consts.allOk GM.Spec.Consts.htmlBlockRegexps = true := GM.Props.Consts.Parser.html_block_regexps_tied
/-- (package consts) `allowedBlockTags` and the type 2-5 closers of parser/html_block.go are the block model's -/
theorem consts_html_block_tags_tied : GM.Spec.Consts.allOk GM.Spec.Consts.htmlBlockTags = true := GM.Props.Consts.Parser.html_block_tags_tied
/-- (package consts) the raw-HTML tag expressions of parser/raw_html.go are the ones the inline model's matchers were written against -/
theorem consts_raw_html_regexps_tied : GM.Spec.Consts.allOk GM.Spec.Consts.rawHtmlRegexps = true := GM.Props.Consts.Parser.raw_html_regexps_tied
/-- (package consts) the autolink expressions and bounds of parser/auto_link.go are the inline model's -/
theorem consts_autolink_regexps_tied : GM.Spec.Consts.allOk GM.Spec.Consts.autolinkRegexps = true := GM.Props.Consts.Parser.autolink_regexps_tied
/-- (package consts) the numeric limits of the parsers (label length 999, list start 9 digits, indents 3/4, fence 3, ATX 6, ...) are the models' -/
theorem consts_limits_tied : GM.Spec.Consts.allOk GM.Spec.Consts.limits = true := GM.Props.Consts.Parser.limits_tied
/-- (package consts) bullet / delimiter / fence / heading / emphasis marker bytes are the models' -/
theorem consts_markers_tied : GM.Spec.Consts.allOk GM.Spec.Consts.markers = true := GM.Props.Consts.Parser.markers_tied

/-- (re-export of `GM.Props.C02Emph.emph_preserves_text`) `emph_preserves_text`: writing the tree back — every `<em>` node as one, every `<strong>` node as two of its
    delimiter characters around its children, text and line breaks as they are — gives exactly the characters of
    the token sequence (= the source with escape backslashes removed).  So the text content of the prescribed HTML
    (`textOfL`: the same traversal without the delimiter characters of the nodes) is the source with exactly the
    consumed delimiter characters and the escape backslashes removed, in order; no character is lost, duplicated
    or invented, and a delimiter character is dropped only as part of a matched pair. -/
theorem emph_preserves_text : type_of% @GM.Props.C02Emph.emph_preserves_text := @GM.Props.C02Emph.emph_preserves_text

/-- (re-export of `GM.Props.C02Emph.emph_sound_rules_1_8`) `emph_sound_rules_1_8` (and 9/10): every `<em>` / `<strong>` node of the tree — at any depth — was made from
    two DIFFERENT delimiter runs of the token sequence, the opening one before the closing one, of the node's
    delimiter character, where the first can open and the second can close emphasis (rules 1-8, computed by `mkRun`
    from left- and right-flanking) and the pair satisfies the multiple-of-3 condition of rules 9/10 (`matchesRun`). -/
theorem emph_sound_rules_1_8 : type_of% @GM.Props.C02Emph.emph_sound_rules_1_8 := @GM.Props.C02Emph.emph_sound_rules_1_8

/-- (re-export of `GM.Props.C02Emph.emph_html_balanced`) the prescribed HTML is tag-balanced: it is the concatenation of an event sequence (`<em>` `<strong>` `</em>`
    `</strong>`, escaped text / line endings / `<br />`) in which every closing tag closes the innermost open element and
    nothing stays open — for the tree of EVERY token sequence -/
theorem emph_html_balanced : type_of% @GM.Props.C02Emph.emph_html_balanced := @GM.Props.C02Emph.emph_html_balanced

/-- (re-export of `GM.Props.C02Emph.emph_html_text`) the text content of the prescribed HTML (tags stripped; still entity-escaped) is the escaped text content of the
    tree, i.e. by `emph_preserves_text` the escaped source without escape backslashes and consumed delimiters -/
theorem emph_html_text : type_of% @GM.Props.C02Emph.emph_html_text := @GM.Props.C02Emph.emph_html_text

/-- (re-export of `GM.Props.C02Emph.openers_bottom_is_optimisation`) the `openers_bottom` table of the spec's appendix is a pure optimisation of this reference (which leaves it out):
    the closing loop WITH a table that remembers, per key, how many bottom-most stack entries a failed search has
    ruled out (`Proof.CMEmphMemo.parseM`; a count, clamped when the stack shrinks, instead of the appendix's pointer)
    computes the same tree for EVERY token sequence when the key is the appendix's — delimiter character, whether the
    closer can also open, closer length mod 3.  More generally (`Proof.CMEmphMemo.parseM_eq`) for every key that
    determines which openers a closer may take. -/
theorem emph_openers_bottom_is_optimisation : type_of% @GM.Props.C02Emph.openers_bottom_is_optimisation := @GM.Props.C02Emph.openers_bottom_is_optimisation

end GM.Props.C02
