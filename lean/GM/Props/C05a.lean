/-
  Property C05, part (c) for the inline driver — "the text segments of a block's inline content appear in document
  order within that block's lines": proved for the flush/merge/trim loop `(*parser).parseBlock`
  (model GM.Model.InlineLoop) over ABSTRACT inline parsers; plus termination of the loop.
  Not covered: Text nodes created or re-cut by the built-in inline parsers themselves (emphasis/link post-
  processing, `MergeOrReplaceTextSegment`) — those are checked on real parser output by the `wfAst` predicate
  (component wfast). Helper lemmas: GM/Proof/InlineLoop.lean.
-/
import GM.Model.InlineLoop
import GM.Proof.InlineLoop

namespace GM.Props.C05a
open GM GM.InlineLoop GM.Proof.InlineLoop

/-- `segments_monotone`. For every well-formed block (line segments inside the source, increasing, every line
    but the last ending with its newline) and ANY inline parsers (whatever they accept or decline, however far
    they move the reader), the Text children the loop leaves behind, read in document order as `(start, stop)`:
    each is a range `start ≤ stop` lying inside ONE line segment of the block, and each stops at or before the
    start of the next one — increasing order, no overlap. This holds at whatever point the loop stops (it also
    covers the states reached if a parser violated the progress contract and the fuel ran out). -/
theorem segments_monotone (P : Params) (b : Block) (hWF : WF b) :
    (∀ x ∈ texts (run P b).st.kids, x.1 ≤ x.2 ∧ ∃ s ∈ b.lines, s.start ≤ x.1 ∧ x.2 ≤ s.stop) ∧
    (texts (run P b).st.kids).Pairwise (fun x y => x.2 ≤ y.1) :=
  run_texts hWF

/-- `loop_terminates` (`fuel_suffices`). If every parser that returns a node has consumed at least one byte (the
    forward-progress contract; a parser returning a node without moving would make the real loop spin forever),
    then on a well-formed block the loop ends by `PeekLine` returning nil — never by a panic, never by running out
    of the model's fuel `(lines+1)·(len(source)+2)+1`: each pass through `retry:` strictly decreases
    `(lines − line)·(len+2) + (pos.Stop − pos.Start)`. -/
theorem loop_terminates (P : Params) (b : Block) (hWF : WF b) (hC : Contract P.parsers) :
    ∃ st, run P b = .done st :=
  run_done hWF hC

/-- more fuel changes nothing: with any fuel above the measure the result is the same `done` state
    (stated for the initial state; the lemma `loop_done` is for every reachable state) -/
theorem fuel_suffices (P : Params) (b : Block) (hWF : WF b) (hC : Contract P.parsers) (fuel : Nat)
    (h : mu b (initSt b).rd < fuel) : ∃ st, loop P b fuel (initSt b) = .done st :=
  loop_done hWF hC fuel (initSt b) (Rel_init hWF) h

/-! ### non-vacuity / tests on literals -/

/-- "a \nb": two lines, the first ends with its newline -/
def twoLines : Block := ⟨[97, 32, 10, 98], [⟨0, 3⟩, ⟨3, 4⟩]⟩
example : WF twoLines := by
  refine ⟨?_, ?_, ?_⟩
  · intro i s h
    match i, h with
    | 0, h => cases h; decide
    | 1, h => cases h; decide
  · intro i s t h1 h2
    match i, h1, h2 with
    | 0, h1, h2 => cases h1; cases h2; decide
    | 1, _, h2 => cases h2
  · intro i s h hl
    match i, h, hl with
    | 0, h, _ => cases h; decide
    | 1, _, hl => exact absurd hl (by decide)
/-- a parser that accepts one byte at every position obeys the contract -/
example : Contract [⟨1, [32], fun _ _ => .accept 1 1⟩] := by
  intro q hq l p n id h
  simp at hq; subst hq
  cases h; exact Nat.le_refl _
example : texts (run ⟨[⟨1, [32], fun _ _ => .decline 2⟩], false⟩ twoLines).st.kids = [(0, 1), (1, 1), (3, 4)] := by
  decide +kernel

end GM.Props.C05a
