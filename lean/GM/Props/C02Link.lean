/-
  Property C02, package cmspec3 round 2 — theorems about the SPEC-SIDE inline-link reference GM.Spec.CMLink
  (CommonMark 0.31.2 sections 6.3 / 6.4; written from the specification text).  That goldmark renders a source as the
  reference prescribes is decided by the correspondence run (component `cmlink`); proved here, for ALL inputs, are laws
  of the reference itself (with all deviation switches off: `Dev.spec`).
-/
import GM.Proof.CMLink

namespace GM.Props.C02Link
open GM GM.Spec.CMLink

/-- `dest_form_sound`: whenever the reference accepts the parenthesised part of an inline link, the destination it
    reports satisfies the grammar of the form it was recognised in — first form: the content of `<…>` has no line
    ending and no unescaped `<` or `>`; second form: no space, no ASCII control character, does not start with `<`,
    and every unescaped parenthesis belongs to a balanced pair (`bareDepth 0 … = some 0`). -/
theorem dest_form_sound (s : Bytes) (tl : Tail) (h : inlineTail Dev.spec s = some tl) : tl.destOK = true := by
  obtain ⟨_, _, _, _, _, _, _, _, hd, _⟩ := Proof.CMLink.inlineTail_sound s tl h
  exact hd

/-- `inline_link_grammar`: … and the bytes it consumed are exactly `(`, white space (spaces and at most one line
    ending), that destination, and — only behind white space — a title between `"…"`, `'…'` or `(…)` whose content
    has the closing character (for `(…)` also `(`) only backslash-escaped, white space, `)`; the reported rest is
    what follows.  In particular the number of bytes the scan skips is the length of that prefix. -/
theorem inline_link_grammar (s : Bytes) (tl : Tail) (h : inlineTail Dev.spec s = some tl) :
    ∃ w1 w2 tsrc w3, isSepWs w1 = true ∧ isSepWs w2 = true ∧ isSepWs w3 = true ∧
      s = 40 :: (w1 ++ (tl.destSrc ++ (w2 ++ (tsrc ++ (w3 ++ 41 :: tl.rest))))) ∧
      tl.destOK = true ∧ Proof.CMLink.TitlePart tl w2 tsrc :=
  Proof.CMLink.inlineTail_sound s tl h

/-- the two destination scanners and the title scanner on their own: what they return is a prefix that satisfies the
    grammar, followed by the closing character (if the form has one) and the reported rest -/
theorem pointy_sound (s : Bytes) (raw rest : Bytes) (h : pointy Dev.spec false s = some (raw, rest)) :
    s = raw ++ 62 :: rest ∧ pointyOK false raw = true := Proof.CMLink.pointy_sound s false raw rest h
theorem bare_balanced (s : Bytes) (raw rest : Bytes) (h : bare Dev.spec 0 false s = some (raw, rest)) :
    s = raw ++ rest ∧ bareDepth 0 false raw = some 0 := Proof.CMLink.bare_sound s 0 false raw rest h
theorem title_sound (cl : UInt8) (s : Bytes) (raw rest : Bytes) (h : titleGo cl false s = some (raw, rest)) :
    s = raw ++ cl :: rest ∧ titleOK cl false raw = true := Proof.CMLink.titleGo_sound cl s false raw rest h

/-- completeness of the two destination scanners (the converse of `pointy_sound` / `bare_balanced`): EVERY text that
    satisfies the grammar of the form, does not end in an unescaped backslash, and is followed by `>` resp. by what may
    follow a destination (nothing, a space, a control character / line ending, or `)`) is accepted as it stands.  Together:
    the reference recognises exactly the destinations of 6.3. -/
theorem pointy_complete (raw rest : Bytes) (h : pointyOK false raw = true) (he : escEnd false raw = false) :
    pointy Dev.spec false (raw ++ 62 :: rest) = some (raw, rest) := Proof.CMLink.pointy_complete raw false rest h he
theorem bare_complete (raw rest : Bytes) (h : bareDepth 0 false raw = some 0) (he : escEnd false raw = false)
    (hs : Proof.CMLink.stopper rest) : bare Dev.spec 0 false (raw ++ rest) = some (raw, rest) :=
  Proof.CMLink.bare_complete raw 0 false rest h he hs

/-- `links_not_nested` (6.3: "Links may not contain other links, at any level of nesting"): in the tree the reference
    builds for ANY inline content no link node has a link below it, at any depth, also not inside the description
    of an image inside it (the active / inactive bookkeeping of the bracket stack). -/
theorem links_not_nested (inl : Bytes) : noNestedL (parse inl) = true := Proof.CMLink.parse_noNested inl

/-- … for every setting of the reference's switches, in particular when the document has a link reference definition
    (full, collapsed and shortcut reference links, step two) -/
theorem links_not_nested_with_references (dv : Dev) (inl : Bytes) : noNestedL (parseD dv inl) = true :=
  Proof.CMLink.parseD_noNested dv inl

/-- the link label that follows a link text (full reference): what `labelGo` accepts contains no unescaped bracket
    and is followed by the `]` it stopped at -/
theorem label_sound (s raw rest : Bytes) (h : labelGo false s = some (raw, rest)) :
    s = raw ++ 93 :: rest ∧ Proof.CMLink.labelOK false raw = true := Proof.CMLink.labelGo_sound s false raw rest h

/-- the prescribed HTML of every tree is tag-balanced: the concatenation of an event sequence in which `<a …>` and
    `</a>` nest properly (images, breaks, text and raw HTML are leaves; raw HTML is opaque) -/
theorem link_html_balanced (ns : List Inl) :
    renderL ns = (eventsL ns).flatMap Ev.bytes ∧ balGo 0 (eventsL ns) = true :=
  ⟨Proof.CMLink.renderL_events ns, Proof.CMLink.eventsL_balanced ns⟩

/-! ### tests (`decide` on literals — NOT part of the claim) -/

/-- test: `[a](b)` -/
example : linkDoc [91, 97, 93, 40, 98, 41] = some ([60, 112, 62] ++ sAOpen ++ [98, 34, 62, 97] ++ sAClose ++ [60, 47, 112, 62, 10]) := by decide
/-- test: L1 `[a](<<>)` is not a link -/
example : inlineTail Dev.spec [40, 60, 60, 62, 41] = none := by decide
/-- test: L2 `[a](( )` is not a link; `[a](())` is -/
example : inlineTail Dev.spec [40, 40, 32, 41] = none := by decide
example : (inlineTail Dev.spec [40, 40, 41, 41]).isSome = true := by decide
/-- test: L3 `(<b>"t")` is not a link tail, `(<b> "t")` is -/
example : inlineTail Dev.spec [40, 60, 98, 62, 34, 116, 34, 41] = none := by decide
example : (inlineTail Dev.spec [40, 60, 98, 62, 32, 34, 116, 34, 41]).isSome = true := by decide
/-- test: L4 a control character ends a destination without brackets -/
example : inlineTail Dev.spec [40, 1, 41] = none := by decide
/-- test (step two): `[a][ ]` + `[a]: /u`: the `[ ]` is not a link label, `[a]` is a shortcut reference -/
example : linkDocRef [91, 97, 93, 91, 32, 93]
    = some ([60, 112, 62] ++ sAOpen ++ [47, 117, 34, 62, 97] ++ sAClose ++ [91, 32, 93] ++ [60, 47, 112, 62, 10]) := by decide
/-- test (step two): `[b][a]` full reference, `[a][b]` no link at all (followed by a label that is not defined) -/
example : linkDocRef [91, 98, 93, 91, 97, 93]
    = some ([60, 112, 62] ++ sAOpen ++ [47, 117, 34, 62, 98] ++ sAClose ++ [60, 47, 112, 62, 10]) := by decide
example : linkDocRef [91, 97, 93, 91, 98, 93] = some ([60, 112, 62, 91, 97, 93, 91, 98, 93] ++ [60, 47, 112, 62, 10]) := by decide
/-- test (definitions, 4.7): `[a]: /u` is a definition, `[a]: b(c` and `[a]: <b<c>` are not -/
example : defDoc [47, 117] = some ([60, 112, 62] ++ sAOpen ++ [47, 117, 34, 62, 97] ++ sAClose ++ [60, 47, 112, 62, 10]) := by decide
example : defTail Dev.spec [98, 40, 99] = none := by decide
example : defTail Dev.spec [60, 98, 60, 99, 62] = none := by decide
/-- test: the deviation switches reproduce goldmark on these inputs (attribution only) -/
example : (inlineTail { ctl := true } [40, 1, 41]).isSome = true := by decide
example : (inlineTail { unbal := true } [40, 40, 32, 41]).isSome = true := by decide

end GM.Props.C02Link
