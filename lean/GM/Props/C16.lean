/-
  Property C16 — footnote numbering and cross-links are consistent.

  Model: GM.Model.Footnote (extension/footnote.go after repair 97633bf). One parse is abstracted to the definition
  labels in block-phase order and the reference events in inline-phase order; each event says whether its link ends up
  under an Image (`dropped`) and which definition's body hosts it (`host`). The meaning of "consistent" for one rendered
  document is GM.Spec.Footnote.Consistent (six clauses over the ids, hrefs and shown numbers of the output).

  History: before 97633bf the full statement was false of the code (finding F13: a reference in image alt text, or in the
  body of a footnote that is never referenced, was counted by the transformer although never rendered, leaving a
  back-link to an id that does not exist). The repaired transformer counts only the links the renderer reaches, and the
  full statement is now a theorem for all inputs. The two former refuting witnesses are kept as examples.

  How "referenced" is read (clause `unreferenced`): at source level — a definition is referenced when some footnote
  reference `[^label]` recognised by the inline parser *anywhere* (also in image alt text, also in the body of a footnote
  that is itself removed) carries its label and it is the first definition with that label. Under this reading a
  definition referenced only from invisible places is legitimately listed (numbered, without back-link). Under the
  stricter reading "target of a reference that appears in the output" the repaired code does not satisfy the clause in
  general (examples below); `footnote_items_visibly_referenced` gives it under the hypothesis that no link is filtered.
-/
import GM.Model.Footnote
import GM.Spec.Footnote
import GM.Proof.Footnote
import GM.Props.C16E2E

namespace GM.Props.C16
open GM GM.Footnote GM.Spec.Footnote

/-- The full statement of C16 for one parse: `pre` the configured id prefix, `labels` the definitions, `evs` the
    reference events. -/
def FootnoteConsistent (pre : Bytes) (labels : List Bytes) (evs : List Event) : Prop :=
  Consistent pre labels (evs.map (·.label)) (Footnote.render pre labels evs)

instance (pre : Bytes) (labels : List Bytes) (evs : List Event) : Decidable (FootnoteConsistent pre labels evs) := by
  unfold FootnoteConsistent; infer_instance

/-- **C16.** For every id prefix, every list of definitions and every sequence of reference events (any order and
    multiplicity, any of them under images or inside other footnotes, referenced or not): the items are numbered 1..n in
    listed order (the k-th has id `<prefix>fn:k`); every rendered reference links to exactly one rendered item and shows
    its number; every back-link points to exactly one rendered reference, which links back to the same item; every
    rendered reference is the target of exactly one back-link; all generated ids are distinct; and every rendered item's
    definition is referenced (source-level reading, see the header). -/
theorem footnote_consistent (pre : Bytes) (labels : List Bytes) (evs : List Event) :
    FootnoteConsistent pre labels evs :=
  Proof.Footnote.consistent pre labels evs

/-- The references that appear in the output are exactly the links that passed the transformer's
    `footnoteLinkIsRendered` filter (the ones it counted and numbered): the counting and the rendering agree. -/
theorem footnote_rendered_iff_counted (pre : Bytes) (labels : List Bytes) (evs : List Event) (p : Event × Link) :
    p ∈ renderedLinks (transform labels evs) ↔ p ∈ (transform labels evs).links :=
  Proof.Footnote.rendered_iff_counted pre labels evs p

/-- Stricter reading of "referenced": when no created link is filtered out (no reference under an image or inside a
    removed footnote), every listed item is the target of a reference that appears in the output. -/
theorem footnote_items_visibly_referenced (pre : Bytes) (labels : List Bytes) (evs : List Event)
    (h : Proof.Footnote.allCreatedRendered labels evs = true) :
    ∀ it ∈ (Footnote.render pre labels evs).items, ∃ r ∈ (Footnote.render pre labels evs).refs, r.href = it.id :=
  Proof.Footnote.items_visibly_referenced pre labels evs h

/-- Decimal formatting (strconv.Itoa in the model) writes a numeral whose value is the number: it is injective and the
    model's digit fuel never runs out. -/
theorem decimal_value (n : Nat) : decimalValue? (dec n) = some n := Proof.Footnote.decimalValue_dec n

/-- Ids of links are determined by, and determine, (Index, RefIndex): the `:` separates the two numbers. -/
theorem link_id_injective (pre : Bytes) (l l' : Link) (k k' : Nat) (hk : l.index = (k : Int)) (hk' : l'.index = (k' : Int))
    (h : linkId pre l = linkId pre l') : k = k' ∧ l.refIndex = l'.refIndex :=
  Proof.Footnote.linkId_inj hk hk' h

/-! ### tests on literals (not theorems about all inputs) -/

/-- former witness 1, `![x[^1]](y)` + `[^1]: d` (reference only in image alt text): the item is listed without
    back-link, no reference is rendered, and the output is consistent -/
def altOnly : List Event := [{ label := [49], dropped := true, host := none }]
example : FootnoteConsistent [] [[49]] altOnly := by decide
example : (Footnote.render [] [[49]] altOnly).items = [{ src := 0, id := [102, 110, 58, 49], backs := [] }] := by decide
example : (Footnote.render [] [[49]] altOnly).refs = [] := by decide
/-- …so under the stricter reading of "referenced" this item has no visible reference -/
example : ¬ ∀ it ∈ (Footnote.render [] [[49]] altOnly).items, ∃ r ∈ (Footnote.render [] [[49]] altOnly).refs, r.href = it.id := by decide

/-- former witness 2, `[^a]: see[^b]` + `[^b]: bee` (reference only inside a removed footnote) -/
def removedOnly : List Event := [{ label := [98], dropped := false, host := some 0 }]
example : FootnoteConsistent [] [[97], [98]] removedOnly := by decide
example : ((Footnote.render [] [[97], [98]] removedOnly).items.map (·.backs), (Footnote.render [] [[97], [98]] removedOnly).refs) = ([[]], []) := by decide

/-- a non-trivial document: `a[^x] b[^y] c[^x]`, `[^y]: two [^x]`, `[^x]: one`, `[^z]: unused` -/
def sampleEvents : List Event :=
  [ { label := [120], dropped := false, host := none }, { label := [121], dropped := false, host := none },
    { label := [120], dropped := false, host := none }, { label := [120], dropped := false, host := some 0 } ]

example : ((Footnote.render [112, 45] [[121], [120], [122]] sampleEvents).items.length,
           (Footnote.render [112, 45] [[121], [120], [122]] sampleEvents).refs.length) = (2, 4) := by decide
example : Proof.Footnote.allCreatedRendered [[121], [120], [122]] sampleEvents = true := by decide
/-- mixed: one reference in alt text, one visible: RefIndex is counted over the rendered ones only -/
example : (Footnote.render [] [[49]] [{ label := [49], dropped := true, host := none }, { label := [49], dropped := false, host := none }]).refs.map (·.id)
    = [[102, 110, 114, 101, 102, 58, 49]] := by decide

/-- (re-export of `GM.Props.C16E2E.convertf_off_is_core`) **Without the extension the model is `convertCore`** (guarded and unguarded): the copied block driver with the footnote
    state layer erased is the driver of GM.Convert (no Footnote is ever opened: the layer stays empty), every tag is plain,
    the trigger table is the default one, no FootnoteLink is decoded, the transformer finds no list, and the node renderers'
    state is the core's. -/
theorem e2e_convertf_off_is_core : type_of% @GM.Props.C16E2E.convertf_off_is_core := @GM.Props.C16E2E.convertf_off_is_core

/-- (re-export of `GM.Props.C16E2E.convertf_events_are_abstraction`) **The abstraction GM.Props.C16 speaks about is what the concrete model produces.** For every source on which the two
    parse phases return (block-phase state `(f, st)`, tree `t` in front of the AST transformer):
    (1) `absOf` answers `labels` = the `Ref`s of the FootnoteList's children in the final node store (the definitions in the
        order `Close` appended them) and `events` = one event per FootnoteLink node of `t` in document order (= creation
        order), each with the label of the definition it resolved to, `dropped` = it lies below an Image, `host` = the
        Footnote that encloses it;
    (2) the document the renderer receives is the transformer `finishDoc` applied to `GM.Footnote.transform labels events` —
        the very function `footnote_consistent` is about — with `if list == nil return` decided by the parse context;
    (3) `convertF` renders exactly that document.
    This replaces the probes' OBSERVATION of (labels, events) by the model's computation; the tie (component `convertf`)
    compares the two on every document. -/
theorem e2e_convertf_events_are_abstraction : type_of% @GM.Props.C16E2E.convertf_events_are_abstraction := @GM.Props.C16E2E.convertf_events_are_abstraction

/-- (re-export of `GM.Props.C16E2E.footnote_link_resolves`) **Every node the inline parser returns is a FootnoteLink for a definition of the list** — the FIRST one whose `Ref`
    equals the bytes between `[^` and `]` (footnote.go:162-172, `index == 0` ⇒ nil): without a list, or with an unknown label,
    it returns nil. -/
theorem e2e_footnote_link_resolves : type_of% @GM.Props.C16E2E.footnote_link_resolves := @GM.Props.C16E2E.footnote_link_resolves

/-- (re-export of `GM.Props.C16E2E.footnote_label_resolution`) the position `resolve` answers is the one GM.Spec.Footnote.resolve? (the meaning of "the definition a reference `[^v]`
    means" in clause 6) names, and the label there is `v` -/
theorem e2e_footnote_label_resolution : type_of% @GM.Props.C16E2E.footnote_label_resolution := @GM.Props.C16E2E.footnote_label_resolution

/-- (re-export of `GM.Props.C16E2E.convertf_abstraction_consistent`) **C16 for the abstraction of every parse**: whatever the source, the (labels, events) the concrete model computes
    satisfy the six clauses (`GM.Props.C16.FootnoteConsistent`, i.e. `footnote_consistent`, composed with `absOf`; this file does
    not import GM.Props.C16 so that it can be re-exported there). -/
theorem e2e_convertf_abstraction_consistent : type_of% @GM.Props.C16E2E.convertf_abstraction_consistent := @GM.Props.C16E2E.convertf_abstraction_consistent

/-- (re-export of `GM.Props.C16E2E.convertf_tree_shows_abstraction`) **The tree the renderer receives shows exactly the output of GM.Footnote.render on its abstraction**, for EVERY tree `t`
    in front of the transformer that satisfies (S) — in particular (by the tie's evaluation) the one of every source: the
    `(Index, RefCount, RefIndex)` `fill` writes into the FootnoteLinks in creation order, the removal / move of the list, the
    kept definitions in sorted order with their back-links appended to the last Paragraph, read back in output order
    (nothing below an Image), ARE `items` / `refs` of GM.Model.Footnote (`renderedLinks`: body first, then each kept
    definition's hosted links) — ids, hrefs, shown numbers. Proof: GM.Proof.ConvertFTree (`fill` hands the fields out in
    event order; erasing the fields shows the shape is unchanged; a walk over body / list / notes; `allLinkFields` keeps
    creation order and its rendered entries are the numbered links). -/
theorem e2e_convertf_tree_shows_abstraction : type_of% @GM.Props.C16E2E.convertf_tree_shows_abstraction := @GM.Props.C16E2E.convertf_tree_shows_abstraction

/-- (re-export of `GM.Props.C16E2E.convertf_shape_implies_oracle`) the Lean-defined oracle the tie evaluates (`treeShowsAbsB`) is implied by (S) -/
theorem e2e_convertf_shape_implies_oracle : type_of% @GM.Props.C16E2E.convertf_shape_implies_oracle := @GM.Props.C16E2E.convertf_shape_implies_oracle

/-- (re-export of `GM.Props.C16E2E.convertf_footnotes_consistent`) **C16 for the tree the renderer receives.** For every source whose parse satisfies (S): the ids / hrefs / shown numbers
    FootnoteHTMLRenderer writes for the document `convertF` renders (`treeOutput`: `<li id>` + back-link targets per item,
    `<sup id>` / `href` / number per reference, in output order, nothing below an Image) are those of an output `o` that
    satisfies the six clauses of GM.Spec.Footnote.Consistent w.r.t. the definitions and the reference labels of the source:
    items numbered 1…n in listed order; every reference links to exactly one item and shows its number; every back-link
    points to exactly one rendered reference of its own item; every reference has exactly one back-link; all ids distinct;
    every listed definition is referenced. -/
theorem e2e_convertf_footnotes_consistent : type_of% @GM.Props.C16E2E.convertf_footnotes_consistent := @GM.Props.C16E2E.convertf_footnotes_consistent

/-- (re-export of `GM.Props.C16E2E.shape_always_ok`) **(S) always holds** — for every byte string, Unicode class assignment and guard setting, the tree in front of the
    transformer that the parse phases return has the AST shape: at most one FootnoteList, its children exactly the
    definitions `0 … n−1` in list order with no Footnote / FootnoteList below them, no Footnote elsewhere, FootnoteLinks are
    leaves that point at definitions of the list, no FootnoteBacklink yet, the root is the Document. It holds BY
    CONSTRUCTION of the composed model: the walk over the store (`treeOfF`: modes body / definition / below a definition)
    tags the list's children by their position, and the model's DOMAIN MONITORS (`tagIn`, `treeOfF`, `blockKindF`,
    `inlineTreeF`, `monitorFires` — not Go code, documented in GM.Model.ConvertF) answer `pre` for the stores Go never
    builds (a Footnote outside the list, a FootnoteList twice in the tree or below a definition, node 0 not the Document,
    a FootnoteLink to no definition, a Footnote with lines). So C16 holds of EVERY document `convertF` converts; that the
    monitors never fire (`MonitorsNeverFire`, stated) is a no-`pre` fact of the C01 kind: evaluated by the tie on every
    document (an `err:` answer is a disagreement), never observed; on `[^`-free sources it is a theorem
    (`convertf_conservative`: the outcome is `convertCore`'s). -/
theorem e2e_shape_always_ok : type_of% @GM.Props.C16E2E.shape_always_ok := @GM.Props.C16E2E.shape_always_ok

/-- (re-export of `GM.Props.C16E2E.convertf_footnotes_consistent_unconditional`) **C16 END TO END, UNCONDITIONAL.** For EVERY byte string `src` (every Unicode class assignment, id prefix, guard
    setting): whenever the parse phases of `convertF` return, the ids / hrefs / shown numbers FootnoteHTMLRenderer writes for
    the document `convertF` renders are those of an output that satisfies all six clauses of GM.Spec.Footnote.Consistent:
    items numbered 1…n in listed order; every reference links to exactly one item and shows its number; every back-link
    points to exactly one rendered reference of its own item; every reference has exactly one back-link; all ids distinct;
    every listed definition is referenced. (`convertf_footnotes_consistent` + `shape_always_ok`.) -/
theorem e2e_convertf_footnotes_consistent_unconditional : type_of% @GM.Props.C16E2E.convertf_footnotes_consistent_unconditional := @GM.Props.C16E2E.convertf_footnotes_consistent_unconditional

/-- (re-export of `GM.Props.C16E2E.convertf_tree_always_shows_abstraction`) the Lean-defined oracle of the tie is a theorem: the tree `convertF` renders ALWAYS shows the abstraction's output -/
theorem e2e_convertf_tree_always_shows_abstraction : type_of% @GM.Props.C16E2E.convertf_tree_always_shows_abstraction := @GM.Props.C16E2E.convertf_tree_always_shows_abstraction

/-- (re-export of `GM.Props.C16E2E.convertf_store_wellformed`) **Store well-formedness of the block driver with the footnote block parser** (the `MF` copy of the driver): for every
    source, guard setting and registration flag, whenever the block phase ends normally the node store is tree-shaped
    (`GM.ConvertH.TreeWF`: every child edge is mirrored by the child's parent pointer, child lists are duplicate-free,
    node 0 is the parentless Document) and the footnote context — the FootnoteList of the parse context, every `*ast.Footnote`
    — names existing nodes other than node 0. Technique and parser-level lemmas: GM.Proof.ConvertHWF* (headingids). -/
theorem e2e_convertf_store_wellformed : type_of% @GM.Props.C16E2E.convertf_store_wellformed := @GM.Props.C16E2E.convertf_store_wellformed

/-- (re-export of `GM.Props.C16E2E.convertf_block_monitor_never_fires`) **The block-phase monitor never fires**: for every source the walk over the final store meets the FootnoteList at most
    once and node 0 is the plain Document — the first half of `MonitorsNeverFire`, part 1. -/
theorem e2e_convertf_block_monitor_never_fires : type_of% @GM.Props.C16E2E.convertf_block_monitor_never_fires := @GM.Props.C16E2E.convertf_block_monitor_never_fires

/-- (re-export of `GM.Props.C16E2E.convertf_inline_links_resolve`) **The inline monitor never fires**: every FootnoteLink representation among the inline children the inline phase with
    the footnote parser returns — for every block, reference list, environment — points at a definition of the list
    (`k < refs.length`): part 2 of `MonitorsNeverFire`. The per-node property is carried through every default inline parser,
    ProcessDelimiters (it only builds Emphasis of level 1 or 2), the link parser, the byte loop over the trigger table and
    CloseBlock; the node `parseFootnote` answers has it by `footnote_label_resolution`. -/
theorem e2e_convertf_inline_links_resolve : type_of% @GM.Props.C16E2E.convertf_inline_links_resolve := @GM.Props.C16E2E.convertf_inline_links_resolve

/-- (re-export of `GM.Props.C16E2E.monitors_never_fire_of`) see `GM.Props.C16E2E.monitors_never_fire_of` -/
theorem e2e_monitors_never_fire_of : type_of% @GM.Props.C16E2E.monitors_never_fire_of := @GM.Props.C16E2E.monitors_never_fire_of

/-- (re-export of `GM.Props.C16E2E.convertf_close_discipline`) **The close discipline of the block driver with the footnote block parser** (`MF` copy; technique and parser-level
    lemmas of GM.Proof.ConvertHWF*, carried over): for every source, guard setting and registration flag, in the final state
    of the block phase the open-block stack is empty and the invariant `FJ` holds — the store is tree-shaped, every
    `*ast.Footnote` and the FootnoteList are nodes of their store kind, NO node of that kind has lines, and every child edge to
    a Footnote comes from the FootnoteList. -/
theorem e2e_convertf_close_discipline : type_of% @GM.Props.C16E2E.convertf_close_discipline := @GM.Props.C16E2E.convertf_close_discipline

/-- (re-export of `GM.Props.C16E2E.footnotes_all_filed`) **Every Footnote is filed** — `FootnotesAllFiled` is a theorem. -/
theorem e2e_footnotes_all_filed : type_of% @GM.Props.C16E2E.footnotes_all_filed := @GM.Props.C16E2E.footnotes_all_filed

/-- (re-export of `GM.Props.C16E2E.monitors_never_fire`) **NO DOMAIN MONITOR OF THE FOOTNOTE MODEL EVER FIRES** — `MonitorsNeverFire` is a theorem, for every byte string: after
    every block phase `monitorFires = false` and the tagged tree is `clean`; every FootnoteLink of every inline phase points at
    a definition of the list. With `shape_always_ok` and `convertf_footnotes_consistent_unconditional`: C16 end to end for
    every byte string with no footnote monitor left in the way. -/
theorem e2e_monitors_never_fire : type_of% @GM.Props.C16E2E.monitors_never_fire := @GM.Props.C16E2E.monitors_never_fire

/-- (re-export of `GM.Props.C16E2E.convertf_no_footnote_monitor_outcome`) **…in terms of outcomes**: for every byte string (guard setting, Unicode class assignment) the parse phases of the composed
    model with the extension never answer `value pre` — the outcome of every footnote monitor of the tree phase (`stray`, lines
    on a Footnote / the list, a FootnoteLink to no definition) — and they answer `blocks pre` only when the BLOCK PHASE itself
    does (the retry contract monitors of the block driver that `convertCore` has too), never because of `monitorFires`. -/
theorem e2e_convertf_no_footnote_monitor_outcome : type_of% @GM.Props.C16E2E.convertf_no_footnote_monitor_outcome := @GM.Props.C16E2E.convertf_no_footnote_monitor_outcome

/-- (re-export of `GM.Props.C16E2E.convertf_anchor_loop_terminates`) **A provable part of `BlockNoLoopF`: the ancestor loop of `(*footnoteBlockParser).Close` has enough fuel** (footnote.go:96-100,
    `anchorLoop` with fuel `len + 1`) for every node whose parent-pointer chain reaches node 0 of a tree-shaped store: the nodes
    on the chain exist and are pairwise different (node 0 has no parent, so a node has one depth), so there are at most `len`
    of them. -/
theorem e2e_convertf_anchor_loop_terminates : type_of% @GM.Props.C16E2E.convertf_anchor_loop_terminates := @GM.Props.C16E2E.convertf_anchor_loop_terminates

/-- (re-export of `GM.Props.C16E2E.convertf_close_no_loop_of_reach`) … hence **`Close` of such a Footnote never answers `loop`** (its other outcomes: normal end, `nil`). -/
theorem e2e_convertf_close_no_loop_of_reach : type_of% @GM.Props.C16E2E.convertf_close_no_loop_of_reach := @GM.Props.C16E2E.convertf_close_no_loop_of_reach

end GM.Props.C16
