/-
  GM.Props.Consts — the constants the hand-written models embody are the constants of the code under test.

  Every theorem below is a kernel evaluation (`decide +kernel`) of a Boolean over GM.Gen.Consts, the table that
  gmgen (harness/cmd/gmgen/gen_consts.go) re-extracts from the goldmark tree on EVERY run: the fully evaluated
  source text of every `regexp.MustCompile`, the package-level string sets and byte-string / integer constants, and,
  per Go function, the sorted multisets of its integer literals (comparisons, slice bounds, case labels, `%`,
  literal call arguments) and of its string literals (written / other). The expected sides live in
  GM.Spec.ConstFacts: the model's own definition where it has one, otherwise the literal restated with the model
  file:line that uses it. When the code's constant changes, the theorem of its group stops checking and
  `./check` (consts_diagnosis) prints `GM.Spec.Consts.report`: the constant's name, its value in the code now, and
  the model location written against the old value.

  The obligations are evaluated in five modules (GM.Props.Consts.Parser / Table / Ext / Render / Mirror) so that a
  property file can import only the groups its model depends on (a changed renderer literal must not stop C17's
  build); this file gathers them under one namespace, one theorem per group.

  These theorems say nothing about behaviour; they close the gap "the differential tie was green, but only because
  no generated input reached the changed constant" for the constants listed, statically.
-/
import GM.Props.Consts.Parser
import GM.Props.Consts.Table
import GM.Props.Consts.Ext
import GM.Props.Consts.Render
import GM.Props.Consts.Mirror

namespace GM.Props.Consts
open GM GM.Spec.Consts

/-- The eight regular expressions of parser/html_block.go (start conditions of HTML block types 1-7 and the end
    condition of type 1) have exactly the source text that the matchers `type1Open … type7Match` of
    GM.Model.Blocks.Html were hand-written against, and the alternation `script|pre|style|textarea` is the model's
    `type1Names`. Supports the block-phase model behind C01 (no panic / termination of the block phase), C02
    (CommonMark conformance), C05 (line ranges), C08, C09. -/
theorem html_block_regexps_tied : allOk htmlBlockRegexps = true := Parser.html_block_regexps_tied

/-- `allowedBlockTags` (the tag names that open an HTML block of type 6) is, as a set, the model's
    `GM.Blocks.allowedBlockTags`; the closing markers of types 2-5 (`-->`, `?>`, `>`, `]]>`), the three names
    excluded from type 7, the HTMLBlockType numbering and every integer literal of htmlBlockParser.Open/Continue are
    those GM.Model.Blocks.Html uses. Supports the same properties as `html_block_regexps_tied`. -/
theorem html_block_tags_tied : allOk htmlBlockTags = true := Parser.html_block_tags_tied

/-- openTagRegexp / closeTagRegexp of parser/raw_html.go and the three pattern strings they (and HTML block type 7)
    are built from have the text `GM.Inl.matchOpenTag`, `matchCloseTag`, `tagAttrs` and `GM.Blocks.attrOne` were
    written against; the comment / processing-instruction / CDATA / declaration markers are the model's
    `bOpenComment … bCloseCDATA`. Supports the inline-phase model behind C01, C02, C03 (raw HTML is what safe mode
    must omit), C05. -/
theorem raw_html_regexps_tied : allOk rawHtmlRegexps = true := Parser.raw_html_regexps_tied

/-- util.emailDomainRegexp has the text `GM.Inl.matchEmailDomain` was written against (labels of at most 63 bytes),
    and the literal bounds of FindURLIndex (scheme of 2-32 bytes), FindEmailIndex and autoLinkParser.Parse are the
    model's. Supports the inline-phase model behind C02, C04 (autolink destinations), C11 (linkify's e-mail path). -/
theorem autolink_regexps_tied : allOk autolinkRegexps = true := Parser.autolink_regexps_tied

/-- The four delimiter-row expressions of extension/table.go have the text `GM.Table.tableDelimLeft/Right/Center/
    None` were written against; the literals of isTableDelim, parseDelimiter, parseRow, Transform and the alignment
    numbering are the model's. Supports C17 (every rendered table is rectangular) and C11 (table declines). -/
theorem table_regexps_tied : allOk tableRegexps = true := Table.table_regexps_tied

/-- taskListRegexp has the text `GM.Ext.taskParse` was written against; the linkify protocol / `www.` guards are the
    model's definitions; the trigger bytes of the footnote and definition-list openers are the model's; the two
    linkify URL expressions (not modelled) are recorded. Supports C11 (extensions decline without their syntax). -/
theorem extension_regexps_tied : allOk extensionRegexps = true := Ext.extension_regexps_tied

/-- The code compiles exactly the 18 regular expressions named in `regexpNames`, each from string literals and
    never-reassigned package-level strings (so gmgen evaluated its full text), and declares no package-level string
    set other than `allowedBlockTags`: there is no expression or tag list the models have not seen. -/
theorem regexp_inventory_complete : allOk regexpInventory = true := Ext.regexp_inventory_complete

/-- The numeric limits of the grammar as the code states them — link label 999 / 998, ordered-list start of at
    most 9 digits, indentation 3 / 4 in every block parser, code indent 4, fence length 3, ATX level 6, thematic
    break of 3 markers, autolink scheme 32, numeric reference of 7 digits in 32 bits, case-folding fast path below
    0xB5, tab stop 4, the rule of three of emphasis — are the ones the models compare against (one obligation per
    limit: the literal occurs in the named Go function exactly as often as the model mirrors it). Supports
    C01/C02/C05/C08/C09 (block and inline models) and C19 (util model). -/
theorem limits_tied : allOk limits = true := Parser.limits_tied

/-- The marker bytes — bullets `-*+`, ordered delimiters `.)`, thematic-break `*-_`, fences, `#`, `>`, setext `-`,
    emphasis `*_`, code-span back-tick — are compared in the code exactly as often as the models mirror.
    Supports C02, C08 (marker consumption), C11 (trigger tables). -/
theorem markers_tied : allOk markers = true := Parser.markers_tied

/-- Package-level constants for which a model has a definition of its own are equal to that definition: attribute
    names and JSON words (GM.Attr), default heading ids (GM.Ids), dangerous URL schemes and image types (GM.Util),
    parser State bits, line-break flags, list types, link FindClosure options, East-Asian and table-align enums;
    and the limits of the renderer-side models: bufio's default buffer of 4096 bytes (read from GOROOT; anchored
    to GM.Bufio.render by `Spec.Consts.bufio_anchor`), the reader's EOF byte 255, the prefix length 11 of
    IsDangerousURL. Supports C03/C04 (attributes, schemes), C14 (bufio), C15 (ids), C11 (state bits), C10 (enums). -/
theorem named_constants_tied : allOk namedConstants = true := Render.named_constants_tied

/-- Every string or byte literal that a node renderer of renderer/html and of the table, footnote, strikethrough,
    task-list and definition-list extensions hands to a Write call is, per renderer function and as a multiset, what
    the renderer model (GM.enter / GM.leave in GM.Model.Render) writes for that node kind — including
    `<!-- raw HTML omitted -->` (= GM.omitted), the footnote id prefixes `fn:` / `fnref` (= the footnote model's
    definitions) and the footnote defaults `footnote-ref`, `footnote-backref`, `&#x21a9;&#xfe0e;` (= the defaults
    of GM.FootCfg). Supports C03 (output vocabulary), C10, C14, C16 (footnote cross-links), C17 (table skeleton). -/
theorem rendered_literals_tied : allOk renderedLiterals = true := Render.rendered_literals_tied

/-- Whole-function fingerprints: for each of 50 Go functions that a model mirrors branch by branch, the complete
    sorted multiset of its integer literals is unchanged since the model was last validated against it. Deliberately
    sensitive (a refactoring that adds or rewrites a comparison fires it); it decides nothing about behaviour and is
    meant for `./check consts`, not as a dependency of a property. -/
theorem mirrored_function_literals_tied : allOk mirroredLiterals = true := Mirror.mirrored_function_literals_tied

end GM.Props.Consts
