/-
  GM.Props.C09E2E — property C09, first half ("closed blocks render independently"), AT HTML LEVEL on the composed model of
  `goldmark.Convert`, for an EMPTY document `A`:

      convertCore uc o ("\n# h\n\n" ++ b) = convertCore uc o ("# h\n") ++ convertCore uc o b

  for every option set, every heading text `h` without line feed, every `b` (lists included), both without the byte `[`.
  (`"# h\n"` is `GM.Blocks.Sh.hlB h` = `GM.Blocks.headingLine h`; `"\n# h\n\n" ++ b` is `GM.Blocks.Sh.docB h b` =
  `GM.Blocks.indepDoc [] h b`.) From package shiftsim's shift invariance of the block phase (`GM.Props.C09Shift.shift_invariance`,
  `joined_run_reaches_start`, `heading_line_run`) through the inline phase and the renderer (GM.Proof.E2EShift).

  NAMED HYPOTHESIS `InlineMoveStep src src' d L`: the inline phase of ONE block answers the same renderer trees when its lines are
  moved by `d` bytes into another source. It is PROVED for blocks of plain-text lines (cmfrag's `GoodLine`, `inline_move_good_lines`);
  `heading_then_blocks_html_checked` has no such hypothesis.
  Not covered: a non-empty `A` (shiftsim's prefix determinism is stated on canonical dumps, not on stores).
  The theorems are stated for sources that convert (`convertCore … = .ok html`); that EVERY source converts is
  `GM.Props.ConvertE2ENP.convert_total` (not importable together with the QuoteSim chain that GM.Props.C08E2E needs: name clash
  `GM.Blocks.NS`).
-/
import GM.Proof.E2EShiftGood
import GM.Props.C08E2E

namespace GM.Props.C09E2E
open GM GM.Text GM.Convert GM.Spec GM.E2E GM.Blocks GM.Blocks.Sh GM.E2E.Shift

/-- the two sources of the statement, spelled out -/
example (h : Bytes) : hlB h = headingLine h := (headingLine_eq h).symm
example (h b : Bytes) : docB h b = indepDoc [] h b := (indepDoc_nil h b).symm

/-- **the renderer on a Document whose first child is a Heading**: the heading, then the other children — a Heading does not look
    at its next sibling (html.go:renderHeading) -/
theorem renderer_heading_then_rest : type_of% @render_heading_cons := @render_heading_cons

/-- **C09 first half at the level of the renderer's tree, empty `A`**: `parseDoc ("\n# h\n\n" ++ b)` is
    Document[the Heading of `parseDoc "# h\n"`, the children of `parseDoc b`] -/
theorem parse_heading_then_blocks : type_of% @parseDoc_joined := @parseDoc_joined

/-- **`heading_then_blocks_html` — C09 first half at HTML level, empty `A`**, given the inline invariant for the heading and for
    the blocks of `b` -/
theorem heading_then_blocks_html : type_of% @convert_joined := @convert_joined

/-- **the inline hypothesis holds for blocks of plain-text lines**, the lines moved into `P ++ src ++ S` -/
theorem inline_move_good_lines : type_of% @inlineMoveStep_good := @inlineMoveStep_good

/-- **without the inline hypothesis: plain-text inline content**, any block structure in `b` -/
theorem heading_then_blocks_html_good_lines : type_of% @convert_joined_good := @convert_joined_good

/-- **… with decidable hypotheses** (`GM.Props.C08E2E.goodLinesCheck`: run the block phase, test every block with inline content) -/
theorem heading_then_blocks_html_checked (uc : List (Nat × (Bool × Bool))) (o : ROpts) (h b : Bytes) (hh : ∀ c ∈ h, c ≠ 10)
    (hbh : NoBracket h) (hbb : NoBracket b) (hgh : GM.Props.C08E2E.goodLinesCheck (hlB h) = true)
    (hgb : GM.Props.C08E2E.goodLinesCheck b = true)
    (htmlH htmlB : Bytes) (h1 : convertCore uc o (hlB h) = .ok htmlH) (h2 : convertCore uc o b = .ok htmlB) :
    convertCore uc o (docB h b) = .ok (htmlH ++ htmlB) :=
  convert_joined_good uc o h b hh hbh hbb
    (fun sh hsh => by
      unfold GM.Props.C08E2E.goodLinesCheck at hgh
      rw [hsh] at hgh
      exact GM.E2E.Quote.goodBlocksB_sound hgh)
    (fun sb hsb => by
      unfold GM.Props.C08E2E.goodLinesCheck at hgb
      rw [hsb] at hgb
      exact GM.E2E.Quote.goodBlocksB_sound hgb) htmlH htmlB h1 h2

/-! ### non-vacuity -/

/-- the hypotheses hold for `h = "t x"`, `b` = a list, a fenced code block, an HTML block, a paragraph of two lines -/
example : GM.Props.C08E2E.goodLinesCheck (hlB (strBytes "t x")) = true := by decide +kernel
example : GM.Props.C08E2E.goodLinesCheck (strBytes "- a\n- b c\n\n```\nc\n```\n\n<div>\nq\n</div>\n\nx\ny z\n") = true := by
  decide +kernel

/-- the equation on literals, both sides evaluated by the kernel -/
example : (convertCore [] {} (docB (strBytes "t x") (strBytes "- a\n- b c\n\n```\nc\n```\n\n<div>\nq\n</div>\n\nx\ny z\n"))).toOption =
    (do let a ← (convertCore [] {} (hlB (strBytes "t x"))).toOption
        let b ← (convertCore [] {} (strBytes "- a\n- b c\n\n```\nc\n```\n\n<div>\nq\n</div>\n\nx\ny z\n")).toOption
        pure (a ++ b)) := by decide +kernel

example : (convertCore [] {} (hlB (strBytes "t x"))).toOption = some (strBytes "<h1>t x</h1>\n") := by decide +kernel

end GM.Props.C09E2E
