/-
  Property C02 (package escfix) — the two mechanisms behind the CommonMark deviations repaired by
  KNOWN_FINDINGS `fixed:` 24c9f23 (parser/parser.go parseBlock: `escaped = false` at the top of the line loop) and
  9e57c92 (text/reader.go findClosureReader: `seg.WithStop(seg.Start + i - seg.Padding)`), as theorems about the
  models that mirror the repaired code (GM.Model.InlineLoop / InlinesLoop / InlinesLoopX, GM.Model.Reader; tied by the
  components inlineloop, inlines, convert, convertx, reader). Both were FALSE of the models of the unrepaired code (the
  literals below evaluated differently); the inputs are regression cases of the components cmemph and convert.
  Helper lemmas: GM/Proof/EscFix.lean.
-/
import GM.Proof.EscFix

namespace GM.Props.C02Esc
open GM GM.Text GM.Spec GM.Proof.Reader GM.Proof.EscFix

/-- `escape_state_does_not_cross_line_end` (CommonMark 2.4 / 6.7: a backslash escapes the NEXT character; a line ending
    is not carried over). `Reach P b top st`: `st` is a state the loop of parseBlock goes through `retry:` with, for ANY
    inline parsers `P` and block `b`; `top = true` marks the states in which an iteration of the outer `for` begins (the
    first one, and the one after every end of line), `top = false` those behind a `goto retry`. In every state at the
    top of the line loop the flag `escaped` is false. -/
theorem escape_state_does_not_cross_line_end {P : InlineLoop.Params} {b : InlineLoop.Block} {st : InlineLoop.St}
    (h : Reach P b true st) : st.escaped = false :=
  reach_top_escaped h

/-- `Reach` misses nothing: from a reached state, every state the loop is in after any number of passes is reached
    (so the theorem above speaks about every line start of every run: `Reach.init` is the state `run` starts from). -/
theorem reach_covers_the_run {P : InlineLoop.Params} {b : InlineLoop.Block} (fuel : Nat) {k : Bool} {st : InlineLoop.St}
    (h : Reach P b k st) : ∃ k', Reach P b k' (InlineLoop.loop P b fuel st).st :=
  reach_loop fuel h

/-- what the end of a line hands to the next line does not depend on the flag the byte loop left behind -/
theorem line_end_forgets_escape (b : InlineLoop.Block) (fl : InlineLoop.Flags) (l : Nat) (st : InlineLoop.St)
    (sp n : Nat) (e : Bool) :
    InlineLoop.eol b fl l { st with escaped := e } sp n = InlineLoop.eol b fl l st sp n ∧
    (InlineLoop.eol b fl l st sp n).escaped = false :=
  ⟨eol_flag_irrelevant b fl l st sp n e, eol_escaped b fl l st sp n⟩

/-- the CONCRETE inline phase (GM.Inl.lineLoop, the model tied to `parseBlock` with the default parsers by component
    `inlines`): when the byte loop of a pass reaches the end of its line (`.eol s`), the loop goes on from the end-of-line
    state with `escaped = false` — whatever `s.escaped` is. -/
theorem lineLoop_line_end_resets (env : Inl.Env) (fuel : Nat) (esc : Bool) (st : Inl.St) {pl} {line : Bytes}
    {s : Inl.Scan} (hpl : st.rd.peekLine = .ok pl) (hline : pl.1.1 = some line) (hne : line.isEmpty = false)
    (hscan : Inl.scan env (line.take (Inl.classify line).1) 0
      { st := { st with rd := pl.2 }, n := 0, sp := pl.2.position.2, escaped := esc } = .ok (.eol s)) :
    Inl.lineLoop env (fuel + 1) esc st =
      (Inl.endOfLine (Inl.classify line).2 pl.2.position.1 s >>= fun st' => Inl.lineLoop env fuel false st') :=
  lineLoop_line_end env fuel esc st hpl hline hne hscan

/-- … and the loop over an open trigger table (GM.Inl.lineLoopX: the inline phase of `convertX` / `convertH`) -/
theorem lineLoopX_line_end_resets (env : Inl.Env) (tbl : UInt8 → List Inl.XIp) (fuel : Nat) (esc : Bool) (st : Inl.St)
    {pl} {line : Bytes} {s : Inl.Scan} (hpl : st.rd.peekLine = .ok pl) (hline : pl.1.1 = some line)
    (hne : line.isEmpty = false)
    (hscan : Inl.scanX env tbl (line.take (Inl.classify line).1) 0
      { st := { st with rd := pl.2 }, n := 0, sp := pl.2.position.2, escaped := esc } = .ok (.eol s)) :
    Inl.lineLoopX env tbl (fuel + 1) esc st =
      (Inl.endOfLine (Inl.classify line).2 pl.2.position.1 s >>= fun st' => Inl.lineLoopX env tbl fuel false st') :=
  lineLoopX_line_end env tbl fuel esc st hpl hline hne hscan

/-- `findClosure_stop_excludes_padding`: FindClosure on a block reader `r` that stands for a well-formed cursor over
    lines with ANY virtual paddings (`WFSegs`, `BAbs`: what the paragraph transformer and the inline parsers hold), for
    any opener, any options and any closer other than the space the padding is made of (goldmark's closers are `]`, `"`,
    `'`, `)`), with a fuel above the bytes in front of the cursor: when a closure is reported, the LAST returned segment
    stops exactly at the source offset of a closer byte — the virtual padding at the head of the peeked line is not
    counted (before the repair the stop was `Padding` bytes further right). -/
theorem findClosure_stop_excludes_padding {src : Bytes} {segs : List Segment} (hw : WFSegs src segs)
    {r r' : BlockReader} {c : BCur} (h : BAbs src segs r c) (o cl : UInt8) (hcl : cl ≠ 32) (opts : FindClosureOptions)
    (fuel : Nat) (hf : (BCur.remaining segs c).toNat < fuel) {sgs : List Segment}
    (e : findClosure blockOps fuel o cl opts r = .ok ((some sgs, true), r')) :
    ∃ s, sgs.getLast? = some s ∧ 0 ≤ s.stop ∧ src[s.stop.toNat]? = some cl :=
  blockReader_findClosure_stop hw h o cl hcl opts fuel hf e

/-- the same on the specification cursor `BCur` itself (C18's abstract side) -/
theorem findClosure_stop_excludes_padding_cursor {src : Bytes} {segs : List Segment} (hw : WFSegs src segs)
    (o cl : UInt8) (hcl : cl ≠ 32) (opts : FindClosureOptions) (fuel : Nat) {c c' : BCur} {x}
    (w : GM.Proof.Reader.BWF segs c) (e : findClosure (BCur.ops src segs) fuel o cl opts c = .ok (x, c'))
    (hx : x.2 = true) : ∃ s, (x.1.getD []).getLast? = some s ∧ 0 ≤ s.stop ∧ src[s.stop.toNat]? = some cl :=
  bcur_findClosure_stop (segFacts hw) o cl hcl opts fuel w e hx

/-! ### tests on literals (kernel-evaluated): the hypotheses are satisfiable, and the two repaired inputs -/

/-- (T) `> [a⏎>⇥b]: /u⏎`, lines `[a⏎` = [2,5) and `b]: /u⏎` = [7,14) with padding 2, cursor behind the `[`:
    FindClosure('[', ']') hands out [3,5) and [7,8) — offset 8 is the `]` (before the repair: [7,10)) -/
example : (findClosure (BCur.ops [62, 32, 91, 97, 10, 62, 9, 98, 93, 58, 32, 47, 117, 10]
      [⟨2, 5, 0, false⟩, ⟨7, 14, 2, false⟩]) 64 91 93 ⟨false, false, true, true⟩ ⟨0, 3, 0⟩).toOption.map (·.1) =
    some (some [⟨3, 5, 0, false⟩, ⟨7, 8, 2, false⟩], true) := by decide +kernel

/-- why `cl ≠ 32` is needed (quirk of the code, unreachable from goldmark's own callers): a closer that IS a space is
    found inside the virtual padding, at index 1 < Padding = 2, and the stop `Start + 1 - 2` lies before the start -/
example : (findClosure (BCur.ops [62, 9, 98, 10] [⟨2, 4, 2, false⟩]) 64 91 32 ⟨false, false, true, true⟩
      ⟨0, 2, 1⟩).toOption.map (·.1) = some (some [⟨2, 1, 1, false⟩], true) := by decide +kernel

/-- (E) the abstract loop on `a\␠␠⏎\*⏎` (lines [0,5) and [5,8)) with one parser triggered by `*`: the `*` of the second
    line is escaped by the backslash in front of it, so the parser is never consulted — the call log stays empty
    (before the repair the flag left by the `\` of line 1, whose two spaces are cut off before the scan, made the `\` of
    line 2 the escaped character and the parser was asked about the `*`) -/
example : (InlineLoop.run ⟨[⟨7, [42], fun _ _ => .decline 0⟩], false⟩
    ⟨[97, 92, 32, 32, 10, 92, 42, 10], [⟨0, 5⟩, ⟨5, 8⟩]⟩).st.log = [] := by decide +kernel

/-- … while an unescaped `*` there is asked about (the parser is not dead in this test) -/
example : ((InlineLoop.run ⟨[⟨7, [42], fun _ _ => .decline 0⟩], false⟩
    ⟨[97, 92, 32, 32, 10, 97, 42, 10], [⟨0, 5⟩, ⟨5, 8⟩]⟩).st.log.map (·.pos)) = [6] := by decide +kernel

end GM.Props.C02Esc
