/-
  Property C19 — escaping and normalisation utilities obey their algebraic laws.
  Only property theorems and their non-vacuity examples live here; helper lemmas are in GM/Proof/.
-/
import GM.Model.Util
import GM.Spec.Html
import GM.Proof.Util
import GM.Spec.UrlEsc
import GM.Proof.UrlEscape
import GM.Proof.UrlDecode
import GM.Proof.Resolve
import GM.Proof.ResolveAll
import GM.Proof.LinkRef
import GM.Proof.Filter
import GM.Proof.FilterInv
import GM.Spec.FilterSet

namespace GM.Props.C19
open GM GM.Spec GM.Spec.FilterSet

/-- EscapeHTML output contains no raw `<`, `>`, `"`. -/
theorem escapeHTML_noRaw (v : Bytes) : noRawSpecial (escapeHTML v) = true := Proof.escapeHTML_noRaw v

/-- Every `&` in EscapeHTML output begins one of the four references (no bare `&`). -/
theorem escapeHTML_amps (v : Bytes) : ampsOK4 (escapeHTML v) = true := Proof.escapeHTML_amps v

/-- EscapeHTML output decodes back to the input. -/
theorem decode_escapeHTML (v : Bytes) : htmlDecode4 (escapeHTML v) = v := Proof.decode_escapeHTML v

/-! ### URLEscape -/

/-- `URLEscape(v, false)` is the escaping loop alone; `URLEscape(v, true)` first unescapes backslashes and
    resolves numeric and named references — in ONE pass since 65e7267 (`unescapeAndResolve`) — then runs the
    same loop. So every law below about `urlEscapeRaw` on all byte strings covers both modes. -/
theorem urlEscape_modes (v : Bytes) :
    urlEscape v false = urlEscapeRaw v ∧
    urlEscape v true = urlEscapeRaw (unescapeAndResolve v) := ⟨rfl, rfl⟩

/-- URLEscape output (either mode, any input bytes) contains no byte ≤ 0x20 (space, C0 controls), no 0x7f,
    no `"`, `<`, `>`. (Bytes ≥ 0x80 that cannot start a UTF-8 sequence are copied as they are, so the output
    of an ill-formed input can contain raw 0x80–0xC1 / 0xF8–0xFF bytes; see `urlEscape_ascii_of_valid`.) -/
theorem urlEscape_bytes (v : Bytes) (r : Bool) : urlBytesClean (urlEscape v r) = true := Proof.urlEscapeRaw_clean _

/-- Every `%` in URLEscape output is followed by two hex digits. -/
theorem urlEscape_pct (v : Bytes) (r : Bool) : pctOK (urlEscape v r) = true := Proof.urlEscapeRaw_pct _

/-- Valid UTF-8 input gives pure-ASCII output (no reference resolution). -/
theorem urlEscape_ascii_of_valid (v : Bytes) (hv : validUtf8 v = true) : isAscii (urlEscape v false) = true :=
  Proof.urlEscapeRaw_ascii_of_valid v hv

/-- The same with reference resolution switched on: valid UTF-8 input gives pure-ASCII output, because the
    three resolvers keep valid UTF-8 valid (next section). -/
theorem urlEscape_ascii_of_valid_resolving (v : Bytes) (hv : validUtf8 v = true) :
    isAscii (urlEscape v true) = true :=
  Proof.urlEscapeRaw_ascii_of_valid _ (Proof.unescapeAndResolve_valid _ hv)

/-- non-vacuity + test: "é ü" is valid UTF-8 and its escape is ASCII -/
example : validUtf8 [0xC3, 0xA9, 32, 0xC3, 0xBC] = true ∧
    urlEscape [0xC3, 0xA9, 32, 0xC3, 0xBC] false = strBytes "%C3%A9%20%C3%BC" := by decide +kernel

/-- The hypothesis is needed: a byte that cannot start a UTF-8 sequence is copied unchanged (test). -/
example : urlEscape [0x80, 32] false = [0x80, 37, 50, 48] := by decide +kernel

/-- An existing `%XX` triple (two hex digits) anywhere in the input is kept verbatim: the output is some
    prefix, the triple, and then exactly the escaping of what followed the triple (or, when nothing at all
    had to be escaped and the input is returned as it is, what followed it). -/
theorem urlEscape_keeps_triples (a b : Bytes) (x y : UInt8) (hx : isHexDigit x = true) (hy : isHexDigit y = true) :
    ∃ p, urlEscape (a ++ 37 :: x :: y :: b) false =
      p ++ 37 :: x :: y ::
        (if urlCopies (a ++ 37 :: x :: y :: b).length (a ++ 37 :: x :: y :: b)
         then urlEscapeLoop (a ++ 37 :: x :: y :: b).length b else b) :=
  Proof.urlEscapeRaw_keeps_triple a b x y (by rw [Proof.isHex_eq_spec]; exact hx) (by rw [Proof.isHex_eq_spec]; exact hy)

/-- non-vacuity + test: `a b%4Fc d` keeps `%4F` -/
example : isHexDigit 52 = true ∧ isHexDigit 70 = true ∧
    urlEscape (strBytes "a b%4Fc d") false = strBytes "a%20b%4Fc%20d" := by decide +kernel

/-- URLEscape does not change what the URL means: for valid UTF-8 input, percent-decoding the output
    (`%XX` ↦ byte XX, anything else literal) gives the same bytes as percent-decoding the input. In particular
    every existing `%XX` keeps its value, a stray `%` becomes `%25`, a space `%20`, never `+`. With reference
    resolution the same holds relative to the resolved text. -/
theorem urlEscape_decode (v : Bytes) (hv : validUtf8 v = true) :
    pctDecode (urlEscape v false) = pctDecode v ∧
    pctDecode (urlEscape v true) = pctDecode (unescapeAndResolve v) :=
  ⟨Proof.urlEscapeRaw_decode v hv, Proof.urlEscapeRaw_decode _ (Proof.unescapeAndResolve_valid _ hv)⟩

/-- non-vacuity + test: "50% é%41" is valid, escapes to "50%25%20%C3%A9%41", both decode to "50% éA" -/
example : validUtf8 (strBytes "50% é%41") = true ∧
    urlEscape (strBytes "50% é%41") false = strBytes "50%25%20%C3%A9%41" ∧
    pctDecode (strBytes "50%25%20%C3%A9%41") = strBytes "50% éA" ∧ pctDecode (strBytes "50% é%41") = strBytes "50% éA" := by
  decide +kernel

/-- The hypothesis is needed: a truncated UTF-8 sequence at the end loses its leading byte (test; the real
    URLEscape("a\xe2\x82") = "a\x82"). -/
example : urlEscape [97, 0xE2, 0x82] false = [97, 0x82] ∧
    pctDecode (urlEscape [97, 0xE2, 0x82] false) ≠ pctDecode [97, 0xE2, 0x82] := by decide +kernel

/-- URLEscape (without reference resolution) is idempotent: escaping its own output (from either mode)
    changes nothing. -/
theorem urlEscape_idem (v : Bytes) (r : Bool) : urlEscape (urlEscape v r) false = urlEscape v r :=
  Proof.urlEscapeRaw_idem _

/-! ### the resolvers keep valid UTF-8 valid -/

/-- UnescapePunctuations maps valid UTF-8 to valid UTF-8. -/
theorem unescape_valid (v : Bytes) (hv : validUtf8 v = true) : validUtf8 (unescapePunct v) = true :=
  Proof.unescapePunct_valid v hv

/-- ResolveNumericReferences maps valid UTF-8 to valid UTF-8 (whatever number is written, including
    zero, surrogates, values above U+10FFFF and digit strings that overflow 32 bits). -/
theorem resolveNumeric_valid (v : Bytes) (hv : validUtf8 v = true) : validUtf8 (resolveNumeric v) = true :=
  Proof.resolveNumeric_valid v hv

/-- ResolveEntityNames maps valid UTF-8 to valid UTF-8 (uses: every one of the regenerated table's
    expansions is valid UTF-8, checked by the kernel). -/
theorem resolveEntity_valid (v : Bytes) (hv : validUtf8 v = true) : validUtf8 (resolveEntities v) = true :=
  Proof.resolveEntities_valid v hv

/-- non-vacuity + tests: valid inputs on which each resolver really rewrites something -/
example : validUtf8 (strBytes "a\\*é") = true ∧ unescapePunct (strBytes "a\\*é") = strBytes "a*é" := by decide +kernel
example : validUtf8 (strBytes "&#xe9;&#233;") = true ∧ resolveNumeric (strBytes "&#xe9;&#233;") = strBytes "éé" := by
  decide +kernel
example : validUtf8 (strBytes "&ouml;&amp;") = true ∧ resolveEntities (strBytes "&ouml;&amp;") = strBytes "ö&" := by
  decide +kernel

/-- Every replacement ResolveNumericReferences writes is the UTF-8 encoding of `runeOfUint32 n` for the
    parsed number `n`, and that rune is always valid and non-zero: `n = 0`, surrogates D800–DFFF and
    everything above U+10FFFF (also ≥ 2^31, which Go's `rune(v)` turns negative; `ParseUint` saturates
    at 2^32-1 on overflow) become U+FFFD, every other `n` stays `n`. -/
theorem numeric_out_of_range (n : Nat) :
    validRune (runeOfUint32 n) = true ∧ runeOfUint32 n ≠ 0 ∧
    ((n = 0 ∨ 0x10FFFF < n ∨ (0xD800 ≤ n ∧ n ≤ 0xDFFF)) → runeOfUint32 n = 0xFFFD) ∧
    (¬(n = 0 ∨ 0x10FFFF < n ∨ (0xD800 ≤ n ∧ n ≤ 0xDFFF)) → runeOfUint32 n = n) := Proof.runeOfUint32_spec n

/-- tests: `&#0;`, `&#xD800;`, `&#x110000;`, and an overflowing `&#xFFFFFFFFFF;` all give U+FFFD (EF BF BD) -/
example : resolveNumeric (strBytes "&#0;") = [0xEF, 0xBF, 0xBD] ∧
    resolveNumeric (strBytes "&#xD800;") = [0xEF, 0xBF, 0xBD] ∧
    resolveNumeric (strBytes "&#x110000;") = [0xEF, 0xBF, 0xBD] ∧
    resolveNumeric (strBytes "&#xFFFFFFFFFF;") = [0xEF, 0xBF, 0xBD] := by decide +kernel

/-! ### link-label normalisation (ToLinkReference) -/

/-- What ToLinkReference computes, for every byte string: trim the set " \t\n\v\f\r" at both ends, apply
    the full case folding, then rewrite every maximal run of " \t\n\r" to one space. (ReplaceSpaces'
    shortcut "only a trailing run: return the input unchanged" can never apply after the trim.) -/
theorem toLinkRef_normal_form (v : Bytes) :
    toLinkReference v = replaceSpacesAll 32 (caseFold (trimRightSpace (trimLeftSpace v))) :=
  Proof.toLinkReference_eq v

/-- Normalisation is idempotent. (Uses the table fact `Proof.foldTable_closed`: no folding result is itself
    a key of the folding table, checked by the kernel on the regenerated table.) -/
theorem toLinkRef_idem (v : Bytes) : toLinkReference (toLinkReference v) = toLinkReference v :=
  Proof.toLinkReference_idem v

/-- Case folding alone is idempotent as well. -/
theorem caseFold_idem (v : Bytes) : caseFold (caseFold v) = caseFold v := Proof.caseFold_idem v

/-- White space 1: any leading bytes from " \t\n\v\f\r" are ignored. -/
theorem toLinkRef_ws_leading (w v : Bytes) (hw : w.all isTrimSpace = true) :
    toLinkReference (w ++ v) = toLinkReference v := Proof.toLinkReference_ws_lead w v hw

/-- White space 2: any trailing bytes from " \t\n\v\f\r" are ignored. -/
theorem toLinkRef_ws_trailing (v w : Bytes) (hw : w.all isTrimSpace = true) :
    toLinkReference (v ++ w) = toLinkReference v := Proof.toLinkReference_ws_trail v w hw

/-- White space 3: two labels that differ only in how one run of " \t\n\r" (IsSpace: no \v, \f) is
    spelled — any non-empty run against any other — normalise to the same key, wherever the run is. -/
theorem toLinkRef_ws (a w1 w2 b : Bytes) (h1 : w1 ≠ []) (h2 : w2 ≠ []) (hw1 : w1.all isSpace = true)
    (hw2 : w2.all isSpace = true) :
    toLinkReference (a ++ w1 ++ b) = toLinkReference (a ++ w2 ++ b) :=
  Proof.toLinkReference_ws_run a w1 w2 b h1 h2 hw1 hw2

/-- non-vacuity + test -/
example : toLinkReference (strBytes " \tFoo \n\t bar\r\n") = strBytes "foo bar" ∧
    toLinkReference (strBytes "Foo bar") = strBytes "foo bar" := by decide +kernel

/-- The statement "labels that differ only in runs of whitespace are identified" is FALSE of the code when
    vertical tab / form feed count as white space: interior \v and \f are neither collapsed nor mapped to a
    space (they are only trimmed at the ends). Witness: "a\vb" vs "a b". (`toLinkRef_ws` is the true
    version.) -/
theorem toLinkRef_ws_vt_refuted :
    toLinkReference [97, 11, 98] ≠ toLinkReference [97, 32, 98] ∧
    toLinkReference [97, 12, 98] ≠ toLinkReference [97, 32, 98] := by decide +kernel

/-- Letter case 1: an upper-case ASCII letter anywhere in a label can be replaced by the lower-case one. -/
theorem toLinkRef_case_ascii (a b : Bytes) (c : UInt8) (hc : (65 ≤ c && c ≤ 90) = true) :
    toLinkReference (a ++ [c] ++ b) = toLinkReference (a ++ [c + 32] ++ b) :=
  Proof.toLinkReference_case_ascii a b c hc

/-- Letter case 2 (Unicode): a rune that has an entry `r ↦ f` in the regenerated folding table
    (`unicodeCaseFoldings`) can be replaced, anywhere in a label, by the UTF-8 encoding of `f`. -/
theorem toLinkRef_case (a b : Bytes) (r : Nat) (f : List Nat) (hf : lookupFold r = some f) :
    toLinkReference (a ++ encodeRune r ++ b) = toLinkReference (a ++ f.flatMap encodeRune ++ b) :=
  Proof.toLinkReference_case_fold a b r f hf

/-- non-vacuity + tests: ẞ (U+1E9E) folds to "ss", Ä to ä, K (Kelvin sign U+212A) to k -/
example : lookupFold 0x1E9E = some [115, 115] ∧ lookupFold 0xC4 = some [0xE4] ∧ lookupFold 0x212A = some [107] := by
  decide +kernel
example : toLinkReference (strBytes "Straẞe") = strBytes "strasse" ∧
    toLinkReference (strBytes "ÄK") = strBytes "äk" := by decide +kernel

/-! ### BytesFilter over the slice-with-capacity heap

  `Filter.run ops` executes a program of NewBytesFilter / NewBytesFilterString / Add / Extend / ExtendString
  on the heap model (Go slices with capacity: `append` writes in place when `len < cap`).
  `Spec.specRun ops` gives every filter its plain key list (keys passed at creation, keys added later,
  keys inherited from the parent at Extend time). -/

/-- A BytesFilter behaves as a set: after ANY program, `Contains(b)` on filter `f` is true exactly when `b`
    is in the key list the spec assigns to `f`. (The prefix bit masks are only a prefilter: the invariant
    keeps, for every key of the set, each of its first min(len, threshold) position bits set, so a member is
    never rejected; membership itself is decided by the scan of the hash slot.) -/
theorem filter_is_set (ops : List Filter.Op) (f : Nat) (b : Bytes) :
    Filter.contains (Filter.run ops) f b = true ↔ b ∈ (specRun ops).getD f [] :=
  Proof.Filter.filter_is_set ops f b

/-- Isolation, general form: what an existing filter `g` contains is changed only by `Add`s to `g` itself.
    Whatever else happens afterwards — Adds to its parent, to filters extended from it, to its siblings,
    further Extends, new filters — `Contains` on `g` answers as before. -/
theorem extend_isolated (ops more : List Filter.Op) (g : Nat) (hg : g < (specRun ops).length)
    (hop : ∀ op ∈ more, ∀ b, op ≠ .add g b) (b : Bytes) :
    Filter.contains (Filter.run (ops ++ more)) g b = Filter.contains (Filter.run ops) g b :=
  Proof.Filter.filter_isolated ops more g hg hop b

/-- Isolation, the Extend case spelled out: the filter created by `Extend f bs` (its id is the number of
    filters before) contains exactly the parent's keys at that moment plus `bs`, for ever, as long as nobody
    Adds to the new filter itself — later Adds to the parent or to siblings do not show through. -/
theorem extend_snapshot (ops more : List Filter.Op) (f : Nat) (bs : List Bytes) (hf : f < (specRun ops).length)
    (hop : ∀ op ∈ more, ∀ b, op ≠ .add (specRun ops).length b) (b : Bytes) :
    Filter.contains (Filter.run (ops ++ [.extend f bs] ++ more)) (specRun ops).length b = true ↔
      b ∈ (specRun ops).getD f [] ++ bs :=
  Proof.Filter.extend_snapshot ops more f bs hf hop b

/-- non-vacuity + test (the scenario of the repaired defect): three keys in one hash bucket bring the
    parent's slot to len 3 / cap 4; two children are extended from it and each gets one more key of the same
    bucket; neither sees the other's key, the parent sees neither. -/
example :
    let k := fun (c : UInt8) => ([97, c] : Bytes)
    let z : Bytes := [98, 32]
    let ops : List Filter.Op := [.new [k 1, k 65, k 129], .extend 0 [], .extend 0 [], .add 1 (k 193), .add 2 z]
    (Filter.bytesHash (k 1) % 64 = Filter.bytesHash (k 65) % 64 ∧ Filter.bytesHash (k 1) % 64 = Filter.bytesHash (k 129) % 64 ∧
      Filter.bytesHash (k 1) % 64 = Filter.bytesHash (k 193) % 64 ∧ Filter.bytesHash (k 1) % 64 = Filter.bytesHash z % 64) ∧
    specRun ops = [[k 1, k 65, k 129], [k 1, k 65, k 129, k 193], [k 1, k 65, k 129, z]] ∧
    Filter.contains (Filter.run ops) 1 (k 193) = true ∧ Filter.contains (Filter.run ops) 2 (k 193) = false ∧
    Filter.contains (Filter.run ops) 0 (k 193) = false ∧ Filter.contains (Filter.run ops) 2 z = true ∧
    Filter.contains (Filter.run ops) 1 z = false ∧ Filter.contains (Filter.run ops) 0 z = false := by decide +kernel

/-- the hypotheses of `extend_isolated` are satisfiable: after `[new, extend 0]`, Adds to the parent (filter
    0) are not Adds to the child (filter 1) -/
example : (1 : Nat) < (specRun [.new [[1]], .extend 0 []]).length ∧
    ∀ op ∈ ([.add 0 [2]] : List Filter.Op), ∀ b, op ≠ .add 1 b := by
  refine ⟨by decide, ?_⟩
  intro op hop b
  simp only [List.mem_singleton] at hop
  subst hop
  intro h; cases h

/-- Heap-level lemma used above (frame lemma for Go's `append`, including the in-place write when
    `len < cap`): appending `b` to a well-formed slot header touches no filter; the resulting header is
    well-formed and sees the old elements followed by `b`; it lives on the same backing array or on a
    freshly allocated one; and every other well-formed header on a different backing array (or nil) sees
    exactly what it saw before. -/
theorem filter_append_frame (h : Filter.Heap) (s : Filter.Slice) (b : Bytes) (wf : Proof.Filter.slotWF h s) :
    (Filter.appendSlice h s b).1.filts = h.filts ∧
    h.arrs.length ≤ (Filter.appendSlice h s b).1.arrs.length ∧
    Proof.Filter.slotWF (Filter.appendSlice h s b).1 (Filter.appendSlice h s b).2 ∧
    Filter.sliceElems (Filter.appendSlice h s b).1 (Filter.appendSlice h s b).2 = Filter.sliceElems h s ++ [b] ∧
    ((Proof.Filter.arrOf (Filter.appendSlice h s b).2 = Proof.Filter.arrOf s ∧ s ≠ none) ∨
      Proof.Filter.arrOf (Filter.appendSlice h s b).2 = some h.arrs.length) ∧
    ∀ t, Proof.Filter.slotWF h t → Proof.Filter.arrOf t ≠ Proof.Filter.arrOf s ∨ t = none →
      Proof.Filter.slotWF (Filter.appendSlice h s b).1 t ∧
      Filter.sliceElems (Filter.appendSlice h s b).1 t = Filter.sliceElems h t :=
  Proof.Filter.appendSlice_spec h s b wf

/-- non-vacuity + test: a header with len 1 on an array of cap 2 is well-formed; the append is in place -/
example : Proof.Filter.slotWF ⟨[⟨2, [[1]]⟩], []⟩ (some (0, 1)) ∧
    (Filter.appendSlice ⟨[⟨2, [[1]]⟩], []⟩ (some (0, 1)) [2]).2 = some (0, 2) := by
  refine ⟨⟨by decide, by decide⟩, by decide⟩

/-- Heap-level lemma used above (Extend's slot copy, as repaired): copying the parent's slots allocates one
    new array per slot; the j-th new header lives on array `old length + j` (hence on no array that existed
    before, and the new headers are pairwise on different arrays), is well-formed and sees exactly what the
    parent's j-th slot saw; old arrays and all filters are unchanged. -/
theorem filter_extend_copy (h : Filter.Heap) (slots : List Filter.Slice)
    (hwf : ∀ s ∈ slots, Proof.Filter.slotWF h s) :
    ∃ X news, (Filter.copySlots h slots).1.arrs = h.arrs ++ X ∧ (Filter.copySlots h slots).1.filts = h.filts ∧
      (Filter.copySlots h slots).2 = news ∧ news.length = slots.length ∧ X.length = slots.length ∧
      ∀ j, j < slots.length →
        Proof.Filter.arrOf (news.getD j none) = some (h.arrs.length + j) ∧
        Proof.Filter.slotWF (Filter.copySlots h slots).1 (news.getD j none) ∧
        Filter.sliceElems (Filter.copySlots h slots).1 (news.getD j none) =
          Filter.sliceElems h (slots.getD j none) := by
  obtain ⟨X, news, e1, e2, e3, e4, e5, e6⟩ := Proof.Filter.copyGo_spec slots h [] hwf
  exact ⟨X, news, e1, e2, by rw [List.nil_append] at e3; exact e3, e4, e5, e6⟩

end GM.Props.C19
