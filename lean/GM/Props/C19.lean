/-
  Property C19 — escaping and normalisation utilities obey their algebraic laws.
  Only property theorems and their non-vacuity examples live here; helper lemmas are in GM/Proof/.
-/
import GM.Model.Util
import GM.Spec.Html
import GM.Proof.Util

namespace GM.Props.C19
open GM GM.Spec

/-- EscapeHTML output contains no raw `<`, `>`, `"`. -/
theorem escapeHTML_noRaw (v : Bytes) : noRawSpecial (escapeHTML v) = true := Proof.escapeHTML_noRaw v

/-- Every `&` in EscapeHTML output begins one of the four references (no bare `&`). -/
theorem escapeHTML_amps (v : Bytes) : ampsOK4 (escapeHTML v) = true := Proof.escapeHTML_amps v

/-- EscapeHTML output decodes back to the input. -/
theorem decode_escapeHTML (v : Bytes) : htmlDecode4 (escapeHTML v) = v := Proof.decode_escapeHTML v

end GM.Props.C19
