/-
  Property C07 — a configured instance is safe for concurrent use.
  Proved here: the lazy-initialisation protocol (GM.Model.Once: N callers racing on once.Do, then reading the
  built table) has no conflicting accesses in ANY reachable state of ANY schedule, and every call returns
  what it returns when run alone; plus the kernel-checked obligations over the regenerated write facts that
  make the protocol model the right abstraction of the code (shared state is written only under a Once,
  before first use, or at package initialisation).
  Not provable in this model (searched with the race detector by the harness): the Go memory model, races
  inside code the syntactic fact extractor cannot see.
-/
import GM.Proof.Once
import GM.Spec.StateFacts

namespace GM.Props.C07
open GM GM.Once

/-- In every state reachable from the initial one under every schedule, no two callers are about to access
    the shared table with one of them writing (no data race on the lazily built tables). -/
theorem no_conflicting_access (p : Params) (x : Nat → Nat) (n : Nat) (sched : List Nat) :
    ¬ conflict p (run p x (initial p n) sched) :=
  inv_no_conflict p _ (inv_run p x _ sched (inv_initial p n))

/-- Under every schedule, every call that has returned computed its result from the fully built table,
    i.e. returned exactly what a call running alone returns. -/
theorem result_eq_sequential (p : Params) (x : Nat → Nat) (n : Nat) (sched : List Nat) (i r : Nat)
    (h : (run p x (initial p n) sched).pcs[i]? = some (.done r)) : r = p.compute (built p) (x i) :=
  resultsOK_run p x _ sched (inv_initial p n) (resultsOK_initial p x n) i r h

/-- The table is written completely before anybody reads it: once `finished`, it is the built table. -/
theorem table_complete_when_finished (p : Params) (x : Nat → Nat) (n : Nat) (sched : List Nat)
    (h : (run p x (initial p n) sched).once = .finished) : (run p x (initial p n) sched).table = built p :=
  ((inv_run p x _ sched (inv_initial p n)).fn h).2

/-- non-vacuity (a test, not a proof): three callers, a two-cell table, a schedule in which the first use is
    contended — caller 1 blocks while caller 0 initialises — and everybody finishes with the sequential result. -/
example :
    let p : Params := { cfg := [7, 9], nReads := 1, compute := fun t x => (t.filterMap id).sum + x }
    let s := run p (fun i => i) (initial p 3) [0, 1, 0, 2, 0, 0, 1, 1, 1, 1, 0, 0, 0, 2, 2, 2, 2]
    s.pcs = [.done 16, .done 17, .done 18] := by decide

/-- Regenerated fact: every write to long-lived goldmark state sits in a Once closure, a configuration
    method or a package initialiser. -/
theorem facts_shared_writes_guarded : Spec.sharedWritesGuarded = true := by decide +kernel

/-- Regenerated fact: the three lazily built tables (parser, renderer, entity map) are built under a Once. -/
theorem facts_once_sites_present : Spec.onceSitesPresent = true := by decide +kernel

/-- Regenerated fact: no method on the Parse/Render path writes through a long-lived receiver outside a Once. -/
theorem facts_no_path_writes : Spec.noPathWrites = true := by decide +kernel

/-- Regenerated fact: the only sync / sync-atomic objects in goldmark's long-lived structs and package variables
    are the three `sync.Once` guards (no cache behind a mutex, `sync.Map`, `sync.Pool` or atomic pointer). -/
theorem facts_only_once_guards : Spec.onlyOnceGuards = true := by decide +kernel

end GM.Props.C07
