/-
  Property C09 — closed blocks render independently; reference definitions work from anywhere.
  Proved here (second half of the property): the reference map is first-wins over normalised labels; moving a
  block of definitions whose normalised labels are defined nowhere else — from the top of the document to its
  end or anywhere — leaves every lookup, hence every resolved use, unchanged; labels that normalise equally
  resolve equally (the normalisation laws themselves are C19's); and the kernel-checked obligations over facts
  REGENERATED from /repo: Parse finishes the block phase (parseBlocks) before the inline phase (parseBlock),
  the map is written only by the link-reference-definition code and read only by the link parser.
  First half (independence of neighbouring closed blocks): stated on the executable model of the whole block
  phase (GM.Model.Blocks, tied to the real parser by the `blocks` / `blockindep` correspondences) as
  `IndependentBlocks` — a `def … : Prop`, NOT proved in general; it is EVALUATED by the driver on every triple the
  `blockindep` component generates (GM.Blocks.indepCheck) and, in the same run, on the real parser's trees and on
  the HTML of goldmark.Convert. PROVED here, for every state of the model (reachable or not), are the two
  mechanisms the property names: "the open-block stack is fully unwound when a non-lazy line at column 0 opens a
  new top-level block" (`closeBlocks_removes_exactly`, `stack_unwound`, `stack_empty_at_end_of_document`, `heading_line_unwinds_stack`,
  `blank_line_closes_heading`, `heading_and_blank_line_reset`, `heading_and_blank_line_reset_top`) and "context keys used as cross-line flags are
  reset when their block closes" (`fence_key_reset_on_close`, `setext_key_reset_on_close`,
  `close_keeps_list_flags`), plus which open blocks a heading line closes (`first_block_closes_*`).
-/
import GM.Proof.Refs
import GM.Gen.PhaseFacts
import GM.Props.Convert
import GM.Proof.IndepReset
import GM.Proof.IndepEnd
import GM.Props.C09Shift
import GM.Props.C09Prefix
import GM.Props.C09E2E
import GM.Props.C08E2ETotal

namespace GM.Props.C09
open GM GM.Refs

/-- The map built from the definitions in document order answers every key with the FIRST definition whose
    normalised label equals it. -/
theorem refs_first_wins {α : Type} (ds : List (Bytes × α)) (k : Bytes) :
    (build ds).lookup k = (normList ds).lookup k := build_lookup ds k

/-- Moving a block `A` of definitions across the rest `B` does not change any lookup, provided no
    normalised label of `A` is also defined in `B`. -/
theorem refs_move_invariant {α : Type} (A B : List (Bytes × α)) (k : Bytes)
    (h : ∀ a ∈ A, ∀ b ∈ B, toLinkReference a.1 ≠ toLinkReference b.1) :
    (build (A ++ B)).lookup k = (build (B ++ A)).lookup k := by
  rw [build_lookup, build_lookup]
  simp only [normList, List.map_append]
  apply lookup_comm_of_disjoint
  intro x hx y hy
  obtain ⟨a, ha, rfl⟩ := List.mem_map.mp hx
  obtain ⟨b, hb, rfl⟩ := List.mem_map.mp hy
  exact h a ha b hb

/-- …so every use in the document resolves to the same reference wherever that block of definitions stands. -/
theorem resolve_position_independent {α : Type} (A B : List (Bytes × α)) (uses : List Bytes)
    (h : ∀ a ∈ A, ∀ b ∈ B, toLinkReference a.1 ≠ toLinkReference b.1) :
    resolveUses (A ++ B) uses = resolveUses (B ++ A) uses := by
  unfold resolveUses lookupRef
  apply List.map_congr_left
  intro u _
  exact refs_move_invariant A B _ h

/-- Two spellings of a label that normalise equally (case / whitespace variants, see C19) resolve equally. -/
theorem lookup_label_variant {α : Type} (m : List (Bytes × α)) (l1 l2 : Bytes)
    (h : toLinkReference l1 = toLinkReference l2) : lookupRef m l1 = lookupRef m l2 := by
  unfold lookupRef; rw [h]

/-- Regenerated fact: in (*parser).Parse the block phase is complete before the inline phase starts, and AST
    transformers run after both. -/
theorem facts_two_phase :
    Gen.parsePhaseOrder = ["parseBlocks", "walkBlock", "parseBlock", "astTransform"] := by decide

/-- Regenerated fact: the reference map is written only by parseLinkReferenceDefinition (block phase, via the
    paragraph transformer) and read only by the link parser (inline phase); parseBlocks/parseBlock are called
    from Parse alone. -/
theorem facts_ref_sites :
    Gen.refAndPhaseSites.all (fun s =>
      (s.2.2 != "AddReference" || (s.1 == "link_ref.go" && s.2.1 == "parseLinkReferenceDefinition")) &&
      (s.2.2 != "Reference" || s.1 == "link.go") &&
      ((s.2.2 != "parseBlocks" && s.2.2 != "parseBlock") || (s.1 == "parser.go" && s.2.1 == "Parse"))) = true := by
  decide

/-- non-vacuity: the hypothesis of `refs_move_invariant` is met by non-empty blocks (labels `a` and `b`) -/
example : ∃ (A B : List (Bytes × Nat)), A ≠ [] ∧ B ≠ [] ∧
    ∀ a ∈ A, ∀ b ∈ B, toLinkReference a.1 ≠ toLinkReference b.1 := by
  refine ⟨[([97], 1)], [([98], 2)], by simp, by simp, ?_⟩
  intro a ha b hb
  simp only [List.mem_singleton] at ha hb
  subst ha; subst hb
  simp [toLinkReference, trimLeftSpace, trimRightSpace, isTrimSpace, caseFold, replaceSpaces, hasInnerRun]

/-! ### the map the composed model really builds (package `convert`: GM.Model.LinkRef = parser/link_ref.go) -/

/-- whatever a paragraph defines, every key the map already has keeps its destination and title -/
theorem first_definition_wins : type_of% @GM.Props.Convert.first_definition_wins := @GM.Props.Convert.first_definition_wins
/-- the map a paragraph leaves is `ds.foldl GM.Refs.addRef refs` for the list `ds` of its definitions: the theorems above
    (`refs_first_wins`, `refs_move_invariant`, `resolve_position_independent`) speak about the map the model of Transform builds -/
theorem scan_builds_map_by_add_reference : type_of% @GM.Props.Convert.scan_builds_map_by_add_reference :=
  @GM.Props.Convert.scan_builds_map_by_add_reference
theorem duplicate_definition_ignored : type_of% @GM.Props.Convert.duplicate_definition_ignored := @GM.Props.Convert.duplicate_definition_ignored
theorem new_definition_resolves : type_of% @GM.Props.Convert.new_definition_resolves := @GM.Props.Convert.new_definition_resolves
/-- what Transform keeps of a paragraph is its lines without an initial segment (unconditional, of the model with its
    contract monitor; the arithmetic lemma for adjacent ranges is `transformer_removes_front_partial`) -/
theorem transformer_removes_front : type_of% @GM.Props.Convert.transformer_removes_front := @GM.Props.Convert.transformer_removes_front
theorem transformer_removes_front_partial : type_of% @GM.Props.Convert.transformer_removes_front_partial :=
  @GM.Props.Convert.transformer_removes_front_partial
theorem title_needs_blank_rest_of_line : type_of% @GM.Props.Convert.title_needs_blank_rest_of_line :=
  @GM.Props.Convert.title_needs_blank_rest_of_line
theorem scan_stops_at_first_non_definition : type_of% @GM.Props.Convert.scan_stops_at_first_non_definition :=
  @GM.Props.Convert.scan_stops_at_first_non_definition
/-! ## First half: closed blocks are parsed independently of their neighbours -/

section independence
open GM.Text GM.Blocks

/-- **C09, first half, on block trees — the full statement (not proved in general).** For documents `a`, `b` and
    a heading text `h`: whenever the side conditions hold (`indepPair` answers `some`: no `[` / CR in `a`, `b`; `h`
    is one line; `# h` is a level-1 heading; the deepest last block of `a` is not a code / fenced code / HTML block)
    the block tree of `a`, blank line, `# h`, blank line, `b` is the tree of `a`, then that heading, then the tree of
    `b` with all segments moved (dumps compared, `HasBlankPreviousLines` where the block phase reads it).

    What is established: (1) EVALUATED by the model driver (`blocks indep`) on every triple of the `blockindep`
    component — all pairs of short strings over block alphabets, all short strings against 64 probe documents both
    ways round, corpus pairs — with the same answer computed on the real parser's trees, 0 failures;
    (2) PROVED below, for all states: mechanism (ii) "reset" — after the heading line and the blank line no block is
    open, whatever was open before (`heading_and_blank_line_reset`), and every `Close` writes its context key back.
    What is MISSING for a proof of this statement: (i) prefix determinism (the state after the lines of `a` does not
    depend on what follows), (iii) shift invariance (the line loop started at offset `k` builds the tree of `b`
    moved by `k`), that reachable states satisfy the hypotheses of (ii) (open blocks are valid nodes, a list's last
    item has a positive content offset), that the stale `emptyListItemWithBlankLines` flag is never read before a
    list parser rewrites it, and the tree-level bookkeeping (Document children) of (ii). -/
def IndependentBlocks (a h b : Bytes) : Prop :=
  ∀ e g, indepPair a h b = some (e, g) → e = g

/-- **The open-block stack loses exactly the blocks it is asked to close** (parser.go:900-918): from ANY state,
    `closeBlocks(from, to)` — if it does not panic — leaves `openedBlocks[:to] ++ openedBlocks[from+1:]`; no `Close`
    function of the ten block parsers touches the stack. -/
theorem closeBlocks_removes_exactly (frm to : Int) (s s' : St) (h : closeBlocks frm to s = .ok ((), s')) :
    0 ≤ to ∧ s'.pc.opened = s.pc.opened.take to.toNat ++ s.pc.opened.drop (frm + 1).toNat :=
  closeBlocks_opened frm to s s' h

/-- **The open-block stack is fully unwound**: `closeBlocks(len-1, 0)` — what parseBlocks does at the end of the
    source and when a line continues none of the open blocks — leaves no block open, from any state. -/
theorem stack_unwound (s s' : St) (h : closeBlocks ((s.pc.opened.length : Int) - 1) 0 s = .ok ((), s')) :
    s'.pc.opened = [] :=
  closeBlocks_unwinds s s' h

/-- **At the end of every document the open-block stack is empty**: for EVERY source, if the block phase
    (`parser.parseBlocks` under the Document) ends normally, no block is open in its final state — whatever the
    document ends in (an open list, a lazy paragraph line, an unclosed fence, trailing blank lines). A statement
    about the reachable states of whole runs, all inputs; proved through `openBlocks` (the stack changes only when
    it answers `newBlocksOpened`), the line loop and the outer loop. -/
theorem stack_empty_at_end_of_document (src : Bytes) (s : St) (h : run src = .ok s) : s.pc.opened = [] :=
  run_opened_empty src s h

/-- **fencedCodeBlockInfoKey is reset when its block closes** (fcode_block.go:29, :109-114): after `Close` of the
    fenced code block that set the key, the key is nil, from any state. -/
theorem fence_key_reset_on_close (node : Nat) (s s' : St) (h : fencedClose node s = .ok ((), s'))
    (hk : s.pc.fence.map (·.node) = some node) : s'.pc.fence = none :=
  fencedClose_resets node s s' h hk

/-- **temporaryParagraphKey is reset when its block closes** (setext_headings.go:9, :72, :85): after `Close` of a
    setext heading the key is nil, from any state. -/
theorem setext_key_reset_on_close (node : Nat) (s s' : St) (h : setextClose node s = .ok ((), s')) :
    s'.pc.tmpPara = none :=
  setextClose_resets node s s' h

/-- **No `Close` writes the list parser's flags** `skipListParser` / `emptyListItemWithBlankLines` (list.go:19-21):
    closing any number of blocks leaves both as they were — they are written by the list / list item parsers'
    `Open` and `Continue` only. -/
theorem close_keeps_list_flags (frm to : Int) (s s' : St) (h : closeBlocks frm to s = .ok ((), s')) :
    s'.pc.skipList = s.pc.skipList ∧ s'.pc.emptyItemBlank = s.pc.emptyItemBlank :=
  (closeBlocks_sameListKeys frm to).h s () s' h

/-- **A heading line at column 0 unwinds the whole stack** (parser.go:1081-1123, one pass of the line loop). The
    reader stands on the line `# …` (`AtLine`); at least one block is open; the open blocks are valid node ids; the
    first open block is a paragraph or does not continue on this line (`ClosesAt`, see `first_block_closes_*`).
    Then the pass, if it ends normally, leaves EXACTLY ONE open block — the new heading, a fresh node — however
    many blocks of whatever kind were open; `skipListParser` and `emptyListItemWithBlankLines` are untouched and
    the reader has not moved. From any state. -/
theorem heading_line_unwinds_stack (rest : Bytes) (s : St) (be : Block) (obs : List Block) (stats : List LineStat)
    (hl : AtLine (35 :: 32 :: rest) s.r) (hop : s.pc.opened = be :: obs)
    (hids : ∀ b ∈ be :: obs, b.node < s.nodes.length)
    (hfirst : (s.nodes.getD be.node default).kind = .paragraph ∨ ClosesAt (35 :: 32 :: rest) be s)
    (out : LineOutcome) (stats' : List LineStat) (s' : St)
    (h : lineLoop 0 (be :: obs) (obs.length : Int) (be :: obs) 0 stats s = .ok ((out, stats'), s')) :
    out = .next ∧ s'.pc.opened = [⟨s.nodes.length, .atx⟩] ∧ s.nodes.length < s'.nodes.length ∧
      s'.pc.skipList = s.pc.skipList ∧ s'.pc.emptyItemBlank = s.pc.emptyItemBlank ∧ Cur s s' :=
  headingLine_unwinds rest s be obs stats hl hop hids hfirst out stats' s' h

/-- **The blank line after the heading closes it**: with the heading as the only open block, the pass over the line
    `\n` leaves no block open; flags and reader position as before. From any state. -/
theorem blank_line_closes_heading (s : St) (hd : Nat) (stats : List LineStat)
    (hl : AtLine [10] s.r) (hop : s.pc.opened = [⟨hd, .atx⟩])
    (out : LineOutcome) (stats' : List LineStat) (s' : St)
    (h : lineLoop 0 [⟨hd, .atx⟩] 0 [⟨hd, .atx⟩] 0 stats s = .ok ((out, stats'), s')) :
    out = .next ∧ s'.pc.opened = [] ∧ s.nodes.length ≤ s'.nodes.length ∧
      s'.pc.skipList = s.pc.skipList ∧ s'.pc.emptyItemBlank = s.pc.emptyItemBlank ∧ Cur s s' :=
  blankLine_closes_heading s hd stats hl hop out stats' s' h

/-- **Reset** — mechanism (ii) at the level of parseBlocks' loop over lines (parser.go:1074-1126). The reader stands
    on a non-indented ATX heading line `# …` followed by the blank line `\n`; some blocks are open (valid node
    ids), the first of them is a paragraph or does not continue on the heading line. Then the loop, if it ends
    normally, returns to the outer loop of parseBlocks after exactly these two lines with NO BLOCK OPEN, with
    `skipListParser` / `emptyListItemWithBlankLines` as they were, the node store grown by at least the heading,
    and the reader at the line after the blank line: what the outer loop sees next is what it sees at the start of
    a document, up to the contents of the node store, the reader offset and the two flags. From any state. -/
theorem heading_and_blank_line_reset (rest : Bytes) (s : St) (be : Block) (obs : List Block) (stats : List LineStat)
    (fuel : Nat) (hl : AtLine (35 :: 32 :: rest) s.r) (hnext : AtLine [10] s.r.advanceLine)
    (hop : s.pc.opened = be :: obs) (hids : ∀ b ∈ be :: obs, b.node < s.nodes.length)
    (hfirst : (s.nodes.getD be.node default).kind = .paragraph ∨ ClosesAt (35 :: 32 :: rest) be s)
    (ret : Bool) (stats' : List LineStat) (s' : St)
    (h : linesLoop 0 (fuel + 3) stats s = .ok ((ret, stats'), s')) :
    ret = false ∧ s'.pc.opened = [] ∧ s.nodes.length < s'.nodes.length ∧
      s'.pc.skipList = s.pc.skipList ∧ s'.pc.emptyItemBlank = s.pc.emptyItemBlank ∧
      s'.r.pos = s.r.advanceLine.advanceLine.pos ∧ s'.r.source = s.r.source :=
  heading_blank_resets rest s be obs stats fuel hl hnext hop hids hfirst ret stats' s' h

/-- **Reset when nothing is open** — the other path through parseBlocks (parser.go:1055-1127), taken when `a`
    left no list open: the outer loop stands on a non-indented ATX heading line `# …` followed by the blank line
    `\\n`, no block is open. Then, if the run ends normally, the rest of the run IS the outer loop started again
    after exactly these two lines, in a state with no block open, `skipListParser` / `emptyListItemWithBlankLines`
    as they were, the node store grown by the heading, the reader at the line after the blank line. From any
    state. -/
theorem heading_and_blank_line_reset_top (rest : Bytes) (s : St) (stats : List LineStat) (fuel : Nat)
    (hl : AtLine (35 :: 32 :: rest) s.r) (hnext : AtLine [10] s.r.advanceLine)
    (hop : s.pc.opened = []) (s' : St) (h : blocksLoop 0 (fuel + 3) stats s = .ok ((), s')) :
    ∃ stats'' s'', s''.pc.opened = [] ∧ s.nodes.length < s''.nodes.length ∧
      s''.pc.skipList = s.pc.skipList ∧ s''.pc.emptyItemBlank = s.pc.emptyItemBlank ∧
      s''.r.pos = s.r.advanceLine.advanceLine.pos ∧ s''.r.source = s.r.source ∧
      blocksLoop 0 (fuel + 2) stats'' s'' = .ok ((), s') :=
  heading_blank_resets_top rest s stats fuel hl hnext hop s' h

/-- A block quote does not continue on a line that starts with `#` (blockquote.go:20-40, :53-58). -/
theorem first_block_closes_blockquote (rest : Bytes) (be : Block) (s : St) (hbp : be.bp = .blockquote) :
    ClosesAt (35 :: rest) be s :=
  closesAt_blockquote rest be s hbp

/-- A list whose last item is a list item with a positive content offset does not continue on a line that starts
    with `#` in column 0 (list.go:165-245): the line is neither indented to the item's content nor a list item. -/
theorem first_block_closes_list (rest : Bytes) (be : Block) (s : St) (hbp : be.bp = .list)
    (hli : LastItemIndented s.nodes be.node) : ClosesAt (35 :: rest) be s :=
  closesAt_list rest be s hbp hli

/-- An indented code block does not continue on a line that starts with `#` (code_block.go:46-71). -/
theorem first_block_closes_code (rest : Bytes) (be : Block) (s : St) (hbp : be.bp = .code) :
    ClosesAt (35 :: rest) be s :=
  closesAt_code rest be s hbp

/-- ATX headings, thematic breaks and setext headings never continue, on any line. -/
theorem first_block_closes_one_line (line : Bytes) (be : Block) (s : St)
    (hbp : be.bp = .atx ∨ be.bp = .thematic ∨ be.bp = .setext) : ClosesAt line be s :=
  closesAt_oneLine line be s hbp

/-! ### tests and non-vacuity (labelled: evaluated on literals, not theorems over all inputs) -/

/-- test: the statement applies to A = `- a`, h = `h`, B = `> b` and holds there -/
example : (indepPair [45, 32, 97] [104] [62, 32, 98]).map (fun p => p.1 == p.2) = some true := by decide +kernel

/-- test: it applies and holds for an A that ends in an empty list item followed by a blank line (the case that
    leaves `emptyListItemWithBlankLines` set) and a B that is a list -/
example : (indepPair [45, 10, 10] [104] [45, 32, 98, 10]).map (fun p => p.1 == p.2) = some true := by decide +kernel

/-- test: an A that ends inside an open fenced code block is outside the statement -/
example : indepPair [96, 96, 96] [104] [98] = none := by decide +kernel

/-- a state on the heading line `# h` (followed by a blank line) with an open list and list item -/
def exampleState : St :=
  { r := Reader.new [35, 32, 104, 10, 10],
    nodes := [{ kind := .document, children := [1] },
              { kind := .list, parent := some 0, children := [2], marker := 45 },
              { kind := .listItem, parent := some 1, offset := 2 }],
    pc := { opened := [⟨1, .list⟩, ⟨2, .listItem⟩] } }

/-- non-vacuity of `heading_and_blank_line_reset`: every hypothesis holds of `exampleState` … -/
example : AtLine [35, 32, 104, 10] exampleState.r := ⟨by decide, by decide, by rfl, .inl rfl⟩
example : AtLine [10] exampleState.r.advanceLine := ⟨by decide, by decide, by rfl, .inl rfl⟩
example : ∀ b ∈ exampleState.pc.opened, b.node < exampleState.nodes.length := by decide
example : ClosesAt [35, 32, 104, 10] ⟨1, .list⟩ exampleState :=
  first_block_closes_list _ _ _ rfl ⟨2, by decide, by decide, by decide⟩

/-- … and the loop does end normally there (so the conclusion is about a real run): no block open afterwards -/
example : (linesLoop 0 3 [] exampleState).toOption.map (fun r => (r.1.1, r.2.pc.opened)) = some (false, []) := by
  decide +kernel

/-- non-vacuity of `stack_empty_at_end_of_document`: runs that end normally, e.g. on a document that ends inside an
    open list item and on one that ends inside an unclosed fence -/
example : (run [45, 32, 97]).toOption.isSome = true ∧ (run [96, 96, 96, 10, 120]).toOption.isSome = true := by
  decide +kernel

/-- non-vacuity of `stack_unwound` / `closeBlocks_removes_exactly`: `closeBlocks(1, 0)` on the two open blocks of
    `exampleState` ends normally -/
example : (closeBlocks ((exampleState.pc.opened.length : Int) - 1) 0 exampleState).toOption.map (fun r => r.2.pc.opened)
    = some [] := by decide +kernel

/-- non-vacuity of `heading_and_blank_line_reset_top`: the initial state of the document `# h\n\n` has no block open,
    stands on the heading line, and its run ends normally -/
example : AtLine [35, 32, 104, 10] (initSt [35, 32, 104, 10, 10]).r ∧ AtLine [10] (initSt [35, 32, 104, 10, 10]).r.advanceLine ∧
    (initSt [35, 32, 104, 10, 10]).pc.opened = [] :=
  ⟨⟨by decide, by decide, by rfl, .inl rfl⟩, ⟨by decide, by decide, by rfl, .inl rfl⟩, rfl⟩
example : (blocksLoop 0 (0 + 3) [] (initSt [35, 32, 104, 10, 10])).toOption.isSome = true := by decide +kernel

/-- non-vacuity of `fence_key_reset_on_close` / `setext_key_reset_on_close`: states in which the key is set and
    `Close` ends normally -/
example : (fencedClose 1 { exampleState with pc := { fence := some ⟨96, 0, 3, 1⟩ } }).toOption.map (fun r => r.2.pc.fence.isNone)
    = some true := by decide +kernel

end independence

/-- (re-export of `GM.Props.C09Shift.shift_invariance_list_free`) **Shift invariance, all block parsers but the list parsers** (C09 first half, step (iii); partial only in that the
    two list parsers are not covered).

    Let `p` (= `F.p`) be empty or end with a blank line, let `b` be ANY byte string that contains none of `- * +` and no
    digit. Let run B stand in the outer loop of parseBlocks at offset `|p|` of `p ++ b` (`Start`): reader = the fresh reader
    of `b` moved by `|p|` bytes / `dl` lines, no open block, `temporaryParagraphKey`, `fencedCodeBlockInfoKey`,
    `skipListParserKey` unset, store = Document (children `kids0`) + `c` nodes, blank-line statistics all from lines `< dl`
    and (if any) saying that line `dl - 1` is blank. If the rest of run B ends normally in `sB'` (it does:
    `GM.Props.Blocks.no_panic` for whole runs), then `run b` ends normally in some `sA'` and

      * B's store has `c` more nodes than A's; A's node `j` is B's node `ι j` (`ι 0 = 0`, `ι j = j + c`);
      * B's node `ι j` is A's node `j` with parent / children ids mapped by `ι` and EVERY line segment, info segment and
        closure line moved by `|p|`; kind, level, list fields, HasBlankPreviousLines, HTML type are equal;
      * B's Document has exactly the children `kids0 ++ (A's Document children, mapped)`

    (`shift_invariance_store_shape`, and at tree level `shift_invariance_subtrees` / `shift_invariance_document`), i.e. what
    comes before a closed block does not change how the following text is parsed. -/
theorem shift_invariance_list_free : type_of% @GM.Props.C09Shift.shift_invariance_list_free := @GM.Props.C09Shift.shift_invariance_list_free

/-- (re-export of `GM.Props.C09Shift.shift_invariance_covered_all`) the same for any parser set `Cov` that meets the step contracts, triggers only covered parsers, and whose containers
    answer HasChildren when they continue -/
theorem shift_invariance_covered_all : type_of% @GM.Props.C09Shift.shift_invariance_covered_all := @GM.Props.C09Shift.shift_invariance_covered_all

/-- (re-export of `GM.Props.C09Shift.shift_invariance_store_shape`) what `StoreRel` says about the Document and about every node, spelled out -/
theorem shift_invariance_store_shape : type_of% @GM.Props.C09Shift.shift_invariance_store_shape := @GM.Props.C09Shift.shift_invariance_store_shape

/-- (re-export of `GM.Props.C09Shift.shift_step_open`) **`Open` of every block parser but the two list parsers** from related states on a line: same answer (node id mapped
    by `ι`), related states — the full relation when the answer is nil or HasChildren, the limbo relation (readers related
    after the next AdvanceLine) after a leaf parser consumed its line. -/
theorem shift_step_open : type_of% @GM.Props.C09Shift.shift_step_open := @GM.Props.C09Shift.shift_step_open

/-- (re-export of `GM.Props.C09Shift.shift_step_continue_any_source`) **`Continue` without the assumption that the source ends with a line feed**: same answer; afterwards the full relation,
    or — when the answer is "Continue, no children" — at least the limbo relation (only fencedCodeBlockParser.Continue on a
    last line that is all fence indentation needs this: `Advance(-1)`, fcode_block.go:104). -/
theorem shift_step_continue_any_source : type_of% @GM.Props.C09Shift.shift_step_continue_any_source := @GM.Props.C09Shift.shift_step_continue_any_source

/-- (re-export of `GM.Props.C09Shift.shift_step_close`) **`Close`** of the same parsers (no `Close` looks at the reader, only at its source): related stores and contexts,
    including the tree surgery of setextHeadingParser.Close and the trimming of paragraph / code block lines. -/
theorem shift_step_close : type_of% @GM.Props.C09Shift.shift_step_close := @GM.Props.C09Shift.shift_step_close

/-- (re-export of `GM.Props.C09Shift.shift_driver_open_blocks`) **openBlocks** (parser.go:928-1024) from weakly related states (BlockOffset / BlockIndent need not agree: they are
    written before they are read): same answer, limbo relation; the retry fuels of the two runs are unrelated. -/
theorem shift_driver_open_blocks : type_of% @GM.Props.C09Shift.shift_driver_open_blocks := @GM.Props.C09Shift.shift_driver_open_blocks

/-- (re-export of `GM.Props.C09Shift.shift_driver_blocks_any_source`) see `GM.Props.C09Shift.shift_driver_blocks_any_source` -/
theorem shift_driver_blocks_any_source : type_of% @GM.Props.C09Shift.shift_driver_blocks_any_source := @GM.Props.C09Shift.shift_driver_blocks_any_source

/-- (package shiftsim, round 2) **C09 first half with an empty first part**: for EVERY heading text `h` and EVERY document `b`
    (lists included) the blocks of `"# h\n\n" ++ b` are the heading and the blocks of `b` alone, moved. -/
theorem independent_blocks_empty_a_all : type_of% @GM.Props.C09Shift.independent_blocks_empty_a_all := @GM.Props.C09Shift.independent_blocks_empty_a_all

/-- (package shiftsim, round 2) step (iv), the composition, for every `a`, `h`, `b`: `IndependentBlocks a h b` follows from ONE explicit
    hypothesis about the prefix (`PrefixReached`: the joined run passes through a `Start` state behind `a`, its separator and the heading line,
    and the Document's old children dump like `run a`'s children followed by the moved heading) — steps (i)/(ii), not proved for non-empty `a`. -/
theorem independent_blocks_from_prefix : type_of% @GM.Props.C09Shift.independent_blocks_from_prefix := @GM.Props.C09Shift.independent_blocks_from_prefix

/-- (re-export of `GM.Props.C09Shift.shift_invariance`) **Shift invariance of the block phase, ALL block parsers, EVERY source `b`** (C09 first half, step (iii), complete).
    As `shift_invariance_list_free`, without any restriction on `b`; the frame also relates the flag
    `emptyListItemWithBlankLines` (`F.flag = true`, i.e. `Start` demands that run B's flag is unset, as it is in a fresh
    run and behind a heading + blank line). -/
theorem shift_invariance : type_of% @GM.Props.C09Shift.shift_invariance := @GM.Props.C09Shift.shift_invariance

/-- (re-export of `GM.Props.C09Shift.store_acyclic`) **The store of the block phase is acyclic, for EVERY source**: links point downwards — every child has a larger node id
    than its parent and every parent pointer is smaller than the node's own id (so the children lists describe a forest and
    `treeOf` does not depend on its fuel once the fuel is at least the store's length); the Document has no lines.
    An ingredient of C05(b) ("the AST is a tree") as well. -/
theorem store_acyclic : type_of% @GM.Props.C09Shift.store_acyclic := @GM.Props.C09Shift.store_acyclic

/-- (re-export of `GM.Props.C09Shift.independent_blocks`) the two classes together: `a` empty, or ending with a line feed and free of list / setext / fence triggers -/
theorem independent_blocks : type_of% @GM.Props.C09Shift.independent_blocks := @GM.Props.C09Shift.independent_blocks

/-- (re-export of `GM.Props.C09Shift.independent_blocks_plain_a`) **C09 first half for a non-empty first part**: `IndependentBlocks a h b` for EVERY `h`, EVERY `b` and every `a` that
    ends with a line feed and contains none of the bytes `- * + 0-9 = ` ~` (the other provisos — no `[`, no CR, `a` not
    ending in a raw block — are the statement's own). -/
theorem independent_blocks_plain_a : type_of% @GM.Props.C09Shift.independent_blocks_plain_a := @GM.Props.C09Shift.independent_blocks_plain_a

/-- (re-export of `GM.Props.C09Shift.prefix_reached_plain`) **Prefix determinism + "closing at the end of the source = closing by a blank line"**, as one statement about two runs
    of the block-phase model: let `a` end with a line feed, contain none of the bytes `- * + 0-9 = ` ~` (so no list
    parser, no setext parser, no fenced-code parser is ever triggered; block quotes, paragraphs, ATX headings, `___`,
    indented code, HTML blocks are allowed), and let the tree of `run a` not end in a raw block. Then the run on
    `a ++ "\n" ++ "# h\n" ++ "\n" ++ b` passes through a `Start` state behind the heading's blank line whose old part is
    the final store of `run a` plus the heading (`PrefixReached`). Proved by a simulation of `run a` against the run on the
    LONGER source (GM.Proof.ShiftSimX*: the shift simulation with a suffix instead of a prefix; the two runs agree while
    run A has a line, every reader call being shown to stay in front of the line's final line feed), followed, when run A
    reaches the end of `a`, by the comparison "run A closes every open block" / "run B reads the blank line, on which the
    first open block does not continue (it is not a raw block: tree criterion `endsInRawBlock`, linked to the open stack by
    the invariant `TopLast`: the first open block is the Document's last child), and closes them with the same call". -/
theorem prefix_reached_plain : type_of% @GM.Props.C09Shift.prefix_reached_plain := @GM.Props.C09Shift.prefix_reached_plain

/-- (package shiftsim, round 4) **C09 first half on a positional class**: for every first part `a` that ends with a line feed and in which
    no line starts, after its quote markers and indentation, with a list, setext or fence trigger (digits, dashes, stars, equal signs and
    backticks INSIDE lines are allowed), every heading text `h` and EVERY document `b`: the blocks of `a`, the heading, the blocks of `b`. -/
theorem independent_blocks_positional : type_of% @GM.Props.C09Shift.independent_blocks_positional := @GM.Props.C09Shift.independent_blocks_positional

/-- (package shiftsim, round 4) the same through the executable test `positionalCheck` (proved sound) -/
theorem independent_blocks_checked : type_of% @GM.Props.C09Shift.independent_blocks_checked := @GM.Props.C09Shift.independent_blocks_checked

/-- (package shiftsim, round 4) both classes: `a` empty, or ending with a line feed and positional -/
theorem independent_blocks_wide : type_of% @GM.Props.C09Shift.independent_blocks_wide := @GM.Props.C09Shift.independent_blocks_wide

/-- (package shiftsim, round 4) `PrefixReached` for the positional class -/
theorem prefix_reached_positional : type_of% @GM.Props.C09Shift.prefix_reached_positional := @GM.Props.C09Shift.prefix_reached_positional

/-- (re-export of `GM.Props.C09E2E.renderer_heading_then_rest`) **the renderer on a Document whose first child is a Heading**: the heading, then the other children — a Heading does not look
    at its next sibling (html.go:renderHeading) -/
theorem renderer_heading_then_rest : type_of% @GM.Props.C09E2E.renderer_heading_then_rest := @GM.Props.C09E2E.renderer_heading_then_rest

/-- (re-export of `GM.Props.C09E2E.parse_heading_then_blocks`) **C09 first half at the level of the renderer's tree, empty `A`**: `parseDoc ("\n# h\n\n" ++ b)` is
    Document[the Heading of `parseDoc "# h\n"`, the children of `parseDoc b`] -/
theorem parse_heading_then_blocks : type_of% @GM.Props.C09E2E.parse_heading_then_blocks := @GM.Props.C09E2E.parse_heading_then_blocks

/-- (re-export of `GM.Props.C09E2E.heading_then_blocks_html`) **`heading_then_blocks_html` — C09 first half at HTML level, empty `A`**, given the inline invariant for the heading and for
    the blocks of `b` -/
theorem heading_then_blocks_html : type_of% @GM.Props.C09E2E.heading_then_blocks_html := @GM.Props.C09E2E.heading_then_blocks_html

/-- (re-export of `GM.Props.C09E2E.inline_move_good_lines`) **the inline hypothesis holds for blocks of plain-text lines**, the lines moved into `P ++ src ++ S` -/
theorem inline_move_good_lines : type_of% @GM.Props.C09E2E.inline_move_good_lines := @GM.Props.C09E2E.inline_move_good_lines

/-- (re-export of `GM.Props.C09E2E.heading_then_blocks_html_good_lines`) **without the inline hypothesis: plain-text inline content**, any block structure in `b` -/
theorem heading_then_blocks_html_good_lines : type_of% @GM.Props.C09E2E.heading_then_blocks_html_good_lines := @GM.Props.C09E2E.heading_then_blocks_html_good_lines

/-- (re-export of `GM.Props.C09E2E.heading_then_blocks_html_checked`) **… with decidable hypotheses** (`GM.Props.C08E2E.goodLinesCheck`: run the block phase, test every block with inline content) -/
theorem heading_then_blocks_html_checked : type_of% @GM.Props.C09E2E.heading_then_blocks_html_checked := @GM.Props.C09E2E.heading_then_blocks_html_checked

/-- (re-export of `GM.Props.C08E2ETotal.heading_then_blocks_html_total`) **C09 first half at HTML level, empty `A`, given the inline invariant**: `"# h\n"` and `b` convert, and `"\n# h\n\n" ++ b`
    converts to the concatenation -/
theorem heading_then_blocks_html_total : type_of% @GM.Props.C08E2ETotal.heading_then_blocks_html_total := @GM.Props.C08E2ETotal.heading_then_blocks_html_total

/-- (re-export of `GM.Props.C08E2ETotal.heading_then_blocks_html_good_lines_total`) **no inline hypothesis: plain-text inline content** (`GoodBlocks`) -/
theorem heading_then_blocks_html_good_lines_total : type_of% @GM.Props.C08E2ETotal.heading_then_blocks_html_good_lines_total := @GM.Props.C08E2ETotal.heading_then_blocks_html_good_lines_total

/-- (re-export of `GM.Props.C08E2ETotal.heading_then_blocks_html_checked_total`) **… all hypotheses decidable** -/
theorem heading_then_blocks_html_checked_total : type_of% @GM.Props.C08E2ETotal.heading_then_blocks_html_checked_total := @GM.Props.C08E2ETotal.heading_then_blocks_html_checked_total

end GM.Props.C09
