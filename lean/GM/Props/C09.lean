/-
  Property C09 — closed blocks render independently; reference definitions work from anywhere.
  Proved here (second half of the property): the reference map is first-wins over normalised labels; moving a
  block of definitions whose normalised labels are defined nowhere else — from the top of the document to its
  end or anywhere — leaves every lookup, hence every resolved use, unchanged; labels that normalise equally
  resolve equally (the normalisation laws themselves are C19's); and the kernel-checked obligations over facts
  REGENERATED from /repo: Parse finishes the block phase (parseBlocks) before the inline phase (parseBlock),
  the map is written only by the link-reference-definition code and read only by the link parser.
  Not provable here (first half): independence of neighbouring closed blocks rests on the block driver, which is
  not modelled; it is searched by the `indep` component (A, heading, B triples and moved definitions on the
  real library).
-/
import GM.Proof.Refs
import GM.Gen.PhaseFacts

namespace GM.Props.C09
open GM GM.Refs

/-- The map built from the definitions in document order answers every key with the FIRST definition whose
    normalised label equals it. -/
theorem refs_first_wins {α : Type} (ds : List (Bytes × α)) (k : Bytes) :
    (build ds).lookup k = (normList ds).lookup k := build_lookup ds k

/-- Moving a block `A` of definitions across the rest `B` does not change any lookup, provided no
    normalised label of `A` is also defined in `B`. -/
theorem refs_move_invariant {α : Type} (A B : List (Bytes × α)) (k : Bytes)
    (h : ∀ a ∈ A, ∀ b ∈ B, toLinkReference a.1 ≠ toLinkReference b.1) :
    (build (A ++ B)).lookup k = (build (B ++ A)).lookup k := by
  rw [build_lookup, build_lookup]
  simp only [normList, List.map_append]
  apply lookup_comm_of_disjoint
  intro x hx y hy
  obtain ⟨a, ha, rfl⟩ := List.mem_map.mp hx
  obtain ⟨b, hb, rfl⟩ := List.mem_map.mp hy
  exact h a ha b hb

/-- …so every use in the document resolves to the same reference wherever that block of definitions stands. -/
theorem resolve_position_independent {α : Type} (A B : List (Bytes × α)) (uses : List Bytes)
    (h : ∀ a ∈ A, ∀ b ∈ B, toLinkReference a.1 ≠ toLinkReference b.1) :
    resolveUses (A ++ B) uses = resolveUses (B ++ A) uses := by
  unfold resolveUses lookupRef
  apply List.map_congr_left
  intro u _
  exact refs_move_invariant A B _ h

/-- Two spellings of a label that normalise equally (case / whitespace variants, see C19) resolve equally. -/
theorem lookup_label_variant {α : Type} (m : List (Bytes × α)) (l1 l2 : Bytes)
    (h : toLinkReference l1 = toLinkReference l2) : lookupRef m l1 = lookupRef m l2 := by
  unfold lookupRef; rw [h]

/-- Regenerated fact: in (*parser).Parse the block phase is complete before the inline phase starts, and AST
    transformers run after both. -/
theorem facts_two_phase :
    Gen.parsePhaseOrder = ["parseBlocks", "walkBlock", "parseBlock", "astTransform"] := by decide

/-- Regenerated fact: the reference map is written only by parseLinkReferenceDefinition (block phase, via the
    paragraph transformer) and read only by the link parser (inline phase); parseBlocks/parseBlock are called
    from Parse alone. -/
theorem facts_ref_sites :
    Gen.refAndPhaseSites.all (fun s =>
      (s.2.2 != "AddReference" || (s.1 == "link_ref.go" && s.2.1 == "parseLinkReferenceDefinition")) &&
      (s.2.2 != "Reference" || s.1 == "link.go") &&
      ((s.2.2 != "parseBlocks" && s.2.2 != "parseBlock") || (s.1 == "parser.go" && s.2.1 == "Parse"))) = true := by
  decide

/-- non-vacuity: the hypothesis of `refs_move_invariant` is met by non-empty blocks (labels `a` and `b`) -/
example : ∃ (A B : List (Bytes × Nat)), A ≠ [] ∧ B ≠ [] ∧
    ∀ a ∈ A, ∀ b ∈ B, toLinkReference a.1 ≠ toLinkReference b.1 := by
  refine ⟨[([97], 1)], [([98], 2)], by simp, by simp, ?_⟩
  intro a ha b hb
  simp only [List.mem_singleton] at ha hb
  subst ha; subst hb
  simp [toLinkReference, trimLeftSpace, trimRightSpace, isTrimSpace, caseFold, replaceSpaces, hasInnerRun]

end GM.Props.C09
