/-
  Property C13 — the AST mutation API and Walk behave like a plain ordered tree.

  Model: GM.Model.AstHeap (ast/ast.go:179-371, 483-527 transcribed onto a pointer heap).
  Spec:  GM.Spec.Forest (node ↦ ordered list of children; textbook DFS on the unfolded tree).
  Only property theorems and their non-vacuity examples live here; helper lemmas are in GM/Proof/Ast*.lean.

  Reading guide: `Abs h f` = every pointer field of heap `h` agrees with the forest `f`;
  `Pre f op` = the proviso of C13 for one call (the inserted node is not the target parent nor one of
  its ancestors, and is not the reference node; no nil where Go would dereference it);
  `Bounded n f`/`OpIn n op` = the nodes involved are among the `n` allocated ones (only used to size the fuel).
-/
import GM.Proof.AstTreeSize

namespace GM.Props.C13
open GM.Spec GM.Spec.Forest GM.AstHeap GM.Proof.AstHeap

/-! ## refinement -/

/-- One call. On a heap that represents a forest, every one of the seven mutators, called within the
    proviso, does not panic, does not run out of fuel, and yields a heap that represents exactly the
    forest the list-of-children meaning of the call gives. -/
theorem step_refines {h : Heap} {f : Forest} (A : Abs h f) {op : Op} (hpre : Pre f op)
    {fuel : Nat} (hfuel : ∀ p, (f p).length < fuel) :
    ∃ h', step fuel h op = .ok h' ∧ Abs h' (specStep f op) :=
  Proof.AstHeap.step_refines A hpre hfuel

/-- Any finite sequence of calls (induction over the sequence), starting from any represented forest over
    `n` allocated nodes, with any fuel above `n`: no panic, no fuel exhaustion, and the final heap
    represents the forest obtained by running the spec. -/
theorem run_refines {n fuel : Nat} (hn : n < fuel) (ops : List Op) {h : Heap} {f : Forest}
    (A : Abs h f) (B : Bounded n f) (hpre : PreAll f ops) (hin : ∀ op ∈ ops, OpIn n op) :
    ∃ h', run fuel h ops = .ok h' ∧ Abs h' (specRun f ops) :=
  let ⟨h', e, A', _⟩ := Proof.AstHeap.run_refines hn ops A B hpre hin
  ⟨h', e, A'⟩

/-- The same from freshly allocated nodes (all links nil), which is how every AST starts. -/
theorem run_refines_fresh {n fuel : Nat} (hn : n < fuel) (ops : List Op)
    (hpre : PreAll Forest.empty ops) (hin : ∀ op ∈ ops, OpIn n op) :
    ∃ h', run fuel Heap.empty ops = .ok h' ∧ Abs h' (specRun Forest.empty ops) :=
  run_refines hn ops abs_empty (bounded_empty n) hpre hin

/-- No loop of the model exhausts its fuel (= the Go loops terminate) and nothing panics, for every
    call sequence within the proviso over `n` nodes, whenever the fuel exceeds `n`. -/
theorem fuel_suffices {n fuel : Nat} (hn : n < fuel) (ops : List Op)
    (hpre : PreAll Forest.empty ops) (hin : ∀ op ∈ ops, OpIn n op) (e : Fault) :
    run fuel Heap.empty ops ≠ .error e := by
  obtain ⟨h', he, _⟩ := run_refines_fresh hn ops hpre hin
  rw [he]; intro hc; cases hc

/-- The proviso keeps the forest acyclic (this is what makes Walk and every parent-chain loop terminate). -/
theorem run_acyclic {n fuel : Nat} (hn : n < fuel) (ops : List Op)
    (hpre : PreAll Forest.empty ops) (hin : ∀ op ∈ ops, OpIn n op) :
    Acyclic (specRun Forest.empty ops) :=
  specRun_acyclic ops hn abs_empty (bounded_empty n) acyclic_empty hpre hin

/-! ## observers: what the accessors return is what the list model says -/

/-- ChildCount is the length of the child list. -/
theorem childCount_eq {h : Heap} {f : Forest} (A : Abs h f) (p : Nat) :
    childCount h p = (f p).length := A.count p

/-- HasChildren says whether the child list is non-empty. -/
theorem hasChildren_eq {h : Heap} {f : Forest} (A : Abs h f) (p : Nat) :
    hasChildren h p = !(f p).isEmpty := by
  simp only [hasChildren, A.first]; cases f p <;> rfl

/-- FirstChild / LastChild are the ends of the child list. -/
theorem firstChild_eq {h : Heap} {f : Forest} (A : Abs h f) (p : Nat) :
    firstChild h p = (f p).head? := A.first p
theorem lastChild_eq {h : Heap} {f : Forest} (A : Abs h f) (p : Nat) :
    lastChild h p = (f p).getLast? := A.last p

/-- NextSibling / PreviousSibling of a child are its neighbours in its parent's list
    (so walking forward from FirstChild or backward from LastChild spells the list). -/
theorem nextSibling_eq {h : Heap} {f : Forest} (A : Abs h f) {c p : Nat} (hc : c ∈ f p) :
    nextSibling h c = nextIn (f p) c := A.next c p hc
theorem previousSibling_eq {h : Heap} {f : Forest} (A : Abs h f) {c p : Nat} (hc : c ∈ f p) :
    previousSibling h c = prevIn (f p) c := A.prev c p hc

/-- Parent is the derived parent: `p` exactly when `c` is in `p`'s list; a node in no list has no
    parent and no siblings. Child lists have no duplicates and are pairwise disjoint. -/
theorem parent_eq {h : Heap} {f : Forest} (A : Abs h f) (c p : Nat) :
    parentNode h c = some p ↔ c ∈ f p := A.parent c p
theorem parent_derived {h : Heap} {f : Forest} (A : Abs h f) {n c p : Nat} (hp : p < n)
    (hc : parentNode h c = some p) : parentOf n f c = some p := parentOf_eq A hp hc
theorem orphan_links {h : Heap} {f : Forest} (A : Abs h f) {c : Nat} (hc : ∀ p, c ∉ f p) :
    parentNode h c = none ∧ nextSibling h c = none ∧ previousSibling h c = none := by
  have hp : h.parent c = none := by
    cases hh : h.parent c with
    | none => rfl
    | some p => exact absurd ((A.parent c p).1 hh) (hc p)
  exact ⟨hp, A.orphan c hp⟩
theorem child_lists_disjoint {h : Heap} {f : Forest} (A : Abs h f) {c p q : Nat}
    (hp : c ∈ f p) (hq : c ∈ f q) : p = q ∧ (f p).Nodup := ⟨A.disjoint hp hq, A.nodup p⟩

/-! ## SortChildren's list meaning -/

/-- SortChildren rearranges, never loses or duplicates children — for every comparator. -/
theorem sort_perm (cmp : Nat → Nat → Int) (l : List Nat) : (sortList cmp l).Perm l :=
  Proof.ForestLists.perm_sortList cmp l

/-- With a total preorder comparator the result is sorted. -/
theorem sort_sorted {cmp : Nat → Nat → Int} (tot : ∀ a b, cmp a b < 0 ∨ cmp b a ≤ 0)
    (trans : ∀ a b c, cmp a b ≤ 0 → cmp b c ≤ 0 → cmp a c ≤ 0) (l : List Nat) :
    (sortList cmp l).Pairwise (fun a b => cmp a b ≤ 0) :=
  Proof.ForestLists.sorted_sortList tot trans l

/-! ## Walk -/

/-- Walk on a heap representing `f`, from the root of a tree `t` that unfolds `f`, makes exactly the
    visitor calls of the textbook depth-first traversal of `t` (with skip / stop / error) and returns
    its error; fuel `2·size t` is enough. -/
theorem walk_eq_dfs {h : Heap} {f : Forest} (A : Abs h f) (s : Script) (t : Tree) (ht : Tree.IsTree f t)
    {fuel : Nat} (hf : 2 * t.size ≤ fuel) : walk fuel h s t.id = .ok (dfs s t) :=
  Proof.AstHeap.walk_eq_dfs A s t ht hf

/-- After any call sequence within the proviso over `n` allocated nodes, every node `root < n` is the root
    of a finite tree unfolding the forest (of at most `n` nodes), and Walk from it — with any fuel of at
    least `2·n`, in particular the driver's — is the textbook traversal of that tree: no fuel exhaustion,
    i.e. the Go recursion terminates. -/
theorem walk_after_run {n fuel : Nat} (hn : n < fuel) (ops : List Op)
    (hpre : PreAll Forest.empty ops) (hin : ∀ op ∈ ops, OpIn n op) (s : Script) {root : Nat} (hroot : root < n) :
    ∃ h t, run fuel Heap.empty ops = .ok h ∧ Tree.IsTree (specRun Forest.empty ops) t ∧ t.id = root ∧
      t.size ≤ n ∧ ∀ wfuel, 2 * n ≤ wfuel → walk wfuel h s root = .ok (dfs s t) := by
  obtain ⟨h, he, A, B⟩ := Proof.AstHeap.run_refines hn ops abs_empty (bounded_empty n) hpre hin
  have hA := run_acyclic hn ops hpre hin
  obtain ⟨t, ht, hid⟩ := exists_tree hA root
  have hsz : t.size ≤ n := tree_size_le A hA B ht (hid ▸ hroot)
  exact ⟨h, t, he, ht, hid, hsz, fun wfuel hw => hid ▸ Proof.AstHeap.walk_eq_dfs A s t ht (by omega)⟩

/-- A visitor that never skips, stops or fails sees every node entered once and left once, children
    between the two calls, in list order. -/
theorem dfs_enter_leave_once {s : Script} (hs : Plain s) (t : Tree) : dfs s t = ⟨brackets t, false, false⟩ :=
  dfs_plain hs t

/-- A skip status on entering: the children are not visited, the node is still left. -/
theorem dfs_skip (s : Script) (a : Nat) (ks : List Tree) (h : (s a true).2 = false ∧ (s a true).1 = .skip) :
    dfs s (.node a ks) = ⟨[(a, true), (a, false)], (s a false).2 || (s a false).1 == .stop, (s a false).2⟩ :=
  Proof.AstHeap.dfs_skip s a ks h

/-- A stop status or an error on entering ends the walk at once (no leave call, no children). -/
theorem dfs_stop_immediately (s : Script) (a : Nat) (ks : List Tree)
    (h : (s a true).2 = true ∨ (s a true).1 = .stop) :
    dfs s (.node a ks) = ⟨[(a, true)], true, (s a true).2⟩ :=
  Proof.AstHeap.dfs_stop_immediately s a ks h

/-- … and it propagates: after a halted subtree no later sibling is visited and no ancestor is left. -/
theorem dfs_halt_propagates (s : Script) (t : Tree) (ts : List Tree) (h : (dfs s t).halted = true) :
    dfsL s (t :: ts) = dfs s t :=
  dfsL_halt s t ts h

/-! ## outside the proviso / outside the documented contract (witnesses) -/

/-- ReplaceChild(self, nil, x) panics (after having appended x): the doc comment's "if v1 is not a child,
    append" does not cover a nil v1. Recorded as a finding; `Pre` excludes it. -/
theorem replace_nil_panics (h : Heap) (p c : Nat) : replaceChild h p none (some c) = .error .nilDeref :=
  Proof.AstHeap.replace_nil_panics h p c

/-- A nil child panics in every call taking one. `Pre` excludes it. -/
theorem nil_child_panics (h : Heap) (p : Nat) (v : Option Nat) :
    appendChild h p none = .error .nilDeref ∧ insertBefore h p v none = .error .nilDeref ∧
    insertAfter h p v none = .error .nilDeref ∧ replaceChild h p v none = .error .nilDeref ∧
    removeChild h p none = .error .nilDeref :=
  Proof.AstHeap.nil_child_panics h p v

/-- The "not relative to itself" proviso is needed: InsertBefore(p, v, v) on a child v yields a heap that
    represents no forest at all (v becomes its own next sibling). -/
theorem self_reference_breaks :
    ∃ h, run 8 Heap.empty [.append 0 (some 1), .insertBefore 0 (some 1) (some 1)] = .ok h ∧ ¬ ∃ f, Abs h f := by
  refine ⟨_, rfl, ?_⟩
  rintro ⟨f, A⟩
  exact A.next_ne_self 1 (by rfl)

/-- The "not into its own subtree" proviso is needed: AppendChild(p, p) makes p its own parent. -/
theorem self_insertion_breaks :
    ∃ h, run 8 Heap.empty [.append 0 (some 0)] = .ok h ∧ parentNode h 0 = some 0 ∧
      ¬ Pre Forest.empty (.append 0 (some 0)) :=
  ⟨_, rfl, rfl, fun hp => hp (Desc.refl 0)⟩

/-! ## non-vacuity: the hypotheses are satisfiable, and tests on literals -/

/-- test: a concrete sequence with a move between parents, a foreign reference, a nil reference,
    a replace and a sort satisfies `PreAll` from the fresh state -/
example : PreAll Forest.empty
    [.append 0 (some 2), .append 1 (some 3), .insertBefore 0 (some 3) (some 4), .insertAfter 0 none (some 3),
     .replace 0 (some 2) (some 5), .sort 0 (fun a b => (b : Int) - a), .remove 0 (some 4), .removeChildren 1] := by
  refine ⟨?_, ?_, ⟨?_, by simp⟩, ⟨?_, by simp⟩, ⟨?_, by simp⟩, trivial, trivial, trivial, trivial⟩
  · intro hd; have := desc_empty hd; omega
  all_goals
    intro hd
    rcases desc_head hd with e | ⟨k, hk, _⟩
    · omega
    · simp [specStep, upd, detach, Forest.empty] at hk

/-- test: the model on that sequence, observed through the accessors (kernel evaluation) -/
example :
    (run 14 Heap.empty
      [.append 0 (some 2), .append 1 (some 3), .insertBefore 0 (some 3) (some 4), .insertAfter 0 none (some 3),
       .replace 0 (some 2) (some 5), .sort 0 (fun a b => (b : Int) - a)]).toOption.map
      (fun h => (childCount h 0, firstChild h 0, nextSibling h 5, nextSibling h 4, lastChild h 0,
        parentNode h 2, hasChildren h 1)) = some (3, some 5, some 4, some 3, some 3, none, false) := by
  rfl

/-- test: the spec on the same sequence -/
example :
    specRun Forest.empty
      [.append 0 (some 2), .append 1 (some 3), .insertBefore 0 (some 3) (some 4), .insertAfter 0 none (some 3),
       .replace 0 (some 2) (some 5), .sort 0 (fun a b => (b : Int) - a)] 0 = [5, 4, 3] := by
  decide

/-- test: Walk with a script that skips node 1 and stops with an error when leaving node 2 -/
example :
    (match run 8 Heap.empty [.append 0 (some 1), .append 1 (some 3), .append 0 (some 2)] with
     | .ok h => (walk 8 h (fun n e => if n = 1 ∧ e then (.skip, false) else if n = 2 ∧ !e then (.cont, true)
                   else (.cont, false)) 0).toOption
     | .error _ => none)
    = some ⟨[(0, true), (1, true), (1, false), (2, true), (2, false)], true, true⟩ := by
  decide +kernel

/-- test: the same traversal on the spec tree -/
example :
    dfs (fun n e => if n = 1 ∧ e then (.skip, false) else if n = 2 ∧ !e then (.cont, true) else (.cont, false))
      (.node 0 [.node 1 [.node 3 []], .node 2 []])
    = ⟨[(0, true), (1, true), (1, false), (2, true), (2, false)], true, true⟩ := by
  decide

end GM.Props.C13
