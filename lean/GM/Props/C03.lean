/-
  Property C03 — safe mode emits only inert, well-nested markup from a fixed vocabulary.
  Only property theorems and their non-vacuity examples live here; the proofs are in GM/Proof/RenderWF/.

  Setting: `render (mkRCfg o e) t` is the model of goldmark's HTML renderer (GM.Model.Render, tied to the Go
  code by the `render` correspondence) for a Markdown built with global options `o` and extension set `e`;
  `Spec.Inv` is the decidable tree invariant the parser is relied on to establish (evaluated on every real
  parser output by the harness); `Spec.safeHtmlOK` / `Spec.xmlOK` are the specification-side strict tokenizer
  followed by the structural predicates of the property.
-/
import GM.Proof.RenderWF.Main
import GM.Proof.RenderWF.Tokenize
import GM.Proof.RenderWF.Panic
import GM.Props.Attribute
import GM.Props.ConvertE2E
import GM.Props.Consts.Render
import GM.Props.ConvertE2EAll

namespace GM.Props.C03
open GM GM.Spec

/-- In safe mode, for every option/extension combination and every tree satisfying the invariant, the output
    is accepted by the strict tokenizer and is well nested, uses only the renderer's tags and per-tag allowed
    (or `data-*`) attribute names, has inert text and attribute values (no raw `<` in text, no raw `"` in
    values, every `&` starts a well-formed character reference, the only comment is the placeholder), and
    writes void elements in the style of the output mode. -/
theorem safe_wf (o : Opts) (e : Exts) (t : Node) (hsafe : o.unsafe_ = false)
    (hinv : Spec.Inv (mkRCfg o e) t = true) :
    Spec.safeHtmlOK o.xhtml (render (mkRCfg o e) t) = true :=
  Proof.RenderWF.safeHtmlOK_of_wf (Proof.RenderWF.render_wf o e t hsafe hinv)

/-- The same for any state of the node renderers (in particular with non-default footnote options whose
    strings are inert, which `Inv` requires): safe mode, and the core / task-list / footnote copies of the XHTML
    flag agree. -/
theorem safe_wf_rc (x : Bool) (rc : RCfg) (t : Node) (hsafe : rc.core.unsafe_ = false)
    (hcore : rc.core.xhtml = x) (htask : rc.task.xhtml = x) (hfoot : rc.foot.xhtml = x)
    (hinv : Spec.Inv rc t = true) : Spec.safeHtmlOK x (render rc t) = true ∧ Spec.xmlOK (render rc t) = true :=
  have h := Proof.RenderWF.render_wf_rc x rc hsafe hcore htask hfoot t hinv
  ⟨Proof.RenderWF.safeHtmlOK_of_wf h, Proof.RenderWF.xmlOK_of_wf h⟩

/-- The same output, read as a word of the inductive grammar `WFHtml` (inert text, the placeholder comment,
    void elements, elements around a well-formed body, concatenation) — the specification in generative form. -/
theorem safe_wf_grammar (o : Opts) (e : Exts) (t : Node) (hsafe : o.unsafe_ = false)
    (hinv : Spec.Inv (mkRCfg o e) t = true) :
    Proof.RenderWF.WFHtml o.xhtml (render (mkRCfg o e) t) :=
  Proof.RenderWF.render_wf o e t hsafe hinv

/-- Soundness of the strict tokenizer for the grammar: every grammar word tokenizes and satisfies every
    structural predicate (this is what connects the two formulations above). -/
theorem grammar_sound (x : Bool) (b : Bytes) (h : Proof.RenderWF.WFHtml x b) :
    Spec.safeHtmlOK x b = true ∧ Spec.xmlOK b = true :=
  ⟨Proof.RenderWF.safeHtmlOK_of_wf h, Proof.RenderWF.xmlOK_of_wf h⟩

/-- With XHTML output the result is additionally well-formed XML as far as the token structure goes: no `<`
    in attribute values and no attribute name twice in a start tag (all voids self-closed is part of
    `safe_wf`). Representability of the characters in XML is the property's own proviso. -/
theorem safe_xhtml_xml (o : Opts) (e : Exts) (t : Node) (hsafe : o.unsafe_ = false) (_hx : o.xhtml = true)
    (hinv : Spec.Inv (mkRCfg o e) t = true) : Spec.xmlOK (render (mkRCfg o e) t) = true :=
  Proof.RenderWF.xmlOK_of_wf (Proof.RenderWF.render_wf o e t hsafe hinv)

/-- Under the invariant no node renderer function panics (heading level index, CodeSpan child type
    assertion, table-cell style type assertion). -/
theorem inv_noPanic (rc : RCfg) (t : Node) (hinv : Spec.Inv rc t = true) : renderPanics rc t = none :=
  Proof.RenderWF.inv_noPanic rc t hinv

/-- Option propagation is complete: after initialisation every per-renderer copy of html.Config equals the
    default configuration updated with the global options. -/
theorem propagation_complete (o : Opts) (e : Exts) :
    (mkRCfg o e).core = ({} : HCfg).setOpts o ∧ (mkRCfg o e).task = ({} : HCfg).setOpts o ∧
    (mkRCfg o e).strike = ({} : HCfg).setOpts o ∧ (mkRCfg o e).dl = ({} : HCfg).setOpts o ∧
    (mkRCfg o e).foot = ({} : HCfg).setOpts o ∧ (mkRCfg o e).table = ({} : HCfg).setOpts o :=
  Proof.RenderWF.propagation_complete o e

/-! ### the `noClash` clause of the invariant is needed (finding)

A tree that satisfies every other clause of `Inv` but carries, through the public AST API, an attribute whose
name the renderer function also writes itself (`start` on an ordered list here) renders the attribute twice:
`<ol start="2" start="5">`. The output still passes `safeHtmlOK` but is not well-formed XML. The parsers only
attach attributes to headings, which have no fixed attributes, so parser output satisfies `noClash`. -/

def clashTree : Node := .mk (.list true 2) (some [⟨strBytes "start", some [53]⟩]) []

/-- witness: without `noClash` the XML clause fails -/
theorem xml_needs_noClash_witness :
    Spec.attrsInv clashTree.attrs = true ∧ Spec.noClash clashTree.kind clashTree.attrs = false ∧
    Spec.safeHtmlOK true (render (mkRCfg { xhtml := true } {}) clashTree) = true ∧
    Spec.xmlOK (render (mkRCfg { xhtml := true } {}) clashTree) = false := by
  decide +kernel

/-! ### the attribute clauses of `Inv` hold of what the attribute parser produces (package `attribute`)

`Inv` of parser output is otherwise monitored, not proved. For the only place where the parsers attach attributes
(headings, with parser.WithAttribute / WithAutoHeadingID) the attribute clauses are theorems about the model of
parser/attribute.go and the heading glue: names lexically valid for EVERY source, pairwise distinct on the node. -/
theorem attribute_names_valid : type_of% @GM.Props.Attribute.parseAttributes_names_valid := @GM.Props.Attribute.parseAttributes_names_valid
theorem attribute_names_distinct : type_of% @GM.Props.Attribute.setAttribute_names_distinct := @GM.Props.Attribute.setAttribute_names_distinct
theorem attribute_heading_node_inv : type_of% @GM.Props.Attribute.heading_node_inv := @GM.Props.Attribute.heading_node_inv
theorem attribute_setext_close_inv : type_of% @GM.Props.Attribute.setext_close_attrs_inv := @GM.Props.Attribute.setext_close_attrs_inv

/-! ### non-vacuity (tests on literals) -/

def sampleTree : Node :=
  .mk .document none [
    .mk (.heading 2) (some [⟨strBytes "id", some (strBytes "a<b")⟩]) [.mk (.text (strBytes "x & <y>") false false false false) none []],
    .mk .paragraph none [
      .mk (.link (strBytes "javascript:x") (some (strBytes "t\"")) ) none [.mk (.text (strBytes "l") true false false false) none []],
      .mk (.image (strBytes "/i") none) none [.mk (.text (strBytes "alt") false true false false) none []],
      .mk (.rawHTML [strBytes "<b>"]) none []],
    .mk .table none [
      .mk .tableHeader none [.mk (.tableCell 0) none []],
      .mk .tableRow none [.mk (.tableCell 3) none []]]]

example : Spec.Inv (mkRCfg { xhtml := true } { table := true }) sampleTree = true := by decide +kernel
example : Spec.safeHtmlOK true (render (mkRCfg { xhtml := true } { table := true }) sampleTree) = true := by
  decide +kernel
example : (render (mkRCfg {} { table := true }) sampleTree).length > 100 := by decide +kernel

/-- (re-export of `GM.Props.ConvertE2E.convert_safe_wellformed`) `convert_safe_wellformed`. For EVERY source and Unicode class assignment, XHTML and HardWraps on or off: when
    `convertCore` answers HTML in safe mode (`Unsafe` off), the HTML is accepted by the strict tokenizer, is well nested,
    uses only the renderer's tags and per-tag allowed attribute names, has inert text and attribute values (no raw `<`
    in text, no raw `"` in values, every `&` starts a well-formed character reference, the only comment is the
    placeholder), writes void elements in the style of the output mode (`Spec.safeHtmlOK`, the conclusion of C03
    `safe_wf`) — and its token structure is well-formed XML (`Spec.xmlOK`, the conclusion of `safe_xhtml_xml`; with XHTML
    on all void elements are self-closed as part of `safeHtmlOK true`). -/
theorem convert_safe_wellformed : type_of% @GM.Props.ConvertE2E.convert_safe_wellformed := @GM.Props.ConvertE2E.convert_safe_wellformed

/-- (re-export of `GM.Props.ConvertE2E.convert_safe_grammar`) the same output as a word of the inductive grammar `WFHtml` (C03 `safe_wf_grammar`) -/
theorem convert_safe_grammar : type_of% @GM.Props.ConvertE2E.convert_safe_grammar := @GM.Props.ConvertE2E.convert_safe_grammar

/-- (re-export of `GM.Props.ConvertE2E.parser_output_satisfies_inv`) `parser_output_satisfies_inv` (what C03 monitors on generated documents, as a theorem). For EVERY source, Unicode
    class assignment and option set: the tree the parse phases hand to the renderer satisfies `Spec.Inv` — heading
    levels 1..6, CodeSpan children are Text, no attributes (hence no invalid / duplicate / clashing attribute name), no
    code-flagged String, no table node outside its place; the footnote strings of the renderer state are the inert
    defaults. -/
theorem parser_output_satisfies_inv : type_of% @GM.Props.ConvertE2E.parser_output_satisfies_inv := @GM.Props.ConvertE2E.parser_output_satisfies_inv

/-- (re-export of `GM.Props.ConvertE2E.block_store_heading_levels`) `block_store_heading_levels` (`BlockStoreOK`). For EVERY source: in the node store the block phase (with the
    link-reference paragraph transformer, guarded or not) returns, every Heading node — reachable from the Document or
    not — has `1 ≤ Level ≤ 6`. The level is fixed at creation (ATX: the length of the `#` run, declined above 6; setext:
    1 or 2) and no step of the block phase writes a node's kind or level afterwards. -/
theorem block_store_heading_levels : type_of% @GM.Props.ConvertE2E.block_store_heading_levels := @GM.Props.ConvertE2E.block_store_heading_levels

/-- (re-export of `GM.Props.ConvertE2E.store_inv_gives_tree_inv`) `store_inv_gives_tree_inv`: from `BlockStoreOK` of ANY block store to the invariant of the tree `docTree` builds from
    it (the inline clauses — CodeSpan children are Text, no bookkeeping node, no attributes, no String / table node —
    come from the shape theorem of the inline phase, `GM.Props.Inlines.codespan_holds_text` & co.). -/
theorem store_inv_gives_tree_inv : type_of% @GM.Props.ConvertE2E.store_inv_gives_tree_inv := @GM.Props.ConvertE2E.store_inv_gives_tree_inv

/-- (package consts) every literal the node renderers write, and the constants the renderer model names, are the model's -/
theorem consts_rendered_literals_tied : GM.Spec.Consts.allOk GM.Spec.Consts.renderedLiterals = true := GM.Props.Consts.Render.rendered_literals_tied
/-- (package consts) package constants for which a model has its own definition (incl. bufio's 4096) have the model's value -/
theorem consts_named_constants_tied : GM.Spec.Consts.allOk GM.Spec.Consts.namedConstants = true := GM.Props.Consts.Render.named_constants_tied

/-- (re-export of `GM.Props.ConvertE2EAll.convert_safe_wellformed_total`) **`convert_safe_wellformed_total`** — C03 END TO END, no hypothesis on the source: for EVERY byte string and Unicode-class
    assignment, XHTML and HardWraps on or off, in safe mode (`Unsafe` off) `convertCore` answers HTML, and that HTML is accepted by
    the strict tokenizer, well nested, uses only the renderer's tags and per-tag allowed attribute names, has inert text and
    attribute values, writes void elements in the style of the output mode (`Spec.safeHtmlOK`), and its token structure is
    well-formed XML (`Spec.xmlOK`). -/
theorem convert_safe_wellformed_total : type_of% @GM.Props.ConvertE2EAll.convert_safe_wellformed_total := @GM.Props.ConvertE2EAll.convert_safe_wellformed_total

/-- (re-export of `GM.Props.ConvertE2EAll.convert_safe_grammar_total`) the same output as a word of the inductive grammar `WFHtml` -/
theorem convert_safe_grammar_total : type_of% @GM.Props.ConvertE2EAll.convert_safe_grammar_total := @GM.Props.ConvertE2EAll.convert_safe_grammar_total

end GM.Props.C03
