/-
  Property C08 — prefixing every line with a block-quote marker wraps the same content.

  What is PROVED here (over GM.Model.LineRec, the Lean model of goldmark's line recognisers, tied to the Go
  functions by the exhaustive function-level correspondence of harness component `linerec`):
    * `quote_consumes_marker…`: on a tab-free line, `blockquoteParser.process` consumes exactly the marker
      (up to 3 spaces, `>`, one optional space), leaves padding 0, and the children see exactly the rest of
      the line, two (one) columns further right;
    * `offset_invariant…`: on tab-free lines every offset-taking recogniser (IndentWidth, IndentPosition,
      thematic break, fence close, indented code, the openBlocks gate, the quote marker itself) answers the
      same from every start column — so the two columns the marker adds cannot change what the children see.
      Since /repo 3fb40b2 calcListOffset and listItemParser.Open take the column too: `offset_invariant_list`.
      (The remaining recognisers — parseListItem, setext bar, ATX open, fence open — have no column
      parameter at all; their only column-dependent input is the block offset covered by `blockOffset`.)
  What is NOT proved: the composition of these steps by the block driver (parser.parseBlocks/openBlocks over
  whole documents, blank-line bookkeeping, lazy continuation). That part of C08 is SEARCHED by the metamorphic
  component `quote`.  Helper lemmas: GM/Proof/LineRec.lean.
-/
import GM.Model.LineRec
import GM.Proof.LineRec

namespace GM.Props.C08
open GM GM.LineRec GM.Proof.LineRec

/-- `indent_pos_tabfree`. On a line without tabs, `util.IndentWidth` is (number of leading spaces, same
    number) and `util.IndentPosition(line, col, width)` is `(width, 0)` when the line has at least `width`
    leading spaces and `(-1, -1)` otherwise — whatever the current column `col`. -/
theorem indent_pos_tabfree (line : Bytes) (col width : Nat) (h : tabFree line) :
    indentWidth line col = (leadSp line, leadSp line) ∧
    indentPosition line col width = if width ≤ leadSp line then ((width : Int), 0) else (-1, -1) :=
  ⟨indentWidth_tabfree line col h, indentPosition_tabfree line col width h⟩

/-- `offset_invariant`. For a tab-free line every recogniser that takes the start column gives the same
    answer for any two columns `c`, `c'`: IndentWidth, IndentPosition (every width), isThematicBreak, the
    closing-fence test (every fence), indented-code Open/Continue, the block offset/indent published by
    openBlocks, and the openBlocks gate with each single parser. -/
theorem offset_invariant (line : Bytes) (h : tabFree line) (c c' : Nat) :
    indentWidth line c = indentWidth line c' ∧
    (∀ w, indentPosition line c w = indentPosition line c' w) ∧
    isThematicBreak line c = isThematicBreak line c' ∧
    (∀ ch n, fenceClose line c ch n = fenceClose line c' ch n) ∧
    codeOpen line c = codeOpen line c' ∧ codeContinue line c = codeContinue line c' ∧
    blockOffset line c = blockOffset line c' ∧
    (∀ wh, openLine wh line c = openLine wh line c') :=
  ⟨by rw [indentWidth_tabfree line c h, indentWidth_tabfree line c' h],
   fun w => by rw [indentPosition_tabfree line c w h, indentPosition_tabfree line c' w h],
   tb_offset line h c c', fenceClose_offset line h c c', (code_offset line h c c').1, (code_offset line h c c').2,
   blockOffset_offset line h c c', fun wh => openLine_offset wh line h c c'⟩

/-- `offset_invariant` for list items (since /repo 3fb40b2 `calcListOffset` and `listItemParser.Open` add
    `reader.LineOffset()` to the column handed to IndentWidth / IndentPosition): on a tab-free line the content
    offset and the whole result of `listItemParser.Open` (item offset, child position, padding) are the same for
    any two columns. -/
theorem offset_invariant_list (line : Bytes) (h : tabFree line) (c c' : Nat) :
    (∀ m4, calcListOffset line m4 c = calcListOffset line m4 c') ∧
    (∀ lastOff, listItemOpen line lastOff c = listItemOpen line lastOff c') :=
  ⟨fun m4 => calcListOffset_offset line m4 h c c', fun lastOff => listItemOpen_offset line lastOff h c c'⟩

/-- `offset_invariant` for the quote marker itself: on a tab-free one-line `line`, whatever precedes it on
    its source line (`pre`: any bytes, i.e. any start column — e.g. outer quote markers), `process` accepts
    iff `quoteRel line` says so and consumes exactly `(quoteRel line).2` bytes, leaving padding 0.
    `quoteRel` is a function of the line alone. -/
theorem offset_invariant_quote (pre line : Bytes) (h : tabFree line) (h1 : oneLine line) :
    quoteProcess (rd pre line) =
      some ((quoteRel line).1, { src := pre ++ line, start := pre.length + (quoteRel line).2, padding := 0 }) :=
  quoteProcess_tabfree pre line h h1

/-- `quote_consumes_marker` (marker followed by a space). On the tab-free line `k spaces ++ "> " ++ r`
    (k ≤ 3), wherever it starts (`pre`), `process` returns true, advances exactly `k + 2` bytes, leaves padding
    0, the view handed to the children is exactly `r`, and the column (`LineOffset`) grew by `k + 2`. -/
theorem quote_consumes_marker (pre r : Bytes) (k : Nat) (hk : k ≤ 3) (htf : tabFree r) (h1 : oneLine r) :
    ∃ r', quoteProcess (rd pre (List.replicate k 32 ++ 62 :: 32 :: r)) = some (true, r') ∧
      r'.start = (rd pre (List.replicate k 32 ++ 62 :: 32 :: r)).start + (k + 2) ∧ r'.padding = 0 ∧ r'.peek = r ∧
      r'.lineOffset = (rd pre (List.replicate k 32 ++ 62 :: 32 :: r)).lineOffset + (k + 2) :=
  quote_consumes_space pre r k hk htf h1

/-- `quote_consumes_marker` (no space after the marker). On `k spaces ++ ">" ++ r` with `r` not starting with
    a space, `process` advances exactly `k + 1` bytes, padding 0, view `r`, column + `k + 1`. -/
theorem quote_consumes_marker_nospace (pre r : Bytes) (k : Nat) (hk : k ≤ 3) (htf : tabFree r) (h1 : oneLine r)
    (hns : r.head? ≠ some 32) :
    ∃ r', quoteProcess (rd pre (List.replicate k 32 ++ 62 :: r)) = some (true, r') ∧
      r'.start = (rd pre (List.replicate k 32 ++ 62 :: r)).start + (k + 1) ∧ r'.padding = 0 ∧ r'.peek = r ∧
      r'.lineOffset = (rd pre (List.replicate k 32 ++ 62 :: r)).lineOffset + (k + 1) :=
  quote_consumes_nospace pre r k hk htf h1 hns

/-- A tab-free line without a `>` within the first three columns is declined and the reader is untouched. -/
theorem quote_declines (pre tail : Bytes) (k : Nat) (htf : tabFree tail) (hns : tail.head? ≠ some 32)
    (h1 : oneLine (List.replicate k 32 ++ tail)) (hno : 3 < k ∨ tail.head? ≠ some 62) :
    quoteProcess (rd pre (List.replicate k 32 ++ tail)) = some (false, rd pre (List.replicate k 32 ++ tail)) :=
  Proof.LineRec.quote_declines pre tail k htf hns h1 hno

/-! ### non-vacuity and tests (literals; `decide` = evaluation of the model) -/

-- hypotheses are satisfiable: the line `"> # a\n"` seen after an outer `"> "` (bytes: 62 '>', 32 ' ', 35 '#', 97 'a', 10 LF, 9 TAB, 45 '-')
example : tabFree [35, 32, 97, 10] ∧ oneLine [35, 32, 97, 10] := by decide
example : quoteProcess (rd [62, 32] [62, 32, 35, 32, 97, 10]) =
    some (true, { src := [62, 32, 62, 32, 35, 32, 97, 10], start := 4, padding := 0 }) := by decide
example : ({ src := [62, 32, 62, 32, 35, 32, 97, 10], start := 4, padding := 0 } : LR).peek = [35, 32, 97, 10] := by decide
example : quoteRel [32, 32, 62, 97] = (true, 3) := by decide
example : quoteRel [32, 32, 32, 32, 62, 32, 97] = (false, 0) := by decide

-- WHY TABS ARE EXCLUDED: with a tab the same line answers differently from different columns.
example : indentWidth [9, 97] 0 = (4, 1) ∧ indentWidth [9, 97] 2 = (2, 1) := by decide
example : indentPosition [9, 97] 0 4 = (1, 0) ∧ indentPosition [9, 97] 2 4 = (-1, -1) := by decide
example : codeOpen [9, 97] 0 = true ∧ codeOpen [9, 97] 2 = false := by decide
example : isThematicBreak [32, 9, 45, 45, 45] 0 = false ∧ isThematicBreak [32, 9, 45, 45, 45] 2 = true := by decide
example : listItemOpen [45, 9, 97] 0 0 = .ok (some { offset := 4, child := some (2, 0) }) ∧
    listItemOpen [45, 9, 97] 0 2 = .ok (some { offset := 2, child := some (2, 0) }) := by decide
-- and the marker's optional "space" may be a partial tab: padding 2 is left behind
example : quoteProcess (rd [] [62, 9, 97]) = some (true, { src := [62, 9, 97], start := 2, padding := 2 }) := by
  decide

end GM.Props.C08
