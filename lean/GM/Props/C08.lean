/-
  Property C08 — prefixing every line with a block-quote marker wraps the same content.

  What is PROVED here

  (1) line level, over GM.Model.LineRec (the Lean model of goldmark's line recognisers, tied to the Go functions by
      the exhaustive function-level correspondence of harness component `linerec`):
    * `quote_consumes_marker…`: on a tab-free line, `blockquoteParser.process` consumes exactly the marker
      (up to 3 spaces, `>`, one optional space), leaves padding 0, and the children see exactly the rest of
      the line, two (one) columns further right;
    * `offset_invariant…`: on tab-free lines every offset-taking recogniser (IndentWidth, IndentPosition,
      thematic break, fence close, indented code, the openBlocks gate, the quote marker itself) answers the
      same from every start column — so the two columns the marker adds cannot change what the children see.
      Since /repo 3fb40b2 calcListOffset and listItemParser.Open take the column too: `offset_invariant_list`.

  (2) block level, over GM.Model.Blocks (the executable model of parser.parseBlocks / openBlocks / closeBlocks and
      the ten default block parsers, tied to the real parser by harness component `blocks`), by a SIMULATION
      between run A = the block phase on a source `D` and run B = the block phase on `quotePrefix D` (`"> "` in
      front of every line). The relation (`GM.Blocks.SR`, GM/Proof/QuoteSimRel.lean): B's reader stands at the same
      byte of the prefixed source (`p + 2·(k+1)` on line `k`), both without padding; B's node store is A's with one
      more node (B's Document), A's Document being B's Blockquote, ids shifted by one, every stored segment moved by
      the markers in front of its line; the context keys are the same; B's `openedBlocks` is A's with the Blockquote
      block in front. `HasBlankPreviousLines` is NOT related (it differs for the blocks directly inside the quote,
      parser.go:1099, and is read only by listParser.Close).
    * `quote_first_line`, `quote_marker_every_line` — on every line of the prefixed source the driver / the
      Blockquote's Continue consumes exactly `"> "` and hands the rest of the line to the children;
    * `quote_step_open` / `quote_step_continue` / `quote_step_close` — ONE LINE STEP, parser by parser: from related
      states inside a line, `Open` of each of the TEN block parsers, `Continue` of each of them (fenced code and list
      item under explicit side conditions) and `Close` of each but the list parser (setext under a side condition)
      behave identically in both runs and end in related states;
    * `quote_driver_…` — closeBlocks, openBlocks (the whole `goto retry` loop with the contract monitor) and the
      per-line loop over the opened blocks preserve the relation, for every set of parsers whose steps are simulated;
    * `nonblank_line_opens_block` — a line that is not blank always opens a block (every candidate list ends with the
      code block and the paragraph parser; a declining `Open` does not move the reader): the original run reads
      every line;
    * `quote_prefix_run` — WHOLE RUNS, UNCONDITIONALLY for every source without tab and CR that ends with a line feed
      and contains no byte that can start a list item (`-`, `*`, `+`, digits; `C08Class`): the block phase on `D` ends
      normally (`GM.Props.Blocks.no_panic`), so does the block phase on `quotePrefix D`, the two final node stores are
      related, and the original store has a Document without lines that is nobody's child and no List / ListItem node;
    * `quote_prefix_simulation_class` — for the same class, UNCONDITIONALLY: `QuotePrefixSimulation D` holds — the tree
      of `quotePrefix D` is Document[Blockquote[tree of D, segments moved]]. `original_run_well_shaped`: what the earlier
      versions assumed about the original run (no empty line / info / closure segment, …) is a theorem: for raw blocks
      and info / closure segments it is carried by the relation (`NodeRel.rawNE`, `infoNE`, `closNE`; the driver knows
      that paragraph / setext blocks have nodes that are not raw, `AInv.pk`, so the trimming `Close` functions never
      touch a raw block), for all other blocks it is `GM.Props.Wf0.inline_segments_nonempty` (package wf0).

    * `quote_prefix_simulation_nofinalnl` — the same for sources whose last line has no line feed (`C08ClassW`: not
      empty, last byte not a space);
    * `quote_prefix_simulation_noitems` / `quote_prefix_simulation_nolist` — the same for every tab- and CR-free source
      that does not end with a space and in which NO POSITION STARTS A LIST ITEM (`NoItem`: nowhere a bullet or a number
      with `.` / `)` followed by white space or the end): digits, hyphens, `*`, `+` are allowed; the list parsers are
      tried and decline in both runs.

    * `quote_prefix_simulation_lists` — documents WITH LISTS and without a blank line (`C08ClassF`), all ten parsers;
    * `quote_prefix_simulation_lists_blank` — documents with lists AND blank lines in which no position starts a setext
      heading underline (`C08ClassG`, `NoBar`); `quote_prefix_simulation_union` collects the three classes.

  What is NOT proved (`QuotePrefixSimulationAll` below is the full statement): documents that have a setext underline
  pattern AND a blank line AND a list item position (`setextHeadingParser.Close` copies a `HasBlankPreviousLines` flag
  that may differ between the two runs; needs "the heading is the temporary paragraph's next sibling"); a last line
  without `\n` that ends with a space (there `fencedCodeBlockParser.Continue` calls `Advance(-1)` on a rest of line of
  spaces); the inline phase and the renderer (C08 on HTML is SEARCHED by component `quote`).
  Helper lemmas: GM/Proof/LineRec.lean, GM/Proof/QuoteSim*.lean (unary facts about the original run:
  QuoteSimInv.lean, QuoteSimInvP.lean, QuoteSimInvK.lean, QuoteSimOpens.lean), GM/Proof/BlocksOrd*.lean (wf0).
-/
import GM.Model.LineRec
import GM.Proof.LineRec
import GM.Proof.QuoteSimTop
import GM.Proof.QuoteSimHypB
import GM.Proof.QuoteSimListClose
import GM.Proof.QuoteSimLists
import GM.Proof.QuoteSimFE6
import GM.Props.Blocks
import GM.Props.C08E2E
import GM.Props.C08E2ETotal

namespace GM.Props.C08
open GM GM.LineRec GM.Proof.LineRec

/-- `indent_pos_tabfree`. On a line without tabs, `util.IndentWidth` is (number of leading spaces, same
    number) and `util.IndentPosition(line, col, width)` is `(width, 0)` when the line has at least `width`
    leading spaces and `(-1, -1)` otherwise — whatever the current column `col`. -/
theorem indent_pos_tabfree (line : Bytes) (col width : Nat) (h : tabFree line) :
    indentWidth line col = (leadSp line, leadSp line) ∧
    indentPosition line col width = if width ≤ leadSp line then ((width : Int), 0) else (-1, -1) :=
  ⟨indentWidth_tabfree line col h, indentPosition_tabfree line col width h⟩

/-- `offset_invariant`. For a tab-free line every recogniser that takes the start column gives the same
    answer for any two columns `c`, `c'`: IndentWidth, IndentPosition (every width), isThematicBreak, the
    closing-fence test (every fence), indented-code Open/Continue, the block offset/indent published by
    openBlocks, and the openBlocks gate with each single parser. -/
theorem offset_invariant (line : Bytes) (h : tabFree line) (c c' : Nat) :
    indentWidth line c = indentWidth line c' ∧
    (∀ w, indentPosition line c w = indentPosition line c' w) ∧
    isThematicBreak line c = isThematicBreak line c' ∧
    (∀ ch n, fenceClose line c ch n = fenceClose line c' ch n) ∧
    codeOpen line c = codeOpen line c' ∧ codeContinue line c = codeContinue line c' ∧
    blockOffset line c = blockOffset line c' ∧
    (∀ wh, openLine wh line c = openLine wh line c') :=
  ⟨by rw [indentWidth_tabfree line c h, indentWidth_tabfree line c' h],
   fun w => by rw [indentPosition_tabfree line c w h, indentPosition_tabfree line c' w h],
   tb_offset line h c c', fenceClose_offset line h c c', (code_offset line h c c').1, (code_offset line h c c').2,
   blockOffset_offset line h c c', fun wh => openLine_offset wh line h c c'⟩

/-- `offset_invariant` for list items (since /repo 3fb40b2 `calcListOffset` and `listItemParser.Open` add
    `reader.LineOffset()` to the column handed to IndentWidth / IndentPosition): on a tab-free line the content
    offset and the whole result of `listItemParser.Open` (item offset, child position, padding) are the same for
    any two columns. -/
theorem offset_invariant_list (line : Bytes) (h : tabFree line) (c c' : Nat) :
    (∀ m4, calcListOffset line m4 c = calcListOffset line m4 c') ∧
    (∀ lastOff, listItemOpen line lastOff c = listItemOpen line lastOff c') :=
  ⟨fun m4 => calcListOffset_offset line m4 h c c', fun lastOff => listItemOpen_offset line lastOff h c c'⟩

/-- `offset_invariant` for the quote marker itself: on a tab-free one-line `line`, whatever precedes it on
    its source line (`pre`: any bytes, i.e. any start column — e.g. outer quote markers), `process` accepts
    iff `quoteRel line` says so and consumes exactly `(quoteRel line).2` bytes, leaving padding 0.
    `quoteRel` is a function of the line alone. -/
theorem offset_invariant_quote (pre line : Bytes) (h : tabFree line) (h1 : oneLine line) :
    quoteProcess (rd pre line) =
      some ((quoteRel line).1, { src := pre ++ line, start := pre.length + (quoteRel line).2, padding := 0 }) :=
  quoteProcess_tabfree pre line h h1

/-- `quote_consumes_marker` (marker followed by a space). On the tab-free line `k spaces ++ "> " ++ r`
    (k ≤ 3), wherever it starts (`pre`), `process` returns true, advances exactly `k + 2` bytes, leaves padding
    0, the view handed to the children is exactly `r`, and the column (`LineOffset`) grew by `k + 2`. -/
theorem quote_consumes_marker (pre r : Bytes) (k : Nat) (hk : k ≤ 3) (htf : tabFree r) (h1 : oneLine r) :
    ∃ r', quoteProcess (rd pre (List.replicate k 32 ++ 62 :: 32 :: r)) = some (true, r') ∧
      r'.start = (rd pre (List.replicate k 32 ++ 62 :: 32 :: r)).start + (k + 2) ∧ r'.padding = 0 ∧ r'.peek = r ∧
      r'.lineOffset = (rd pre (List.replicate k 32 ++ 62 :: 32 :: r)).lineOffset + (k + 2) :=
  quote_consumes_space pre r k hk htf h1

/-- `quote_consumes_marker` (no space after the marker). On `k spaces ++ ">" ++ r` with `r` not starting with
    a space, `process` advances exactly `k + 1` bytes, padding 0, view `r`, column + `k + 1`. -/
theorem quote_consumes_marker_nospace (pre r : Bytes) (k : Nat) (hk : k ≤ 3) (htf : tabFree r) (h1 : oneLine r)
    (hns : r.head? ≠ some 32) :
    ∃ r', quoteProcess (rd pre (List.replicate k 32 ++ 62 :: r)) = some (true, r') ∧
      r'.start = (rd pre (List.replicate k 32 ++ 62 :: r)).start + (k + 1) ∧ r'.padding = 0 ∧ r'.peek = r ∧
      r'.lineOffset = (rd pre (List.replicate k 32 ++ 62 :: r)).lineOffset + (k + 1) :=
  quote_consumes_nospace pre r k hk htf h1 hns

/-- A tab-free line without a `>` within the first three columns is declined and the reader is untouched. -/
theorem quote_declines (pre tail : Bytes) (k : Nat) (htf : tabFree tail) (hns : tail.head? ≠ some 32)
    (h1 : oneLine (List.replicate k 32 ++ tail)) (hno : 3 < k ∨ tail.head? ≠ some 62) :
    quoteProcess (rd pre (List.replicate k 32 ++ tail)) = some (false, rd pre (List.replicate k 32 ++ tail)) :=
  Proof.LineRec.quote_declines pre tail k htf hns h1 hno

/-! ### non-vacuity and tests (literals; `decide` = evaluation of the model) -/

-- hypotheses are satisfiable: the line `"> # a\n"` seen after an outer `"> "` (bytes: 62 '>', 32 ' ', 35 '#', 97 'a', 10 LF, 9 TAB, 45 '-')
example : tabFree [35, 32, 97, 10] ∧ oneLine [35, 32, 97, 10] := by decide
example : quoteProcess (rd [62, 32] [62, 32, 35, 32, 97, 10]) =
    some (true, { src := [62, 32, 62, 32, 35, 32, 97, 10], start := 4, padding := 0 }) := by decide
example : ({ src := [62, 32, 62, 32, 35, 32, 97, 10], start := 4, padding := 0 } : LR).peek = [35, 32, 97, 10] := by decide
example : quoteRel [32, 32, 62, 97] = (true, 3) := by decide
example : quoteRel [32, 32, 32, 32, 62, 32, 97] = (false, 0) := by decide

-- WHY TABS ARE EXCLUDED: with a tab the same line answers differently from different columns.
example : indentWidth [9, 97] 0 = (4, 1) ∧ indentWidth [9, 97] 2 = (2, 1) := by decide
example : indentPosition [9, 97] 0 4 = (1, 0) ∧ indentPosition [9, 97] 2 4 = (-1, -1) := by decide
example : codeOpen [9, 97] 0 = true ∧ codeOpen [9, 97] 2 = false := by decide
example : isThematicBreak [32, 9, 45, 45, 45] 0 = false ∧ isThematicBreak [32, 9, 45, 45, 45] 2 = true := by decide
example : listItemOpen [45, 9, 97] 0 0 = .ok (some { offset := 4, child := some (2, 0) }) ∧
    listItemOpen [45, 9, 97] 0 2 = .ok (some { offset := 2, child := some (2, 0) }) := by decide
-- and the marker's optional "space" may be a partial tab: padding 2 is left behind
example : quoteProcess (rd [] [62, 9, 97]) = some (true, { src := [62, 9, 97], start := 2, padding := 2 }) := by
  decide

/-! ## block level: the simulation between the run on `D` and the run on `quotePrefix D` -/

section blocks
open GM.Blocks GM.Text GM.Spec

/-- **First line.** On the first line of the prefixed source (`D` non-empty) `openBlocks` — from the state `Parse`
    starts in — opens a Blockquote as the Document's only child, consumes exactly `"> "` (the reader ends at byte 2
    of line 0, no padding) and retries with the Blockquote as parent: what is left to do is `openBlocks`' loop
    below the Blockquote, in the reader state (shifted by the marker) in which the original run starts. -/
theorem quote_first_line {src : Bytes} (hl : LineAt src 0 0) {s : St} (h : RI (quotePrefix src) s.r ⟨0, 0, 0⟩)
    (hn : s.nodes = [{ kind := .document }]) (ho : s.pc.opened = []) (blank : Bool) :
    ∃ r', RI (quotePrefix src) r' ⟨0, 2, 0⟩ ∧
      openBlocks 0 blank s =
        openBlocksLoop blank false (2 * (quotePrefix src).length + 7) 1 OpenResult.newBlocksOpened none
          { r := r',
            nodes := [{ kind := .document, children := [1] }, { kind := .blockquote, parent := some 0, blankPrev := blank }],
            pc := { s.pc with blockOffset := 0, blockIndent := 0, opened := [{ node := 1, bp := .blockquote }] } } :=
  openBlocks_first hl h hn ho blank

/-- **Every later line.** At the start of line `k` of the prefixed source (which starts at byte `ls + 2·k`, `ls`
    the start of line `k` of `D`) the Blockquote's `Continue` answers Continue|HasChildren, changes nothing but the
    reader, and leaves it at byte `ls + 2·(k+1)`: exactly behind `"> "`, no padding. -/
theorem quote_marker_every_line {src : Bytes} {k ls : Nat} (hl : LineAt src k ls) {sB : St}
    (hb : RI (quotePrefix src) sB.r ⟨k, ls + 2 * k, 0⟩) :
    ∃ r', bpContinue .blockquote 1 sB = .ok (stContinueHasChildren, { sB with r := r' }) ∧
      RI (quotePrefix src) r' ⟨k, ls + 2 * (k + 1), 0⟩ :=
  blockquoteContinue_marker hl hb

/-- **One line step, `Open`.** For EVERY tab-free source and each of the TEN default block parsers: from states
    related by `SR` inside line `k` (any position `p`, parents `parent` / `parent + 1`), if `Open` ends normally in
    run A it ends normally in run B, with the same parser state bits, no node or the same node (id shifted), and in
    related states at a position `p' ≥ p` of the same line. -/
theorem quote_step_open (src : Bytes) (bp : BP) : OpenSim src bp := by
  cases bp with
  | setext => exact setextOpen_sim src
  | thematic => exact thematicOpen_sim src
  | list => exact listOpen_sim src
  | listItem => exact listItemOpen_sim src
  | code => exact codeOpen_sim src
  | atx => exact atxOpen_sim src
  | fenced => exact fencedOpen_sim src
  | blockquote => exact blockquoteOpen_sim src
  | html => exact htmlOpen_sim src
  | paragraph => exact paragraphOpen_sim src

/-- **One line step, `Continue`.** The same for `Continue` (same answer in both runs) of six parsers from all
    related states; for the code block and the HTML block parser when there is a current line (`p < src.length`: on an
    exhausted reader they would store an empty segment, which the relation excludes for raw blocks — `NodeRel.rawNE`,
    `closNE`; the driver only calls `Continue` on a line); for fenced code blocks when the remembered fence indent is not
    negative and the rest of the line has a byte that is not a space (it fails only for a last line without `\n`
    consisting of exactly the fence's indentation, where goldmark calls `Advance(-1)`); for list items when there is a
    current line and the parent list's offsets are as `listParser.Continue` leaves them (`ListItemContPre`). -/
theorem quote_step_continue (src : Bytes) :
    (∀ bp, bp ≠ .fenced → bp ≠ .listItem → bp ≠ .code → bp ≠ .html → ContinueSim src bp) ∧
    (∀ bp, bp = .code ∨ bp = .html → ∀ k ls p node sA sB, SR src k ls p sA sB → p < src.length →
      S2 (fun a b sA' sB' => b = a ∧ ∃ p', p ≤ p' ∧ SR src k ls p' sA' sB')
        (bpContinue bp node sA) (bpContinue bp (node + 1) sB)) ∧
    (∀ k ls p node sA sB, SR src k ls p sA sB → FenceOK sA → (∃ c ∈ (viewA src ls p).getD [], c ≠ 32) →
      S2 (fun a b sA' sB' => b = a ∧ ∃ p', p ≤ p' ∧ SR src k ls p' sA' sB')
        (bpContinue .fenced node sA) (bpContinue .fenced (node + 1) sB)) ∧
    (∀ k ls p node sA sB, SR src k ls p sA sB → p < src.length →
      (isBlank ((viewA src ls p).getD []) = false → ListItemContPre src ls p node sA) →
      S2 (fun a b sA' sB' => b = a ∧ ∃ p', p ≤ p' ∧ SR src k ls p' sA' sB')
        (bpContinue .listItem node sA) (bpContinue .listItem (node + 1) sB)) := by
  refine ⟨fun bp h1 h2 h3 h4 => ?_, fun bp hbp => ?_, fencedContinue_sim' src, listItemContinue_sim' src⟩
  · cases bp with
    | setext => exact setextContinue_sim src
    | thematic => exact thematicContinue_sim src
    | list => exact listContinue_sim src
    | listItem => exact absurd rfl h2
    | code => exact absurd rfl h3
    | atx => exact atxContinue_sim src
    | fenced => exact absurd rfl h1
    | blockquote => exact blockquoteContinue_sim src
    | html => exact absurd rfl h4
    | paragraph => exact paragraphContinue_sim src
  · rcases hbp with rfl | rfl
    · exact codeContinue_sim' src
    · exact htmlContinue_sim' src

/-- **One line step, `Close`.** `Close` of every parser but the list parser is simulated (code block: the same trailing
    blank lines are dropped; paragraph: the trimmed lines stay the same lines moved — on a node that is not raw, because
    the relation keeps "no empty line segment" for raw blocks and trimming could empty a blank code line; setext
    heading: when its node is not the Document and not raw and the temporary-paragraph key does not point to the
    Document). The driver supplies the side conditions: it carries "blocks opened by the paragraph / setext parser have
    nodes that are not raw" (`AInv.pk`). `listParser.Close`, which reads `HasBlankPreviousLines`: when the flags it
    reads agree in the two runs (`FlagsOK`: the own flag of every item but the first, the flags of every item's children
    but the first) — then `IsTight` is the same and the same paragraphs become text blocks. That these flags agree on
    reachable states is NOT proved (it is what whole documents with lists still need). -/
theorem quote_step_close (src : Bytes) :
    (∀ bp, bp ≠ .list → bp ≠ .setext → bp ≠ .paragraph → CloseSim src bp) ∧
    (∀ k ls p node sA sB, SR src k ls p sA sB →
      FlagsOK sA.nodes sB.nodes (sA.nodes.getD node default).children true →
      S2 (fun _ _ sA' sB' => SR src k ls p sA' sB') (bpClose .list node sA) (bpClose .list (node + 1) sB)) ∧
    (∀ k ls p node sA sB, SR src k ls p sA sB → rawK (sA.nodes.getD node default).kind = false →
      S2 (fun _ _ sA' sB' => SR src k ls p sA' sB') (bpClose .paragraph node sA) (bpClose .paragraph (node + 1) sB)) ∧
    (∀ k ls p node sA sB, SR src k ls p sA sB → node ≠ 0 → sA.pc.tmpPara ≠ some 0 →
      rawK (sA.nodes.getD node default).kind = false →
      S2 (fun _ _ sA' sB' => SR src k ls p sA' sB') (bpClose .setext node sA) (bpClose .setext (node + 1) sB)) := by
  refine ⟨fun bp h1 h2 h3 => ?_, listClose_sim' src, paragraphClose_sim' src, setextClose_sim' src⟩
  cases bp with
  | setext => exact absurd rfl h2
  | thematic => exact thematicClose_sim src
  | list => exact absurd rfl h1
  | listItem => exact listItemClose_sim src
  | code => exact codeClose_sim src
  | atx => exact atxClose_sim src
  | fenced => exact fencedClose_sim src
  | blockquote => exact blockquoteClose_sim src
  | html => exact htmlClose_sim src
  | paragraph => exact absurd rfl h3

/-- **The driver, `openBlocks`.** For every set `al` of parsers whose steps are simulated (`PS`) and that covers the
    parsers a line of `src` can trigger (`TrigOK`), with the unary facts `Frames` about run A (all proved:
    `frames_all`) and every reader position inside a line having a non-space byte in front of it (`NS`: sources
    ending with `\n`): `openBlocks parent` in A and `openBlocks (parent+1)` in B — the whole `goto retry` loop,
    including the RequireParagraph path, closing a detached last block and the contract monitor, whose measure
    differs by a constant of the line — give the same result and end in related states. -/
theorem quote_driver_open_blocks {src : Bytes} {al : BP → Bool} (ps : PS src al) (fr : Frames al) (ot : OT src) (ns : NS src)
    (tr : TrigOK src al) (bA bB : Bool) (hb : FL src → bB = bA) (q : Nat) {k ls p : Nat} {sA sB : St}
    (h : DRL src al k ls p sA sB) (hq : q < sA.nodes.length) (hbq : al .setext = false → (bB = bA ∨ q = 0)) :
    S2 (fun a b sA' sB' => b = a ∧ ∃ p', DR src al k ls p' sA' sB') (openBlocks q bA sA) (openBlocks (q + 1) bB sB) :=
  S2.mono (openBlocks_sim ps fr ot ns tr bA bB hb q h hq hbq) (fun _ _ _ _ hh => ⟨hh.1, hh.2.1⟩)

/-- **The driver, one line.** The loop of parseBlocks over the opened blocks (parser.go:1081-1123) — A at levels
    `i, i+1, …`, B one level deeper, B's `openedBlocks` being A's with the Blockquote in front — ends both in
    `next` with related states or both at the end of the source with related node stores. -/
theorem quote_driver_line {src : Bytes} {al : BP → Bool} (ps : PS src al) (fr : Frames al) (ot : OT src) (ns : NS src)
    (tr : TrigOK src al) (ob : List Block) (L : Int) (rest : List Block) (hsub : ∀ b ∈ rest, b ∈ ob) (i : Int)
    (hi : 0 ≤ i) (stA stB : List LineStat) {k ls p : Nat} {sA sB : St} (h : DR src al k ls p sA sB)
    (hop : sA.pc.opened = ob) (hL : L = (ob.length : Int) - 1) (hcur : FL src → CUR (k : Int) i stA stB)
    (hi0 : i = 0 → p = ls) (pre : List Block) (hm : Sh.MidA src ob pre rest i sA) (hcg : CURG (k : Int) i stA stB) :
    S2 (LLRel src al k ls (loOf i rest)) (lineLoop 0 ob L rest i stA sA)
      (lineLoop 0 (bqBlock :: ob.map shB) (L + 1) (rest.map shB) (i + 1) stB sB) :=
  lineLoop_sim ps fr ot ns tr ob L rest hsub i hi stA stB h hop hL hcur hi0 pre hm hcg

/-- **The driver, `closeBlocks`.** `closeBlocks(from, to)` in A and `closeBlocks(from+1, to+1)` in B. -/
theorem quote_driver_close_blocks {src : Bytes} {al : BP → Bool} (ps : PS src al) (fr : Frames al) {k ls p : Nat}
    {sA sB : St} (h : DR src al k ls p sA sB) (frm to : Int) :
    S2 (fun _ _ sA' sB' => DR src al k ls p sA' sB') (closeBlocks frm to sA) (closeBlocks (frm + 1) (to + 1) sB) :=
  S2.mono (closeBlocks_sim ps fr h frm to) (fun _ _ _ _ hh => hh.1)

/-- **A line that is not blank always opens a block** (the fact that makes the original run read every line; it was
    an assumption — `ReadToEnd` — of the whole-run theorem before). For every tab-free source in which every position
    inside a line has a rest of line with a byte that is not a space (`NS`: sources ending with `\n`) and every covered
    parser set: from related states inside a line, with nothing open in the original run and a rest of line that is not blank, `openBlocks` answers
    `newBlocksOpened`: every candidate list of parser.go:842-850 ends with the code block and the paragraph parser, a
    declining `Open` leaves the reader where it was, the paragraph parser opens on such a line indented by at most
    three columns, the code block parser on one indented by more. (The two runs still answer the same and end in
    related states: `quote_driver_open_blocks`.) -/
theorem nonblank_line_opens_block {src : Bytes} {al : BP → Bool} (ps : PS src al) (fr : Frames al) (ot : OT src) (ns : NS src)
    (tr : TrigOK src al) (bA bB : Bool) (hb : FL src → bB = bA) (q : Nat) {k ls p : Nat} {sA sB : St}
    (h : DRL src al k ls p sA sB) (hq : q < sA.nodes.length) (hbq : al .setext = false → (bB = bA ∨ q = 0))
    (ho : sA.pc.opened = []) (hnb : isBlank ((viewA src ls p).getD []) = false) (a : OpenResult) (sA' : St)
    (hA : openBlocks q bA sA = .ok (a, sA')) : a = .newBlocksOpened := by
  obtain ⟨_, _, _, _, _, hh⟩ := openBlocks_sim ps fr ot ns tr bA bB hb q h hq hbq a sA' hA
  exact hh ho hnb

/-- **Whole runs.** For every source without tab and CR that ends with a line feed and has no byte that can start a
    list item (`C08Class`): the block phase on `D` ends normally (`GM.Props.Blocks.no_panic`), and so does the block
    phase on `quotePrefix D` (no panic, no contract violation, enough fuel), in a state whose node store is the
    original one with one more node in front, the original Document being the Blockquote, and every segment moved by
    the markers in front of its line; and the original store satisfies `UStore`: the Document has no lines and is
    nobody's child, and there is no List / ListItem node. NO assumption about the original run is left here. -/
theorem quote_prefix_run {src : Bytes} (hc : C08Class src) :
    ∃ sA sB, GM.Blocks.run src = .ok sA ∧ GM.Blocks.run (quotePrefix src) = .ok sB ∧
      StoreRel src sA.nodes sB.nodes ∧ UStore sA.nodes := by
  obtain ⟨sA, hA⟩ := GM.Props.Blocks.no_panic src
  obtain ⟨sB, hB, hn, hu, hk, _⟩ := run_sim hc.wide.wider hA
  exact ⟨sA, sB, hA, hB, hn, ustore_of_L hu (hk rfl)⟩

/-- **`QuotePrefixSimulation` for the class — UNCONDITIONAL** (`GM.Props.Blocks.QuotePrefixSimulation`, the tree-level
    statement of C08). For every source of `C08Class` (no tab, no CR, ends with a line feed, none of `- * + 0-9`): the
    block tree of the prefixed source is Document[Blockquote[children of the original Document, every segment moved by
    `shiftSeg`]], all printed fields equal. Nothing about the original run is assumed any more: it ends normally
    (`no_panic`), reads every line (`nonblank_line_opens_block`), leaves the Document without lines and nobody's child,
    builds no List / ListItem node (`quote_prefix_run`), and stores no empty segment (`original_run_well_shaped`: raw
    blocks, info and closure segments through the simulation — `NodeRel.rawNE / infoNE / closNE` —, all other blocks by
    `GM.Props.Wf0.inline_segments_nonempty` of package wf0). -/
theorem quote_prefix_simulation_class {src : Bytes} (hc : C08Class src) : GM.Props.Blocks.QuotePrefixSimulation src := by
  obtain ⟨sA, hA⟩ := GM.Props.Blocks.no_panic src
  exact quoteSim_of_class hc.wide.wider hA

/-- **The same without the final line feed** (`C08ClassW`: no tab, no CR, none of `- * + 0-9`, not empty, and the last
    byte is not a space — it may or may not be a line feed): `QuotePrefixSimulation D`, unconditionally. What the last
    line without `\n` needed: the parser/kind consistency of the open blocks (`AInv.pk`) makes `openBlocks`' exit
    `continuable:` call `paragraphParser.Continue` — also at the end of the source, where the other `Continue`s are not
    simulated (`HC`, `toContinuable_sim`); `AdvanceLine` from behind the last line (`advanceLine_LS`); blank lines still
    end with `\n` (`blank_shape_w`). Excluded: a last line without `\n` that ends with a space — there
    `fencedCodeBlockParser.Continue` can see a rest of line of spaces only and calls `Advance(-1)`. -/
theorem quote_prefix_simulation_nofinalnl {src : Bytes} (hc : C08ClassW src) :
    GM.Props.Blocks.QuotePrefixSimulation src := by
  obtain ⟨sA, hA⟩ := GM.Props.Blocks.no_panic src
  exact quoteSim_of_class hc.wider hA

/-- **Documents without list items** (`C08ClassL`: no tab, no CR, not empty, last byte not a space, and NO POSITION OF
    THE SOURCE STARTS A LIST ITEM — `NoItem`: nowhere is a bullet `-` `*` `+`, or a number of at most nine digits with `.`
    or `)`, followed by a space, a tab, a line end or the end of the source; digits, hyphens, `*emphasis*`, `+1` … are
    allowed): `QuotePrefixSimulation D`, unconditionally. The two list parsers are tried on such documents (the trigger
    table of parser.go:842-850 is the full one); their `Open` is simulated and declines in both runs
    (`listOpen_declines`: `matchesListItem` on the rest of the line; `listItemOpen_declines`: the parent is no List), so
    no List is ever opened and `listParser.Close` / the blank-line flags are never needed. -/
theorem quote_prefix_simulation_noitems {src : Bytes} (hc : C08ClassL src) :
    GM.Props.Blocks.QuotePrefixSimulation src := by
  obtain ⟨sA, hA⟩ := GM.Props.Blocks.no_panic src
  exact quoteSim_of_class hc hA

/-- **Documents WITH LISTS, without a blank line** (`C08ClassF`: no tab, no CR, not empty, last byte not a space, and
    no line of the source is blank — `FL`): `QuotePrefixSimulation D`, unconditionally, with ALL TEN block parsers in
    both runs — bullet and ordered lists, nested lists, lists in block quotes, tight lists, list items interrupted by
    other blocks, and also `---`, `***`, `a - b`, which the earlier classes excluded. The three list-specific
    obligations: (1) the `HasBlankPreviousLines` flags that `listParser.Close` reads and the dump prints are equal in
    both runs on every node but the Document (`NodeRel.blank`): in a source without a blank line every `openBlocks`
    call gets the same flag — the blank-line statistics of A at level `i` and of B at level `i + 1` answer alike
    (`GM.Blocks.cur_query`, `lst_next`), the only unshifted calls (children of the Document) answer `false` in both runs
    after line 0 and `true` in both on line 0; (2) `ListItemContPre` ("the block below an open ListItem is its parent
    List, whose last item's offset is not negative, and `IndentPosition` is only asked for an indentation that is
    there") from run A's invariant in the middle of a pass (`Sh.MidA`, the no-panic proof's `StableL`/`ChainedO`/
    `ListHint`), threaded through `lineLoop_sim`; (3) the driver's unary invariants for the list parsers
    (`frames_lists`), the List / ListItem kinds in `tree_simL`, and the flags in the dump (`FlagsEq`). -/
theorem quote_prefix_simulation_lists {src : Bytes} (hc : C08ClassF src) :
    GM.Props.Blocks.QuotePrefixSimulation src := by
  obtain ⟨sA, hA⟩ := GM.Props.Blocks.no_panic src
  exact quoteSim_of_classF hc hA

/-- the same with the provisos spelled out, the empty document included -/
theorem quote_prefix_simulation_lists_all (src : Bytes) (htf : ∀ c ∈ src, c ≠ 9) (hcr : ∀ c ∈ src, c ≠ 13)
    (hfl : FL src) (hl : ∀ c, src.getLast? = some c → c ≠ 32) : GM.Props.Blocks.QuotePrefixSimulation src := by
  by_cases he : src = []
  · subst he
    intro e g h
    have : quoteSimPair [] = none := rfl
    rw [this] at h
    cases h
  · exact quote_prefix_simulation_lists ⟨htf, hcr, he, hl, hfl⟩

/-- whole runs with lists: both block phases end normally, the stores are related (flags included), the original
    store is well shaped (no empty segment, the Document nobody's child) -/
theorem quote_prefix_run_lists {src : Bytes} (hc : C08ClassF src) :
    ∃ sA sB, GM.Blocks.run src = .ok sA ∧ GM.Blocks.run (quotePrefix src) = .ok sB ∧
      StoreRel src sA.nodes sB.nodes ∧ WellShapedL sA ∧ FlagsEq sA.nodes sB.nodes := by
  obtain ⟨sA, hA⟩ := GM.Props.Blocks.no_panic src
  obtain ⟨sB, hB, hn, hu, _⟩ := run_sim_lists hc hA
  exact ⟨sA, sB, hA, hB, hn, wellShapedL_of hu (segsNE_of_rel hA hn), flagsEq_of_rel hc.noblank hn⟩

/-- **Documents WITH LISTS AND BLANK LINES** (`C08ClassG`: no tab, no CR, not empty, last byte not a space, and no
    position starts a setext heading underline — `NoBar`: no rest of a line consists of `=` only or of `-` only, up to
    trailing spaces): `QuotePrefixSimulation D`, unconditionally. Loose and tight lists, paragraphs / headings / fences
    / lists after blank lines, nested containers. Here the `HasBlankPreviousLines` flags of the two runs DIFFER: on a
    child of the Document opened after a blank line the original run sets `true`, the prefixed run `false`
    (parser.go:1099: its Blockquote's statistics entry for the previous line is not blank), and so on the chain of first
    children opened in the same `openBlocks` call. Nobody reads those flags; the simulation carries the store relation
    `FE` — equal flags on every child BUT THE FIRST of every node BUT THE DOCUMENT — which is what `listParser.Close`
    (`flagsOK_of_fe`) and the dump (`quoteSimPair_eqF`) read. It is kept across every `Open` / `Continue` / `Close` as
    a UNIT (`S2.withFE`, `fe_step`) from unary facts of both runs (flags of existing nodes unchanged, new nodes
    unflagged: `BPn`; a child that is not the first afterwards was not the first before or is new: `CHn`, with
    `replaceChild` treated as a unit), across the driver's `SetBlankPreviousLines` (`fe_setFlag`: the node an `Open`
    returns is nobody's child until it is appended, `Unref`, from "all ids in range", `RStore`) and `AppendChild`
    (`fe_append`: equal flags — every call below an opened container, by the statistics relation `CURG`, now for
    sources with blank lines too: `lstG_reset` —, or the parent is the Document, or the parent has no child yet: the
    container the same call has just opened, `QE`). The setext heading parser — whose `Close` copies the paragraph's
    flag to the heading while the heading stands behind it — is tried and declines (`NoBar`, `setextOpen_declines`). -/
theorem quote_prefix_simulation_lists_blank {src : Bytes} (hc : C08ClassG src) :
    GM.Props.Blocks.QuotePrefixSimulation src := by
  obtain ⟨sA, hA⟩ := GM.Props.Blocks.no_panic src
  exact quoteSim_of_classG hc hA

/-- the same with the provisos spelled out, the empty document included -/
theorem quote_prefix_simulation_lists_blank_all (src : Bytes) (htf : ∀ c ∈ src, c ≠ 9) (hcr : ∀ c ∈ src, c ≠ 13)
    (hnb : NoBar src) (hl : ∀ c, src.getLast? = some c → c ≠ 32) : GM.Props.Blocks.QuotePrefixSimulation src := by
  by_cases he : src = []
  · subst he
    intro e g h
    have : quoteSimPair [] = none := rfl
    rw [this] at h
    cases h
  · exact quote_prefix_simulation_lists_blank ⟨htf, hcr, he, hl, hnb⟩

/-- whole runs with lists and blank lines: both block phases end normally, the stores are related, the flags agree
    wherever the block phase reads them (`FE`), the original store is well shaped -/
theorem quote_prefix_run_lists_blank {src : Bytes} (hc : C08ClassG src) :
    ∃ sA sB, GM.Blocks.run src = .ok sA ∧ GM.Blocks.run (quotePrefix src) = .ok sB ∧
      StoreRel src sA.nodes sB.nodes ∧ WellShapedL sA ∧ FE sA.nodes sB.nodes := by
  obtain ⟨sA, hA⟩ := GM.Props.Blocks.no_panic src
  obtain ⟨sB, hB, hn, hu, _, hfe⟩ := run_sim_listsG hc hA
  exact ⟨sA, sB, hA, hB, hn, wellShapedL_of hu (segsNE_of_rel hA hn), hfe rfl⟩

/-- **`setextHeadingParser.Close` and the flags** (the step that keeps `quote_prefix_simulation_lists_blank` from covering
    setext underlines): from stores with `FE` (equal `HasBlankPreviousLines` on every child but the first of every node
    but the Document), `Close` of the heading `node` in the original run and of `node + 1` in the prefixed run — which
    COPIES the flag of the temporary paragraph `t` to the heading and removes the paragraph, or, when the paragraph has
    no lines left, inserts a new paragraph and removes the heading — ends in stores with `FE` again, PROVIDED the heading
    is the paragraph's next sibling and occurs nowhere else (`ADJ`): the heading then stands where the paragraph stood.
    `ADJ` on the reachable states of the original run is the one fact missing for the full statement. -/
theorem quote_setext_close_keeps_flags {sA sA' sB sB' : St} {node t : Nat} {uA uB : Unit} (hfe : FE sA.nodes sB.nodes)
    (hlen : sB.nodes.length = sA.nodes.length + 1) (htA : sA.pc.tmpPara = some t)
    (htB : sB.pc.tmpPara = some (t + 1)) (hne : node ≠ t) (hnode : node < sA.nodes.length)
    (hlines : ((sB.nodes.getD (t + 1) default).lines.length == 0) = ((sA.nodes.getD t default).lines.length == 0))
    (hadj : ADJ sA.nodes t node) (eA : bpClose .setext node sA = .ok (uA, sA'))
    (eB : bpClose .setext (node + 1) sB = .ok (uB, sB')) : FE sA'.nodes sB'.nodes :=
  fe_bpClose_setext hfe hlen htA htB hne hnode hlines hadj eA eB

/-- **The blank-line flags in whole runs** (the first of the three pieces, as a statement about ANY covered parser
    set): for a source without a blank line, related final stores have equal `HasBlankPreviousLines` flags on every
    node but the Document. -/
theorem quote_flags_equal {src : Bytes} (hfl : FL src) {nA nB : List GM.Blocks.Node} (hn : StoreRel src nA nB) :
    FlagsEq nA nB := flagsEq_of_rel hfl hn

/-- the same with the provisos spelled out, the empty document included (for which the statement holds vacuously) -/
theorem quote_prefix_simulation_nolist (src : Bytes) (htf : ∀ c ∈ src, c ≠ 9) (hcr : ∀ c ∈ src, c ≠ 13)
    (hno : NoItem src) (hl : ∀ c, src.getLast? = some c → c ≠ 32) : GM.Props.Blocks.QuotePrefixSimulation src := by
  by_cases he : src = []
  · subst he
    intro e g h
    have : quoteSimPair [] = none := rfl
    rw [this] at h
    cases h
  · exact quote_prefix_simulation_noitems ⟨htf, hcr, he, hl, hno⟩

/-- **What is proved of `QuotePrefixSimulationAll`, in one statement**: every tab- and CR-free source that does not end
    with a space and lacks AT LEAST ONE of: a position that starts a list item (`NoItem`), a blank line (`FL`), a
    position that starts a setext heading underline (`NoBar`). The gap: sources with all three (there
    `setextHeadingParser.Close` copies a `HasBlankPreviousLines` flag that may differ between the runs), and a last line
    without line feed that ends with a space. -/
theorem quote_prefix_simulation_union (src : Bytes) (htf : ∀ c ∈ src, c ≠ 9) (hcr : ∀ c ∈ src, c ≠ 13)
    (hl : ∀ c, src.getLast? = some c → c ≠ 32) (h : NoItem src ∨ FL src ∨ NoBar src) :
    GM.Props.Blocks.QuotePrefixSimulation src := by
  rcases h with h | h | h
  · exact quote_prefix_simulation_nolist src htf hcr h hl
  · exact quote_prefix_simulation_lists_all src htf hcr h hl
  · exact quote_prefix_simulation_lists_blank_all src htf hcr h hl

/-- whole runs for the wider class: both block phases end normally, the stores are related, the original store is
    well shaped -/
theorem quote_prefix_run_nofinalnl {src : Bytes} (hc : C08ClassW src) :
    ∃ sA sB, GM.Blocks.run src = .ok sA ∧ GM.Blocks.run (quotePrefix src) = .ok sB ∧
      StoreRel src sA.nodes sB.nodes ∧ WellShaped sA := by
  obtain ⟨sA, hA⟩ := GM.Props.Blocks.no_panic src
  obtain ⟨sB, hB, hn, hu, hk, _⟩ := run_sim hc.wider hA
  exact ⟨sA, sB, hA, hB, hn, wellShaped_of (ustore_of_L hu (hk rfl)) (segsNE_of_rel hA hn)⟩

/-- the name of the earlier versions (`partial` now only refers to the class of sources) -/
theorem quote_prefix_simulation_partial {src : Bytes} (hc : C08Class src) : GM.Props.Blocks.QuotePrefixSimulation src :=
  quote_prefix_simulation_class hc

/-- **The former assumptions about the original run are theorems**: for every source of the class the final state of
    the original run is `WellShaped` — the Document has no lines, no List / ListItem node, no empty line / info /
    closure segment, node 0 is nobody's child. (The driver oracle `blocks quotesimhyp` evaluates exactly this, and
    "all lines read"; it is kept as a regression oracle of the model.) -/
theorem original_run_well_shaped {src : Bytes} (hc : C08Class src) {sA : St} (hA : GM.Blocks.run src = .ok sA) :
    WellShaped sA := by
  obtain ⟨sB, _, hn, hu, hk, _⟩ := run_sim hc.wide.wider hA
  exact wellShaped_of (ustore_of_L hu (hk rfl)) (segsNE_of_rel hA hn)

/-- the same, from the executable test `GM.Blocks.quoteHypB` (GM/Spec/QuoteHyp.lean: the class and the facts about
    the original run as one Bool — it still evaluates ALL the former assumptions, a superset of `SegsNE`; the driver
    evaluates it — op `blocks quotesimhyp` — on every source of the class that the `blocks` correspondence generates) -/
theorem quote_prefix_simulation_checked {src : Bytes} (h : quoteHypB src = true) :
    GM.Props.Blocks.QuotePrefixSimulation src :=
  quoteSim_of_hypB src h

/-- **The full statement of C08 on block trees — NOT PROVED.** `QuotePrefixSimulation D` for every tab- and CR-free,
    non-blank `D` (for other `D` it holds vacuously: `quoteSimPair` answers `none`). Proved: the instance
    `quote_prefix_simulation_class`, `quote_prefix_simulation_nofinalnl` (unconditional for their classes). Missing:
    (1) list items: the `HasBlankPreviousLines` flags of list items and of children of list items must be related (they
    are equal, all 516k evaluated cases) through the blank-line statistics of parseBlocks, for `listParser.Close`, and
    `listItemParser.Continue` needs "the parent list's Continue just answered Continue" (`ListItemContPre`); (2) a last
    line without `\n` that ends with a space (`Advance(-1)` in `fencedCodeBlockParser.Continue`; the empty segment it
    stores needs the `lineNo` form of `SegRel`). -/
def QuotePrefixSimulationAll : Prop :=
  ∀ src : Bytes, GM.Props.Blocks.QuotePrefixSimulation src

/-! ### non-vacuity and tests for the block-level theorems -/

-- the class and the three facts about the original run are satisfiable together: a document with an ATX and a setext
-- heading, paragraphs, nested quotes, fenced and indented code, an HTML block and a thematic break
example : quoteHypB (strBytes "a\n===\n\n~~~x\n  \ncode\n~~~\n> q\n> > r\n\n<div>\nh\n</div>\n\n    ind\n___\n# t\n") = true := by
  decide +kernel
-- hence the theorem applies to it
example : GM.Props.Blocks.QuotePrefixSimulation
    (strBytes "a\n===\n\n~~~x\n  \ncode\n~~~\n> q\n> > r\n\n<div>\nh\n</div>\n\n    ind\n___\n# t\n") :=
  quote_prefix_simulation_checked (by decide +kernel)
-- test: the executable statement on the same document
example : GM.Blocks.quoteSim (strBytes "a\n===\n\n~~~x\n  \ncode\n~~~\n> q\n> > r\n\n<div>\nh\n</div>\n\n    ind\n___\n# t\n") = "ok" := by
  decide +kernel
-- the remaining assumption `SegsNE` is satisfiable together with the class (same document), so the class theorem applies
example : C08Class (strBytes "a\n===\n\n~~~x\n  \ncode\n~~~\n> q\n> > r\n\n<div>\nh\n</div>\n\n    ind\n___\n# t\n") := by
  decide +kernel
example : (match GM.Blocks.run (strBytes "a\n===\n\n~~~x\n  \ncode\n~~~\n> q\n> > r\n\n<div>\nh\n</div>\n\n    ind\n___\n# t\n") with
    | .ok s => decide (SegsNE s) | .error _ => false) = true := by decide +kernel
-- the unconditional whole-run theorem on it: both runs end normally
example : ∃ sA sB, GM.Blocks.run (strBytes "a\n\n> q\n") = .ok sA ∧ GM.Blocks.run (quotePrefix (strBytes "a\n\n> q\n")) = .ok sB ∧
    StoreRel (strBytes "a\n\n> q\n") sA.nodes sB.nodes ∧ UStore sA.nodes :=
  quote_prefix_run (by decide +kernel)
-- the unconditional theorem applied to it
example : GM.Props.Blocks.QuotePrefixSimulation
    (strBytes "a\n===\n\n~~~x\n  \ncode\n~~~\n> q\n> > r\n\n<div>\nh\n</div>\n\n    ind\n___\n# t\n") :=
  quote_prefix_simulation_class (by decide +kernel)
-- the wider class: no final line feed (fenced code block open at the end, paragraph in a quote, heading)
example : GM.Props.Blocks.QuotePrefixSimulation (strBytes "# t\n> q\nlazy\n\n~~~\ncode") :=
  quote_prefix_simulation_nofinalnl (by decide +kernel)
example : GM.Blocks.quoteSim (strBytes "# t\n> q\nlazy\n\n~~~\ncode") = "ok" := by decide +kernel
example : ¬ C08ClassW (strBytes "~~~\n  ") := by decide +kernel
-- documents without list items: digits, hyphens, emphasis, a `+` — but no list marker
example : GM.Props.Blocks.QuotePrefixSimulation
    (strBytes "In 1986 a well-known *fact*:\n> 2+2=4 (see p.12a)\n\n    code-1\n___\n# 3rd") :=
  quote_prefix_simulation_noitems (by decide +kernel)
example : ¬ C08ClassL (strBytes "a - b\n") := by decide +kernel
example : ¬ C08ClassL (strBytes "---\n") := by decide +kernel
-- the class excludes list markers and a missing final line feed
example : ¬ C08Class (strBytes "- a\n") := by decide +kernel
example : ¬ C08Class (strBytes "a") := by decide +kernel
-- the hypotheses of the one-line-step lemmas are satisfiable: the relation holds at the start of the runs
example : StoreRel (strBytes "a\n") [{ kind := .document }]
    [{ kind := .document, children := [1] }, { kind := .blockquote, parent := some 0, blankPrev := true }] :=
  storeRel_init _ true

/-- tests: documents with lists are in the class of `quote_prefix_simulation_lists` (non-vacuity), the statement is not
    vacuous on them (`quoteSim … = "ok"` means `quoteSimPair` is `some` pair of equal dumps), and the thematic breaks /
    hyphens that the `NoItem` class excluded are admitted -/
example : C08ClassF (strBytes "- a\n  b\n- c\n  1. d\n  2. e\n> * q\n>   r\n***\n+ x\ny - z\n---\n") := by decide +kernel
example : GM.Props.Blocks.QuotePrefixSimulation
    (strBytes "- a\n  b\n- c\n  1. d\n  2. e\n> * q\n>   r\n***\n+ x\ny - z\n---\n") :=
  quote_prefix_simulation_lists (by decide +kernel)
example : GM.Blocks.quoteSim (strBytes "- a\n  b\n- c\n  1. d\n  2. e\n> * q\n>   r\n***\n+ x\ny - z\n---\n") = "ok" := by
  decide +kernel
example : C08ClassF (strBytes "a - b\n") ∧ C08ClassF (strBytes "---\n") ∧ C08ClassF (strBytes "1. a\n   - b") := by decide +kernel
example : ¬ C08ClassF (strBytes "- a\n\n- b\n") := by decide +kernel
-- lists AND blank lines: a paragraph, a loose list with a nested ordered list, a quote with a list, a thematic break
example : C08ClassG (strBytes "a\n\n- b\n\n  c\n- d\n  1. e\n\n  2. f\n\n> * q\n>\n> * r\n\n***\n# h\n\ng") := by decide +kernel
example : GM.Props.Blocks.QuotePrefixSimulation
    (strBytes "a\n\n- b\n\n  c\n- d\n  1. e\n\n  2. f\n\n> * q\n>\n> * r\n\n***\n# h\n\ng") :=
  quote_prefix_simulation_lists_blank (by decide +kernel)
example : GM.Blocks.quoteSim (strBytes "a\n\n- b\n\n  c\n- d\n  1. e\n\n  2. f\n\n> * q\n>\n> * r\n\n***\n# h\n\ng") = "ok" := by
  decide +kernel
example : ¬ C08ClassG (strBytes "a\n===\n") ∧ ¬ C08ClassG (strBytes "---\n") := by decide +kernel

end blocks

/-- (re-export of `GM.Props.C08E2E.renderer_wraps_blockquote`) **the renderer on Document[Blockquote[xs]]** (html.go:renderBlockquote): `<blockquote>⏎`, the children, `</blockquote>⏎` — for
    every renderer configuration and every list of children -/
theorem renderer_wraps_blockquote : type_of% @GM.Props.C08E2E.renderer_wraps_blockquote := @GM.Props.C08E2E.renderer_wraps_blockquote

/-- (re-export of `GM.Props.C08E2E.parse_quote_prefix_of_store_relation`) **C08 at the level of the renderer's tree, from the store relation**: `parseDoc` of the block-quoted source is
    Document[Blockquote[children of `parseDoc D`]] -/
theorem parse_quote_prefix_of_store_relation : type_of% @GM.Props.C08E2E.parse_quote_prefix_of_store_relation := @GM.Props.C08E2E.parse_quote_prefix_of_store_relation

/-- (re-export of `GM.Props.C08E2E.convert_quote_prefix_of_store_relation`) **C08 at HTML level, from the store relation** (any class of sources for which the block-level simulation is proved) -/
theorem convert_quote_prefix_of_store_relation : type_of% @GM.Props.C08E2E.convert_quote_prefix_of_store_relation := @GM.Props.C08E2E.convert_quote_prefix_of_store_relation

/-- (re-export of `GM.Props.C08E2E.convert_quote_prefix`) **`convert_quote_prefix` — C08 at HTML level, documents with lists and blank lines**: for every option set, every source of
    `C08ClassG` (no tab, no CR, not empty, last byte not a space, no setext underline pattern) without `[`, given the inline
    invariant for this source -/
theorem convert_quote_prefix : type_of% @GM.Props.C08E2E.convert_quote_prefix := @GM.Props.C08E2E.convert_quote_prefix

/-- (re-export of `GM.Props.C08E2E.convert_quote_prefix_lists`) the same for `C08ClassF` (lists, no blank line) -/
theorem convert_quote_prefix_lists : type_of% @GM.Props.C08E2E.convert_quote_prefix_lists := @GM.Props.C08E2E.convert_quote_prefix_lists

/-- (re-export of `GM.Props.C08E2E.convert_quote_prefix_no_final_newline`) the same for `C08ClassW` (no final line feed needed, none of `- * + 0-9`) -/
theorem convert_quote_prefix_no_final_newline : type_of% @GM.Props.C08E2E.convert_quote_prefix_no_final_newline := @GM.Props.C08E2E.convert_quote_prefix_no_final_newline

/-- (re-export of `GM.Props.C08E2E.convert_quote_prefix_raw_leaves`) **without the inline hypothesis: documents whose leaves are raw blocks** — every block with lines is a CodeBlock, a
    FencedCodeBlock or an HTMLBlock (in any nesting of lists and quotes of the class) -/
theorem convert_quote_prefix_raw_leaves : type_of% @GM.Props.C08E2E.convert_quote_prefix_raw_leaves := @GM.Props.C08E2E.convert_quote_prefix_raw_leaves

/-- (re-export of `GM.Props.C08E2E.inline_invariant_good_lines`) **the inline hypothesis holds for blocks of plain-text lines** (cmfrag's `GoodLine`), wherever the lines lie -/
theorem inline_invariant_good_lines : type_of% @GM.Props.C08E2E.inline_invariant_good_lines := @GM.Props.C08E2E.inline_invariant_good_lines

/-- (re-export of `GM.Props.C08E2E.convert_quote_prefix_good_lines`) **without the inline hypothesis: any block structure of the class, plain-text inline content** — every Paragraph / Heading /
    TextBlock of the block tree of `D` consists of good lines (`GoodBlocks`) -/
theorem convert_quote_prefix_good_lines : type_of% @GM.Props.C08E2E.convert_quote_prefix_good_lines := @GM.Props.C08E2E.convert_quote_prefix_good_lines

/-- (re-export of `GM.Props.C08E2E.convert_quote_prefix_checked`) **… with decidable hypotheses**: `C08ClassG D`, `NoBracket D` and `goodLinesCheck D` are decidable -/
theorem convert_quote_prefix_checked : type_of% @GM.Props.C08E2E.convert_quote_prefix_checked := @GM.Props.C08E2E.convert_quote_prefix_checked

/-- (re-export of `GM.Props.C08E2ETotal.convert_quote_prefix_total`) **C08 at HTML level, lists and blank lines (`C08ClassG`), no `[`, given the inline invariant for `D`**: `D` converts, and the
    block-quoted source converts to `<blockquote>⏎` + that HTML + `</blockquote>⏎` -/
theorem convert_quote_prefix_total : type_of% @GM.Props.C08E2ETotal.convert_quote_prefix_total := @GM.Props.C08E2ETotal.convert_quote_prefix_total

/-- (re-export of `GM.Props.C08E2ETotal.convert_quote_prefix_lists_total`) the same for `C08ClassF` (lists, no blank line) -/
theorem convert_quote_prefix_lists_total : type_of% @GM.Props.C08E2ETotal.convert_quote_prefix_lists_total := @GM.Props.C08E2ETotal.convert_quote_prefix_lists_total

/-- (re-export of `GM.Props.C08E2ETotal.convert_quote_prefix_no_final_newline_total`) the same for `C08ClassW` (no final line feed needed) -/
theorem convert_quote_prefix_no_final_newline_total : type_of% @GM.Props.C08E2ETotal.convert_quote_prefix_no_final_newline_total := @GM.Props.C08E2ETotal.convert_quote_prefix_no_final_newline_total

/-- (re-export of `GM.Props.C08E2ETotal.convert_quote_prefix_raw_leaves_total`) **no inline hypothesis: documents whose leaves are raw blocks** -/
theorem convert_quote_prefix_raw_leaves_total : type_of% @GM.Props.C08E2ETotal.convert_quote_prefix_raw_leaves_total := @GM.Props.C08E2ETotal.convert_quote_prefix_raw_leaves_total

/-- (re-export of `GM.Props.C08E2ETotal.convert_quote_prefix_good_lines_total`) **no inline hypothesis: any block structure of the class, plain-text inline content** (`GoodBlocks`) -/
theorem convert_quote_prefix_good_lines_total : type_of% @GM.Props.C08E2ETotal.convert_quote_prefix_good_lines_total := @GM.Props.C08E2ETotal.convert_quote_prefix_good_lines_total

/-- (re-export of `GM.Props.C08E2ETotal.convert_quote_prefix_checked_total`) **… all hypotheses decidable** (`C08ClassG D`, `NoBracket D`, `goodLinesCheck D`) -/
theorem convert_quote_prefix_checked_total : type_of% @GM.Props.C08E2ETotal.convert_quote_prefix_checked_total := @GM.Props.C08E2ETotal.convert_quote_prefix_checked_total

end GM.Props.C08
