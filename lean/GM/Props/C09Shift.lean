/-
  GM.Props.C09Shift — property C09, first half ("closed blocks render independently"), step (iii) of its proof plan:
  SHIFT INVARIANCE of the block phase, proved by a simulation between two runs of the executable block-phase model
  `GM.Model.Blocks` (tied to goldmark's parser by the `blocks` / `blockindep` correspondences).

  Setting. Run A is `GM.Blocks.run b` (source `b`). Run B works on `p ++ b` and stands in the outer loop of
  `parseBlocks` (parser.go:1055) at offset `|p|`, with NO open block and the context keys reset — the state that a
  non-indented ATX heading line followed by a blank line leaves (`GM.Props.C09.heading_and_blank_line_reset(_top)`).
  A `Frame F` describes what B has more than A: the prefix `F.p`, its number of lines `F.dl`, the `F.c` nodes B's store
  already holds besides the Document, and the children `F.kids0` B's Document already has. The state relation (GM.Proof.
  ShiftSimRel): B's reader is A's moved by `|p|` bytes and `dl` lines (`shR`); A's node `j` is B's node `ι j` (`ι 0 = 0`,
  `ι j = j + c`) with ids mapped by `ι` and every line / info / closure segment moved by `|p|` (`shN`), B's Document
  having `kids0` in front of its children; same context keys, same open-block stack (ids mapped); B's blank-line
  statistics are stale entries of the prefix followed by A's with line numbers `+ dl`.

  Calculus: `P2 Q x y` — if BOTH computations end normally, `Q` relates results and final states. That both whole runs
  end normally is `GM.Props.Blocks.no_panic`; the fuels of the two runs are never compared.

  What is proved here, for EVERY prefix that is empty or ends with a blank line, every state related as above:
  * the one-line step of `Open`, `Continue`, `Close` of EIGHT of the ten block parsers (all but listParser and
    listItemParser) and of `Continue` at the end of the source — `shift_step_*`;
  * the driver for any covered parser set: `closeBlocks`, `openBlocks` (candidate loop, RequireParagraph path,
    `goto retry` with the contract monitor — the retry measure is the same number in both runs), the per-line loop with the
    stale slice read and the `isBlankLine` statistics, both line loops of `parseBlocks` — `shift_driver_*`;
  * whole runs: `shift_invariance_list_free`.
  Round 2: the two list parsers are covered as well (`shift_invariance`, all ten block parsers, every source `b`), over
  conditional step contracts (`shift_contracts_all`) whose side conditions are facts about run A alone: its store invariant
  `K` (acyclic, node 0 is nobody's child, open blocks are not the Document) threaded through the driver, and the mid-pass
  invariant of the no-panic proof (`StableL` + `ListHint`, black boxes `listContinue_okl2` / `listItemContinue_okl2`).
  And the first half END TO END for an empty `A`: `independent_blocks_empty_a_all` = `IndependentBlocks [] h b` for all `h`,
  `b`. Not proved: steps (i)/(ii) for a non-empty `A` (prefix determinism: the run on `a ++ t` up to `|a|` against the run
  on `a`; closing at the end of the source against closing by blank line + heading).
  A last line of `b` WITHOUT line feed is covered (`shift_invariance_list_free`): there fcode_block.go:104 can call
  `Advance(-1)`, after which the readers are only related again after the next AdvanceLine; this is harmless because a leaf
  block is always the last open block — an invariant of run A taken from the no-panic proof (`StableL`, used as a black
  box about run A at line boundaries).
-/
import GM.Proof.ShiftSimMainW
import GM.Proof.ShiftSimTreeOf
import GM.Proof.ShiftSimList
import GM.Proof.ShiftSimEndC
import GM.Proof.ShiftSimEndD
import GM.Proof.ShiftSimCompose

namespace GM.Props.C09Shift
open GM GM.Text GM.Blocks GM.Blocks.Sh

/-! ### the reader -/

/-- **PeekLine / Advance / AdvanceLine commute with the shift.** B's reader is a function of A's (`shR`: source
    `p ++ _`, positions `+ |p|`, line `+ dl`, same caches); as long as A's position is not negative every reader call gives
    the same bytes, the same column, and segments moved by `|p|`. -/
theorem shift_reader_peek_line (F : Frame) (r : Reader) (h0 : 0 ≤ r.pos.start) :
    (shR F r).peekLine = r.peekLine.map (fun x => ((x.1.1, moveSeg F.d x.1.2), shR F x.2)) :=
  peekLine_sh F r h0

theorem shift_reader_advance (F : Frame) (r : Reader) (n : Int) (h0 : 0 ≤ r.pos.start) (h1 : 0 ≤ r.pos.stop) :
    (shR F r).advance n = (r.advance n).map (shR F) :=
  advance_sh F r n h0 h1

/-- `SetPosition` (used by preserveLeadingTabInCodeBlock, which looks ONE BYTE BACK) commutes with the shift even one
    byte in front of `b` — because the prefix ends with a blank line (`Frame.OK`). For a prefix ending with a non-blank
    line this is false for arbitrary states (the column of the byte in front of `b` would differ). -/
theorem shift_reader_set_position (F : Frame) (hF : F.OK) (r : Reader) (l : Int) (pos : Segment) (h0 : -1 ≤ pos.start) :
    (shR F r).setPosition (l + F.dl) (moveSeg F.d pos) = shR F (r.setPosition l pos) :=
  setPosition_sh F hF r l pos h0

/-! ### one step of a block parser -/

/-- **`Open` of every block parser but the two list parsers** from related states on a line: same answer (node id mapped
    by `ι`), related states — the full relation when the answer is nil or HasChildren, the limbo relation (readers related
    after the next AdvanceLine) after a leaf parser consumed its line. -/
theorem shift_step_open (F : Frame) (hF : F.OK) (b : Bytes) (bp : BP) (h : NotList bp) : OpenSim F b bp :=
  (psim_notList F hF b).op bp h

/-- **`Continue`** of the same eight parsers on a line (for a source that is empty or ends with a line feed): same answer,
    related states. -/
theorem shift_step_continue (F : Frame) (hF : F.OK) (b : Bytes) (bp : BP) (h : NotList bp) : ContinueSim F b bp :=
  (psim_notList F hF b).co bp h

/-- **`Continue` without the assumption that the source ends with a line feed**: same answer; afterwards the full relation,
    or — when the answer is "Continue, no children" — at least the limbo relation (only fencedCodeBlockParser.Continue on a
    last line that is all fence indentation needs this: `Advance(-1)`, fcode_block.go:104). -/
theorem shift_step_continue_any_source (F : Frame) (hF : F.OK) (b : Bytes) (bp : BP) (h : NotList bp) :
    ContinueSimW F b bp :=
  (psimW_notList F hF b).co bp h

/-- **`Continue` at the end of the source** (openBlocks calls it for the last opened paragraph when a container consumed
    the rest of the last line): same answer, limbo relation. -/
theorem shift_step_continue_eof (F : Frame) (hF : F.OK) (b : Bytes) (bp : BP) (h : NotList bp) : ContinueEofSim F b bp :=
  (psim_notList F hF b).coEof bp h

/-- **`Close`** of the same parsers (no `Close` looks at the reader, only at its source): related stores and contexts,
    including the tree surgery of setextHeadingParser.Close and the trimming of paragraph / code block lines. -/
theorem shift_step_close (F : Frame) (hF : F.OK) (b : Bytes) (bp : BP) (h : NotList bp) : CloseSim F b bp :=
  (psim_notList F hF b).cl bp h

/-! ### the two list parsers: one step, under explicit side conditions (partial; not used by the whole-run theorems)

The side conditions are facts about run A's store that hold in every reachable state (no-panic invariants `KidsOK`,
`ChainedO`) but are not part of the relation: B's Document has the children `kids0` in front, so wherever the LAST child or
the children of a node are read the node must not be the Document; and `listItemParser.Continue` / `Open` end with an
`AdvanceAndSetPadding` whose argument is `IndentPosition(...)`, which is not negative only because of what the list parser
decided before — given here as "run A's reader is in its invariant afterwards". Frames with `flag = true`: the flag
`emptyListItemWithBlankLines` is equal in both runs. -/

/-- listParser.Open (list.go:131-163): unconditional. -/
theorem shift_step_list_open (F : Frame) (b : Bytes) : OpenSim F b .list := listOpen_sim F b

/-- listParser.Continue (list.go:165-245): the last child of the list is not the Document. -/
theorem shift_step_list_continue : type_of% @listContinue_simW' := @listContinue_simW'

/-- listParser.Close (list.go:247-279, tightness + Paragraph → TextBlock): the list and its items are not the Document. -/
theorem shift_step_list_close : type_of% @listClose_simN := @listClose_simN

/-- listItemParser.Open (list_item.go:24-52), given that run A's reader is in its invariant afterwards. -/
theorem shift_step_list_item_open : type_of% @listItemOpen_simH := @listItemOpen_simH

/-- listItemParser.Continue (list_item.go:54-78): the item and its parent are not the Document, and run A's reader is in
    its invariant afterwards (i.e. `IndentPosition` did not answer -1). -/
theorem shift_step_list_item_continue : type_of% @listItemContinue_simH := @listItemContinue_simH

/-- listItemParser.Continue at the end of the source: unconditional. -/
theorem shift_step_list_item_continue_eof (F : Frame) (b : Bytes) : ContinueEofSim F b .listItem :=
  listItemContinue_eof F b

/-! ### the driver, for any set of parsers that meet the step contracts -/

/-- **closeBlocks** (parser.go:900-918) keeps the relation and run A's open blocks covered. -/
theorem shift_driver_close_blocks : type_of% @closeBlocks_l2 := @closeBlocks_l2

/-- **the candidate loop** of openBlocks (parser.go:960-1014) incl. the RequireParagraph path and the detached-last-block
    path: same outcome (`goto retry` with the mapped parent, or done), same `result`, related `lastBlock`. -/
theorem shift_driver_try_parsers : type_of% @tryParsers_p2 := @tryParsers_p2

/-- **the retry measure** of the contract monitor is the same number in both runs. -/
theorem shift_driver_retry_measure : type_of% @retryMeasure_eq := @retryMeasure_eq

/-- **openBlocks** (parser.go:928-1024) from weakly related states (BlockOffset / BlockIndent need not agree: they are
    written before they are read): same answer, limbo relation; the retry fuels of the two runs are unrelated. -/
theorem shift_driver_open_blocks : type_of% @openBlocks_p2 := @openBlocks_p2

/-- **isBlankLine** (parser.go:1032-1049): B's statistics are stale entries from lines of the prefix followed by A's with
    shifted line numbers; a query about a line `≥ 0` of A at a level A's statistics cover gets the same answer — the scan
    stops with `false` at the first stale entry exactly where A's runs off the end. -/
theorem shift_driver_is_blank_line : type_of% @isBlankLine_shift := @isBlankLine_shift

/-- **one pass of the per-line loop** (parser.go:1081-1123) incl. the stale slice read `openedBlocks[lastIndex]`. -/
theorem shift_driver_line : type_of% @lineLoop_p2 := @lineLoop_p2

/-- **the inner and the outer line loop** of parseBlocks (for a source that is empty or ends with a line feed). -/
theorem shift_driver_lines : type_of% @linesLoop_p2 := @linesLoop_p2
theorem shift_driver_blocks : type_of% @blocksLoop_p2 := @blocksLoop_p2

/-- **the same for any source**: run A's states at line boundaries additionally carry the invariant of the no-panic proof
    (`AStable`), from which "a leaf block is the last open block" is read. -/
theorem shift_driver_line_any_source : type_of% @lineLoop_p2W := @lineLoop_p2W
theorem shift_driver_lines_any_source : type_of% @linesLoop_p2W := @linesLoop_p2W
theorem shift_driver_blocks_any_source : type_of% @blocksLoop_p2W := @blocksLoop_p2W

/-! ### whole runs -/

/-- **Shift invariance for a covered parser set.** If the parsers in `Cov` meet the step contracts and the bytes of `b`
    trigger only parsers in `Cov`, then from a `Start` state the rest of run B builds the store of `run b` moved by the
    frame: `StoreRel F sA'.nodes sB'.nodes`. -/
theorem shift_invariance_covered : type_of% @shift_invariance_core := @shift_invariance_core

/-- **Shift invariance, all block parsers but the list parsers** (C09 first half, step (iii); partial only in that the
    two list parsers are not covered).

    Let `p` (= `F.p`) be empty or end with a blank line, let `b` be ANY byte string that contains none of `- * +` and no
    digit. Let run B stand in the outer loop of parseBlocks at offset `|p|` of `p ++ b` (`Start`): reader = the fresh reader
    of `b` moved by `|p|` bytes / `dl` lines, no open block, `temporaryParagraphKey`, `fencedCodeBlockInfoKey`,
    `skipListParserKey` unset, store = Document (children `kids0`) + `c` nodes, blank-line statistics all from lines `< dl`
    and (if any) saying that line `dl - 1` is blank. If the rest of run B ends normally in `sB'` (it does:
    `GM.Props.Blocks.no_panic` for whole runs), then `run b` ends normally in some `sA'` and

      * B's store has `c` more nodes than A's; A's node `j` is B's node `ι j` (`ι 0 = 0`, `ι j = j + c`);
      * B's node `ι j` is A's node `j` with parent / children ids mapped by `ι` and EVERY line segment, info segment and
        closure line moved by `|p|`; kind, level, list fields, HasBlankPreviousLines, HTML type are equal;
      * B's Document has exactly the children `kids0 ++ (A's Document children, mapped)`

    (`shift_invariance_store_shape`, and at tree level `shift_invariance_subtrees` / `shift_invariance_document`), i.e. what
    comes before a closed block does not change how the following text is parsed. -/
theorem shift_invariance_list_free (F : Frame) (hF : F.OK) (b : Bytes)
    (hLF : ∀ c ∈ b, c ≠ 45 ∧ c ≠ 42 ∧ c ≠ 43 ∧ isNumeric c = false) {sB : St} {statsB : List LineStat}
    (hS : Start F b sB statsB) (fuelB : Nat) (sB' : St) (hB : blocksLoop 0 fuelB statsB sB = .ok ((), sB')) :
    ∃ sA', run b = .ok sA' ∧ StoreRel F sA'.nodes sB'.nodes :=
  GM.Blocks.Sh.shift_invariance_list_free_all F hF b hLF hS fuelB sB' hB

/-- the same for any parser set `Cov` that meets the step contracts, triggers only covered parsers, and whose containers
    answer HasChildren when they continue -/
theorem shift_invariance_covered_all : type_of% @shift_invariance_coreW := @shift_invariance_coreW

/-- what `StoreRel` says about the Document and about every node, spelled out -/
theorem shift_invariance_store_shape (F : Frame) {nA nB : List Node} (h : StoreRel F nA nB) :
    nB.length = nA.length + F.c ∧
    (nB.getD 0 default).children = F.kids0 ++ (nA.getD 0 default).children.map F.ι ∧
    ∀ j, (nB.getD (F.ι j) default).kind = (nA.getD j default).kind ∧
      (nB.getD (F.ι j) default).lines = (nA.getD j default).lines.map (moveSeg F.d) ∧
      (nB.getD (F.ι j) default).parent = (nA.getD j default).parent.map F.ι ∧
      (nB.getD (F.ι j) default).blankPrev = (nA.getD j default).blankPrev ∧
      (j ≠ 0 → (nB.getD (F.ι j) default).children = (nA.getD j default).children.map F.ι) := by
  refine ⟨h.len, ?_, fun j => ?_⟩
  · have := h.node 0
    rw [ι_zero] at this
    rw [this]; rfl
  · rw [h.node j]
    refine ⟨rfl, rfl, rfl, rfl, fun hj => ?_⟩
    have : (j == 0) = false := beq_eq_false_iff_ne.mpr hj
    simp [shN, this]

/-- **tree level, below the Document**: read with the same fuel, the subtree of B's node `ι j` dumps (`Tree.str`, the
    canonical dump the correspondence compares, after `readBlank`) like the subtree of A's node `j` with every segment
    moved by `|p|` — provided no node of A's store has the Document as a child. -/
theorem shift_invariance_subtrees : type_of% @treeOf_shift_str := @treeOf_shift_str

/-- **tree level, the Document**: B's Document children dump as the old children `kids0` followed by A's Document
    children moved by `|p|` — the shape `GM.Blocks.indepPair` expects for the part of `A + heading + B` that comes from `B`. -/
theorem shift_invariance_document : type_of% @treeOf_shift_doc := @treeOf_shift_doc

/-! ### round 2: acyclic stores, and the first half END TO END for an empty document `A` -/

/-- **The store of the block phase is acyclic, for EVERY source**: links point downwards — every child has a larger node id
    than its parent and every parent pointer is smaller than the node's own id (so the children lists describe a forest and
    `treeOf` does not depend on its fuel once the fuel is at least the store's length); the Document has no lines.
    An ingredient of C05(b) ("the AST is a tree") as well. -/
theorem store_acyclic (src : Bytes) (s : St) (h : run src = .ok s) :
    Acyc s ∧ (s.nodes.getD 0 default).lines = [] ∧ (s.nodes.getD 0 default).kind = .document :=
  run_acyc src s h

/-- reading the tree with more fuel than the store has nodes changes nothing -/
theorem tree_fuel_irrelevant : type_of% @treeOf_root_stable := @treeOf_root_stable

/-- the heading line `# h` + end of source: the store is Document[1] and the heading that `atxNodeOf` describes -/
theorem heading_line_run : type_of% @run_heading_line := @run_heading_line

/-- the run on `"\n# h\n\n" ++ b`, followed line by line (leading blank line, heading line, blank line): it reaches the
    outer loop of parseBlocks behind the blank line in a `Start` state whose store is Document[1] + the same heading with
    its line moved by one byte — steps (i)/(ii) of the plan for an EMPTY `A`, by exact step lemmas (`openBlocks_heading_exact`,
    `blank_after_heading_exact`, `skip_one_blank`) instead of a general prefix-determinism argument. -/
theorem joined_run_reaches_start : type_of% @run_joined := @run_joined

/-- **C09 first half, END TO END, for an empty document `A`**: for EVERY heading text `h` (the statement itself demands it
    free of LF / CR) and EVERY `b` without `- * +` and digits (and, by the statement, without `[` and CR): the two dumps
    `GM.Blocks.indepPair [] h b` compares are equal — the block tree of `"\n# h\n\n" ++ b`, read with its own fuel, is
    Document[ heading of `"# h\n"` moved by 1, blocks of `b` moved by `|"\n# h\n\n"|` ], `HasBlankPreviousLines` compared
    where the block phase reads it. This is `GM.Props.C09.IndependentBlocks [] h b`. -/
theorem independent_blocks_empty_a (h b : Bytes) (hb : ∀ c ∈ b, c ≠ 45 ∧ c ≠ 42 ∧ c ≠ 43 ∧ isNumeric c = false) :
    ∀ e g, indepPair [] h b = some (e, g) → e = g :=
  independent_blocks_empty h b hb

/-- the statement is not vacuous: `indepPair` applies (answers `some`) for `h = "h"`, `b = "a\n\n> q\n"` -/
example : (indepPair [] [104] [97, 10, 10, 62, 32, 113, 10]).isSome = true := by decide +kernel

/-! ### round 2: the two list parsers — shift invariance for ALL block parsers -/

/-- the step contracts of all ten block parsers, for frames that also relate the flag `emptyListItemWithBlankLines`
    (`F.flag = true`). The contracts of the list parsers are conditional (`PSimL`): `Close`/`Continue` need run A's store
    invariant `K` and a node that is not the Document; `listItemParser.Continue` on a line needs that its List is not the
    Document and that run A's reader is well-formed afterwards. -/
theorem shift_contracts_all : type_of% @psimL_all := @psimL_all

/-- `listItemParser.Open` under the relation, unconditionally -/
theorem shift_step_list_item_open_all : type_of% @GM.Blocks.Sh.listItemOpen_sim := @GM.Blocks.Sh.listItemOpen_sim

/-- the driver over the conditional contracts, run A's store invariant `K` threaded through -/
theorem shift_driver_close_blocks_all : type_of% @closeBlocks_L := @closeBlocks_L
theorem shift_driver_try_parsers_all : type_of% @tryParsers_L := @tryParsers_L
theorem shift_driver_open_blocks_all : type_of% @openBlocks_L := @openBlocks_L

/-- one pass of the per-line loop, all parsers: run A's state carries the mid-pass invariant of the no-panic proof
    (`MidA`: `StableL` and what `listParser.Continue` has established on this line) -/
theorem shift_driver_line_all : type_of% @lineLoop_L := @lineLoop_L
theorem shift_driver_lines_all : type_of% @linesLoop_L := @linesLoop_L
theorem shift_driver_blocks_all : type_of% @blocksLoop_L := @blocksLoop_L

/-- **Shift invariance of the block phase, ALL block parsers, EVERY source `b`** (C09 first half, step (iii), complete).
    As `shift_invariance_list_free`, without any restriction on `b`; the frame also relates the flag
    `emptyListItemWithBlankLines` (`F.flag = true`, i.e. `Start` demands that run B's flag is unset, as it is in a fresh
    run and behind a heading + blank line). -/
theorem shift_invariance (F : Frame) (hF : F.OK) (hfl : F.flag = true) (b : Bytes) {sB : St} {statsB : List LineStat}
    (hS : Start F b sB statsB) (fuelB : Nat) (sB' : St) (hB : blocksLoop 0 fuelB statsB sB = .ok ((), sB')) :
    ∃ sA', run b = .ok sA' ∧ StoreRel F sA'.nodes sB'.nodes :=
  shift_invariance_all F hF hfl b hS fuelB sB' hB

/-- **C09 first half, END TO END, for an empty document `A`, EVERY `h`, EVERY `b`** (lists included):
    `GM.Props.C09.IndependentBlocks [] h b`. -/
theorem independent_blocks_empty_a_all (h b : Bytes) : ∀ e g, indepPair [] h b = some (e, g) → e = g :=
  independent_blocks_empty_all h b

/-- **what steps (i)/(ii) have to deliver for a non-empty `A`** (`GM.Blocks.Sh.Reach a h b sa sh sd`): the run on the joined
    document passes through a `Start` state of a frame for the prefix `a ++ sep ++ "# h\n" ++ "\n"`, and in its final store
    the old children of the Document dump like the children of `run a`'s Document followed by the heading of
    `run "# h\n"` moved by `|a ++ sep|`. -/
abbrev PrefixReached := @GM.Blocks.Sh.Reach

/-- **step (iv), composition, for EVERY `a`, `h`, `b`**: `IndependentBlocks a h b` follows from `PrefixReached` (shift
    invariance for all parsers + acyclic stores + the assembly of the dumps for an arbitrary frame, `indep_strings_gen`);
    nothing is assumed about `b`. `independent_blocks_empty_a_all` is the instance `a = []`. -/
theorem independent_blocks_from_prefix (a h b : Bytes)
    (hreach : ∀ sa sh sd, run a = .ok sa → run (headingLine h) = .ok sh → run (indepDoc a h b) = .ok sd →
      PrefixReached a h b sa sh sd) :
    ∀ e g, indepPair a h b = some (e, g) → e = g :=
  independent_blocks_of_reach a h b hreach

/-- not vacuous for a `b` with lists: `h = "h"`, `b = "- a\n\n  b\n1. c\n"` -/
example : (indepPair [] [104] [45, 32, 97, 10, 10, 32, 32, 98, 10, 49, 46, 32, 99, 10]).isSome = true := by decide +kernel

/-! ### non-vacuity (tests on literals) -/

/-- the frame of the prefix `"# h\n\n"`: 5 bytes, 2 lines, one node (the heading, node 1) under the Document -/
def exNodes : List Node :=
  [{ kind := .document, children := [1] },
   { kind := .heading, level := 1, parent := some 0, lines := [{ start := 2, stop := 3 }], linesNil := false,
     blankPrev := true }]

def exFrame : Frame := { p := [35, 32, 104, 10, 10], dl := 2, c := 1, kids0 := [1], oldNodes := exNodes }

/-- run B's state after `"# h\n\n"` in front of `b`: reader moved, Document + closed heading, nothing open -/
def exStateB (b : Bytes) : St :=
  { r := shR exFrame (Reader.new b),
    nodes := exNodes,
    pc := {} }

/-- the statistics B has recorded: the blank line (line 1) at level 0 -/
def exStats : List LineStat := [{ lineNum := 1, level := 0, isBlank := true }]

example : exFrame.OK := ⟨.inr (by decide), .inr (by decide), by decide⟩

/-- the hypotheses of `shift_invariance_list_free` hold for `b = "a\n\n> q\n"` behind `"# h\n\n"` … -/
example : Start exFrame [97, 10, 10, 62, 32, 113, 10] (exStateB [97, 10, 10, 62, 32, 113, 10]) exStats :=
  ⟨rfl, rfl, rfl, rfl, rfl, rfl, rfl, (fun h => absurd h (by decide)), (fun _ _ _ => rfl), by decide, .inr (by decide)⟩

example : ∀ c ∈ ([97, 10, 10, 62, 32, 113, 10] : Bytes), c ≠ 45 ∧ c ≠ 42 ∧ c ≠ 43 ∧ isNumeric c = false := by decide

/-- … the rest of run B ends normally, and its Document has the heading and then `b`'s paragraph and block quote
    (nodes 2 and 3 = `ι 1`, `ι 2`), the paragraph's line moved by 5 bytes -/
example : (blocksLoop 0 9 exStats (exStateB [97, 10, 10, 62, 32, 113, 10])).toOption.map
      (fun r => ((r.2.nodes.getD 0 default).children, (r.2.nodes.getD 2 default).lines.map (fun s => (s.start, s.stop))))
    = some ([1, 2, 3], [(5, 6)]) := by decide +kernel

example : (run [97, 10, 10, 62, 32, 113, 10]).toOption.map
      (fun s => ((s.nodes.getD 0 default).children, (s.nodes.getD 1 default).lines.map (fun s => (s.start, s.stop))))
    = some ([1, 2], [(0, 1)]) := by decide +kernel

/-- the example state is the real one: the rest of the run from it builds exactly the tree of the whole document
    `"# h\n\n" ++ b` -/
example : (blocksLoop 0 9 exStats (exStateB [97, 10, 10, 62, 32, 113, 10])).toOption.map
      (fun r => (treeOf r.2.nodes r.2.nodes.length 0).str)
    = some (dump ([35, 32, 104, 10, 10] ++ [97, 10, 10, 62, 32, 113, 10])) := by decide +kernel

/-- the corner that needs the limbo relation: `b` = a fence indented by two spaces and a LAST LINE WITHOUT LINE FEED that
    is exactly the fence indentation (fcode_block.go:104 calls `Advance(-1)`): hypotheses hold, both runs end normally, and
    the empty code line `8:8` of `run b` is `13:13` behind the 5-byte prefix -/
example : Start exFrame [32, 32, 96, 96, 96, 10, 32, 32] (exStateB [32, 32, 96, 96, 96, 10, 32, 32]) exStats :=
  ⟨rfl, rfl, rfl, rfl, rfl, rfl, rfl, (fun h => absurd h (by decide)), (fun _ _ _ => rfl), by decide, .inr (by decide)⟩

example : (blocksLoop 0 9 exStats (exStateB [32, 32, 96, 96, 96, 10, 32, 32])).toOption.map
      (fun r => (treeOf r.2.nodes r.2.nodes.length 0).str)
    = some "Document(0|||Heading(1|1|2:3:0:0|)FencedCodeBlock(1|nil|13:13:0:1|))" ∧
    dump [32, 32, 96, 96, 96, 10, 32, 32] = "Document(0|||FencedCodeBlock(1|nil|8:8:0:1|))" := by decide +kernel

end GM.Props.C09Shift
