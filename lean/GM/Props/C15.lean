/-
  Property C15 — auto heading ids are present, non-empty and unique within a document, and depend on that
  document only. Theorems are about the model GM.Model.Ids of parser/parser.go:65-118 (`ids.Generate/Put`),
  of the per-`Context` table (parser/parser.go:234-252, :868-871) and of the heading parsers' one
  `Generate(lastLine, KindHeading)` per closed heading (atx_heading.go:171-206, setext_headings.go:108-118).
  "Presence" (every h1-h6 carries the id) is a fact about parser+renderer, tied by the document-level
  correspondence/oracle run of component `ids`, not a theorem.
-/
import GM.Model.Ids
import GM.Proof.Ids
import GM.Props.C15E2E
import GM.Props.ConvertE2EAll
import GM.Props.C15Total

namespace GM.Props.C15
open GM GM.Ids

/-- The probing loop `for i := 1; ; i++` always stops: `Generate` returns (the model's bound `|used|+1` on
    the number of probes is never exhausted), and it inserts exactly the returned id. -/
theorem generate_terminates (used : Tbl) (value : Bytes) (isHeading : Bool) :
    ∃ id, generate used value isHeading = some (id, id :: used) := Proof.Ids.generate_isSome used value isHeading

/-- …and it stops at the first free candidate, some `i ≤ |used| + 1` (pigeonhole): the result is the slug
    itself or `slug-i` where `slug-1 … slug-(i-1)` are all taken. -/
theorem generate_probe_bound (used : Tbl) (value : Bytes) (isHeading : Bool) (id : Bytes) (used' : Tbl)
    (h : generate used value isHeading = some (id, used')) :
    id = base value isHeading ∨ ∃ i, 1 ≤ i ∧ i ≤ used.length + 1 ∧ id = cand (base value isHeading) i ∧
      ∀ j, 1 ≤ j → j < i → cand (base value isHeading) j ∈ used := Proof.Ids.generate_bound h

/-- The id returned by `Generate` was not in the table before and is in it afterwards (and nothing is forgotten). -/
theorem generate_fresh (used : Tbl) (value : Bytes) (isHeading : Bool) (id : Bytes) (used' : Tbl)
    (h : generate used value isHeading = some (id, used')) :
    id ∉ used ∧ id ∈ used' ∧ ∀ x ∈ used, x ∈ used' := by
  obtain ⟨h1, h2, _⟩ := Proof.Ids.generate_spec h
  subst h2
  exact ⟨h1, by simp, fun x hx => by simp [hx]⟩

/-- `Generate` never returns an empty id. -/
theorem generate_nonempty (used : Tbl) (value : Bytes) (isHeading : Bool) (id : Bytes) (used' : Tbl)
    (h : generate used value isHeading = some (id, used')) : id ≠ [] := (Proof.Ids.generate_spec h).2.2

/-- For every list of heading texts: the document gets one id per heading, all non-empty and pairwise
    different (whatever the texts: repeated, empty, non-ASCII, `a, a, a-1`, …). -/
theorem ids_pairwise_distinct (texts : List Bytes) :
    ∃ ids, docIds texts = some ids ∧ ids.length = texts.length ∧ ids.Nodup ∧ ∀ id ∈ ids, id ≠ [] := by
  obtain ⟨ids, h⟩ := Proof.Ids.run_isSome (texts.map fun t => Op.gen t true) []
  obtain ⟨h1, _, h3⟩ := Proof.Ids.run_fresh _ _ _ h
  refine ⟨ids, h, ?_, h1, h3⟩
  have := Proof.Ids.run_length _ _ _ h
  have e : List.filter (fun _ => true) texts = texts := List.filter_eq_self.2 (fun _ _ => rfl)
  simpa [List.filter_map, Function.comp_def, e] using this

/-- The same for any interleaving of `Generate` (any node kind) and `Put` (explicit ids registered by
    attribute syntax) started on any table: generated ids are pairwise different, non-empty, and different
    from everything that was in the table at the start. -/
theorem ids_ops_distinct (used : Tbl) (ops : List Op) :
    ∃ ids, run used ops = some ids ∧ ids.Nodup ∧ (∀ id ∈ ids, id ∉ used) ∧ ∀ id ∈ ids, id ≠ [] := by
  obtain ⟨ids, h⟩ := Proof.Ids.run_isSome ops used
  exact ⟨ids, h, Proof.Ids.run_fresh _ _ _ h⟩

/-- The ids of a document are a function of that document's heading texts only: whatever was converted
    before or after on the same instance (each `Parse` creates its own table), the n-th document gets
    `docIds` of its own texts. -/
theorem ids_doc_local (before after : List (List Bytes)) (texts : List Bytes) :
    (convertAll (before ++ texts :: after))[before.length]? = some (docIds texts) := by
  simp [convertAll]

/-! ### tests on literals (not theorems): the adversarial suffix collision, empty / non-ASCII / punctuation-only texts.
  Bytes: a=97 A=65 b=98 c=99 D=68 '-'=45 '1'=49 '2'=50 ' '=32 '_'=95 '!'=33, é = C3 A9, "heading" = headingDefault -/

-- a, a, a-1  ↦  a, a-1, a-1-1
example : docIds [[97], [97], [97, 45, 49]] = some [[97], [97, 45, 49], [97, 45, 49, 45, 49]] := by decide
-- a-1, a, a  ↦  a-1, a, a-2
example : docIds [[97, 45, 49], [97], [97]] = some [[97, 45, 49], [97], [97, 45, 50]] := by decide
-- "", é, !!!, Heading  ↦  heading, heading-1, heading-2, heading-3
example : docIds [[], [0xC3, 0xA9], [33, 33, 33], [72, 101, 97, 100, 105, 110, 103]] =
    some [headingDefault, headingDefault ++ [45, 49], headingDefault ++ [45, 50], headingDefault ++ [45, 51]] := by decide
-- " A b_c-D " ↦ a-b-c-d ; the invalid lead byte 0x80 swallows the rest of the line (utf8lenTable = 99)
example : docIds [[32, 65, 32, 98, 95, 99, 45, 68, 32], [0x80, 97]] =
    some [[97, 45, 98, 45, 99, 45, 100], headingDefault] := by decide
-- the hypothesis of `generate_fresh` is satisfiable and the probing branch is exercised
example : generate [[97, 45, 49], [97]] [65] true = some ([97, 45, 50], [[97, 45, 50], [97, 45, 49], [97]]) := by decide

/-! ### end to end (package `headingids`): the heading parsers call the generator, the renderer writes the id — inside the
  composed model `GM.ConvertH.convertH true` of `goldmark.New(WithParserOptions(WithAutoHeadingID()), …).Convert`
  (`type_of%` restates the exact statement; see GM.Props.C15E2E for the doc comments) -/
theorem e2e_converth_off_is_core : type_of% @GM.Props.C15E2E.converth_off_is_core := @GM.Props.C15E2E.converth_off_is_core
theorem e2e_converth_block_phase_projects : type_of% @GM.Props.C15E2E.converth_block_phase_projects := @GM.Props.C15E2E.converth_block_phase_projects
theorem e2e_converth_never_loops : type_of% @GM.Props.C15E2E.converth_never_loops := @GM.Props.C15E2E.converth_never_loops
theorem e2e_attributes_are_generated_ids : type_of% @GM.Props.C15E2E.attributes_are_generated_ids := @GM.Props.C15E2E.attributes_are_generated_ids
theorem e2e_every_heading_has_id : type_of% @GM.Props.C15E2E.every_heading_has_id := @GM.Props.C15E2E.every_heading_has_id
theorem e2e_heading_ids_nonempty : type_of% @GM.Props.C15E2E.heading_ids_nonempty := @GM.Props.C15E2E.heading_ids_nonempty
theorem e2e_heading_ids_alphabet : type_of% @GM.Props.C15E2E.heading_ids_alphabet := @GM.Props.C15E2E.heading_ids_alphabet
theorem e2e_heading_ids_distinct_by_node : type_of% @GM.Props.C15E2E.heading_ids_distinct_by_node := @GM.Props.C15E2E.heading_ids_distinct_by_node
theorem e2e_heading_ids_pairwise_distinct : type_of% @GM.Props.C15E2E.heading_ids_pairwise_distinct := @GM.Props.C15E2E.heading_ids_pairwise_distinct
theorem e2e_heading_ids_table_fed_in_close_order : type_of% @GM.Props.C15E2E.heading_ids_table_fed_in_close_order := @GM.Props.C15E2E.heading_ids_table_fed_in_close_order
theorem e2e_heading_start_tag_rendered : type_of% @GM.Props.C15E2E.heading_start_tag_rendered := @GM.Props.C15E2E.heading_start_tag_rendered
theorem e2e_heading_ids_rendered : type_of% @GM.Props.C15E2E.heading_ids_rendered := @GM.Props.C15E2E.heading_ids_rendered
theorem e2e_c15_end_to_end : type_of% @GM.Props.C15E2E.c15_end_to_end := @GM.Props.C15E2E.c15_end_to_end
theorem e2e_headings_always_closed : type_of% @GM.Props.C15E2E.headings_always_closed := @GM.Props.C15E2E.headings_always_closed
theorem e2e_headings_always_once : type_of% @GM.Props.C15E2E.headings_always_once := @GM.Props.C15E2E.headings_always_once
theorem e2e_block_phase_close_discipline : type_of% @GM.Props.C15E2E.block_phase_close_discipline := @GM.Props.C15E2E.block_phase_close_discipline
theorem e2e_heading_ids_document_local : type_of% @GM.Props.C15E2E.heading_ids_document_local := @GM.Props.C15E2E.heading_ids_document_local

/-- (re-export of `GM.Props.ConvertE2EAll.converth_total_of_block_phase`) **`converth_total_of_block_phase`** — everything BEHIND the block phase is total for the AutoHeadingID configuration: whenever
    the block phase with the option returns a state, `convertH true` answers HTML, for every Unicode-class assignment and option
    set (the inline phase on every block of the tree, every `Segment.Value` of the tree conversion, every node renderer — the
    generated `id` attributes form a legal, clash-free attribute list, so `Spec.Inv` holds of the tree). -/
theorem converth_total_of_block_phase : type_of% @GM.Props.ConvertE2EAll.converth_total_of_block_phase := @GM.Props.ConvertE2EAll.converth_total_of_block_phase

/-- (re-export of `GM.Props.ConvertE2EAll.converth_total_or_value_panic`) **`converth_total_or_value_panic`** — for EVERY byte string, Unicode-class assignment and option set: `convertH true` answers
    HTML, or its block phase ended in the ONE panic that is not excluded yet: `lastLine.Value(reader.Source())` inside
    `generateAutoHeadingID` (atx_heading.go:203) — never fuel exhaustion, never a panic `convertCore`'s block phase has (it has
    none: `block_phase_total`), never an error of the inline phase, the tree conversion or a node renderer. -/
theorem converth_total_or_value_panic : type_of% @GM.Props.ConvertE2EAll.converth_total_or_value_panic := @GM.Props.ConvertE2EAll.converth_total_or_value_panic

/-- (re-export of `GM.Props.ConvertE2EAll.c15_end_to_end_of_block_phase`) **`c15_end_to_end_of_block_phase`** — C15 END TO END with totality behind the block phase: whenever the block phase with the
    option returns, `convertH true` answers HTML `html`, `html` is the rendering of the parsed tree, and for the Heading nodes
    the renderer visits, in document order: the attribute lists are exactly `id = v`, pairwise DISTINCT; every `v` is NON-EMPTY
    and consists of `a-z 0-9 -`; the start tag `<hN id="v">` is a contiguous part of `html`. -/
theorem c15_end_to_end_of_block_phase : type_of% @GM.Props.ConvertE2EAll.c15_end_to_end_of_block_phase := @GM.Props.ConvertE2EAll.c15_end_to_end_of_block_phase

/-- (re-export of `GM.Props.ConvertE2EAll.c15_end_to_end_or_value_panic`) **`c15_end_to_end_or_value_panic`**: for EVERY source either all of C15's conclusions hold of the HTML `convertH true` answers,
    or the block phase hit the `Segment.Value` panic of `generateAutoHeadingID` -/
theorem c15_end_to_end_or_value_panic : type_of% @GM.Props.ConvertE2EAll.c15_end_to_end_or_value_panic := @GM.Props.ConvertE2EAll.c15_end_to_end_or_value_panic

/-- (re-export of `GM.Props.C15Total.converth_total`) **`converth_total`** — C01 for the AutoHeadingID configuration: for EVERY byte string, Unicode-class assignment and
    renderer option set, `convertH true` (the model of `goldmark.New(WithParserOptions(WithAutoHeadingID()), …).Convert`, tied
    byte for byte by component `converth`) answers HTML: no Go run-time panic, no fuel exhaustion, no monitor, no guard. -/
theorem e2e_converth_total : type_of% @GM.Props.C15Total.converth_total := @GM.Props.C15Total.converth_total

/-- (re-export of `GM.Props.C15Total.c15_end_to_end_total`) **`c15_end_to_end_total`** — C15 END TO END, TOTAL: for EVERY byte string `convertH true` answers HTML `html`; `html` is the
    rendering of the parsed tree; for the Heading nodes the renderer visits, in document order, the attribute lists are exactly
    `id = v`, pairwise DISTINCT; every `v` is NON-EMPTY and consists of `a-z 0-9 -`; the start tag `<hN id="v">` is a contiguous
    part of `html`. -/
theorem e2e_c15_end_to_end_total : type_of% @GM.Props.C15Total.c15_end_to_end_total := @GM.Props.C15Total.c15_end_to_end_total

/-- (re-export of `GM.Props.C15Total.monitored_block_phase_total`) **the monitored block driver is total for every byte string** (and every line segment of the store it returns lies inside
    the source): the heading's last line is inside the source at the moment `Close` runs -/
theorem e2e_monitored_block_phase_total : type_of% @GM.Props.C15Total.monitored_block_phase_total := @GM.Props.C15Total.monitored_block_phase_total

/-- (re-export of `GM.Props.C15Total.block_phase_h_total`) **the block phase with AutoHeadingID is total**: the strict form of `converth_block_phase_projects` — it returns exactly
    when (always) `convertCore`'s block phase returns, in the same store -/
theorem e2e_block_phase_h_total : type_of% @GM.Props.C15Total.block_phase_h_total := @GM.Props.C15Total.block_phase_h_total

end GM.Props.C15
