/-
  Property C02 (package linkfix) — goldmark's link-destination scanner, as modelled after the repairs 5e850d1 (an unescaped
  `<` inside `<…>` rejects) and ce3b6c4 (a parenthesis left open rejects), agrees with the specification-side reference
  GM.Spec.CMLink (package cmspec3, written from the CommonMark text). The models are tied to the Go code by the components
  inlines / convert (and `parseLinkDestination` is shared with link reference definitions, GM.Model.LinkRef); the inputs of
  the four repaired defects L1, L2, L3, L5 are regression cases of the components cmlink and convert. Helper lemmas: GM/Proof/LinkFix.lean.
-/
import GM.Proof.LinkFix

namespace GM.Props.C02LinkFix
open GM GM.Inl GM.Spec.CMLink GM.Proof.LinkFix

/-- `model_destination_agrees_with_reference`, the `<…>` form (repair 5e850d1). `l` = the bytes of the peeked line behind
    the `<` (no line ending inside; the line's own final line feed is handled by the second theorem's caller, see the example):
    the raw destination `line[1:i]` and the rest behind the `>` that goldmark's `parseLinkDestination` (model `GM.Inl.destAngle`,
    tied by the components inlines / convert) computes are EXACTLY what the specification-side scanner `GM.Spec.CMLink.pointy`
    returns, and one rejects iff the other does — for every such `l`. With `GM.Props.C02Link.pointy_sound` / `pointy_complete`:
    the model accepts exactly the grammar of the first form. -/
theorem model_destination_agrees_with_reference_pointy (l : Bytes) (hnl : ∀ c ∈ l, c ≠ 10) :
    (destAngle l 1).map (fun i => (l.take (i - 1), l.drop i)) = pointy Dev.spec false l :=
  model_pointy_destination_agrees l hnl

/-- `model_destination_agrees_with_reference`, the form without brackets (repair ce3b6c4). On a line whose only white-space
    or control characters are spaces and line feeds (`Clean`; tab, CR and the other control characters are where goldmark and
    the specification still differ: finding `link-destination-control-char-differs`), the scan of `parseLinkDestination`
    (`destPlain` = where it stops, `destOpened` = the parentheses still open there; rejected when that is positive) yields
    exactly the raw destination and the rest that `GM.Spec.CMLink.bare` yields, and rejects exactly when it rejects. -/
theorem model_destination_agrees_with_reference_bare (l : Bytes) (hcl : Clean l) :
    (if destOpened l 0 > 0 then none else some (l.take (destPlain l 0 0), l.drop (destPlain l 0 0))) =
      bare Dev.spec 0 false l :=
  model_bare_destination_agrees l hcl

/-- hence: what the model accepts in the first form satisfies the grammar (no line ending, no unescaped `<` or `>`) … -/
theorem model_pointy_destination_in_grammar (l : Bytes) (hnl : ∀ c ∈ l, c ≠ 10) (i : Nat) (h : destAngle l 1 = some i) :
    l = l.take (i - 1) ++ 62 :: l.drop i ∧ pointyOK false (l.take (i - 1)) = true := by
  have e := model_pointy_destination_agrees l hnl
  rw [h] at e
  exact GM.Proof.CMLink.pointy_sound l false _ _ e.symm

/-- … and in the second form every unescaped parenthesis of the accepted destination belongs to a balanced pair -/
theorem model_bare_destination_balanced (l : Bytes) (hcl : Clean l) (h : ¬ destOpened l 0 > 0) :
    bareDepth 0 false (l.take (destPlain l 0 0)) = some 0 := by
  have e := model_bare_destination_agrees l hcl
  rw [if_neg h] at e
  exact (GM.Proof.CMLink.bare_sound l 0 false _ _ e.symm).2

/-! ### tests on literals (kernel-evaluated): the repaired inputs on the model's scanners -/

/-- L1 `[a](<b<c>)`: behind the `<` the line is `b<c>)` — rejected (before the repair: index 4, destination `b<c`) -/
example : destAngle [98, 60, 99, 62, 41] 1 = none := by decide +kernel
example : destAngle [98, 92, 60, 99, 62, 41] 1 = some 5 := by decide +kernel   -- `b\<c>)`: the escaped `<` is fine
/-- L2 `[a](b(c )`: the scan of `b(c )` stops at the space with one parenthesis open — rejected -/
example : destPlain [98, 40, 99, 32, 41] 0 0 = 3 ∧ destOpened [98, 40, 99, 32, 41] 0 = 1 := by decide +kernel
example : destPlain [98, 40, 99, 41, 41] 0 0 = 4 ∧ destOpened [98, 40, 99, 41, 41] 0 = -1 := by decide +kernel  -- `b(c))`: balanced, stops at the outer `)`
/-- the hypotheses are satisfiable -/
example : Clean [98, 40, 99, 32, 41] := by intro c hc; simp at hc; rcases hc with rfl | rfl | rfl | rfl | rfl <;> decide

end GM.Props.C02LinkFix
