/-
  Property C10 — renderer options are orthogonal rewrites of the same output.
  For every tree, every extension set and every global option set with the table alignment method pinned
  (≠ Default) and East-Asian line-break suppression off, the rendered bytes are `flatMap emit` of ONE piece list
  `ir e a esc t` that does not depend on XHTML / HardWraps / Unsafe; the three clauses of the property are
  read off `emit`. The renderer model (GM.Model.Render) keeps the scattered conditionals and the six
  html.Config copies of the Go code; `propagation_complete` is why a single global flag describes them.
  Only property theorems and their non-vacuity examples live here; helper lemmas are in GM/Proof/RenderIR.lean.
-/
import GM.Model.RenderIR
import GM.Proof.RenderIR
import GM.Props.ConvertE2E
import GM.Props.ConvertE2EAll

namespace GM.Props.C10
open GM

/-- Option propagation is complete: after initialisation EVERY node renderer's copy of html.Config (core, task
    list, strikethrough, definition list, footnote, table) equals the default config with all global options
    applied, and the table's alignment method is the global one. No copy is missed. -/
theorem propagation_complete (o : Opts) (e : Exts) :
    (mkRCfg o e).core = ({} : HCfg).setOpts o ∧ (mkRCfg o e).task = ({} : HCfg).setOpts o ∧
    (mkRCfg o e).strike = ({} : HCfg).setOpts o ∧ (mkRCfg o e).dl = ({} : HCfg).setOpts o ∧
    (mkRCfg o e).foot = ({} : HCfg).setOpts o ∧ (mkRCfg o e).table = ({} : HCfg).setOpts o ∧
    (mkRCfg o e).tableAlign = o.tableAlign.getD 0 ∧ (mkRCfg o e).exts = e ∧ (mkRCfg o e).footc = {} :=
  Proof.mkRCfg_copies o e

/-- …and each copy's three flags are exactly the global options. -/
theorem propagation_flags (o : Opts) :
    (({} : HCfg).setOpts o).xhtml = o.xhtml ∧ (({} : HCfg).setOpts o).hardWraps = o.hardWraps ∧
    (({} : HCfg).setOpts o).unsafe_ = o.unsafe_ := by
  cases o with
  | mk h x u ea w ta => cases h <;> cases x <;> cases u <;> simp [HCfg.setOpts]

/-- Propagation does not depend on how the node renderers were constructed: from ANY renderer state, a global
    option that is set reaches every copy. -/
theorem propagation_uniform (r : RCfg) (o : Opts) :
    (o.xhtml = true → (r.propagate o).core.xhtml = true ∧ (r.propagate o).task.xhtml = true ∧
        (r.propagate o).strike.xhtml = true ∧ (r.propagate o).dl.xhtml = true ∧
        (r.propagate o).foot.xhtml = true ∧ (r.propagate o).table.xhtml = true) ∧
    (o.hardWraps = true → (r.propagate o).core.hardWraps = true ∧ (r.propagate o).task.hardWraps = true ∧
        (r.propagate o).strike.hardWraps = true ∧ (r.propagate o).dl.hardWraps = true ∧
        (r.propagate o).foot.hardWraps = true ∧ (r.propagate o).table.hardWraps = true) ∧
    (o.unsafe_ = true → (r.propagate o).core.unsafe_ = true ∧ (r.propagate o).task.unsafe_ = true ∧
        (r.propagate o).strike.unsafe_ = true ∧ (r.propagate o).dl.unsafe_ = true ∧
        (r.propagate o).foot.unsafe_ = true ∧ (r.propagate o).table.unsafe_ = true) := by
  refine ⟨?_, ?_, ?_⟩ <;> intro h <;> simp [RCfg.propagate, HCfg.setOpts, h]

/-- The factorisation. For all trees, extension sets and options (alignment pinned to `a ≠ 0`, East-Asian
    breaks off) the output is the concatenation of `emit` over a piece list computed WITHOUT the three options. -/
theorem render_factor (o : Opts) (e : Exts) (a : Nat) (hea : o.ea = none) (hta : o.tableAlign = some a)
    (ha : a ≠ 0) (t : Node) :
    render (mkRCfg o e) t =
      (ir e a (o.writerEsc.getD false) t).flatMap (emit o.xhtml o.hardWraps o.unsafe_) :=
  Proof.render_factor o e a hea hta ha t

/-! ### clause 1: XHTML only rewrites the ends of void elements -/

/-- One piece: apart from a void-element end, no piece's bytes depend on XHTML; a void end is `>` vs ` />`. -/
theorem xhtml_only_voids (x u : Bool) (p : Piece) :
    (p.isVoidEnd = false → emitBase x u p = emitBase false u p) ∧
    emitBase false u .voidEnd = [62] ∧ emitBase true u .voidEnd = [32, 47, 62] :=
  ⟨Proof.emitBase_xhtml x u p, rfl, Proof.voidEndBytes_true⟩

/-- Whole output: it is the concatenation over ONE piece list (the `ir` with HardWraps applied, computed without
    XHTML) of bytes that do not depend on XHTML, except that each void end is `voidEndBytes o.xhtml`. -/
theorem xhtml_only_voids_render (o : Opts) (e : Exts) (a : Nat) (hea : o.ea = none) (hta : o.tableAlign = some a)
    (ha : a ≠ 0) (t : Node) :
    render (mkRCfg o e) t =
      ((ir e a (o.writerEsc.getD false) t).flatMap (hardWrap o.hardWraps)).flatMap
        (fun p => if p.isVoidEnd then voidEndBytes o.xhtml else emitBase false o.unsafe_ p) := by
  rw [Proof.render_factor o e a hea hta ha t, Proof.flatMap_emit, Proof.emitBase_xhtml_fun]

/-- XHTML on versus off, side by side: same pieces, same bytes, ` />` instead of `>` at the void ends. -/
theorem xhtml_on_off (o : Opts) (e : Exts) (a : Nat) (hea : o.ea = none) (hta : o.tableAlign = some a)
    (ha : a ≠ 0) (t : Node) :
    let ps := (ir e a (o.writerEsc.getD false) t).flatMap (hardWrap o.hardWraps)
    render (mkRCfg { o with xhtml := false } e) t =
        ps.flatMap (fun p => if p.isVoidEnd then [62] else emitBase false o.unsafe_ p) ∧
    render (mkRCfg { o with xhtml := true } e) t =
        ps.flatMap (fun p => if p.isVoidEnd then [32, 47, 62] else emitBase false o.unsafe_ p) := by
  have hv : voidEndBytes true = [32, 47, 62] := Proof.voidEndBytes_true
  have h0 := xhtml_only_voids_render { o with xhtml := false } e a hea hta ha t
  have h1 := xhtml_only_voids_render { o with xhtml := true } e a hea hta ha t
  simp only [hv] at h1
  exact ⟨h0, h1⟩

/-! ### clause 2: HardWraps only puts a `<br>` element before each soft line break -/

/-- One piece: only `softBreak` depends on HardWraps, and with HardWraps it is the `<br` + void end followed by
    what it is without. -/
theorem hardwraps_only_softbreaks (x h u : Bool) (p : Piece) :
    (p.isSoftBreak = false → emit x h u p = emit x false u p) ∧
    emit x true u .softBreak = strBytes "<br" ++ voidEndBytes x ++ emit x false u .softBreak ∧
    emit x false u .softBreak = [10] :=
  ⟨Proof.emit_hardWraps x h u p, Proof.emit_softBreak_hard x u, rfl⟩

/-- Whole output, HardWraps on versus off: same pieces; each soft break is preceded by the `<br>` element, nothing
    else changes. -/
theorem hardwraps_on_off (o : Opts) (e : Exts) (a : Nat) (hea : o.ea = none) (hta : o.tableAlign = some a)
    (ha : a ≠ 0) (t : Node) :
    let ps := ir e a (o.writerEsc.getD false) t
    render (mkRCfg { o with hardWraps := false } e) t = ps.flatMap (emit o.xhtml false o.unsafe_) ∧
    render (mkRCfg { o with hardWraps := true } e) t =
        ps.flatMap (fun p => (if p.isSoftBreak then strBytes "<br" ++ voidEndBytes o.xhtml else []) ++
                              emit o.xhtml false o.unsafe_ p) := by
  have h0 := Proof.render_factor { o with hardWraps := false } e a hea hta ha t
  have h1 := Proof.render_factor { o with hardWraps := true } e a hea hta ha t
  rw [Proof.emit_hardWraps_fun] at h1
  exact ⟨h0, h1⟩

/-! ### clause 3: Unsafe only changes raw HTML and destinations classified dangerous -/

/-- One piece: a piece that is neither raw HTML nor a dangerous destination has the same bytes with and without
    Unsafe; the sensitive ones are placeholder vs original bytes, empty vs actual (HTML-escaped) URL. -/
theorem unsafe_only_raw (x h u : Bool) (p : Piece) :
    (p.unsafeSensitive = false → emit x h u p = emit x h false p) ∧
    (∀ ls, emit x h false (.rawBlock ls) = omitted ++ [10] ∧ emit x h true (.rawBlock ls) = ls.flatMap secureWrite) ∧
    (∀ c, emit x h false (.rawBlockClosure c) = omitted ++ [10] ∧ emit x h true (.rawBlockClosure c) = secureWrite c) ∧
    (∀ ss, emit x h false (.rawInline ss) = omitted ∧ emit x h true (.rawInline ss) = ss.flatten) ∧
    (∀ d, isDangerousURL d = true → emit x h false (.url d) = [] ∧ emit x h true (.url d) = escapeHTML d) := by
  refine ⟨Proof.emit_unsafeOff x h u p, ?_, ?_, ?_, ?_⟩ <;> intros <;> simp_all [emit, hardWrap, emitBase, urlOut]

/-- Whole output: the bytes of every non-sensitive piece are those of the safe rendering, whatever Unsafe is. -/
theorem unsafe_only_raw_render (o : Opts) (e : Exts) (a : Nat) (hea : o.ea = none) (hta : o.tableAlign = some a)
    (ha : a ≠ 0) (t : Node) :
    render (mkRCfg o e) t =
      (ir e a (o.writerEsc.getD false) t).flatMap
        (fun p => if p.unsafeSensitive then emit o.xhtml o.hardWraps o.unsafe_ p
                  else emit o.xhtml o.hardWraps false p) := by
  rw [Proof.render_factor o e a hea hta ha t, ← Proof.emit_unsafe_fun]

/-- Unsafe changes nothing when the tree has no raw HTML and no dangerous destination. -/
theorem unsafe_noop_without_raw (o : Opts) (e : Exts) (a : Nat) (hea : o.ea = none) (hta : o.tableAlign = some a)
    (ha : a ≠ 0) (t : Node)
    (hclean : ∀ p ∈ ir e a (o.writerEsc.getD false) t, p.unsafeSensitive = false) :
    render (mkRCfg { o with unsafe_ := true } e) t = render (mkRCfg { o with unsafe_ := false } e) t := by
  rw [Proof.render_factor { o with unsafe_ := true } e a hea hta ha t,
    Proof.render_factor { o with unsafe_ := false } e a hea hta ha t]
  exact Proof.flatMap_emit_unsafe_noop _ _ _ hclean

/-- The same, with the hypothesis on the tree: no HTMLBlock / RawHTML node anywhere and no Link / Image / AutoLink
    whose URL-escaped destination is classified dangerous. -/
theorem unsafe_noop_clean_tree (o : Opts) (e : Exts) (a : Nat) (hea : o.ea = none) (hta : o.tableAlign = some a)
    (ha : a ≠ 0) (t : Node) (hclean : t.unsafeFree = true) :
    render (mkRCfg { o with unsafe_ := true } e) t = render (mkRCfg { o with unsafe_ := false } e) t :=
  unsafe_noop_without_raw o e a hea hta ha t (Proof.irNode_unsafeFree e a _ false none t hclean)

/-! ### the proviso is needed -/

/-- one left-aligned table cell -/
def cellTree : Node := .mk (.tableCell 0) none []

/-- WITHOUT pinning the alignment method the factorisation is impossible: with the Default method the cell is
    `<td align="left">` under XHTML and `<td style="text-align:left">` otherwise, and no piece list whatsoever
    (for any HardWraps/Unsafe) produces both, because an XHTML-on emission is never shorter than the XHTML-off
    emission of the same pieces. -/
theorem witness_default_align :
    ¬ ∃ (ps : List Piece) (h u : Bool),
        ∀ x, render (mkRCfg { xhtml := x } { table := true }) cellTree = ps.flatMap (emit x h u) := by
  rintro ⟨ps, h, u, hx⟩
  have h1 := congrArg List.length (hx true)
  have h0 := congrArg List.length (hx false)
  have l1 : (render (mkRCfg { xhtml := true } { table := true }) cellTree).length = 23 := by decide +kernel
  have l0 : (render (mkRCfg { xhtml := false } { table := true }) cellTree).length = 34 := by decide +kernel
  have := Proof.flatMap_emit_len_mono h u ps
  omega

/-! ### non-vacuity and tests (examples on literals are tests, not proofs of the property) -/

/-- the hypotheses are satisfiable for every combination of the three options -/
example (x h u : Bool) :
    ({ xhtml := x, hardWraps := h, unsafe_ := u, tableAlign := some 1 } : Opts).ea = none ∧
    ({ xhtml := x, hardWraps := h, unsafe_ := u, tableAlign := some 1 } : Opts).tableAlign = some 1 ∧ 1 ≠ 0 :=
  ⟨rfl, rfl, by decide⟩

/-- a paragraph `a⏎<b>[x](javascript:y)` then a thematic break -/
def sample : Node :=
  .mk .document none
    [.mk .paragraph none
       [.mk (.text [97] true false false false) none [], .mk (.rawHTML [[60, 98, 62]]) none [],
        .mk (.link (strBytes "javascript:y") none) none [.mk (.text [120] false false false false) none []]],
     .mk .thematicBreak none []]

/-- test: the sample's piece list contains every option-sensitive kind of piece -/
example : (ir {} 1 false sample).any Piece.isVoidEnd ∧ (ir {} 1 false sample).any Piece.isSoftBreak ∧
    (ir {} 1 false sample).any Piece.unsafeSensitive := by decide +kernel

/-- test: a tree that satisfies the clean-tree hypothesis, and one that does not -/
example : cellTree.unsafeFree = true ∧ sample.unsafeFree = false := by decide +kernel

/-- test: all options off / all on -/
example : render (mkRCfg { tableAlign := some 1 } {}) sample =
    strBytes "<p>a\n<!-- raw HTML omitted --><a href=\"\">x</a></p>\n<hr>\n" := by decide +kernel
example : render (mkRCfg { tableAlign := some 1, xhtml := true, hardWraps := true, unsafe_ := true } {}) sample =
    strBytes "<p>a<br />\n<b><a href=\"javascript:y\">x</a></p>\n<hr />\n" := by decide +kernel

/-- test: the two renderings of the witness -/
example : render (mkRCfg { xhtml := true } { table := true }) cellTree = strBytes "<td align=\"left\"></td>\n" := by
  decide +kernel
example : render (mkRCfg { xhtml := false } { table := true }) cellTree =
    strBytes "<td style=\"text-align:left\"></td>\n" := by decide +kernel

/-- (re-export of `GM.Props.ConvertE2E.convert_options_orthogonal`) `convert_options_orthogonal` (C10 `render_factor` / `xhtml_only_voids_render` / `hardwraps_only_softbreaks` /
    `unsafe_only_raw_render` between `convertCore uc o src` and `convertCore uc o' src`). For EVERY source there is ONE
    piece list `ps`, computed without the three options, such that for every option set the HTML `convertCore` answers
    is (a) the concatenation of `emit o.xhtml o.hardWraps o.unsafe_` over `ps`; (b) — XHTML — the concatenation over the
    HardWraps-rewritten list of bytes that do not depend on XHTML, except that each void end is `>` / ` />`; (c) —
    HardWraps — the HardWraps-off emission with `<br` + void end in front of each soft break; (d) — Unsafe — the safe
    emission of every piece that is neither raw HTML nor a destination classified dangerous. Or the parse phases fail
    and every option set gets the same error. -/
theorem convert_options_orthogonal : type_of% @GM.Props.ConvertE2E.convert_options_orthogonal := @GM.Props.ConvertE2E.convert_options_orthogonal

/-- (re-export of `GM.Props.ConvertE2E.convert_tree_independent_of_options`) `convert_tree_independent_of_options`. By construction of `convertCore` the parse phases do not see the renderer
    options: either they answer one tree `t` and the outcome is `render` of THAT tree for every option set (no option
    set makes the renderer panic), or they answer one error and that is the outcome for every option set. -/
theorem convert_tree_independent_of_options : type_of% @GM.Props.ConvertE2E.convert_tree_independent_of_options := @GM.Props.ConvertE2E.convert_tree_independent_of_options

/-- (re-export of `GM.Props.ConvertE2E.convert_unsafe_only_changes_raw`) `convert_unsafe_only_changes_raw`: two conversions of the same source that differ only in `Unsafe` are emissions of
    the same piece list that agree on every piece that is neither raw HTML nor a dangerous destination. -/
theorem convert_unsafe_only_changes_raw : type_of% @GM.Props.ConvertE2E.convert_unsafe_only_changes_raw := @GM.Props.ConvertE2E.convert_unsafe_only_changes_raw

/-- (re-export of `GM.Props.ConvertE2EAll.convert_options_orthogonal_total`) **`convert_options_orthogonal_total`** — C10 END TO END, no hypothesis on the source: for EVERY source there is ONE piece list
    `ps`, computed without the three renderer options, such that for EVERY option set (all eight) `convertCore` answers HTML and
    that HTML is (a) the concatenation of `emit o.xhtml o.hardWraps o.unsafe_` over `ps`; (b) — XHTML — the concatenation over
    the HardWraps-rewritten list of bytes that do not depend on XHTML, except that each void end is `>` / ` />`; (c) — HardWraps
    — the HardWraps-off emission with `<br` + void end in front of each soft break; (d) — Unsafe — the safe emission of every
    piece that is neither raw HTML nor a destination classified dangerous. The error alternative of `convert_options_orthogonal`
    is gone. -/
theorem convert_options_orthogonal_total : type_of% @GM.Props.ConvertE2EAll.convert_options_orthogonal_total := @GM.Props.ConvertE2EAll.convert_options_orthogonal_total

/-- (re-export of `GM.Props.ConvertE2EAll.convert_one_tree_for_all_options`) **`convert_one_tree_for_all_options`**: for every source the parse phases answer ONE tree, and for every option set the
    outcome is `render` of that tree -/
theorem convert_one_tree_for_all_options : type_of% @GM.Props.ConvertE2EAll.convert_one_tree_for_all_options := @GM.Props.ConvertE2EAll.convert_one_tree_for_all_options

/-- (re-export of `GM.Props.ConvertE2EAll.convert_unsafe_only_changes_raw_total`) **`convert_unsafe_only_changes_raw_total`**: the safe and the unsafe conversion of every source both answer HTML, as emissions
    of one piece list that agree on every piece that is neither raw HTML nor a dangerous destination -/
theorem convert_unsafe_only_changes_raw_total : type_of% @GM.Props.ConvertE2EAll.convert_unsafe_only_changes_raw_total := @GM.Props.ConvertE2EAll.convert_unsafe_only_changes_raw_total

end GM.Props.C10
