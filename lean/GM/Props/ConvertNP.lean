/-
  GM.Props.ConvertNP — C01 ("conversion is total") for the link reference definition paragraph transformer
  (parser/link_ref.go, model GM.Model.LinkRef) on the lines it really gets, and for the block driver that calls it
  (GM.Model.Blocks.DriverT). Continues GM.Props.Convert: `ScanRangesAdjacent` (stated there) is a theorem here, the scan
  and the whole of `Transform` are total on well-formed lines WITH ANY virtual paddings.
  Helper lemmas: GM/Proof/LinkRefAdj1-3.lean (cursor facts, the landing lemma of SkipSpaces, the exits of
  parseLinkReferenceDefinition one by one), GM/Proof/LinkRefTot2.lean (Transform, the guard), GM/Proof/BlocksTNPSpec.lean
  (the contract of a paragraph transformer call), GM/Proof/BlocksTNP1-13.lean (the no-panic walk of GM.Proof.BlocksDriver /
  BlocksDriverL redone for the driver with transformers). What is proved / partial / open: notes/status_tnopanic.md.
-/
import GM.Props.Convert
import GM.Proof.LinkRefTot2
import GM.Proof.BlocksTNP5
import GM.Proof.BlocksTNP8
import GM.Proof.BlocksTNP12
import GM.Proof.BlocksTNP13
import GM.Proof.BlocksTNP26
import GM.Proof.BlocksTNO5
import GM.Proof.BlocksTNO10
import GM.Proof.BlocksTNO17

namespace GM.Props.ConvertNP
open GM GM.Text GM.Spec GM.Blocks GM.LinkRef GM.Convert GM.Proof.InlinesReader GM.Proof.LinkRefFacts
open GM.Proof.LinkRefAdj GM.Proof.LinkRefTot2

/-! ### (a) contract monitor (3) of `finishLines` never fires -/

/-- **The ranges the transformer's scan hands to its second loop are adjacent from line 0 on, non-empty, and end inside the
    paragraph** — for every source, every paragraph whose lines are well-formed (`WFSegs`: inside the source, increasing,
    non-empty, paddings ≥ 0 — ANY paddings, i.e. also continuation lines behind a partly consumed tab inside a container)
    and none of which is blank (the paragraph parser never appends a blank line), every reference map. Moreover the scan
    itself is TOTAL on such lines: no Go panic (`line[pos]`, `Advance`, `Value`), no fuel exhaustion, the progress monitor
    of the model does not fire. True of the code since /repo 0539a73 (a definition leaves the reader at the start of the
    line behind it, or in front of white space only). -/
theorem scan_total_and_ranges_adjacent (src : Bytes) (lines : List Segment) (W : WFSegs src lines)
    (hnb : ∀ s ∈ lines, isBlank (sub src s.start.toNat s.stop.toNat) = false) (refs : RefMap) :
    ∃ rm refs', transformScan src lines refs = .ok (rm, refs') ∧ Adjacent 0 rm ∧ lastEnd 0 rm ≤ lines.length := by
  have hnb' : NoBlank src lines := fun j h0 h1 =>
    hnb _ (List.mem_of_getElem? (GM.Proof.Reader.segOf_get lines j h0 h1))
  obtain ⟨rm, refs', e, h⟩ := transformScan_ok (NB := True) W (fun _ => hnb') refs
  obtain ⟨a, l⟩ := h trivial
  exact ⟨rm, refs', e, adjacentB_sound rm 0 a, by rw [← lastEndOf_eq]; exact l⟩

/-- **`GM.Props.Convert.ScanRangesAdjacent` is a theorem** (it was stated there as a `def … : Prop`): on a paragraph with
    well-formed padding-free non-blank lines the ranges the scan answers are adjacent from line 0 on and end inside the
    paragraph, so contract monitor (3) of `GM.LinkRef.finishLines` is unreachable. -/
theorem scan_ranges_adjacent : GM.Props.Convert.ScanRangesAdjacent := by
  intro src lines refs rm refs' W hnb h
  obtain ⟨rm2, refs2, e, a, l⟩ := scan_total_and_ranges_adjacent src lines W.1 hnb refs
  rw [e] at h
  simp only [Except.ok.injEq, Prod.mk.injEq] at h
  obtain ⟨rfl, _⟩ := h
  exact ⟨a, l⟩

/-- the second stage of Transform on what the scan answers: the monitor passes, no `slice` panic of
    `Sliced` / `SetSliced`, no stale-elements `pre`; the paragraph keeps its lines without the first `lastEnd` ones -/
theorem second_loop_total (src : Bytes) (lines : List Segment) (W : WFSegs src lines)
    (hnb : ∀ s ∈ lines, isBlank (sub src s.start.toNat s.stop.toNat) = false) (refs : RefMap) :
    ∃ rm refs', transformScan src lines refs = .ok (rm, refs') ∧
      finishLines rm lines = .ok (lines.drop (lastEnd 0 rm).toNat) := by
  have hnb' : NoBlank src lines := fun j h0 h1 =>
    hnb _ (List.mem_of_getElem? (GM.Proof.Reader.segOf_get lines j h0 h1))
  obtain ⟨rm, refs', e, h⟩ := transformScan_ok (NB := True) W (fun _ => hnb') refs
  obtain ⟨a, l⟩ := h trivial
  exact ⟨rm, refs', e, finishLines_ok a l⟩

/-- the hypotheses are satisfiable, with a padded continuation line (test on a literal): `> [a]:⏎>⇥/u`, lines `[a]:⏎` and
    `/u` with padding 2 — the scan removes both lines -/
example : (transformScan [62, 32, 91, 97, 93, 58, 10, 62, 9, 47, 117]
    [{ start := 2, stop := 7 }, { start := 9, stop := 11, padding := 2 }] []).toOption.map (·.1) = some [(0, 2)] := by
  decide +kernel

/-- why "no line is blank" is needed (test on a literal, kernel-evaluated; NOT producible by the paragraph parser): with
    the lines `[a]: /u⏎`, `⏎`, `[b]: /v⏎` the scan answers the ranges (0,1), (2,3) — SkipSpaces behind the first
    definition runs over the blank line — and contract monitor (3) fires -/
example : (transformScan [91, 97, 93, 58, 32, 47, 117, 10, 10, 91, 98, 93, 58, 32, 47, 118, 10]
    [{ start := 0, stop := 8 }, { start := 8, stop := 9 }, { start := 9, stop := 17 }] []).toOption.map (·.1) =
      some [(0, 1), (2, 3)] := by decide +kernel

/-- finding T1 of notes/status_tnopanic.md, REPAIRED in /repo (KNOWN_FINDINGS `fixed:` 9e57c92; regression test on a literal,
    kernel-evaluated): in `> [a⏎>⇥b]: /u` the label closes on a tab-padded continuation line; FindClosure's
    `seg.WithStop(seg.Start + i - seg.Padding)` no longer counts the two virtual spaces of the padding as bytes, so the reference
    is registered under the key `a b` (before the repair: `a b]:`) -/
example : (transformScan [62, 32, 91, 97, 10, 62, 9, 98, 93, 58, 32, 47, 117, 10]
    [{ start := 2, stop := 5 }, { start := 7, stop := 14, padding := 2 }] []).toOption.map (fun x => x.2.map (·.1)) =
      some [[97, 32, 98]] := by decide +kernel

/-! ### (b) `Transform` is total on the paragraphs it really gets -/

/-- **`linkReferenceParagraphTransformer.Transform` is total**: from EVERY block-phase state, on a node whose lines are fit
    for it (`TLinesOK`: no lines, or `WFSegs` with any paddings and no blank line) and that has a parent: no Go panic — the
    scan, `Sliced` / `SetSliced`, `node.Parent().ReplaceChild` —, no fuel exhaustion, none of the model's monitors; and
    what it does to the state is `PTPost`: the main reader is untouched, of the context only the reference map changes,
    the paragraph loses an initial segment of its lines and keeps one, or loses all and an empty TextBlock takes its
    place among its parent's children (link_ref.go:41-50). -/
theorem transform_total (node : Nat) (s : St) (hl : TLinesOK s.r.source (nd s node).lines)
    (hp : (nd s node).parent.isSome = true) :
    ∃ s', transform node s = .ok ((), s') ∧ PTPost node s s' :=
  GM.Proof.LinkRefTot2.transform_total node s hl hp

/-- **the scan is total on well-formed lines with ANY paddings, blank lines allowed** (or on no lines): no Go panic, no fuel
    exhaustion, the progress monitor silent. (GM.Props.Convert.transform_scan_total has this for padding-free lines,
    transform_never_loops only termination for padded ones.) -/
theorem transform_scan_total_padded (src : Bytes) (lines : List Segment) (h : lines = [] ∨ WFSegs src lines) (refs : RefMap) :
    ∃ res, transformScan src lines refs = .ok res :=
  transformScan_total_wf h refs

/-- … and the whole of Transform on such a paragraph with a parent: `PTPost`, or contract monitor (3) answered `pre` — never a
    Go panic, never the fuel error. (With a blank line among the lines the monitor CAN fire: the example above.) -/
theorem transform_total_or_monitor (node : Nat) (s : St)
    (hl : (nd s node).lines = [] ∨ WFSegs s.r.source (nd s node).lines) (hp : (nd s node).parent.isSome = true) :
    (∃ s', transform node s = .ok ((), s') ∧ PTPost node s s') ∨ transform node s = .error .pre :=
  transform_total_wf node s hl hp

/-- **the transformer of the composition, `GM.LinkRef.guardedTransform` (Transform behind the run-time check `WFSegs`),
    never raises a Go panic and never exhausts fuel**, from any state, on any Paragraph node that has a parent: it ends as
    `PTPost` says, or answers `pre` (the check or monitor (3)). In the form the driver theorem consumes: `PTsSpec src pre` of
    the default transformer list of `GM.Convert.blockPhase true`. -/
theorem default_transformers_contract (src : Bytes) : PTsSpec src .pre (paragraphTransformers true) :=
  paragraphTransformers_spec src

/-- the nil case of `node.Parent().ReplaceChild` is real in the model: a PARENTLESS paragraph whose lines are all
    definitions makes Transform panic (test on a literal). parser.go only calls transformParagraph on paragraphs that have a
    parent (closeBlocks: `node.Parent() != nil`; RequireParagraph: the paragraph is the last child of `parent`). -/
def parentlessParagraph : St :=
  { initSt [91, 97, 93, 58, 32, 47, 117] with
    nodes := [{ kind := .paragraph, lines := [{ start := 0, stop := 7 }], linesNil := false }] }

example : (match transform 0 parentlessParagraph with | .error .nil => true | _ => false) = true := by decide +kernel

/-- **the contract of the guarded transformer** (`guardE e`: Transform behind the run-time check `linesOKB` of exactly the
    hypothesis above, the check answering `e`): on a Paragraph node that has a parent, from any state, it ends as `PTPost`
    says or answers `e` — for EVERY choice of `e`, so the check is the only source of an abnormal end. This is the
    hypothesis `PTsSpec` of the driver theorem. -/
theorem guarded_transformer_contract (src : Bytes) (e : Panic) : PTsSpec src e [guardE e] :=
  guardE_ptsSpec src e

/-- … and it is admissible for the termination theorem of the driver (GM.Props.Convert.block_phase_with_transformers_terminates) -/
theorem guarded_transformer_terminates (e : Panic) (he : e ≠ .loop) : PTsOK [guardE e] :=
  guardE_ptsOK e he

/-- the block phase with the guarded transformer never exhausts fuel, whatever the guard answers -/
theorem block_phase_guardE_terminates (e : Panic) (he : e ≠ .loop) (src : Bytes) : runT [guardE e] src ≠ .error .loop :=
  runT_noLoop (guardE_ptsOK e he) src

/-- when its check passes the guarded transformer IS Transform; when it fails it answers `e` -/
theorem guard_passes (e : Panic) (node : Nat) (s : St) (h : linesOKB s.r.source (nd s node).lines = true) :
    guardE e node s = transform node s := guardE_passes e node s h

theorem guard_fires (e : Panic) (node : Nat) (s : St) (h : linesOKB s.r.source (nd s node).lines = false) :
    guardE e node s = .error e := guardE_fires e node s h

/-- the check decides the hypothesis of `transform_total` -/
theorem guard_decides_hypothesis {src : Bytes} {l : List Segment} (h : linesOKB src l = true) : TLinesOK src l :=
  linesOKB_sound h

/-- non-vacuity: the check passes on the padded paragraph above -/
example : linesOKB [62, 32, 91, 97, 93, 58, 10, 62, 9, 47, 117]
    [{ start := 2, stop := 7 }, { start := 9, stop := 11, padding := 2 }] = true := by decide +kernel

/-! ### (c)/(d) the block phase WITH paragraph transformers, whole runs — partial: sources without a setext underline -/

/-- the source class of the whole-run theorems: no view of (the rest of) a line of the source — from any byte offset, with
    any virtual padding — is a setext heading underline (`matchesSetextHeadingBar`: ≤ 3 spaces, a run of `=` or of `-`,
    trailing white space). The bytes `-` and `=` themselves are allowed (bullet lists with `-`, text, `a = b`); excluded are
    sources with a line that ends in such a run, e.g. `---` or `Title⏎===`. On these sources setextHeadingParser.Open always
    declines, so the RequireParagraph path of openBlocks (parser.go:985-997) is never entered. -/
abbrev NoUnderline (src : Bytes) : Prop := GM.Blocks.L.B.NoSetextBar src

/-- a decidable sufficient condition: the source has neither `-` nor `=` -/
theorem no_underline_of_setext_free (src : Bytes) (h : GM.Blocks.T.SetextFree src) : NoUnderline src :=
  GM.Blocks.T.noBar_of_setextFree src h

/-- a decidable sufficient condition that allows `-` and `=`: the executable test `noBarB` (the views from every byte offset with
    the paddings 0..3; more than 3 leading spaces never make an underline) -/
theorem no_underline_of_check (src : Bytes) (h : GM.Blocks.T.noBarB src = true) : NoUnderline src :=
  GM.Blocks.T.noBarB_sound h

/-- non-vacuity (test on a literal, kernel-evaluated): `[a]: /u⏎⏎- [a]⏎- b = c⏎` — a definition, a bullet list written with
    `-`, an `=` in the text — is in the class -/
example : NoUnderline [91, 97, 93, 58, 32, 47, 117, 10, 10, 45, 32, 91, 97, 93, 10, 45, 32, 98, 32, 61, 32, 99, 10] :=
  no_underline_of_check _ (by decide +kernel)

/-- … and `Title⏎===⏎` is not accepted by the test (it is the RequireParagraph path) -/
example : GM.Blocks.T.noBarB [84, 10, 61, 61, 61, 10] = false := by decide +kernel

/-- **the block driver with paragraph transformers is total, for EVERY list of transformers that keep the contract** — on every
    source without a setext underline (`NoUnderline`), ALL ten block parsers, lists included: `parseBlocks` with
    `transformParagraph` called from `closeBlocks` returns a tree all of whose line segments lie inside the source, or a
    transformer's run-time guard answered `e`. No Go panic of parseBlocks / openBlocks / closeBlocks / the block parsers / the
    tree surgery, no fuel exhaustion, and NEITHER contract monitor of the retry loop (`retryStepT` (1)/(2)) fires. `_partial`:
    on sources with an underline the RequireParagraph path is live; what its proof needs is in notes/status_tnopanic.md. -/
theorem block_phase_with_transformers_total_partial (src : Bytes) (e : Panic) (pts : List PT) (hs : PTsSpec src e pts)
    (hl : PTsOK pts) (hsrc : NoUnderline src) :
    (∃ s, runT pts src = .ok s ∧ NodesOK src s) ∨ runT pts src = .error e :=
  GM.Blocks.T.runT_total_noBar src e pts hs hl hsrc

/-- **goal (c), partial — the block phase of the default pipeline never raises a Go panic** on such sources:
    `GM.Convert.blockPhase true src` (the link reference transformer behind its run-time check) returns a tree with all line
    segments in range, or answers `pre` — the outcome of the run-time check `WFSegs` and of contract monitor (3), the only
    abnormal ends left; every Go run-time panic of the model (`index`, `slice`, `nil`, `assert`, `explicit`) and the fuel error
    are excluded. -/
theorem block_phase_no_go_panic_partial (src : Bytes) (hsrc : NoUnderline src) :
    (∃ s, blockPhase true src = .ok s ∧ NodesOK src s) ∨ blockPhase true src = .error .pre :=
  GM.Blocks.T.runT_total_noBar src .pre (paragraphTransformers true) (paragraphTransformers_spec src)
    GM.Proof.LinkRefPres.paragraphTransformers_ok hsrc

/-- the same with the list shape of the returned store exported (`KidsOK`: the children of a List are ListItems with offset ≥ 0,
    a node whose parent is a List is a ListItem) — what the end-to-end C05 statement of package `e2e` consumes -/
theorem block_phase_store_shape_partial (src : Bytes) (hsrc : NoUnderline src) :
    (∃ s, blockPhase true src = .ok s ∧ NodesOK src s ∧ KidsOK s) ∨ blockPhase true src = .error .pre :=
  GM.Blocks.T.runT_total_noBar_kids src .pre (paragraphTransformers true) (paragraphTransformers_spec src)
    GM.Proof.LinkRefPres.paragraphTransformers_ok hsrc

/-- **goal (c), partial, in the form that composes with "the guard never fires"** (package `wf0`): with the transformer behind
    the check `linesOKB` (`WFSegs` ∧ no blank line) whose outcome `e` is a PARAMETER, the run ends normally or with `e` — for
    every `e`. Since `e` is arbitrary, the check is the only source of an abnormal end: if `runT [guardE e] src` is the same
    for two different `e` (e.g. because the check never fires), it is `.ok`. -/
theorem block_phase_total_modulo_guard_partial (e : Panic) (he : e ≠ .loop) (src : Bytes) (hsrc : NoUnderline src) :
    (∃ s, runT [guardE e] src = .ok s ∧ NodesOK src s) ∨ runT [guardE e] src = .error e :=
  GM.Blocks.T.runT_total_noBar src e [guardE e] (guardE_ptsSpec src e) (guardE_ptsOK e he) hsrc

/-- the same from the list-free core of the proof (GM.Proof.BlocksTNP1/2/4/5: no list invariant; sources without
    `-` `=` `*` `+` and digits) — subsumed by the theorem above, kept because it is the readable core of the list-aware walk -/
theorem block_phase_with_transformers_total_list_free (src : Bytes) (e : Panic) (pts : List PT) (hs : PTsSpec src e pts)
    (hl : PTsOK pts) (hsrc : GM.Blocks.T.SetextListFree src) :
    (∃ s, runT pts src = .ok s ∧ NodesOK src s) ∨ runT pts src = .error e :=
  GM.Blocks.T.runT_total_base src e pts hs hl hsrc

/-- **goal (d), partial — none of the model's contract monitors fires** on such sources: with the guard's outcome chosen different
    from `pre` (the code every monitor answers: retry monitors (1)/(2) of `retryStepT`, the progress monitor of the scan, the
    stale-elements check of `removeLoop`, contract monitor (3) of `finishLines`), the run never ends in `pre` -/
theorem monitors_never_fire_partial (e : Panic) (he : e ≠ .loop) (hp : e ≠ .pre) (src : Bytes) (hsrc : NoUnderline src) :
    runT [guardE e] src ≠ .error .pre := by
  intro h
  rcases block_phase_total_modulo_guard_partial e he src hsrc with ⟨s, h', _⟩ | h'
  · rw [h] at h'; cases h'
  · rw [h] at h'; cases h'; exact hp rfl

/-! ### (c)/(d) the block phase WITH paragraph transformers, whole runs — GENERAL: every byte string -/

/-- **The block driver with paragraph transformers is total, for EVERY byte string and EVERY list of transformers that keep the
    contract** (`PTsSpec src e pts`: a call on a Paragraph with a parent ends as `PTPost` says or answers the guard's outcome `e`;
    `PTsOK pts`: no transformer exhausts fuel): `parseBlocks` with `transformParagraph` called where parser.go calls it —
    `closeBlocks` (parser.go:904-907) and the RequireParagraph path of `openBlocks` (985-997: `Close` the paragraph, pop it,
    transform it, `continuable = false; goto retry` when it has been transformed away) — returns a tree all of whose line segments
    lie inside the source and whose Lists only have ListItem children, or a transformer's guard answered `e`. No Go panic of
    parseBlocks / openBlocks / closeBlocks / the ten block parsers / the tree surgery (incl. `setextHeadingParser.Close` on a
    transformed paragraph and the stale slice read `openedBlocks[lastIndex]` behind a transformed retry), no fuel exhaustion,
    and NEITHER contract monitor of the retry loop (`retryStepT` (1)/(2)) fires. New invariants (GM.Proof.BlocksTNP20-25): parent
    pointers and children lists agree (`TreeOK`), the last opened leaf is the last child of its parent (so the `else` of
    `last == parent.LastChild()` is dead), `temporaryParagraphKey` is only constrained while a setext block is open. -/
theorem block_phase_with_transformers_total (src : Bytes) (e : Panic) (pts : List PT) (hs : PTsSpec src e pts)
    (hl : PTsOK pts) :
    (∃ s, runT pts src = .ok s ∧ NodesOK src s ∧ KidsOK s) ∨ runT pts src = .error e :=
  GM.Blocks.T.runT_total src e pts hs hl

/-- **goal (c) — the block phase of the default pipeline never raises a Go panic, for EVERY byte string**:
    `GM.Convert.blockPhase true src` (the link reference transformer behind its run-time check) returns a tree, or answers `pre` —
    the outcome of the run-time check `WFSegs` and of contract monitor (3), the only abnormal ends left; every Go run-time panic of
    the model (`index`, `slice`, `nil`, `assert`, `explicit`) and the fuel error are excluded. -/
theorem block_phase_no_go_panic (src : Bytes) :
    (∃ s, blockPhase true src = .ok s ∧ NodesOK src s ∧ KidsOK s) ∨ blockPhase true src = .error .pre :=
  GM.Blocks.T.runT_total src .pre (paragraphTransformers true) (paragraphTransformers_spec src)
    GM.Proof.LinkRefPres.paragraphTransformers_ok

/-- **goal (c) in the form that composes with "the guard never fires"**: with the transformer behind the check `linesOKB`
    (`WFSegs` ∧ no blank line) whose outcome `e` is a PARAMETER, every run ends normally or with `e` — for every `e` and every byte
    string -/
theorem block_phase_total_modulo_guard (e : Panic) (he : e ≠ .loop) (src : Bytes) :
    (∃ s, runT [guardE e] src = .ok s ∧ NodesOK src s ∧ KidsOK s) ∨ runT [guardE e] src = .error e :=
  GM.Blocks.T.runT_total src e [guardE e] (guardE_ptsSpec src e) (guardE_ptsOK e he)

/-- **goal (d) — none of the model's contract monitors fires, for EVERY byte string**: with the guard's outcome chosen different
    from `pre` (the code every monitor answers: retry monitors (1)/(2) of `retryStepT`, the progress monitor of the scan, the
    stale-elements check of `removeLoop`, contract monitor (3) of `finishLines`), no run ends in `pre` -/
theorem monitors_never_fire (e : Panic) (he : e ≠ .loop) (hp : e ≠ .pre) (src : Bytes) :
    runT [guardE e] src ≠ .error .pre := by
  intro h
  rcases block_phase_total_modulo_guard e he src with ⟨s, h', _⟩ | h'
  · rw [h] at h'; cases h'
  · rw [h] at h'; cases h'; exact hp rfl

/-! ### "the guard never fires": the lines handed to the transformer are `WFSegs` and none is blank -/

/-- **the run-time check in front of the transformer never fires** — on every source without a setext underline: the block phase
    with the guarded transformer IS the block phase with the bare `Transform`, whatever the guard would answer. Invariant (wf0's
    `Inv` carried through the driver with transformers, GM.Proof.BlocksTNO1-5): the lines of every non-raw block increase, every
    segment is non-empty, every line of a Paragraph holds a non-space byte; a transformer call (`PTPost`) only drops a prefix of the
    lines, so all of it survives. -/
theorem guard_never_fires_no_underline (src : Bytes) (h : NoUnderline src) (e : Panic) :
    runT [guardE e] src = runT [transform] src :=
  GM.Blocks.TO.guard_never_fires_noBar src h e

/-- … hence **the block phase with the bare transformer ends normally** on such sources: no guard, no monitor, no panic -/
theorem transform_run_total_no_underline (src : Bytes) (h : NoUnderline src) :
    ∃ s, runT [transform] src = .ok s ∧ NodesOK src s :=
  GM.Blocks.TO.runT_transform_total_noBar src h

/-- … and **C01 for the block phase of the default pipeline, unconditional on such sources**: `blockPhase true src` returns a tree;
    the run-time check is an observer (`blockPhase true = blockPhase false`) -/
theorem block_phase_total_no_underline (src : Bytes) (h : NoUnderline src) :
    ∃ s, blockPhase true src = .ok s ∧ NodesOK src s :=
  GM.Blocks.TO.blockPhase_total_noBar src h

theorem block_phase_guard_is_observer_no_underline (src : Bytes) (h : NoUnderline src) :
    blockPhase true src = blockPhase false src :=
  GM.Blocks.TO.blockPhase_guard_irrelevant_noBar src h

/-- the C05(c) facts for the store the block phase WITH the transformer returns (such sources): the lines of every non-raw block
    increase, segments are non-empty without ForceNewline, `WFSegs` when there are lines; every line of a Paragraph holds a non-space
    byte -/
theorem transform_run_lines_wellformed_no_underline (src : Bytes) (h : NoUnderline src) (s : St)
    (hr : runT [transform] src = .ok s) :
    (∀ n ∈ s.nodes, GM.Proof.BlocksWF0.isRaw n.kind = false → OrdFrom 0 n.lines ∧ (∀ t ∈ n.lines, t.start < t.stop ∧ t.forceNewline = false) ∧
      (n.lines ≠ [] → WFSegs src n.lines)) ∧
    (∀ n ∈ s.nodes, n.kind = .paragraph → ∀ t ∈ n.lines, NonBlankSeg src t) :=
  GM.Blocks.TO.runT_transform_wfsegs_noBar src h s hr

/-! ### "the guard never fires" and C01 for the block phase — GENERAL: every byte string -/

/-- **The run-time check in front of the transformer never fires, for EVERY byte string**: the block phase with the guarded
    transformer (`guardE e`: check `WFSegs` ∧ no blank line, outcome `e`) IS the block phase with the bare `Transform`, whatever
    `e`. Invariant carried through the whole driver with transformers, RequireParagraph path included (GM.Proof.BlocksTNO6-10,
    wf0's `Inv` re-done next to the no-panic walk): the lines of every non-raw block increase, every segment is non-empty, every
    line of a Paragraph holds a non-space byte; `Transform` only drops a prefix of the lines (`PTPost`); the setext heading takes
    the lines of a paragraph that still has some. -/
theorem guard_never_fires (src : Bytes) (e : Panic) : runT [guardE e] src = runT [transform] src :=
  GM.Blocks.TO.guard_never_fires src e

/-- **C01, block phase of the default pipeline, for EVERY byte string: `GM.Convert.blockPhase true src` returns a tree** — no Go
    run-time panic, no fuel exhaustion, no contract monitor, and the run-time check `WFSegs` of `guardedTransform` does not fire —
    all of whose line segments lie inside the source and whose Lists only have ListItem children. -/
theorem block_phase_total (src : Bytes) : ∃ s, blockPhase true src = .ok s ∧ NodesOK src s ∧ KidsOK s := by
  obtain ⟨s, hs, _⟩ := GM.Blocks.TO.blockPhase_total src
  rcases block_phase_no_go_panic src with h | h
  · exact h
  · rw [hs] at h; cases h

/-- the run-time check of the composition is an observer: with and without it the block phase is the same function -/
theorem block_phase_guard_is_observer (src : Bytes) : blockPhase true src = blockPhase false src :=
  GM.Blocks.TO.blockPhase_guard_irrelevant src

/-- the block phase with the bare transformer (`blockPhase false`) returns a tree for every byte string -/
theorem transform_run_total (src : Bytes) : ∃ s, runT [transform] src = .ok s ∧ NodesOK src s :=
  GM.Blocks.TO.runT_transform_total src

/-- **C05(c) for the store the block phase WITH the transformer returns, every byte string**: the lines of every non-raw block
    increase, segments are non-empty without ForceNewline, `WFSegs` when there are lines; every line of a Paragraph holds a
    non-space byte (wf0's `inline_lines_wellformed` for `run`, now for `runT`) -/
theorem transform_run_lines_wellformed (src : Bytes) (s : St) (hr : runT [transform] src = .ok s) :
    (∀ n ∈ s.nodes, GM.Proof.BlocksWF0.isRaw n.kind = false → OrdFrom 0 n.lines ∧
        (∀ t ∈ n.lines, t.start < t.stop ∧ t.forceNewline = false) ∧ (n.lines ≠ [] → WFSegs src n.lines)) ∧
    (∀ n ∈ s.nodes, n.kind = .paragraph → ∀ t ∈ n.lines, NonBlankSeg src t) :=
  GM.Blocks.TO.runT_transform_wfsegs src s hr

/-- … for `blockPhase true` itself -/
theorem block_phase_lines_wellformed (src : Bytes) (s : St) (hr : blockPhase true src = .ok s) :
    (∀ n ∈ s.nodes, GM.Proof.BlocksWF0.isRaw n.kind = false → OrdFrom 0 n.lines ∧
        (∀ t ∈ n.lines, t.start < t.stop ∧ t.forceNewline = false) ∧ (n.lines ≠ [] → WFSegs src n.lines)) ∧
    (∀ n ∈ s.nodes, n.kind = .paragraph → ∀ t ∈ n.lines, NonBlankSeg src t) := by
  rw [block_phase_guard_is_observer] at hr
  exact transform_run_lines_wellformed src s (by simpa [blockPhase, paragraphTransformers] using hr)

/-! ### the close discipline for the driver WITH transformers: padding 0 on every attached non-raw block -/

/-- **Every non-raw block of the store `blockPhase true` returns has padding 0 on all its lines — unless it is a PARENTLESS
    Heading** (wf0's close discipline `nonraw_lines_padding_zero`, carried through the driver with transformers,
    GM.Proof.BlocksTNO11-17). The exception is real: see `abandoned_heading_keeps_padding`. -/
theorem block_phase_lines_closed (src : Bytes) (s : St) (h : blockPhase true src = .ok s) :
    ∀ i, GM.Proof.BlocksWF0.isRaw (nd s i).kind = false →
      (∀ t ∈ (nd s i).lines, t.padding = 0) ∨ ((nd s i).kind = .heading ∧ (nd s i).parent = none) :=
  GM.Blocks.TO.blockPhase_closed src s h

/-- the tree-walk form (what `walkBlock` / the inline phase visit): every entry of a child list has that parent and, when it is
    not raw, padding 0 on all its lines -/
theorem block_phase_child_lines_padding_zero (src : Bytes) (s : St) (h : blockPhase true src = .ok s) (p c : Nat)
    (hc : c ∈ (nd s p).children) :
    (nd s c).parent = some p ∧
      (GM.Proof.BlocksWF0.isRaw (nd s c).kind = false → ∀ t ∈ (nd s c).lines, t.padding = 0) :=
  GM.Blocks.TO.blockPhase_child_closed src s h p c hc

/-- the conjunction package `e2e` composes with (`GM.Props.ConvertE2ENT.convert_total_of_block_phase_theorems`): children of any
    node are padding-free when not raw, and the Document node has no lines -/
theorem block_phase_lines_padding_zero (src : Bytes) (s : St) (h : blockPhase true src = .ok s) :
    (∀ p c, c ∈ (s.nodes.getD p default).children → GM.Proof.BlocksWF0.isRaw (s.nodes.getD c default).kind = false →
        ∀ t ∈ (s.nodes.getD c default).lines, t.padding = 0) ∧ (s.nodes.getD 0 default).lines = [] :=
  GM.Blocks.TO.blockPhase_pad_facts src s h

/-- Document, Blockquote, List, ListItem and ThematicBreak nodes have no lines; node 0 is the Document; the open-block stack is
    empty at the end; parent pointers and child lists agree (`TreeOK`) -/
theorem block_phase_container_nodes_have_no_lines (src : Bytes) (s : St) (h : blockPhase true src = .ok s) :
    ∀ i, noLinesKind (nd s i).kind = true → (nd s i).lines = [] :=
  GM.Blocks.TO.blockPhase_no_lines src s h

theorem block_phase_root_is_document (src : Bytes) (s : St) (h : blockPhase true src = .ok s) :
    (nd s 0).kind = .document ∧ 0 < s.nodes.length :=
  GM.Blocks.TO.blockPhase_root src s h

theorem block_phase_stack_empty_at_end (src : Bytes) (s : St) (h : blockPhase true src = .ok s) : s.pc.opened = [] :=
  GM.Blocks.TO.blockPhase_opened_nil src s h

theorem block_phase_tree_consistent (src : Bytes) (s : St) (h : blockPhase true src = .ok s) : TreeOK s :=
  GM.Blocks.TO.blockPhase_tree src s h

/-- **C05(c) order clause for the store `blockPhase true` returns, EVERY node, raw kinds included** (CodeBlock / FencedCodeBlock /
    HTMLBlock: wf0's `PadL` / `RawC` machinery of `BlocksOrdRaw` carried through the driver with transformers): the line segments
    of every node increase -/
theorem block_phase_lines_ordered (src : Bytes) (s : St) (h : blockPhase true src = .ok s) :
    ∀ n ∈ s.nodes, OrdFrom 0 n.lines :=
  GM.Blocks.TO.blockPhase_ordered_all src s h

theorem block_phase_raw_lines_ordered (src : Bytes) (s : St) (h : blockPhase true src = .ok s) :
    ∀ n ∈ s.nodes, GM.Proof.BlocksWF0.isRaw n.kind = true → OrdFrom 0 n.lines :=
  GM.Blocks.TO.blockPhase_ordered_raw src s h

/-- **"padding 0 on every non-raw node of the store" is FALSE for the driver with transformers** (kernel-evaluated witness):
    in `> [a]: /u⏎>⇥===⏎` setextHeadingParser.Open builds a Heading on the tab-padded underline (segment 12..16, padding 2), the
    paragraph is transformed away, `continuable = false; goto retry` — the Heading is abandoned: it stays in the store, parentless,
    with its padded line (Go: garbage; never visited by `walkBlock`). -/
theorem abandoned_heading_keeps_padding :
    ∃ s, blockPhase true [62, 32, 91, 97, 93, 58, 32, 47, 117, 10, 62, 9, 61, 61, 61, 10] = .ok s ∧
      (nd s 3).kind = .heading ∧ (nd s 3).parent = none ∧ (nd s 3).lines.map (·.padding) = [2] := by
  cases h : blockPhase true [62, 32, 91, 97, 93, 58, 32, 47, 117, 10, 62, 9, 61, 61, 61, 10] with
  | error e => exact absurd h (by
      have := block_phase_total [62, 32, 91, 97, 93, 58, 32, 47, 117, 10, 62, 9, 61, 61, 61, 10]
      obtain ⟨s, hs, _⟩ := this
      rw [hs]; intro hh; cases hh)
  | ok s =>
    refine ⟨s, rfl, ?_⟩
    have e : (blockPhase true [62, 32, 91, 97, 93, 58, 32, 47, 117, 10, 62, 9, 61, 61, 61, 10]).toOption.map
        (fun s => ((nd s 3).kind == .heading, (nd s 3).parent, (nd s 3).lines.map (·.padding))) = some (true, none, [2]) := by
      decide +kernel
    rw [h] at e
    simp only [Except.toOption, Option.map_some, Option.some.injEq, Prod.mk.injEq, beq_iff_eq] at e
    exact e

/-- tests on literals (kernel-evaluated): `a⏎[b]: /u⏎===⏎` — RequireParagraph path, the paragraph keeps a line (KEEP), setext
    heading; `[a]: /u⏎===⏎x⏎` — the paragraph is transformed away (GONE → `continuable = false; goto retry`) -/
example : (blockPhase true [97, 10, 91, 98, 93, 58, 32, 47, 117, 10, 61, 61, 61, 10]).toOption.isSome = true := by decide +kernel
example : (blockPhase true [91, 97, 93, 58, 32, 47, 117, 10, 61, 61, 61, 10, 120, 10]).toOption.isSome = true := by decide +kernel

/-- how the two results compose (no hypothesis on the source here): if the guard's outcome does not influence the run — what
    "the guard never fires" gives — then a run that ends "normally or with `e`" for every `e` ends normally -/
theorem total_of_guard_irrelevant (src : Bytes)
    (hirr : ∀ e, runT [guardE e] src = runT [transform] src)
    (htot : ∀ e, e ≠ .loop → (∃ s, runT [guardE e] src = .ok s) ∨ runT [guardE e] src = .error e) :
    ∃ s, runT [transform] src = .ok s := by
  rcases htot .index (by decide) with ⟨s, h⟩ | h1
  · exact ⟨s, by rw [← hirr]; exact h⟩
  · rcases htot .nil (by decide) with ⟨s, h⟩ | h2
    · exact ⟨s, by rw [← hirr]; exact h⟩
    · rw [hirr] at h1 h2
      rw [h1] at h2
      cases h2

/-- non-vacuity (tests on literals): a source with a definition, a bullet list item and a block quote is `SetextFree`; the
    block phase of the default pipeline returns a tree on it -/
example : NoUnderline [91, 97, 93, 58, 32, 47, 117, 10, 10, 42, 32, 91, 97, 93, 10, 62, 32, 120, 10] :=
  no_underline_of_setext_free _ (by decide)
example : (blockPhase true [91, 97, 93, 58, 32, 47, 117, 10, 10, 42, 32, 91, 97, 93, 10, 62, 32, 120, 10]).toOption.isSome = true := by
  decide +kernel
example : GM.Blocks.T.SetextListFree [91, 97, 93, 58, 32, 47, 117, 10, 10, 62, 32, 91, 97, 93, 10] := by decide
example : (blockPhase true [91, 97, 93, 58, 32, 47, 117, 10, 10, 62, 32, 91, 97, 93, 10]).toOption.isSome = true := by
  decide +kernel

end GM.Props.ConvertNP
