/-
  Property C02, package cmspec3 — theorems about the SPEC-SIDE emphasis reference GM.Spec.CMEmph (CommonMark 0.31.2
  section 6.2 and the delimiter-stack algorithm of the appendix; written from the specification text).  That goldmark
  renders a source as this reference prescribes IS the property and is decided by the correspondence run
  (component `cmemph`); what is proved here, for ALL token sequences / sources, are laws of the reference itself:
  it is a parse of the source (nothing lost, nothing invented), and it only ever pairs runs that rules 1-10 allow.
  The algorithm terminates by construction (structural recursion only; no fuel).
-/
import GM.Proof.CMEmph
import GM.Proof.CMEmphMemo

namespace GM.Props.C02Emph
open GM GM.Spec.CMEmph

/-- `emph_preserves_text`: writing the tree back — every `<em>` node as one, every `<strong>` node as two of its
    delimiter characters around its children, text and line breaks as they are — gives exactly the characters of
    the token sequence (= the source with escape backslashes removed).  So the text content of the prescribed HTML
    (`textOfL`: the same traversal without the delimiter characters of the nodes) is the source with exactly the
    consumed delimiter characters and the escape backslashes removed, in order; no character is lost, duplicated
    or invented, and a delimiter character is dropped only as part of a matched pair. -/
theorem emph_preserves_text (toks : List Tok) : respellL (parse toks) = tokChars toks :=
  Proof.CMEmph.parse_respell toks

/-- the same for a source: the tree the reference builds for the inline content `inl` spells back `inl`'s characters -/
theorem emph_preserves_text_source (u : UCls) (inl : Bytes) :
    respellL (parse (tokens u inl)) = tokChars (tokens u inl) := Proof.CMEmph.parse_respell _

/-- `emph_sound_rules_1_8` (and 9/10): every `<em>` / `<strong>` node of the tree — at any depth — was made from
    two DIFFERENT delimiter runs of the token sequence, the opening one before the closing one, of the node's
    delimiter character, where the first can open and the second can close emphasis (rules 1-8, computed by `mkRun`
    from left- and right-flanking) and the pair satisfies the multiple-of-3 condition of rules 9/10 (`matchesRun`). -/
theorem emph_sound_rules_1_8 (toks : List Tok) : allEmphL (soundAt toks) (parse toks) = true :=
  Proof.CMEmph.parse_sound toks

/-- rules 1 and 5 (`*` opens iff left-flanking) and 3 and 7 (`*` closes iff right-flanking) -/
theorem star_rules (n : Nat) (before after : CC) :
    (mkRun 42 n before after).canOpen = leftFlanking before after
    ∧ (mkRun 42 n before after).canClose = rightFlanking before after := by
  simp [mkRun]

/-- rules 2 and 6 / 4 and 8 for `_`: left-flanking and (not right-flanking or preceded by punctuation) / the mirror image -/
theorem underscore_rules (n : Nat) (before after : CC) :
    (mkRun 95 n before after).canOpen
        = (leftFlanking before after && (!rightFlanking before after || before == .punct))
    ∧ (mkRun 95 n before after).canClose
        = (rightFlanking before after && (!leftFlanking before after || after == .punct)) := by
  simp [mkRun]

/-- `_` between two alphanumerics (intraword) can neither open nor close; `*` there can do both -/
theorem intraword (n : Nat) :
    (mkRun 95 n .other .other).canOpen = false ∧ (mkRun 95 n .other .other).canClose = false
    ∧ (mkRun 42 n .other .other).canOpen = true ∧ (mkRun 42 n .other .other).canClose = true := by
  simp [mkRun, leftFlanking, rightFlanking]
  decide

/-- the prescribed HTML is tag-balanced: it is the concatenation of an event sequence (`<em>` `<strong>` `</em>`
    `</strong>`, escaped text / line endings / `<br />`) in which every closing tag closes the innermost open element and
    nothing stays open — for the tree of EVERY token sequence -/
theorem emph_html_balanced (toks : List Tok) :
    renderL (parse toks) = (eventsL (parse toks)).flatMap Ev.bytes ∧ balGo [] (eventsL (parse toks)) = true :=
  ⟨Proof.CMEmph.renderL_events _, Proof.CMEmph.eventsL_balanced _⟩

/-- the text content of the prescribed HTML (tags stripped; still entity-escaped) is the escaped text content of the
    tree, i.e. by `emph_preserves_text` the escaped source without escape backslashes and consumed delimiters -/
theorem emph_html_text (u : UCls) (inl : Bytes) :
    stripTags false (emphInline u inl) = esc (textOfL (parse (tokens u inl))) := by
  have := Proof.CMEmph.strip_renderL (parse (tokens u inl)) []
  simpa [emphInline, stripTags] using this

/-- the `openers_bottom` table of the spec's appendix is a pure optimisation of this reference (which leaves it out):
    the closing loop WITH a table that remembers, per key, how many bottom-most stack entries a failed search has
    ruled out (`Proof.CMEmphMemo.parseM`; a count, clamped when the stack shrinks, instead of the appendix's pointer)
    computes the same tree for EVERY token sequence when the key is the appendix's — delimiter character, whether the
    closer can also open, closer length mod 3.  More generally (`Proof.CMEmphMemo.parseM_eq`) for every key that
    determines which openers a closer may take. -/
theorem openers_bottom_is_optimisation (toks : List Tok) :
    Proof.CMEmphMemo.parseM Proof.CMEmphMemo.specKey toks = parse toks := Proof.CMEmphMemo.parseM_specKey toks

/-- REFUTING WITNESS for the weaker key (character, can-open) of the seeded change C02-7 / cmark issue 383, on
    `*a**b**c*y`: the table then hides the opening `*` from the final `*` (left: with that table; right: prescribed) -/
theorem openers_bottom_without_length_differs :
    renderL (Proof.CMEmphMemo.parseM Proof.CMEmphMemo.seededKey Proof.CMEmphMemo.witness383)
        = [42, 97] ++ tagStO ++ [98] ++ tagStC ++ [99, 42, 121]
    ∧ renderL (parse Proof.CMEmphMemo.witness383)
        = tagEmO ++ [97] ++ tagStO ++ [98] ++ tagStC ++ [99] ++ tagEmC ++ [121] :=
  Proof.CMEmphMemo.seededKey_differs

/-- the closing loop never uses more characters than the closer has, and what it leaves is what was not paired:
    spelled-back stack + unused closer characters = stack before + all closer characters (the step lemma behind
    `emph_preserves_text`, stated for every stack whose entries are non-empty) -/
theorem closeLoop_accounts (c : Run) (ci cur : Nat) (st : Stack) (h : Proof.CMEmph.entsPos st.ents) :
    respellL (closeLoop c ci cur st).1.flatten ++ List.replicate (closeLoop c ci cur st).2 c.ch
      = respellL st.flatten ++ List.replicate cur c.ch :=
  (Proof.CMEmph.closeLoop_respell c ci cur st h).1

/-! ### tests (`decide` on literals — examples of spec.json, NOT part of the claim) -/

/-- test: the applicability predicate accepts / rejects -/
example : emphOnly ucls0 [42, 97, 42] = true := by decide
example : emphOnly ucls0 [60, 97, 62] = false := by decide          -- raw HTML / autolinks are outside the alphabet
/-- test: code spans bind more tightly than emphasis (example 342 `*foo`*``) -/
example : emphInline ucls0 [42, 102, 96, 42, 96] = [42, 102] ++ tagCoO ++ [42] ++ tagCoC := by decide
/-- test: spec example 350 `*foo bar*` -/
example : emphDoc ucls0 [42, 102, 111, 111, 32, 98, 97, 114, 42, 10]
    = some [60, 112, 62, 60, 101, 109, 62, 102, 111, 111, 32, 98, 97, 114, 60, 47, 101, 109, 62, 60, 47, 112, 62, 10] := by decide
/-- test: spec example 351 `a * foo bar*` (not left-flanking) -/
example : emphInline ucls0 [97, 32, 42, 32, 102, 42] = [97, 32, 42, 32, 102, 42] := by decide
/-- test: `foo_bar_` intraword underscore (example 359) -/
example : emphInline ucls0 [102, 95, 98, 95] = [102, 95, 98, 95] := by decide
/-- test: the multiple-of-3 rule, `*a**b**c*y` (cmark issue 383) gives `<em>a<strong>b</strong>c</em>y` -/
example : emphInline ucls0 [42, 97, 42, 42, 98, 42, 42, 99, 42, 121]
    = tagEmO ++ [97] ++ tagStO ++ [98] ++ tagStC ++ [99] ++ tagEmC ++ [121] := by decide
/-- test: `*foo**bar*` (example 413 family): the `**` cannot close `*` (1 + 2 = 3) and stays text -/
example : emphInline ucls0 [42, 102, 42, 42, 98, 42] = tagEmO ++ [102, 42, 42, 98] ++ tagEmC := by decide
/-- test: an escaped delimiter is text: `\*a*` -/
example : emphInline ucls0 [92, 42, 97, 42] = [42, 97, 42] := by decide
/-- test: a thematic break / a list item are outside the scope (`none`) -/
example : emphDoc ucls0 [42, 42, 42] = none := by decide
example : emphDoc ucls0 [42, 32, 97] = none := by decide

end GM.Props.C02Emph
