/-
  GM.Props.ConvertL — theorems about GM.ConvertX.convertL (lean/GM/Model/ConvertL.lean): `convertX` extended by
  extension.Linkify (accept path: GM.Model.ExtLinkify, the two URL expressions hand-matched), and `convertGFM`. Tied on whole
  documents by component `convertx` (16 member sets; `extension.GFM` against its four members on the REAL outputs).
-/
import GM.Proof.ConvertL
import GM.Proof.ConvertLTotal
import GM.Proof.ConvertLTask
import GM.Proof.ConvertLFlush
import GM.Proof.ConvertLFlushMerge
import GM.Props.ConvertX

namespace GM.Props.ConvertL
open GM GM.Text GM.Convert GM.ConvertX

/-- `convertl_off_is_convertx`. Without Linkify the extended model IS `convertX` of the remaining member set — every source,
    option set, class assignment; guarded and unguarded. With `convertx_off_is_core`: all four off = `convertCore`. -/
theorem convertl_off_is_convertx (c : XCfg) (uc : List (Nat × (Bool × Bool))) (o : ROpts) (src : Bytes) :
    convertL { base := c, linkify := false } uc o src = convertX c uc o src :=
  GM.Proof.ConvertL.convertLWith_off c true uc o src

/-- `convertx_gfm_is_members` (C11, last clause, on the model): `extension.GFM` is its four members. ON THE MODEL THIS IS BY
    CONSTRUCTION: `convertGFM` is defined as `convertL` with all four flags — justified by gfm.go:13-18, whose `Extend` calls
    exactly `Linkify.Extend`, `Table.Extend`, `Strikethrough.Extend`, `TaskList.Extend` (GM.Props.C11.facts_gfm_members proves
    that of the regenerated source facts). What the tie adds: on every document of member set 15 (quick: ≈ 20k, thorough ≈ 10×)
    component `convertx` converts with a REAL `goldmark.New(WithExtensions(extension.GFM))` instance and with the real
    four-member instance and compares the HTML byte for byte (clause `gfm-differs-from-members`: 0), and compares the latter
    with `convertL gfmCfg`. -/
theorem convertx_gfm_is_members (uc : List (Nat × (Bool × Bool))) (o : ROpts) (src : Bytes) :
    convertGFM uc o src =
      convertL { base := { strikethrough := true, tasklist := true, table := true }, linkify := true } uc o src := rfl

/-- `convertl_never_loops`. For ALL 16 member sets of {Strikethrough, TaskList, Table, Linkify} — `extension.GFM` among them —,
    every source, option set, class assignment: `convertL` answers HTML or an error that is not fuel exhaustion. The Linkify
    parser keeps the contract of the inline loop (`linkify_contract`: a match of the hand-matched expressions lies inside the
    peeked line — `matchURL_bounds`, `matchWWW_bounds`, `findEmailIndex_le` —, the three trailing-character rules and the
    e-mail path ANSWER — no `line[-1]`, no `line[-1:…]` — and leave at least one byte, so a returned node has consumed input);
    the totality proof of the open-table loop covers a non-empty entry of ' ' (white space, a non-punctuation line head). -/
theorem convertl_never_loops (c : GCfg) (uc : List (Nat × (Bool × Bool))) (o : ROpts) (src : Bytes) (e : Err)
    (h : convertL c uc o src = .error e) : e.isLoop = false :=
  GM.Proof.ConvertLTotal.convertL_noLoop c uc o src h

theorem convertgfm_never_loops (uc : List (Nat × (Bool × Bool))) (o : ROpts) (src : Bytes) (e : Err)
    (h : convertGFM uc o src = .error e) : e.isLoop = false :=
  convertl_never_loops gfmCfg uc o src e h

/-- the inline loop of a block under any of the 16 member sets FINISHES behind the run-time check: no Go panic of any parser —
    in particular none of `(*linkifyParser).Parse`'s unguarded index expressions —, no fuel exhaustion -/
theorem inline_loop_l_total (c : GCfg) (inItem : Bool) (env : GM.Inl.Env) (src : Bytes) (segs : List Segment)
    (W : GM.Spec.WFSegs src segs) (Z : ∀ s ∈ segs, s.padding = 0) :
    ∃ rd st', BlockReader.new src segs = .ok rd ∧
      GM.Inl.lineLoopX env (inlineTblL c inItem) (GM.Inl.blockFuel src segs) false { rd := rd } = .ok st' :=
  GM.Proof.ConvertLTotal.lineLoopL_total c inItem W Z env

/-! ### C11 at whole-document level for Strikethrough, TaskList, Table under ALL 16 member sets (Linkify on or off, GFM) -/

/-- Strikethrough: a source without `~` converts to the same HTML / outcome with and without it — whatever the other three
    members, Linkify among them (whose trigger set contains `~`: on such a source its entry of `~` is never consulted
    either). The proofs of GM.Props.ConvertX over `inlineTblL`: the Linkify parser keeps the loop's contract, keeps "no `~`
    delimiter among the children" and commutes with every relabelling of emphasis levels. -/
theorem convertl_conservative_strikethrough (c : GCfg) (uc : List (Nat × (Bool × Bool))) (o : ROpts) (src : Bytes)
    (hsrc : (126 : UInt8) ∉ src) :
    convertL { c with base := { c.base with strikethrough := true } } uc o src =
      convertL { c with base := { c.base with strikethrough := false } } uc o src :=
  GM.Proof.ConvertLStrike.convertL_strike c uc o src hsrc

/-- TaskList: a source without `[` -/
theorem convertl_conservative_tasklist (c : GCfg) (uc : List (Nat × (Bool × Bool))) (o : ROpts) (src : Bytes)
    (hsrc : (91 : UInt8) ∉ src) :
    convertL { c with base := { c.base with tasklist := true } } uc o src =
      convertL { c with base := { c.base with tasklist := false } } uc o src :=
  GM.Proof.ConvertLTask.convertL_task c uc o src hsrc

/-- Table: a source without '-' -/
theorem convertl_conservative_table (c : GCfg) (uc : List (Nat × (Bool × Bool))) (o : ROpts) (src : Bytes)
    (hsrc : (45 : UInt8) ∉ src) :
    convertL { c with base := { c.base with table := true } } uc o src =
      convertL { c with base := { c.base with table := false } } uc o src :=
  GM.Proof.ConvertLTask.convertL_table c uc o src hsrc

/-- `extension.GFM` on a source without `~`, `[` and '-' is Linkify alone -/
theorem gfm_without_triggers_is_linkify (uc : List (Nat × (Bool × Bool))) (o : ROpts) (src : Bytes)
    (h1 : (126 : UInt8) ∉ src) (h2 : (91 : UInt8) ∉ src) (h3 : (45 : UInt8) ∉ src) :
    convertGFM uc o src = convertL { base := {}, linkify := true } uc o src := by
  have a := convertl_conservative_strikethrough gfmCfg uc o src h1
  have b := convertl_conservative_tasklist { base := { tasklist := true, table := true }, linkify := true } uc o src h2
  have c := convertl_conservative_table { base := { table := true }, linkify := true } uc o src h3
  exact a.trans (b.trans c)

/-- the full statement (C11 for Linkify at whole-document level): NOT proved. Linkify IS consulted on such documents — at every
    space, tab, line head, `*`, `_`, `~`, `(` — and every consultation first flushes the pending text into `parent`; the runs
    differ in how the text is cut into Text nodes and agree only after merging (GM.Props.C11.ext_linkify_conservative_inline
    shows that on the abstract loop). `convertl_linkify_is_flush` proves that this cut is ALL that is left of Linkify on such a
    document; `conservative_linkify_iff_flush_insensitive` reduces the statement to the default parsers' and the renderer's
    insensitivity to that cut. Searched on the real code by the oracles `extension-changes-trigger-free-document-linkify` and
    `consultation-flush-changes-output` (the latter on ALL documents of the tie) of component `convertx`: 0. -/
def ConservativeLinkify : Prop :=
  ∀ (c : XCfg) uc o src, (58 : UInt8) ∉ src → (64 : UInt8) ∉ src → GM.Ext.hasInfix GM.Ext.domainWWW src = false →
    convertL { base := c, linkify := true } uc o src = convertL { base := c, linkify := false } uc o src

/-- `convertl_linkify_is_flush` (C11 for Linkify, whole documents, what IS proved): on a source without ':', '@' and `www.`,
    for every member set, option set and class assignment, `convertL` with Linkify is `convertFlush` — the same pipeline with
    a parser in Linkify's place that returns nil and touches nothing (GM.ConvertX.nullParser). In EVERY consultation of every
    run of the inline loop of every block the peeked line is a piece of the source, so `(*linkifyParser).Parse` returns nil
    and leaves reader, children, delimiters and link bottoms as they are (loop level: `linkify_consultation_without_effect`).
    What remains of Linkify on such a document is the consultation itself: Advance, the flush of the pending text
    (parser.go:1203-1211), SetPosition. -/
theorem convertl_linkify_is_flush (c : XCfg) (uc : List (Nat × (Bool × Bool))) (o : ROpts) (src : Bytes)
    (hcolon : (58 : UInt8) ∉ src) (hat : (64 : UInt8) ∉ src) (hwww : GM.Ext.hasInfix GM.Ext.domainWWW src = false) :
    convertL { base := c, linkify := true } uc o src = convertFlush c uc o src :=
  GM.Proof.ConvertLFlush.convertL_flush hcolon hat hwww c uc o

/-- the loop-level statement: the inline loop of a block whose lines pass the run-time check, over the trigger table with
    Linkify, is the loop over the table with `nullParser` in its place -/
theorem linkify_consultation_without_effect (c : XCfg) (inItem : Bool) (env : GM.Inl.Env) (src : Bytes) (segs : List Segment)
    (W : GM.Spec.WFSegs src segs) (Z : ∀ s ∈ segs, s.padding = 0)
    (hcolon : (58 : UInt8) ∉ src) (hat : (64 : UInt8) ∉ src) (hwww : GM.Ext.hasInfix GM.Ext.domainWWW src = false)
    (rd : BlockReader) (h0 : BlockReader.new src segs = .ok rd) :
    GM.Inl.lineLoopX env (inlineTblL { base := c, linkify := true } inItem) (GM.Inl.blockFuel src segs) false { rd := rd } =
      GM.Inl.lineLoopX env (flushTbl c inItem) (GM.Inl.blockFuel src segs) false { rd := rd } :=
  GM.Proof.ConvertLFlush.lineLoopL_flush c inItem W Z env hcolon hat hwww rd h0

/-- what is missing for `ConservativeLinkify`, exactly: that the consultation flush does not change the HTML of such a
    document -/
theorem conservative_linkify_iff_flush_insensitive :
    ConservativeLinkify ↔
      ∀ (c : XCfg) uc o src, (58 : UInt8) ∉ src → (64 : UInt8) ∉ src → GM.Ext.hasInfix GM.Ext.domainWWW src = false →
        convertFlush c uc o src = convertX c uc o src := by
  constructor
  · intro h c uc o src h1 h2 h3
    rw [← convertl_linkify_is_flush c uc o src h1 h2 h3, h c uc o src h1 h2 h3, convertl_off_is_convertx]
  · intro h c uc o src h1 h2 h3
    rw [convertl_linkify_is_flush c uc o src h1 h2 h3, h c uc o src h1 h2 h3, convertl_off_is_convertx]

/-- `consultation_flush_merges` (flush-insensitivity, inside a line): flushing the pending text `[a, b)` into `parent` and later the
    text `[b, c)` behind it leaves exactly the children one flush of `[a, c)` leaves — whatever the children are. So a run with
    an extra consultation (Linkify declining, `nullParser`) and the run without it hold the SAME children again at the next
    common flush; what stays visible of a consultation is only the cut in front of the end-of-line Text, which parseBlock
    appends without merging (parser.go:1252-1269) — there the soft / hard break flag and the trailing-blank trim (with its repair
    for an already flushed blank rest, parser.go:1258-1265) sit, and there the proviso of `ConservativeLinkify` lives. -/
theorem consultation_flush_merges (kids : List GM.Inl.Node) (s1 s2 : Segment) (h : s1.stop = s2.start) :
    GM.Inl.mergeOrAppend (GM.Inl.mergeOrAppend kids s1) s2 = GM.Inl.mergeOrAppend kids (s1.withStop s2.stop) :=
  GM.Proof.ConvertLFlushMerge.mergeOrAppend_twice kids s1 s2 h

/-- `convertx_conservative_linkify`, parser level, on the CONCRETE loop (composes the decline argument of
    GM.Props.C11.linkify_declines for the accept-path model): whatever the state — children, open labels, delimiters —, when
    the peeked line has no ':', no '@' and no `www.`, `(*linkifyParser).Parse` returns nil and leaves the children, the id
    counter and the link-bottom stack exactly as they are; only the reader's line cache may be filled (PeekLine). -/
theorem convertx_conservative_linkify_partial (env : GM.Inl.Env) (st : GM.Inl.St) (line : Bytes) (seg : Segment)
    (rd : BlockReader) (hp : st.rd.peekLine = .ok ((some line, seg), rd)) (hne : line ≠ [])
    (hcolon : (58 : UInt8) ∉ line) (hat : (64 : UInt8) ∉ line) (hwww : GM.Ext.hasInfix GM.Ext.domainWWW line = false) :
    GM.Inl.parseLinkify env st = .ok (none, st) ∨ GM.Inl.parseLinkify env st = .ok (none, { st with rd := rd }) :=
  GM.Proof.ConvertL.parseLinkify_declines env st line seg rd hp hne hcolon hat hwww

/-- TESTS on literals (kernel-evaluated): the hand-matched URL expressions.
    `http://a.b.cd:80/x?y=(z)! w` → 25; `http://a.B` → no match; `www.a-b.c.de#f$` → 14; `http://a.bc/x&amp;` (18) → 13;
    `http://a.bc/(x))` (16) → 15 -/
example : GM.Inl.matchURL [104, 116, 116, 112, 58, 47, 47, 97, 46, 98, 46, 99, 100, 58, 56, 48, 47, 120, 63, 121, 61, 40, 122, 41, 33, 32, 119] = some 25 := by decide +kernel
example : GM.Inl.matchURL [104, 116, 116, 112, 58, 47, 47, 97, 46, 66] = none := by decide +kernel
example : GM.Inl.matchWWW [119, 119, 119, 46, 97, 45, 98, 46, 99, 46, 100, 101, 35, 102, 36] = some 14 := by decide +kernel
example : (GM.Inl.lkURLEnd [104, 116, 116, 112, 58, 47, 47, 97, 46, 98, 99, 47, 120, 38, 97, 109, 112, 59] 18).toOption = some 13 := by decide +kernel
example : (GM.Inl.lkURLEnd [104, 116, 116, 112, 58, 47, 47, 97, 46, 98, 99, 47, 40, 120, 41, 41] 16).toOption = some 15 := by decide +kernel

end GM.Props.ConvertL
