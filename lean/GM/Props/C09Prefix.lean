/-
  GM.Props.C09Prefix — property C09, first half, for a NON-EMPTY first part `a`: prefix determinism of the block phase
  by a right-extension simulation (GM.Proof.ShiftSimX*), and `GM.Props.C09.IndependentBlocks a h b` for the class
  "`a` ends with a line feed and contains none of the bytes `- * + 0-9 = ` ~`" (every `h`, every `b`).
  Kept apart from GM.Props.C09Shift only because its import closure brings a second type called `Node` into scope.
-/
import GM.Props.C09Shift
import GM.Proof.ShiftSimXEnd7

namespace GM.Props.C09Shift
open GM GM.Text GM.Blocks

/-! ### round 3: a NON-EMPTY first part — prefix determinism by a right-extension simulation -/

/-- **Prefix determinism + "closing at the end of the source = closing by a blank line"**, as one statement about two runs
    of the block-phase model: let `a` end with a line feed, contain none of the bytes `- * + 0-9 = ` ~` (so no list
    parser, no setext parser, no fenced-code parser is ever triggered; block quotes, paragraphs, ATX headings, `___`,
    indented code, HTML blocks are allowed), and let the tree of `run a` not end in a raw block. Then the run on
    `a ++ "\n" ++ "# h\n" ++ "\n" ++ b` passes through a `Start` state behind the heading's blank line whose old part is
    the final store of `run a` plus the heading (`PrefixReached`). Proved by a simulation of `run a` against the run on the
    LONGER source (GM.Proof.ShiftSimX*: the shift simulation with a suffix instead of a prefix; the two runs agree while
    run A has a line, every reader call being shown to stay in front of the line's final line feed), followed, when run A
    reaches the end of `a`, by the comparison "run A closes every open block" / "run B reads the blank line, on which the
    first open block does not continue (it is not a raw block: tree criterion `endsInRawBlock`, linked to the open stack by
    the invariant `TopLast`: the first open block is the Document's last child), and closes them with the same call". -/
theorem prefix_reached_plain : type_of% @GM.Blocks.Xs.reach_plain := @GM.Blocks.Xs.reach_plain

/-- **C09 first half for a non-empty first part**: `IndependentBlocks a h b` for EVERY `h`, EVERY `b` and every `a` that
    ends with a line feed and contains none of the bytes `- * + 0-9 = ` ~` (the other provisos — no `[`, no CR, `a` not
    ending in a raw block — are the statement's own). -/
theorem independent_blocks_plain_a (a h b : Bytes) (ha : a.getLast? = some 10)
    (hpl : ∀ c ∈ a, c ≠ 45 ∧ c ≠ 42 ∧ c ≠ 43 ∧ isNumeric c = false ∧ c ≠ 61 ∧ c ≠ 96 ∧ c ≠ 126) :
    ∀ e g, indepPair a h b = some (e, g) → e = g :=
  GM.Blocks.Xs.independent_blocks_plain6 a h b ha hpl

/-- the two classes together: `a` empty, or ending with a line feed and free of list / setext / fence triggers -/
theorem independent_blocks (a h b : Bytes)
    (hclass : a = [] ∨ (a.getLast? = some 10 ∧
      ∀ c ∈ a, c ≠ 45 ∧ c ≠ 42 ∧ c ≠ 43 ∧ isNumeric c = false ∧ c ≠ 61 ∧ c ≠ 96 ∧ c ≠ 126)) :
    ∀ e g, indepPair a h b = some (e, g) → e = g := by
  rcases hclass with rfl | ⟨ha, hpl⟩
  · exact GM.Props.C09Shift.independent_blocks_empty_a_all h b
  · exact independent_blocks_plain_a a h b ha hpl

/-- not vacuous: `a = "> q\n\npara\n"`, `h = "h"`, `b = "- x\n"` -/
example : (indepPair [62, 32, 113, 10, 10, 112, 97, 114, 97, 10] [104] [45, 32, 120, 10]).isSome = true := by
  decide +kernel

/-! ### round 4: the POSITIONAL class -/

/-- the positional class of first parts (`GM.Blocks.Xs.PlainL`, GM/Proof/ShiftSimXSafe.lean): for every byte `a[j]` such
    that all bytes of its line in front of it are spaces, tabs or `>`, `a[j]` is none of `- * + 0-9 = ` ~` — i.e. no line
    of `a` starts, after its quote markers and indentation, with a trigger of a list parser, the setext parser or the
    fenced-code parser. Digits, dashes, stars, equal signs, backticks INSIDE lines are allowed. -/
abbrev PositionalClass := @GM.Blocks.Xs.PlainL

/-- an executable test for the class (sound: `positional_check_sound`) -/
abbrev positionalCheck := @GM.Blocks.Xs.plainLB
theorem positional_check_sound : type_of% @GM.Blocks.Xs.plainLB_sound := @GM.Blocks.Xs.plainLB_sound

/-- the byte-level class of round 3 is contained in the positional class -/
theorem positional_of_bytes : type_of% @GM.Blocks.Xs.plainL_of_plain6 := @GM.Blocks.Xs.plainL_of_plain6

/-- `PrefixReached` for the positional class (prefix determinism + closing at the end of the source = closing by a blank
    line; the right-extension simulation now threads "run A's cursor is trigger-safe": everything of the line in front of
    the cursor is quote markers and spaces, or the rest of the line is blank — so the byte `openBlocks` looks up is the
    first byte of the line that is not ` `, tab or `>`) -/
theorem prefix_reached_positional : type_of% @GM.Blocks.Xs.reach_plainL := @GM.Blocks.Xs.reach_plainL

/-- **C09 first half for the positional class**: every `h`, every `b`, every `a` that ends with a line feed and in which
    no line starts, after its quote markers and indentation, with `- * + 0-9 = ` ~`. -/
theorem independent_blocks_positional (a h b : Bytes) (ha : a.getLast? = some 10) (hpl : PositionalClass a) :
    ∀ e g, indepPair a h b = some (e, g) → e = g :=
  GM.Blocks.Xs.independent_blocks_plainL a h b ha hpl

/-- the same with the executable test -/
theorem independent_blocks_checked (a h b : Bytes) (ha : a.getLast? = some 10) (hc : positionalCheck a = true) :
    ∀ e g, indepPair a h b = some (e, g) → e = g :=
  independent_blocks_positional a h b ha (GM.Blocks.Xs.plainLB_sound a hc)

/-- the classes together: `a` empty, or ending with a line feed and in the positional class -/
theorem independent_blocks_wide (a h b : Bytes) (hclass : a = [] ∨ (a.getLast? = some 10 ∧ PositionalClass a)) :
    ∀ e g, indepPair a h b = some (e, g) → e = g := by
  rcases hclass with rfl | ⟨ha, hpl⟩
  · exact GM.Props.C09Shift.independent_blocks_empty_a_all h b
  · exact independent_blocks_positional a h b ha hpl

/-- not vacuous, with prose that the byte-level class rejects: `a = "> a - 1\n\nb = 2 * `x`\n"`, `h = "h"`, `b = "- x\n"` -/
example : positionalCheck [62, 32, 97, 32, 45, 32, 49, 10, 10, 98, 32, 61, 32, 50, 32, 42, 32, 96, 120, 96, 10] = true := by decide
example : (indepPair [62, 32, 97, 32, 45, 32, 49, 10, 10, 98, 32, 61, 32, 50, 32, 42, 32, 96, 120, 96, 10] [104]
    [45, 32, 120, 10]).isSome = true := by decide +kernel

end GM.Props.C09Shift
