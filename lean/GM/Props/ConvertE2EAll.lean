/-
  GM.Props.ConvertE2EAll — the END-TO-END theorems of C03 / C04 / C10 (GM.Props.ConvertE2E: "WHEN `convertCore` answers HTML, …")
  made UNCONDITIONAL with `GM.Props.ConvertE2ENP.convert_total` ("`convertCore` ALWAYS answers HTML"): for every byte string, every
  Unicode-class assignment and every option set the composed model of `goldmark.New(…).Convert` answers HTML, and that HTML has the
  property. Proofs are compositions; nothing new is assumed.
-/
import GM.Props.ConvertE2E
import GM.Props.ConvertE2ENP
import GM.Proof.E2EAllH

namespace GM.Props.ConvertE2EAll
open GM GM.Text GM.Convert GM.Spec GM.E2E

/-! ### C03 -/

/-- **`convert_safe_wellformed_total`** — C03 END TO END, no hypothesis on the source: for EVERY byte string and Unicode-class
    assignment, XHTML and HardWraps on or off, in safe mode (`Unsafe` off) `convertCore` answers HTML, and that HTML is accepted by
    the strict tokenizer, well nested, uses only the renderer's tags and per-tag allowed attribute names, has inert text and
    attribute values, writes void elements in the style of the output mode (`Spec.safeHtmlOK`), and its token structure is
    well-formed XML (`Spec.xmlOK`). -/
theorem convert_safe_wellformed_total (uc : List (Nat × (Bool × Bool))) (o : ROpts) (src : Bytes) (hsafe : o.unsafe_ = false) :
    ∃ html, convertCore uc o src = .ok html ∧ Spec.safeHtmlOK o.xhtml html = true ∧ Spec.xmlOK html = true := by
  obtain ⟨html, h⟩ := GM.Props.ConvertE2ENP.convert_total uc o src
  exact ⟨html, h, GM.Props.ConvertE2E.convert_safe_wellformed uc o src html h hsafe⟩

/-- the same output as a word of the inductive grammar `WFHtml` -/
theorem convert_safe_grammar_total (uc : List (Nat × (Bool × Bool))) (o : ROpts) (src : Bytes) (hsafe : o.unsafe_ = false) :
    ∃ html, convertCore uc o src = .ok html ∧ GM.Proof.RenderWF.WFHtml o.xhtml html := by
  obtain ⟨html, h⟩ := GM.Props.ConvertE2ENP.convert_total uc o src
  exact ⟨html, h, GM.Props.ConvertE2E.convert_safe_grammar uc o src html h hsafe⟩

/-! ### C04 -/

/-- **`convert_safe_urls_harmless_total`** — C04 END TO END at TOKEN level, no hypothesis on the source: in safe mode `convertCore`
    answers HTML that the strict tokenizer accepts, and `Spec.urlsOK lookupEntity` holds of its tokens — every `href` / `src`
    value of every start tag, read the way a browser reads it (`Spec.hrefDangerous`: decode character references, trim, strip
    tab / CR / LF, read the scheme), is harmless. -/
theorem convert_safe_urls_harmless_total (uc : List (Nat × (Bool × Bool))) (o : ROpts) (src : Bytes) (hsafe : o.unsafe_ = false) :
    ∃ html ts, convertCore uc o src = .ok html ∧ tokenize html = some ts ∧ urlsOK lookupEntity ts = true := by
  obtain ⟨html, h⟩ := GM.Props.ConvertE2ENP.convert_total uc o src
  obtain ⟨ts, h1, h2⟩ := GM.Props.ConvertE2E.convert_safe_urls_harmless_tokens uc o src html h hsafe
  exact ⟨html, ts, h, h1, h2⟩

/-- the piece-level form: every destination-carrying piece stands at an `href=` / `src=` attribute site, its value has no `"`
    and is not dangerous -/
theorem convert_safe_urls_harmless_pieces_total (uc : List (Nat × (Bool × Bool))) (o : ROpts) (src : Bytes)
    (hsafe : o.unsafe_ = false) :
    ∃ html, convertCore uc o src = .ok html ∧
      ∃ ps : List Piece, html = ps.flatMap (emit o.xhtml o.hardWraps false) ∧
        ∀ pre d post, ps = pre ++ Piece.url d :: post →
          ∃ pre' tag m c post', pre = pre' ++ [Piece.lit (tag ++ m)] ∧ post = Piece.lit (34 :: c) :: post' ∧
            (tag = strBytes "<a href=\"" ∨ tag = strBytes "<img src=\"") ∧
            html = pre'.flatMap (emit o.xhtml o.hardWraps false) ++ tag ++ (m ++ urlOut false d) ++
                    34 :: (c ++ post'.flatMap (emit o.xhtml o.hardWraps false)) ∧
            (∀ b ∈ m ++ urlOut false d, b ≠ 34) ∧
            hrefDangerous lookupEntity (m ++ urlOut false d) = false := by
  obtain ⟨html, h⟩ := GM.Props.ConvertE2ENP.convert_total uc o src
  exact ⟨html, h, GM.Props.ConvertE2E.convert_safe_urls_harmless uc o src html h hsafe⟩

/-! ### C10 -/

/-- **`convert_options_orthogonal_total`** — C10 END TO END, no hypothesis on the source: for EVERY source there is ONE piece list
    `ps`, computed without the three renderer options, such that for EVERY option set (all eight) `convertCore` answers HTML and
    that HTML is (a) the concatenation of `emit o.xhtml o.hardWraps o.unsafe_` over `ps`; (b) — XHTML — the concatenation over
    the HardWraps-rewritten list of bytes that do not depend on XHTML, except that each void end is `>` / ` />`; (c) — HardWraps
    — the HardWraps-off emission with `<br` + void end in front of each soft break; (d) — Unsafe — the safe emission of every
    piece that is neither raw HTML nor a destination classified dangerous. The error alternative of `convert_options_orthogonal`
    is gone. -/
theorem convert_options_orthogonal_total (uc : List (Nat × (Bool × Bool))) (src : Bytes) :
    ∃ ps : List Piece, ∀ o : ROpts, ∃ html, convertCore uc o src = .ok html ∧
        html = ps.flatMap (emit o.xhtml o.hardWraps o.unsafe_) ∧
        html = (ps.flatMap (hardWrap o.hardWraps)).flatMap
          (fun p => if p.isVoidEnd then voidEndBytes o.xhtml else emitBase false o.unsafe_ p) ∧
        html = ps.flatMap (fun p => (if p.isSoftBreak && o.hardWraps then strBytes "<br" ++ voidEndBytes o.xhtml else []) ++
                              emit o.xhtml false o.unsafe_ p) ∧
        html = ps.flatMap (fun p => if p.unsafeSensitive then emit o.xhtml o.hardWraps o.unsafe_ p
                                    else emit o.xhtml o.hardWraps false p) := by
  rcases GM.Props.ConvertE2E.convert_options_orthogonal uc src with h | ⟨e, h⟩
  · exact h
  · exact absurd (h {}) (GM.Props.ConvertE2ENP.convert_never_errs uc {} src e)

/-- **`convert_one_tree_for_all_options`**: for every source the parse phases answer ONE tree, and for every option set the
    outcome is `render` of that tree -/
theorem convert_one_tree_for_all_options (uc : List (Nat × (Bool × Bool))) (src : Bytes) :
    ∃ t, parseDoc true uc src = .ok t ∧ ∀ o : ROpts, convertCore uc o src = .ok (render o.rcfg t) := by
  rcases GM.Props.ConvertE2E.convert_tree_independent_of_options uc src with h | ⟨e, _, h⟩
  · exact h
  · exact absurd (h {}) (GM.Props.ConvertE2ENP.convert_never_errs uc {} src e)

/-- **`convert_unsafe_only_changes_raw_total`**: the safe and the unsafe conversion of every source both answer HTML, as emissions
    of one piece list that agree on every piece that is neither raw HTML nor a dangerous destination -/
theorem convert_unsafe_only_changes_raw_total (uc : List (Nat × (Bool × Bool))) (o : ROpts) (src : Bytes) :
    ∃ html html', convertCore uc { o with unsafe_ := false } src = .ok html ∧
      convertCore uc { o with unsafe_ := true } src = .ok html' ∧
      ∃ ps : List Piece, html = ps.flatMap (emit o.xhtml o.hardWraps false) ∧
        html' = ps.flatMap (emit o.xhtml o.hardWraps true) ∧
        ∀ p ∈ ps, p.unsafeSensitive = false → emit o.xhtml o.hardWraps true p = emit o.xhtml o.hardWraps false p := by
  obtain ⟨html, h⟩ := GM.Props.ConvertE2ENP.convert_total uc { o with unsafe_ := false } src
  obtain ⟨html', h'⟩ := GM.Props.ConvertE2ENP.convert_total uc { o with unsafe_ := true } src
  exact ⟨html, html', h, h', GM.Props.ConvertE2E.convert_unsafe_only_changes_raw uc o src html html' h h'⟩

/-! ### the renderer side never panics, now without hypotheses -/

/-- `no_renderer_side_panic` — the statement `GM.Props.ConvertE2E.NoRendererSidePanic` (kept there as a `def`) is a theorem -/
theorem no_renderer_side_panic : GM.Props.ConvertE2E.NoRendererSidePanic :=
  fun uc o src => ⟨fun k => GM.Props.ConvertE2ENP.convert_never_errs uc o src _,
    fun p => GM.Props.ConvertE2ENP.convert_never_errs uc o src _⟩

/-! ### C15: `convertH true` (goldmark with `WithAutoHeadingID()`) -/

open GM.ConvertH in
/-- **`converth_total_of_block_phase`** — everything BEHIND the block phase is total for the AutoHeadingID configuration: whenever
    the block phase with the option returns a state, `convertH true` answers HTML, for every Unicode-class assignment and option
    set (the inline phase on every block of the tree, every `Segment.Value` of the tree conversion, every node renderer — the
    generated `id` attributes form a legal, clash-free attribute list, so `Spec.Inv` holds of the tree). -/
theorem converth_total_of_block_phase (uc : List (Nat × (Bool × Bool))) (o : ROpts) (src : Bytes) (hs : HS)
    (st : GM.Blocks.St) (h : blockPhaseH true true src = .ok (hs, st)) : ∃ html, convertH true uc o src = .ok html :=
  GM.E2E.H.convertH_total_of_blockPhaseH uc o src hs st h

open GM.ConvertH in
/-- **`converth_total_or_value_panic`** — for EVERY byte string, Unicode-class assignment and option set: `convertH true` answers
    HTML, or its block phase ended in the ONE panic that is not excluded yet: `lastLine.Value(reader.Source())` inside
    `generateAutoHeadingID` (atx_heading.go:203) — never fuel exhaustion, never a panic `convertCore`'s block phase has (it has
    none: `block_phase_total`), never an error of the inline phase, the tree conversion or a node renderer. -/
theorem converth_total_or_value_panic (uc : List (Nat × (Bool × Bool))) (o : ROpts) (src : Bytes) :
    (∃ html, convertH true uc o src = .ok html) ∨
      ∃ p, p ≠ Panic.loop ∧ blockPhaseH true true src = .error p ∧ convertH true uc o src = .error (.blocks p) :=
  GM.E2E.H.convertH_total_or_value_panic uc o src

open GM.ConvertH GM.Props.C15E2E in
/-- **`c15_end_to_end_of_block_phase`** — C15 END TO END with totality behind the block phase: whenever the block phase with the
    option returns, `convertH true` answers HTML `html`, `html` is the rendering of the parsed tree, and for the Heading nodes
    the renderer visits, in document order: the attribute lists are exactly `id = v`, pairwise DISTINCT; every `v` is NON-EMPTY
    and consists of `a-z 0-9 -`; the start tag `<hN id="v">` is a contiguous part of `html`. -/
theorem c15_end_to_end_of_block_phase (uc : List (Nat × (Bool × Bool))) (o : ROpts) (src : Bytes) (hs : HS)
    (st : GM.Blocks.St) (hB : blockPhaseH true true src = .ok (hs, st)) :
    ∃ html t, convertH true uc o src = .ok html ∧ parseDocH true true uc src = .ok t ∧ html = render o.rcfg t ∧
      ((rHeadings t).map (·.2)).Nodup ∧
      ∀ p ∈ rHeadings t, ∃ v, p.2 = idAttr v ∧ v ≠ [] ∧ (∀ c ∈ v, IdByte c = true) ∧ startTag p.1 v <:+: html := by
  obtain ⟨html, h⟩ := GM.E2E.H.convertH_total_of_blockPhaseH uc o src hs st hB
  obtain ⟨t, h1, h2, h3, h4⟩ := c15_end_to_end uc o src html h
  exact ⟨html, t, h, h1, h2, h3, h4⟩

open GM.ConvertH GM.Props.C15E2E in
/-- **`c15_end_to_end_or_value_panic`**: for EVERY source either all of C15's conclusions hold of the HTML `convertH true` answers,
    or the block phase hit the `Segment.Value` panic of `generateAutoHeadingID` -/
theorem c15_end_to_end_or_value_panic (uc : List (Nat × (Bool × Bool))) (o : ROpts) (src : Bytes) :
    (∃ html t, convertH true uc o src = .ok html ∧ parseDocH true true uc src = .ok t ∧ html = render o.rcfg t ∧
      ((rHeadings t).map (·.2)).Nodup ∧
      ∀ p ∈ rHeadings t, ∃ v, p.2 = idAttr v ∧ v ≠ [] ∧ (∀ c ∈ v, IdByte c = true) ∧ startTag p.1 v <:+: html) ∨
    ∃ p, p ≠ Panic.loop ∧ blockPhaseH true true src = .error p ∧ convertH true uc o src = .error (.blocks p) := by
  cases hB : blockPhaseH true true src with
  | ok x => exact .inl (c15_end_to_end_of_block_phase uc o src x.1 x.2 hB)
  | error p =>
    rcases converth_total_or_value_panic uc o src with ⟨html, h⟩ | h
    · exfalso
      unfold convertH convertHWith parseDocH at h
      simp only [bind, Except.bind, hB, liftErr] at h
      cases h
    · rw [hB] at h; exact .inr h

/-- non-vacuity of the hypothesis `blockPhaseH true true src = .ok …` (kernel-evaluated): `# a⏎# a⏎a⏎=⏎` -/
example : (GM.ConvertH.blockPhaseH true true [35, 32, 97, 10, 35, 32, 97, 10, 97, 10, 61, 10]).toOption.isSome = true := by
  decide +kernel

end GM.Props.ConvertE2EAll
