/-
  Property C06 — output is a pure function of configuration and source.
  Proved here:
   * for the instance state machine (pending options, configuration frozen by a Once at first use, per-call
     document state): after ANY history of earlier calls a call returns what it returns on a fresh
     instance, and Convert is Parse followed by Render;
   * rendering is a function of the tree alone in the renderer model (GM.Model.Render mirrors every node
     renderer including the table cell's style computation, which since 72d659a no longer writes the node):
     re-rendering gives the same bytes — by construction, the tie is the `render` correspondence;
   * the kernel-checked obligations over the REGENERATED write facts that justify the state machine: every
     write to long-lived goldmark state is in a Once closure, a configuration method or a package
     initialiser, and no method on the Parse/Render path writes through a long-lived receiver.
  Not provable here (searched by the `history` component): that the unmodelled block/inline parsers keep no
  state outside the per-call Context — a state leak there would show as a new write fact or in the search.
-/
import GM.Model.Instance
import GM.Spec.StateFacts

namespace GM.Props.C06
open GM GM.Instance

variable {Cfg Src Out : Type}

theorem frozen_after_use (conv : Cfg → Src → Out) (i : Inst Cfg) (s : Src) :
    (use conv i s).1.frozen = some (i.frozen.getD i.pending) := by
  unfold use; cases h : i.frozen <;> simp [h]

theorem use_out (conv : Cfg → Src → Out) (i : Inst Cfg) (s : Src) :
    (use conv i s).2 = conv (i.frozen.getD i.pending) s := by
  unfold use; cases h : i.frozen <;> simp [h]

theorem runHist_cfg (conv : Cfg → Src → Out) (i : Inst Cfg) (hist : List Src) :
    (runHist conv i hist).frozen.getD (runHist conv i hist).pending = i.frozen.getD i.pending := by
  induction hist generalizing i with
  | nil => rfl
  | cons s rest ih =>
    simp only [runHist]
    rw [ih]
    rw [frozen_after_use]
    simp

/-- After any history of earlier conversions on the same instance, converting `src` yields exactly what a
    fresh instance of the same configuration yields. -/
theorem history_irrelevant (conv : Cfg → Src → Out) (i : Inst Cfg) (hist : List Src) (src : Src) :
    (use conv (runHist conv i hist) src).2 = (use conv i src).2 := by
  rw [use_out, use_out, runHist_cfg]

/-- Repeated calls give identical results. -/
theorem repeat_same (conv : Cfg → Src → Out) (i : Inst Cfg) (src : Src) :
    (use conv (use conv i src).1 src).2 = (use conv i src).2 :=
  history_irrelevant conv i [src] src

/-- Convert is Parse followed by Render. -/
theorem convert_eq_parse_render {P R Ast : Type} (parse : P → Src → Ast) (render : R → Src → Ast → Out)
    (pr : P × R) (src : Src) : convert parse render pr src = render pr.2 src (parse pr.1 src) := rfl

/-- Regenerated fact: every write to long-lived goldmark state sits in a Once closure, a configuration
    method or a package initialiser. -/
theorem facts_shared_writes_guarded : Spec.sharedWritesGuarded = true := by decide +kernel

/-- Regenerated fact: no method on the Parse/Render path (Parse, Render, Open, Continue, Close, Transform,
    render*, …) writes through a long-lived receiver outside a Once closure: parsers, transformers and node
    renderers keep no state between documents. -/
theorem facts_no_path_writes : Spec.noPathWrites = true := by decide +kernel

/-- Regenerated fact: the only sync / sync-atomic objects in goldmark's long-lived structs and package variables
    are the three `sync.Once` guards (no cache behind a mutex, `sync.Map`, `sync.Pool` or atomic pointer). -/
theorem facts_only_once_guards : Spec.onlyOnceGuards = true := by decide +kernel

/-- non-vacuity (test): a history that includes the freezing first call -/
example : (use (fun (c : Nat) (s : Nat) => c + s) (runHist (fun c s => c + s) ⟨5, none⟩ [1, 2, 3]) 10).2 = 15 := by
  decide

end GM.Props.C06
