/-
  GM.Props.ConvertNPX — C01 for the block phase WITH GFM's table paragraph transformer (extension/table.go:152-182, model
  GM.TableX.transformPT of package gfmx, GM/Model/ExtTableX.lean): the driver theorem of GM.Props.ConvertNP for a WIDER transformer
  contract, and the block phase `GM.ConvertX.blockPhaseX` of every member set of the GFM extensions.
  Helper lemmas: GM/Proof/BlocksTNP30-37.lean (contract `StepX` / `PTSpecX`, the no-panic walk re-run, `buildTable_stepX`),
  GM/Proof/BlocksTNO20-24, 30-36 (one table call exactly; wf0's line invariant through the driver with both transformers).
  What is proved / conditional / open: notes/status_tnopanic.md, round 3.
-/
import GM.Props.ConvertNP
import GM.Props.ConvertXE2E
import GM.Proof.BlocksTNP37
import GM.Proof.BlocksTNO45
import GM.Proof.BlocksTNO47
import GM.Proof.BlocksTNP41

namespace GM.Props.ConvertNPX
open GM GM.Text GM.Spec GM.Blocks GM.LinkRef GM.Convert GM.ConvertX GM.TableX
open GM.Blocks.L.G.X

/-! ### (1) the widened contract -/

/-- **The block driver with paragraph transformers is total for the WIDER contract `PTsSpecX`**, every byte string: a transformer
    call on a Paragraph (with a parent, with lines) must end in `StepX` — only the paragraph's lines change among the old nodes'
    lines, all lines stay in range, the tree-link frames hold (`TF`, `PLTf`, `TreeOK`), every OTHER node that was the last child of
    its parent still is (`LK` frame: what keeps the `else` of `last == parent.LastChild()` dead — a Table inserted directly BEHIND
    the paragraph never displaces a later sibling), and when the paragraph stays attached (`g = false`) it keeps at least one
    line, old nodes keep their parents and fresh nodes hang below fresh nodes or below the paragraph's parent (`KeepF`) — or answer
    the guard's outcome `e`. Any number of fresh nodes, any kept sub-list of the lines (prefix or suffix). Conclusion as before:
    a tree with all lines in range and Lists of ListItems, or `e`; no Go panic, no fuel error, neither retry monitor. -/
theorem block_phase_with_transformers_total_x (src : Bytes) (e : Panic) (pts : List PT) (hs : PTsSpecX src e pts)
    (hl : PTsOK pts) :
    (∃ s, runT pts src = .ok s ∧ NodesOK src s ∧ KidsOK s) ∨ runT pts src = .error e :=
  GM.Blocks.T.runT_totalX src e pts hs hl

/-- the narrow contract of GM.Props.ConvertNP (`PTPost`: a suffix of the lines, or ONE fresh TextBlock in the paragraph's place) is a
    special case, so `block_phase_with_transformers_total` / `block_phase_total` stand as they are -/
theorem narrow_contract_is_wide {src : Bytes} {e : Panic} {pts : List PT} (h : PTsSpec src e pts) : PTsSpecX src e pts :=
  ptsSpecX_of_ptsSpec h

/-- contracts of transformer lists compose -/
theorem wide_contract_append {src : Bytes} {e : Panic} {l1 l2 : List PT} (h1 : PTsSpecX src e l1) (h2 : PTsSpecX src e l2) :
    PTsSpecX src e (l1 ++ l2) :=
  ptsSpecX_append h1 h2

/-! ### (2) the table paragraph transformer is inside the wide contract -/

/-- the table transformer never exhausts fuel and keeps every reader-only invariant (admissible for the termination theorem) -/
theorem table_transformer_terminates (src : Bytes) : PTOK (transformPT src) :=
  GM.Blocks.transformPT_ptok src

/-- **the table transformer is inside the wide contract** — behind the check "every line of the paragraph is non-empty and valid"
    (`tableE e src`: the check answers the parameter `e`; `tblLinesB`): one call is a `StepX` — the fresh subtree (Table, TableHeader,
    TableRows, TableCells: all `NodeOK`, cell segments inside their row line, `GM.Blocks.TO.parseRow_in`), `SetSliced` of the paragraph's
    lines (a prefix, last newline cut), `InsertAfter`, `RemoveChild` of an emptied paragraph — tree frames, last-child frame — or `e`. -/
theorem table_transformer_in_wide_contract (src : Bytes) (e : Panic) : PTSpecX src e (GM.Blocks.TO.tableE e src) :=
  GM.Blocks.TO.tableE_specX src e

/-- the check is needed for the CONTRACT only (kernel-evaluated witness `GM.Blocks.TO.tableNodesOK_false`: on a hand-built paragraph
    with an EMPTY line the one-byte cut of `trimLastNewline` inverts the kept segment); in a run it never fires, nor does the link
    reference guard: with both checks the block phase is the block phase with the bare transformers -/
theorem table_and_linkref_checks_never_fire (src : Bytes) (e : Panic) :
    runT [guardE e, GM.Blocks.TO.tableE e src] src = runT [transform, transformPT src] src :=
  GM.Blocks.TX.twins_never_fire src e

/-! ### (3) the block phase of the GFM member sets — every byte string

  These theorems need gfmx's one-field fix of the model record in `GM.TableX.addRow` (`linesNil := (cells.flatMap (·.esc)).isEmpty`,
  lean/GM/Model/ExtTableX.lean — part of gfmx's round-4 delta, copied verbatim into this package's delta): before it, the TableRow record
  of a row with an escaped pipe violated the store invariant `NodeOK.nil` (`linesNil → lines = []`). -/

/-- **C01, block phase with the link reference AND the table transformer, every member set of the GFM extensions, EVERY byte string:
    `blockPhaseX c true src` returns a tree with all line segments in range** — no Go panic of the driver, the block parsers, either
    transformer or the tree surgery; no fuel error; no contract monitor; neither run-time check (`guardedTransform`'s `WFSegs`, the table
    model's domain monitor `validB`) fires. -/
theorem block_phase_x_total (c : XCfg) (src : Bytes) : ∃ s, blockPhaseX c true src = .ok s ∧ NodesOK src s :=
  GM.Blocks.TX.blockPhaseX_total c src

/-- the run-time checks are observers -/
theorem block_phase_x_guard_is_observer (c : XCfg) (src : Bytes) : blockPhaseX c true src = blockPhaseX c false src :=
  GM.Blocks.TX.blockPhaseX_guard_irrelevant c src

/-- **the line facts of the store with Table on** (`c.table = true`; with Table off `blockPhaseX` is `blockPhase`, GM.Props.ConvertNP):
    every line of every node is in range; every CHILD that is not raw and not a table record (`thematicBreak`) and has lines has `WF0`
    lines; table records that are children have padding 0 on all lines; the Document has no lines -/
theorem block_phase_x_line_facts (c : XCfg) (src : Bytes) (ht : c.table = true) (s : St)
    (h : blockPhaseX c true src = .ok s) :
    (∀ n ∈ s.nodes, ∀ t ∈ n.lines, segInRange src t) ∧
    (∀ p ch, ch ∈ (s.nodes.getD p default).children → GM.Convert.isRawKind (s.nodes.getD ch default).kind = false →
      (s.nodes.getD ch default).kind ≠ .thematicBreak → (s.nodes.getD ch default).lines ≠ [] →
      GM.Proof.InlinesReader.WF0 src (s.nodes.getD ch default).lines) ∧
    (∀ p ch, ch ∈ (s.nodes.getD p default).children → (s.nodes.getD ch default).kind = .thematicBreak →
      ∀ t ∈ (s.nodes.getD ch default).lines, t.padding = 0) ∧
    (s.nodes.getD 0 default).lines = [] :=
  GM.Blocks.TX.blockPhaseX_line_facts c src ht s h

/-- parent pointers and child lists of the final store agree (wf0's `TreeOK`); every entry of a child list has that parent and, when
    not raw, padding 0 on all its lines -/
theorem block_phase_x_tree_consistent (c : XCfg) (src : Bytes) (ht : c.table = true) (s : St)
    (h : blockPhaseX c true src = .ok s) : TreeOK s :=
  GM.Blocks.TX.blockPhaseX_tree c src ht s h

/-- `RecClassAt src st`: in the final store a table record (`thematicBreak` child) that has lines is a row record, or a cell record with
    exactly one line without ForceNewline — i.e. the driver never rewrites `htmlType` / `offset` / `lines` of a record after the table
    transformer built it. STATED, NOT PROVED (needs data frames for setextClose / listClose / list Continue / ptReplace beyond
    lines-linesNil-kind). -/
abbrev RecordsClassify (src : Bytes) (st : St) : Prop := GM.Blocks.TX.RecClassAt src st

/-- **`BlockPhaseXGood` (gfmx's interface) minus its escaped-pipe clause, literally, from `RecordsClassify`** — one member set, one source -/
theorem block_phase_x_good_but_esc (c : GCfg) (src : Bytes)
    (hR : c.base.table = true → ∀ st, blockPhaseX c.base true src = .ok st → RecordsClassify src st) :
    ∃ st, blockPhaseX c.base true src = .ok st ∧
      (∀ n ∈ st.nodes, isRawKind n.kind = true → ∀ t ∈ n.lines, segInRange src t) ∧
      (∀ p ch, ch ∈ (st.nodes.getD p default).children → isRawKind (st.nodes.getD ch default).kind = false →
        (c.base.table && isRowNode src (st.nodes.getD ch default)) = false →
        (c.base.table && isCellNode src (st.nodes.getD ch default) &&
          (st.nodes.getD ch default).lines.all (fun s => s.start == s.stop && s.padding == 0)) = false →
        (st.nodes.getD ch default).lines ≠ [] → GM.Proof.InlinesReader.WF0 src (st.nodes.getD ch default).lines) ∧
      (st.nodes.getD 0 default).lines = [] :=
  GM.Blocks.TX.blockPhaseX_good_but_esc_of c src hR

/-- **what is left for C01 end to end with `extension.GFM`**: the two remaining facts about the final store — records classify
    (`RecordsClassify`), escaped-pipe positions ascend in tree order (gfmx has it per table: `table_escaped_pipe_positions_ascend`; across
    tables it is a driver fact) — give `∀ c uc o src, ∃ html, convertL c uc o src = .ok html` -/
theorem convertl_total_of_records_and_esc
    (hR : ∀ (c : GCfg) (src : Bytes) st, c.base.table = true → blockPhaseX c.base true src = .ok st → RecordsClassify src st)
    (hE : ∀ (c : GCfg) (src : Bytes) st, blockPhaseX c.base true src = .ok st →
      (if c.base.table then escOfTree src (treeOf st.nodes st.nodes.length 0) else []).Pairwise (· < ·)) :
    GM.Props.ConvertXE2E.ConvertLTotal :=
  GM.Blocks.TX.convertL_total_of_class_esc hR hE

/-- round 4, the tree-level half of the escaped-pipe clause: if the node ids of the final store can be labelled by source spans
    `[lo id, hi id)` (`SpanOK`: a node's own recorded positions ascend inside its span and lie before its children's spans; children's
    spans are nested in the parent's and disjoint in child-list order), then `escOfTree` of the tree is strictly ascending. What is
    still missing is the DRIVER fact that such a labelling exists (children appended in source order, the Table inserted directly
    behind its paragraph). -/
theorem esc_ascending_of_spans (c : GCfg) (src : Bytes) (st : St)
    (hS : c.base.table = true → ∃ lo hi, GM.Blocks.TP4.SpanOK src st.nodes lo hi) :
    (if c.base.table then escOfTree src (treeOf st.nodes st.nodes.length 0) else []).Pairwise (· < ·) :=
  GM.Blocks.TP4.blockPhaseX_esc_ascending_of_spans c src st hS

/-- tests on literals (kernel-evaluated): `|a|b|⏎|-|-|⏎|c|d|⏎` — the block phase with Table builds the table (the store grows beyond
    Document + Paragraph); `|a|⏎|-|⏎|`\|`|⏎` — a row with an escaped pipe: the TableRow record (node 5, tag 103) holds the position
    (10,10) and, since gfmx's fix, `linesNil = false` -/
example : ((blockPhaseX { table := true } true
    [124, 97, 124, 98, 124, 10, 124, 45, 124, 45, 124, 10, 124, 99, 124, 100, 124, 10]).toOption.map
      (fun s => decide (s.nodes.length > 4))) = some true := by decide +kernel
example : ((blockPhaseX { table := true } true [124, 97, 124, 10, 124, 45, 124, 10, 124, 96, 92, 124, 96, 124, 10]).toOption.map
      (fun s => ((nd s 5).htmlType, (nd s 5).linesNil, (nd s 5).lines.map (fun t => (t.start, t.stop))))) =
      some (103, false, [(10, 10)]) := by decide +kernel

end GM.Props.ConvertNPX
