def hello := "world"
