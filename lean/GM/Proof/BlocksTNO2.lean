/-
  GM.Proof.BlocksTNO2 — GM.Proof.BlocksOrdOpen (and `Inv.onlyN` of GM.Proof.BlocksOrdCont) for the invariant `InvT` of
  GM.Proof.BlocksTNO1: `CleanT`, `DirtyT`, and `open_effT` — what `Open` of each of the ten block parsers does to a clean
  state; new: `OpenEffT.noreq` (only the setext heading parser answers RequireParagraph).
  Copy-and-adapt of wf0's proofs (the clause "a Paragraph has a line" dropped, "no open setext block" carried).
-/
import GM.Proof.BlocksTNO1

namespace GM.Blocks.TO
open GM GM.Text GM.Spec GM.Proof.Reader
open GM.Proof.BlocksWF0 (isRaw)


/-- a step that writes only a RAW node keeps the invariant (given the new store's range clause and the unchanged
    context keys) -/
theorem InvT.onlyN {X : Nat} {src : Bytes} {B : Int} {s s' : St} (hi : InvT src B s) (h : OnlyN X s s')
    (hraw : isRaw (nd s X).kind = true) (hpc : s'.pc = s.pc) (hn : NodesOK src s') : InvT src B s' := by
  have hk : ∀ i, (nd s' i).kind = (nd s i).kind := fun i => by
    by_cases hx : i = X
    · subst hx; exact h.2.2
    · rw [h.2.1 i hx]
  refine ⟨fun i hr => ?_, fun b hb => ?_, fun i hkp => ?_, fun t ht => ?_, fun b hb => ?_, hn⟩
  · by_cases hx : i = X
    · subst hx; rw [h.2.2, hraw] at hr; cases hr
    · rw [h.2.1 i hx] at hr ⊢; exact hi.nrb i hr
  · rw [hpc] at hb; exact hi.nsx b hb
  · by_cases hx : i = X
    · subst hx; rw [h.2.2] at hkp; rw [hkp] at hraw; cases hraw
    · rw [h.2.1 i hx] at hkp ⊢; exact hi.pnb i hkp
  · rw [hpc] at ht; rw [hk]; exact hi.tmpk t ht
  · rw [hpc] at hb; rw [hk, h.1]; exact hi.kinds b hb


structure CleanT (src : Bytes) (L : Int) (s : St) (c : RCur) : Prop where
  inv : InvT src L s
  ri : RI src s.r c
  pad : PadOK c
  le : L ≤ c.p

/-- `InvT` up to some `E` that the reader's line end has reached -/
def DirtyT (src : Bytes) (s : St) : Prop := ∃ E : Int, InvT src E s ∧ Stop src E s

theorem CleanT.dirty {src : Bytes} {L : Int} {s : St} {c : RCur} (h : CleanT src L s c) : DirtyT src s := by
  have h2 := lineEnd_ge src h.ri.inRange
  exact ⟨(lineEnd src c.p : Int), h.inv.mono (by have := h.le; omega), h.ri.stop⟩

theorem CleanT.invE {src : Bytes} {L : Int} {s : St} {c : RCur} (h : CleanT src L s c) :
    InvT src (lineEnd src c.p : Int) s := by
  have h2 := lineEnd_ge src h.ri.inRange
  exact h.inv.mono (by have := h.le; omega)


theorem CleanT.congr {src : Bytes} {L : Int} {s s' : St} {c : RCur} (h : CleanT src L s c) (hi : InvT src L s')
    (hr : s'.r = s.r) : CleanT src L s' c := ⟨hi, by rw [hr]; exact h.ri, h.pad, h.le⟩

theorem InvT.snoc {src : Bytes} {B : Int} {s s' : St} {n : Node} (hi : InvT src B s) (h : s'.nodes = s.nodes ++ [n])
    (ho : s'.pc.opened = s.pc.opened)
    (ht : ∀ t, s'.pc.tmpPara = some t → t < s.nodes.length ∧ (nd s t).kind = .paragraph)
    (hb : NodeB B n) (hp : n.kind = .paragraph → ∀ t ∈ n.lines, NonBlankSeg src t)
    (hok : NodeOK src n) : InvT src B s' := by
  refine ⟨fun i => ?_, fun b hbm => ?_, fun i hk => ?_, fun t htt => ?_, fun b hbm => ?_, fun m hm => ?_⟩
  · rw [nd_snoc h]; split
    · exact hi.nrb i
    · split
      · exact hb
      · exact fun _ => ⟨trivial, Below.nil B, fun t ht => by cases ht⟩
  · rw [ho] at hbm; exact hi.nsx b hbm
  · rw [nd_snoc h] at hk ⊢; split
    · next h1 => rw [if_pos h1] at hk; exact hi.pnb i hk
    · next h1 =>
      rw [if_neg h1] at hk
      split
      · next h2 => rw [if_pos h2] at hk; exact hp hk
      · next h2 => rw [if_neg h2] at hk; cases hk
  · obtain ⟨h1, h2⟩ := ht t htt
    rw [nd_snoc h, if_pos h1]; exact h2
  · rw [ho] at hbm
    obtain ⟨h1, h2⟩ := hi.kinds b hbm
    rw [nd_snoc h, if_pos h2, h]
    exact ⟨h1, by simp; omega⟩
  · rw [h] at hm
    rcases List.mem_append.1 hm with h1 | h1
    · exact hi.nodes m h1
    · simp only [List.mem_singleton] at h1; rw [h1]; exact hok

/-- a result predicate: whenever `x` ends normally its answer satisfies `P` -/
def RP {α : Type} (P : α → Prop) (x : M α) : Prop := ∀ s a s', x s = .ok (a, s') → P a

theorem RP.pure {α} {P : α → Prop} {a : α} (h : P a) : RP P (pure a : M α) :=
  fun _ _ _ e => by obtain ⟨rfl, _⟩ := opure_ok e; exact h
theorem RP.bind {α β} {P : β → Prop} {x : M α} {f : α → M β} (h : ∀ a, RP P (f a)) : RP P (x >>= f) :=
  fun _ _ _ e => by obtain ⟨a, s1, _, k⟩ := obind_ok e; exact h a _ _ _ k
theorem RP.ite {α} {P : α → Prop} {c : Prop} [Decidable c] {x y : M α} (h1 : RP P x) (h2 : RP P y) :
    RP P (if c then x else y) := by split <;> assumption

/-- listItemParser.Open never answers RequireParagraph -/
theorem listItemOpen_noreq (parent : Nat) : RP (fun a => a.2.requirePara = false) (listItemOpen parent) := by
  unfold listItemOpen
  repeat' first
    | with_reducible exact RP.pure rfl
    | with_reducible apply RP.bind
    | with_reducible apply RP.ite
    | intro _
    | split

/-- (vendored from wf0's BlocksOrdOpen as of the revision these files were written against) the lines of a new node,
    parser by parser -/
theorem open_newNode {src : Bytes} {s s' : St} {c : RCur} (bp : BP) (parent : Nat) {a : Option Nat × PState}
    (hctx : LineCtx src s c) (e : bpOpen bp parent s = .ok (a, s')) {n : Node} (hn : s'.nodes = s.nodes ++ [n])
    (hk : n.kind = bp.kind) : NodeB (lineEnd src c.p : Int) n ∧
      (n.kind = .paragraph → n.lines ≠ [] ∧ ∀ t ∈ n.lines, NonBlankSeg src t) := by
  have hge := lineEnd_ge src hctx.ri.inRange
  have hltE := lt_lineEnd src hctx.lt
  have one : ∀ t : Segment, (c.p : Int) ≤ t.start → t.stop ≤ (lineEnd src c.p : Int) → t.start < t.stop →
      t.forceNewline = false →
      OrdFrom 0 [t] ∧ Below (lineEnd src c.p : Int) [t] ∧ ∀ u ∈ [t], u.start < u.stop ∧ u.forceNewline = false :=
    fun t h1 h2 h3 h4 =>
    ⟨⟨by omega, trivial⟩, (fun u hu => by simp only [List.mem_singleton] at hu; rw [hu]; exact h2),
      fun u hu => by simp only [List.mem_singleton] at hu; rw [hu]; exact ⟨h3, h4⟩⟩
  have none' : OrdFrom 0 ([] : List Segment) ∧ Below (lineEnd src c.p : Int) [] ∧
      ∀ u ∈ ([] : List Segment), u.start < u.stop ∧ u.forceNewline = false :=
    ⟨trivial, Below.nil _, fun u hu => by cases hu⟩
  have raw : isRaw n.kind = true → NodeB (lineEnd src c.p : Int) n ∧
      (n.kind = .paragraph → n.lines ≠ [] ∧ ∀ t ∈ n.lines, NonBlankSeg src t) :=
    fun hr => ⟨(fun h => by rw [hr] at h; cases h), (fun hp => by rw [hp] at hr; cases hr)⟩
  cases bp
  case setext =>
    have e' : setextOpen parent s = .ok (a, s') := e
    obtain ⟨r', _, h1 | ⟨lb, lvl, _, _, _, _, hs'⟩⟩ := setextOpen_line hctx.ri e'
    · exfalso; rw [h1.2] at hn; simp at hn
    · rw [hs'] at hn
      have : n = { kind := .heading, level := lvl, lines := [RCur.seg src c], linesNil := false } := by
        simpa using hn.symm
      subst this
      exact ⟨fun _ => one _ (Int.le_refl _) (Int.le_refl _) (by show (c.p : Int) < (lineEnd src c.p : Int); omega) rfl,
        (fun h => by cases h)⟩
  case thematic =>
    have e' : thematicOpen parent s = .ok (a, s') := e
    obtain ⟨_, _, _, _, _, _, _, h1 | h1⟩ := (thematicOpen_okl hctx.ri parent).of_ok e'
    · exfalso; rw [h1.2.1] at hn; simp at hn
    · rw [h1.2] at hn
      have : n = { kind := .thematicBreak } := by simpa using hn.symm
      subst this
      exact ⟨fun _ => none', (fun h => by cases h)⟩
  case list =>
    have e' : listOpen parent s = .ok (a, s') := e
    obtain ⟨_, _, _, _, _, _, _, _, _, hnone, hsome⟩ := (listOpen_okl_ri src parent s c hctx.ri).of_ok e'
    cases ha : a.1 with
    | none => exfalso; rw [(hnone ha).1] at hn; simp at hn
    | some id =>
      obtain ⟨_, _, _, _, ⟨m, hm, _, _, hl, _⟩, _⟩ := hsome id ha
      rw [hm] at hn
      have : n = m := by simpa using hn.symm
      subst this
      exact ⟨fun _ => by rw [hl]; exact none', (fun h => by rw [hk] at h; cases h)⟩
  case listItem =>
    have e' : listItemOpen parent s = .ok (a, s') := e
    by_cases hkl : (nd s parent).kind = .list
    · obtain ⟨_, _, _, _, _, _, _, _, _, _, hnone, hsome⟩ :=
        (listItemOpen_okl src parent s c hctx (listItemOpen_kids e' hkl)).of_ok e'
      cases ha : a.1 with
      | none => exfalso; rw [hnone ha] at hn; simp at hn
      | some id =>
        obtain ⟨_, _, m, hm, _, _, hl, _⟩ := hsome id ha
        rw [hm] at hn
        have : n = m := by simpa using hn.symm
        subst this
        exact ⟨fun _ => by rw [hl]; exact none', (fun h => by rw [hk] at h; cases h)⟩
    · exfalso
      rw [GM.Blocks.L.listItemOpen_notList parent s hkl] at e'
      cases e'
      simp at hn
  case code => exact raw (by rw [hk]; rfl)
  case atx =>
    have e' : atxOpen parent s = .ok (a, s') := e
    obtain ⟨_, _, _, _, _, h1 | ⟨_, m, hm, _, _, hl⟩⟩ := (atxOpen_line hctx.ri parent).of_ok e'
    · exfalso; rw [h1.2] at hn; simp at hn
    · rw [hm] at hn
      have : n = m := by simpa using hn.symm
      subst this
      refine ⟨fun _ => ?_, (fun h => by rw [hk] at h; cases h)⟩
      rcases hl with hl | ⟨t, hl, h1, h2, h3, _, h5⟩
      · rw [hl]; exact none'
      · rw [hl]; exact one t (by omega) h3 h2 h5
  case fenced => exact raw (by rw [hk]; rfl)
  case blockquote =>
    have e' : blockquoteOpen parent s = .ok (a, s') := e
    unfold blockquoteOpen at e'
    obtain ⟨b, s1, h1, k1⟩ := obind_ok e'
    obtain ⟨r1, c1, hs1, _⟩ := (blockquoteProcess_okl hctx.ri).of_ok h1
    subst s1
    split at k1
    · obtain ⟨id, s2, h2, k2⟩ := obind_ok k1
      obtain ⟨_, hs2⟩ := onewNode_ok h2
      subst s2
      obtain ⟨_, hs⟩ := opure_ok k2
      subst s'
      have : n = { kind := .blockquote } := by simpa using hn.symm
      subst this
      exact ⟨fun _ => none', (fun h => by cases h)⟩
    · obtain ⟨_, hs⟩ := opure_ok k1
      subst s'
      exfalso; simp at hn
  case html => exact raw (by rw [hk]; rfl)
  case paragraph =>
    have e' : paragraphOpen parent s = .ok (a, s') := e
    obtain ⟨_, _, _, _, _, _, _, h1 | ⟨_, m, seg, hm, _, hl, _, _, h2, h3, h4, _, h6, h7⟩⟩ :=
      (paragraphOpen_line hctx.ri parent).of_ok e'
    · exfalso; rw [h1.2.1] at hn; simp at hn
    · rw [hm] at hn
      have : n = m := by simpa using hn.symm
      subst this
      exact ⟨fun _ => by rw [hl]; exact one seg h2 (by rw [h4]; exact Int.le_refl _) h3 h6,
        (fun _ => by rw [hl]; exact ⟨by simp, fun u hu => by simp only [List.mem_singleton] at hu; rw [hu]; exact h7⟩)⟩

/-! ### `Open` from a clean state -/

/-- what `Open` of any of the ten parsers does to a clean state (the contract `OpenPost` of GM.Proof.BlocksInv, the list
    parsers' own contracts, and `open_newNode`) -/
structure OpenEffT (src : Bytes) (L : Int) (bp : BP) (s : St) (c : RCur) (a : Option Nat × PState) (s' : St) : Prop where
  invE : InvT src (lineEnd src c.p : Int) s'
  stop : Stop src (lineEnd src c.p : Int) s'
  opened : s'.pc.opened = s.pc.opened
  boff : s'.pc.blockOffset = s.pc.blockOffset
  declined : a.1 = none → CleanT src L s' c ∧ s'.nodes = s.nodes
  container : a.2.hasChildren = true → ∃ c', CleanT src L s' c' ∧ c.p ≤ c'.p
  node : ∀ id, a.1 = some id → id = s.nodes.length ∧ id < s'.nodes.length ∧ (nd s' id).kind = bp.kind
  noreq : a.2.requirePara = true → bp = .setext

theorem open_effT {src : Bytes} {L : Int} {s s' : St} {c : RCur} (bp : BP) (parent : Nat) {a : Option Nat × PState}
    (hc : CleanT src L s c) (hlt : c.p < src.length)
    (hoff : s.pc.blockOffset < (((RCur.view src c).getD []).length : Int))
    (e : bpOpen bp parent s = .ok (a, s')) : OpenEffT src L bp s c a s' := by
  have hctx : LineCtx src s c := ⟨hc.ri, hlt, hc.pad, hoff, hc.inv.nodes⟩
  -- the reader never moves its line end back
  have hstop : Stop src (lineEnd src c.p : Int) s' := by
    have := (bpOpen_pres (stop_prims src (lineEnd src c.p : Int)) bp parent).h s hc.ri.stop
    rw [e] at this; exact this
  -- the common part, from: reader, stack, new node / no node, `tmpPara`
  have common : ∀ (c' : RCur), RI src s'.r c' → PadOK c' → c.p ≤ c'.p → (a.1 = none → c' = c) →
      s'.pc.opened = s.pc.opened → s'.pc.blockOffset = s.pc.blockOffset →
      (a.1 = none → s'.nodes = s.nodes) →
      (∀ id, a.1 = some id → id = s.nodes.length ∧ ∃ n, s'.nodes = s.nodes ++ [n] ∧ n.kind = bp.kind ∧ NodeOK src n ∧
        (isRaw bp.kind = false → a.2.hasChildren = true → n.lines = [])) →
      (∀ t, s'.pc.tmpPara = some t → t < s.nodes.length ∧ (nd s t).kind = .paragraph) →
      (a.2.hasChildren = true → a.1.isSome = true ∧ isRaw bp.kind = false) →
      (a.2.requirePara = true → bp = .setext) →
      OpenEffT src L bp s c a s' := by
    intro c' hri hpad hle hsame ho hbo hnone hsome htmp hkids hreq
    -- `InvT` for every bound `B` that the new node (if any) respects
    have hinv : ∀ B : Int, InvT src B s → (∀ n, s'.nodes = s.nodes ++ [n] → NodeB B n) → InvT src B s' := by
      intro B hiB hnB
      cases ha : a.1 with
      | none =>
        have hn := hnone ha
        exact ⟨fun i => by simp only [nd, hn]; exact hiB.nrb i, fun b hb => by rw [ho] at hb; exact hiB.nsx b hb,
          fun i => by simp only [nd, hn]; exact hiB.pnb i,
          fun t ht => by simp only [nd, hn]; exact (htmp t ht).2, fun b hb => by
            rw [ho] at hb; simp only [nd, hn]; exact hiB.kinds b hb, fun m hm => hiB.nodes m (by rw [← hn]; exact hm)⟩
      | some id =>
        obtain ⟨_, n, hn, hk, hok, _⟩ := hsome id ha
        exact hiB.snoc hn ho htmp (hnB n hn) (fun hp => ((open_newNode bp parent hctx e hn hk).2 hp).2) hok
    refine ⟨hinv _ hc.invE (fun n hn => ?_), hstop, ho, hbo, fun ha => ?_, fun hch => ?_, fun id ha => ?_, hreq⟩
    · cases ha : a.1 with
      | none => exfalso; rw [hnone ha] at hn; simp at hn
      | some id =>
        obtain ⟨_, m, hm, hk, _, _⟩ := hsome id ha
        rw [hm] at hn
        have : n = m := by simpa using hn.symm
        subst this
        exact (open_newNode bp parent hctx e hm hk).1
    · have hcc := hsame ha
      subst hcc
      refine ⟨⟨hinv L hc.inv (fun n hn => ?_), hri, hpad, hc.le⟩, hnone ha⟩
      exfalso; rw [hnone ha] at hn; simp at hn
    · obtain ⟨hsm, hnr⟩ := hkids hch
      refine ⟨c', ⟨hinv L hc.inv (fun n hn => ?_), hri, hpad, by have := hc.le; omega⟩, hle⟩
      cases ha : a.1 with
      | none => rw [ha] at hsm; cases hsm
      | some id =>
        obtain ⟨_, m, hm, hk, _, hl⟩ := hsome id ha
        rw [hm] at hn
        have : n = m := by simpa using hn.symm
        subst this
        exact fun _ => by rw [hl hnr hch]; exact ⟨trivial, Below.nil L, fun t ht => by cases ht⟩
    · obtain ⟨hid, n, hn, hk, _, _⟩ := hsome id ha
      subst hid
      exact ⟨rfl, by rw [hn]; simp, by rw [GM.Blocks.L.nd_append_self hn]; exact hk⟩
  by_cases hl1 : bp = .list
  · subst hl1
    have e' : listOpen parent s = .ok (a, s') := e
    obtain ⟨r', hr', hri, ho, hbo, _, htm, _, _, hnone, hsome⟩ := (listOpen_okl_ri src parent s c hc.ri).of_ok e'
    subst hr'
    refine common c hri hc.pad (Nat.le_refl _) (fun _ => rfl) ho hbo (fun ha => (hnone ha).1) (fun id ha => ?_)
      (fun t ht => by rw [htm] at ht; exact ⟨tmp_lt (hc.inv.tmpk t ht), hc.inv.tmpk t ht⟩) (fun hch => ?_) ?_
    · obtain ⟨h1, _, _, _, ⟨n, hn, hk, _, hl, _, _, hok⟩, _⟩ := hsome id ha
      exact ⟨h1, n, hn, hk, hok, fun _ _ => hl⟩
    · cases ha : a.1 with
      | none => rw [(hnone ha).2.1] at hch; cases hch
      | some id => exact ⟨rfl, rfl⟩
    · intro hrq
      cases ha : a.1 with
      | none => rw [(hnone ha).2.1] at hrq; cases hrq
      | some id => rw [(hsome id ha).2.1] at hrq; cases hrq
  by_cases hl2 : bp = .listItem
  · subst hl2
    have e' : listItemOpen parent s = .ok (a, s') := e
    by_cases hkl : (nd s parent).kind = .list
    · obtain ⟨c', hri, hpad, hle, hsame, hprog, ho, hbo, htm, _, hnone, hsome⟩ :=
        (listItemOpen_okl src parent s c hctx (listItemOpen_kids e' hkl)).of_ok e'
      refine common c' hri hpad hle hsame ho hbo hnone (fun id ha => ?_)
        (fun t ht => by rw [htm] at ht; exact ⟨tmp_lt (hc.inv.tmpk t ht), hc.inv.tmpk t ht⟩) (fun hch => ?_)
        (fun hrq => by rw [listItemOpen_noreq parent s a s' e'] at hrq; cases hrq)
      · obtain ⟨h1, _, n, hn, hk, _, hl, hln, _⟩ := hsome id ha
        exact ⟨h1, n, hn, hk, ⟨(by rw [hl]; exact fun t ht => by cases ht), fun _ => hl⟩, fun _ _ => hl⟩
      · refine ⟨?_, rfl⟩
        cases ha : a.1 with
        | some id => rfl
        | none =>
          exfalso
          have h1 := hsame ha
          have h2 := hprog hch
          rw [h1] at h2
          omega
    · rw [GM.Blocks.L.listItemOpen_notList parent s hkl] at e'
      cases e'
      exact common c hc.ri hc.pad (Nat.le_refl _) (fun _ => rfl) rfl rfl (fun _ => rfl) (fun id ha => by cases ha)
        (fun t ht => ⟨tmp_lt (hc.inv.tmpk t ht), hc.inv.tmpk t ht⟩) (fun hch => by cases hch) (fun hrq => by cases hrq)
  · have hO := ((specs_notList src).opn bp ⟨hl1, hl2⟩ parent s c hctx).of_ok e
    obtain ⟨c', hri, hpad, hle, hsame, _⟩ := hO.ri
    refine common c' hri hpad hle hsame hO.opened hO.boff hO.noNode (fun id ha => ?_) (fun t ht => ?_) (fun hch => ?_)
      (fun hrq => (hO.req hrq).1)
    · obtain ⟨h1, n, hn, hk, hok, _⟩ := hO.newNode id ha
      refine ⟨h1, n, hn, hk, hok, fun hnr hch => ?_⟩
      -- a non-raw container other than list / list item is the block quote
      have hbq : bp = .blockquote := by
        have := (hO.kids hch).1
        cases bp <;> simp_all [BP.isContainer]
      subst hbq
      have e' : blockquoteOpen parent s = .ok (a, s') := e
      unfold blockquoteOpen at e'
      obtain ⟨b, s1, h1', k1⟩ := obind_ok e'
      obtain ⟨r1, c1, hs1, _⟩ := (blockquoteProcess_okl hc.ri).of_ok h1'
      subst s1
      split at k1
      · obtain ⟨id', s2, h2, k2⟩ := obind_ok k1
        obtain ⟨_, hs2⟩ := onewNode_ok h2
        subst s2
        obtain ⟨_, hs⟩ := opure_ok k2
        subst s'
        have : n = { kind := .blockquote } := by simpa using hn.symm
        subst this
        rfl
      · obtain ⟨hx, hs⟩ := opure_ok k1
        subst s'
        exfalso; simp at hn
    · rcases hO.tmp with ⟨_, _, lb, _, hk, _, htm⟩ | ⟨_, htm⟩
      · rw [htm] at ht; cases ht; exact ⟨tmp_lt hk, hk⟩
      · rw [htm] at ht; exact ⟨tmp_lt (hc.inv.tmpk t ht), hc.inv.tmpk t ht⟩
    · obtain ⟨h1, h2⟩ := hO.kids hch
      refine ⟨h2, ?_⟩
      cases bp <;> simp_all [BP.isContainer, BP.kind, isRaw]

end GM.Blocks.TO
