/-
  GM.Proof.BlocksDriver — composing the per-parser contracts (GM.Proof.BlocksInv) through the driver
  (`closeBlocks`, `tryParsers`, `openBlocksLoop`, `openBlocks`, `lineLoop`, `linesLoop`, `blocksLoop`, `run`):
  no Go panic and no contract-monitor failure for whole runs, for any set `A` of block parsers that satisfy
  their contracts and that are the only ones ever triggered.
-/
import GM.Proof.BlocksSpecBasic

namespace GM.Blocks
open GM GM.Text GM.Spec GM.Proof.Reader

/-- the contracts of the parsers in `A` -/
structure Specs (src : Bytes) (A : BP → Prop) : Prop where
  opn : ∀ bp, A bp → OpenSpec src bp
  cont : ∀ bp, A bp → ContSpec src bp
  close : ∀ bp, A bp → CloseSpec src bp
  paraCont : A .paragraph → ∀ (node : Nat) (s : St) (c : RCur), RI src s.r c → PadOK c → NodesOK src s → KeysOK s →
    BlockOK s ⟨node, .paragraph⟩ → OKL (fun st s' => ContPost src .paragraph s c st s') (paragraphContinue node s)

/-- all entries but the last are container blocks -/
def Leafy (l : List Block) : Prop := ∀ b ∈ l.dropLast, b.bp.isContainer = true

/-- closing `c` does not invalidate `k`: a setext heading's / fenced block's context key is not reset -/
def Compat (s : St) (k c : Block) : Prop :=
  (k.bp = .setext → c.bp ≠ .setext) ∧
  (k.bp = .fenced → c.bp = .fenced → ∀ f, s.pc.fence = some f → f.node ≠ c.node)

theorem Compat.of_container {s : St} {k c : Block} (h : c.bp.isContainer = true) : Compat s k c := by
  constructor
  · intro _ hc; rw [hc] at h; cases h
  · intro _ hc; rw [hc] at h; cases h

theorem container_kind {bp : BP} (h : bp.isContainer = true) :
    bp ≠ .paragraph ∧ bp ≠ .setext ∧ bp ≠ .fenced ∧ bp.kind ≠ .paragraph := by
  cases bp <;> simp [BP.isContainer, BP.kind] at h ⊢

theorem kind_paragraph {bp : BP} (h : bp.kind = .paragraph) : bp = .paragraph := by
  cases bp <;> simp [BP.kind] at h ⊢

theorem BlockOK.ext {s s' : St} {b : Block} (h : BlockOK s b) (e : Ext s s')
    (ht : b.bp = .setext → s'.pc.tmpPara.isSome = true) (hf : b.bp = .fenced → s'.pc.fence.isSome = true) :
    BlockOK s' b where
  lt := Nat.lt_of_lt_of_le h.lt e.len
  kind := by rw [e.kind _ h.lt]; exact h.kind
  para := fun hp => e.linesNE _ h.lt (by rw [h.kind, hp]; simp [BP.kind]) (h.para hp)
  setext := fun hp => ⟨e.linesNE _ h.lt (by rw [h.kind, hp]; simp [BP.kind]) (h.setext hp).1, ht hp⟩
  fenced := hf

theorem BlockOK.ext_container {s s' : St} {b : Block} (h : BlockOK s b) (e : Ext s s')
    (hc : b.bp.isContainer = true) : BlockOK s' b :=
  h.ext e (fun hp => absurd hp (container_kind hc).2.1) (fun hp => absurd hp (container_kind hc).2.2.1)

theorem KeysOK.ext {s s' : St} (h : KeysOK s) (e : Ext s s')
    (ht : s'.pc.tmpPara = s.pc.tmpPara ∨ s'.pc.tmpPara = none)
    (hf : s'.pc.fence = s.pc.fence ∨ s'.pc.fence = none) : KeysOK s' where
  tmp := by
    intro t htt
    rcases ht with ht | ht
    · rw [ht] at htt
      obtain ⟨a, b, c⟩ := h.tmp t htt
      exact ⟨Nat.lt_of_lt_of_le a e.len, by rw [e.kind t a]; exact b,
        e.linesNE t a (by rw [b]; simp) c⟩
    · rw [ht] at htt; cases htt
  fence := by
    intro f hff
    rcases hf with hf | hf
    · rw [hf] at hff
      obtain ⟨a, b, c⟩ := h.fence f hff
      exact ⟨a, b, Nat.lt_of_lt_of_le c e.len⟩
    · rw [hf] at hff; cases hff

/-! ### store updates that keep kinds and lines -/

/-- `s'` differs from `s` only in tree links and flags of nodes -/
structure FrameEq (s s' : St) : Prop where
  r : s'.r = s.r
  pc : s'.pc = s.pc
  len : s'.nodes.length = s.nodes.length
  same : ∀ j, (nd s' j).kind = (nd s j).kind ∧ (nd s' j).lines = (nd s j).lines ∧ (nd s' j).linesNil = (nd s j).linesNil

theorem FrameEq.refl (s : St) : FrameEq s s := ⟨rfl, rfl, rfl, fun _ => ⟨rfl, rfl, rfl⟩⟩

theorem FrameEq.trans {s1 s2 s3 : St} (h1 : FrameEq s1 s2) (h2 : FrameEq s2 s3) : FrameEq s1 s3 :=
  ⟨by rw [h2.r, h1.r], by rw [h2.pc, h1.pc], by rw [h2.len, h1.len], fun j => by
    obtain ⟨a, b, c⟩ := h1.same j; obtain ⟨a', b', c'⟩ := h2.same j
    exact ⟨by rw [a', a], by rw [b', b], by rw [c', c]⟩⟩

theorem drv_nodeOK_nd {src : Bytes} {s : St} (h : NodesOK src s) (i : Nat) : NodeOK src (nd s i) := by
  unfold nd
  rw [List.getD_eq_getElem?_getD]
  cases hi : s.nodes[i]? with
  | none => exact ⟨fun _ h => (by cases h), fun _ => rfl⟩
  | some n => exact h n (List.mem_of_getElem? hi)

theorem FrameEq.nodesOK {src : Bytes} {s s' : St} (h : FrameEq s s') (hn : NodesOK src s) : NodesOK src s' := by
  intro n hmem
  obtain ⟨j, hj, rfl⟩ := List.getElem_of_mem hmem
  have e : s'.nodes[j] = nd s' j := by
    simp [nd, List.getD_eq_getElem?_getD, hj]
  obtain ⟨_, b, c⟩ := h.same j
  have ok := drv_nodeOK_nd hn j
  rw [e]
  exact ⟨by rw [b]; exact ok.lines, by rw [b, c]; exact ok.nil⟩

theorem FrameEq.ext {s s' : St} (h : FrameEq s s') : Ext s s' :=
  ⟨by rw [h.len]; exact Nat.le_refl _, fun j _ => (h.same j).1, fun j _ _ hl => by rw [(h.same j).2.1]; exact hl⟩

theorem FrameEq.keys {s s' : St} (h : FrameEq s s') (hk : KeysOK s) : KeysOK s' :=
  hk.ext h.ext (.inl (by rw [h.pc])) (.inl (by rw [h.pc]))

theorem FrameEq.blockOK {s s' : St} (h : FrameEq s s') {b : Block} (hb : BlockOK s b) : BlockOK s' b :=
  hb.ext h.ext (fun hp => by rw [h.pc]; exact (hb.setext hp).2) (fun hp => by rw [h.pc]; exact hb.fenced hp)

/-- the state after `modNode i f` -/
def upd (s : St) (i : Nat) (f : Node → Node) : St := { s with nodes := s.nodes.set i (f (nd s i)) }

theorem modNode_eq (i : Nat) (f : Node → Node) (s : St) : modNode i f s = .ok ((), upd s i f) := rfl

theorem nd_upd (s : St) (i : Nat) (f : Node → Node) (j : Nat) :
    nd (upd s i f) j = if i = j ∧ i < s.nodes.length then f (nd s i) else nd s j := by
  simp only [nd, upd, List.getD_eq_getElem?_getD, List.getElem?_set]
  by_cases hij : i = j
  · subst hij
    by_cases hi : i < s.nodes.length
    · simp [hi]
    · simp [hi, List.getElem?_eq_none (Nat.le_of_not_lt hi)]
  · simp [hij]

/-- `f` changes neither kind nor lines -/
def SameLK (f : Node → Node) : Prop := ∀ n, (f n).kind = n.kind ∧ (f n).lines = n.lines ∧ (f n).linesNil = n.linesNil

theorem upd_frame (s : St) (i : Nat) {f : Node → Node} (hf : SameLK f) : FrameEq s (upd s i f) := by
  refine ⟨rfl, rfl, by simp [upd], fun j => ?_⟩
  rw [nd_upd]
  split
  · rename_i h; obtain ⟨rfl, _⟩ := h; exact hf _
  · exact ⟨rfl, rfl, rfl⟩

/-- AppendChild never fails and only touches tree links -/
theorem appendChild_okl (parent node : Nat) (s : St) :
    ∃ s', appendChild parent node s = .ok ((), s') ∧ FrameEq s s' ∧
      (node < s.nodes.length → (nd s' node).parent = some parent) := by
  have fin : ∀ s1 : St, FrameEq s s1 → ∃ s', (do
        modNode parent fun n => { n with children := n.children ++ [node] }
        modNode node fun n => { n with parent := some parent } : M Unit) s1 = .ok ((), s') ∧ FrameEq s s' ∧
      (node < s.nodes.length → (nd s' node).parent = some parent) := by
    intro s1 h1
    refine ⟨upd (upd s1 parent fun n => { n with children := n.children ++ [node] }) node
      fun n => { n with parent := some parent }, rfl, ?_, ?_⟩
    · exact h1.trans ((upd_frame s1 parent (f := fun n => { n with children := n.children ++ [node] }) (fun n => ⟨rfl, rfl, rfl⟩)).trans
        (upd_frame _ node (f := fun n => { n with parent := some parent }) (fun n => ⟨rfl, rfl, rfl⟩)))
    · intro hlt
      rw [nd_upd]
      have : node < (upd s1 parent fun n => { n with children := n.children ++ [node] }).nodes.length := by
        simp only [upd, List.length_set]; rw [h1.len]; exact hlt
      simp [this]
  unfold appendChild ensureIsolated
  simp only [bind, StateT.bind, getNode, Except.bind, pure, StateT.pure, Except.pure]
  cases hp : (s.nodes.getD node default).parent with
  | none => exact fin s (FrameEq.refl s)
  | some q =>
    simp only [removeChild, bind, StateT.bind, getNode, Except.bind, pure, StateT.pure, Except.pure, hp]
    have hne : (some q != some q) = false := by simp
    simp only [hne, Bool.false_eq_true, if_false]
    exact fin _ ((upd_frame s q (f := fun n => { n with children := n.children.erase node }) (fun n => ⟨rfl, rfl, rfl⟩)).trans
      (upd_frame _ node (f := fun n => { n with parent := none }) (fun n => ⟨rfl, rfl, rfl⟩)))

/-! ### closeBlocks -/

/-- the loop of `closeBlocks` over an explicit list (in closing order) -/
def closeList : List Block → M Unit
  | [] => pure ()
  | b :: bs => do
    if (← getNode b.node).parent.isSome then bpClose b.bp b.node
    closeList bs

theorem blockAt_ok (blocks : List Block) (i : Nat) (h : i < blocks.length) :
    blockAt blocks (i : Int) = .ok blocks[i] := by
  unfold blockAt
  have : ¬ ((i : Int) < 0) := by omega
  rw [if_neg this]
  simp [h]

theorem closeLoop_eq (blocks : List Block) (to : Nat) : ∀ k, to + k ≤ blocks.length →
    closeLoop blocks (to : Int) k = closeList ((blocks.drop to).take k).reverse := by
  intro k
  induction k with
  | zero => intro _; simp [closeLoop, closeList]
  | succ k ih =>
    intro hk
    have hlt : to + k < blocks.length := by omega
    have e : ((blocks.drop to).take (k + 1)).reverse = blocks[to + k] :: ((blocks.drop to).take k).reverse := by
      rw [List.take_add_one]
      have : (blocks.drop to)[k]? = some blocks[to + k] := by
        rw [List.getElem?_drop]; simp [hlt]
      rw [this]; simp
    rw [e]
    unfold closeLoop
    simp only [closeList]
    have hb : blockAt blocks ((to : Int) + (k : Int)) = .ok blocks[to + k] := by
      have := blockAt_ok blocks (to + k) hlt
      simpa using this
    rw [hb, ih (by omega)]
    rfl

section close
variable {src : Bytes} {A : BP → Prop} (sp : Specs src A)
include sp

/-- closing a list of blocks of which only the first may be a leaf; the blocks `K` stay valid -/
theorem closeList_okl (K : List Block) : ∀ (l : List Block) (s : St), s.r.source = src → NodesOK src s → KeysOK s →
    (∀ b ∈ l, BlockOK s b ∧ A b.bp) → (∀ b ∈ l.tail, b.bp.isContainer = true) →
    (∀ k ∈ K, BlockOK s k ∧ ∀ top, l.head? = some top → Compat s k top) →
    OKL (fun _ s' => s'.r = s.r ∧ s'.pc.opened = s.pc.opened ∧ NodesOK src s' ∧ KeysOK s' ∧ Ext s s' ∧
        ∀ k ∈ K, BlockOK s' k) (closeList l s) := by
  intro l
  induction l with
  | nil =>
    intro s _ hn hk _ _ hK
    exact OKL.ok ⟨rfl, rfl, hn, hk, Ext.refl s, fun k hk' => (hK k hk').1⟩
  | cons top cs ih =>
    intro s hsrc hn hk hl hcs hK
    unfold closeList
    refine OKL.bind (m := getNode top.node) (P := fun n s1 => n = s.nodes.getD top.node default ∧ s1 = s)
      (OKL.ok ⟨rfl, rfl⟩) (fun n s0 hn0 => ?_)
    obtain ⟨hn0, hs0⟩ := hn0
    subst n s0
    -- the rest of the loop, from the state after the (possibly skipped) Close of `top`
    have rest : ∀ s1 : St, (s1.r = s.r ∧ s1.pc.opened = s.pc.opened ∧ NodesOK src s1 ∧ KeysOK s1 ∧ Ext s s1 ∧
          (∀ k ∈ K, BlockOK s1 k) ∧ (∀ b ∈ cs, BlockOK s1 b)) →
        OKL (fun _ s' => s'.r = s.r ∧ s'.pc.opened = s.pc.opened ∧ NodesOK src s' ∧ KeysOK s' ∧ Ext s s' ∧
          ∀ k ∈ K, BlockOK s' k) (closeList cs s1) := by
      intro s1 h1
      obtain ⟨hr, hop, hn1, hk1, he1, hK1, hcs1⟩ := h1
      have := ih s1 (by rw [hr]; exact hsrc) hn1 hk1
        (fun b hb => ⟨hcs1 b hb, (hl b (by simp [hb])).2⟩)
        (fun b hb => hcs b (List.mem_of_mem_tail hb))
        (fun k hk' => ⟨hK1 k hk', fun top' ht => Compat.of_container (hcs top' (by
            cases cs with
            | nil => simp at ht
            | cons a as => simp at ht; subst ht; simp))⟩)
      refine OKL.mono this (fun _ s2 h2 => ?_)
      obtain ⟨a, b, c, d, e, f⟩ := h2
      exact ⟨by rw [a, hr], by rw [b, hop], c, d, he1.trans e, f⟩
    by_cases hp : (s.nodes.getD top.node default).parent.isSome = true
    · rw [if_pos hp]
      have hc := sp.close top.bp (hl top (by simp)).2 top.node s hsrc hn hk (hl top (by simp)).1
      refine OKL.bind hc (fun _ s1 h1 => rest s1 ?_)
      have hks : KeysOK s1 := hk.ext h1.ext
        (by rcases h1.tmp with h | h; exact .inl h; exact .inr h.2)
        (by rcases h1.fence with h | h; exact .inl h; exact .inr h.2.1)
      refine ⟨h1.r, h1.opened, h1.nodes, hks, h1.ext, ?_, ?_⟩
      · intro k hk'
        obtain ⟨kok, kc⟩ := hK k hk'
        have kc := kc top rfl
        refine kok.ext h1.ext ?_ ?_
        · intro hse
          rcases h1.tmp with h | h
          · rw [h]; exact (kok.setext hse).2
          · exact absurd h.1 (kc.1 hse)
        · intro hfe
          rcases h1.fence with h | h
          · rw [h]; exact kok.fenced hfe
          · obtain ⟨h1', _, f, hf, hfn⟩ := h
            exact absurd hfn (kc.2 hfe h1' f hf)
      · intro b hb
        exact (hl b (by simp [hb])).1.ext_container h1.ext (hcs b hb)
    · rw [if_neg hp]
      exact rest s ⟨rfl, rfl, hn, hk, Ext.refl s, fun k hk' => (hK k hk').1, fun b hb => (hl b (by simp [hb])).1⟩

/-- `closeBlocks(from, to)` on `openedBlocks = pre ++ mid ++ post` with `to = |pre|`, `from = |pre| + |mid| - 1`: the blocks
    of `mid` are closed (last first), `pre ++ post` stays -/
theorem closeBlocks_okl (pre mid post : List Block) (s : St) (hop : s.pc.opened = pre ++ mid ++ post)
    (hsrc : s.r.source = src) (hn : NodesOK src s) (hk : KeysOK s)
    (hmid : ∀ b ∈ mid, BlockOK s b ∧ A b.bp) (hleafy : Leafy mid)
    (hK : ∀ k ∈ pre ++ post, BlockOK s k ∧ ∀ top, mid.getLast? = some top → Compat s k top) :
    OKL (fun _ s' => s'.r = s.r ∧ s'.pc.opened = pre ++ post ∧ NodesOK src s' ∧ KeysOK s' ∧ Ext s s' ∧
        ∀ k ∈ pre ++ post, BlockOK s' k)
      (closeBlocks ((pre.length : Int) + (mid.length : Int) - 1) (pre.length : Int) s) := by
  unfold closeBlocks
  refine OKL.bind (m := getPc) (P := fun pc s1 => pc = s.pc ∧ s1 = s) (OKL.ok ⟨rfl, rfl⟩) (fun pc s0 h0 => ?_)
  obtain ⟨h0, h0'⟩ := h0
  subst pc s0
  have hcnt : ((pre.length : Int) + (mid.length : Int) - 1 - (pre.length : Int) + 1).toNat = mid.length := by omega
  rw [hcnt, hop, closeLoop_eq (pre ++ mid ++ post) pre.length mid.length (by simp)]
  have hdt : ((pre ++ mid ++ post).drop pre.length).take mid.length = mid := by
    rw [List.append_assoc, List.drop_left, List.take_left]
  rw [hdt]
  have hcl := closeList_okl sp (pre ++ post) mid.reverse s hsrc hn hk
    (fun b hb => hmid b (by simpa using hb))
    (fun b hb => hleafy b (by
      have : mid.reverse.tail = mid.dropLast.reverse := by
        rw [List.tail_reverse]
      rw [this] at hb; simpa using hb))
    (fun k hk' => ⟨(hK k hk').1, fun top ht => (hK k hk').2 top (by
      rw [List.head?_reverse] at ht; exact ht)⟩)
  refine OKL.bind hcl (fun _ s1 h1 => ?_)
  obtain ⟨hr, hop1, hn1, hk1, he1, hK1⟩ := h1
  have hpre : closeBlocks.slice' (pre ++ mid ++ post) 0 (pre.length : Int) = .ok pre := by
    unfold closeBlocks.slice'
    rw [if_pos ⟨by omega, by omega, by simp; omega⟩]
    simp
  have hpost : closeBlocks.slice' (pre ++ mid ++ post) ((pre.length : Int) + (mid.length : Int) - 1 + 1)
      ((pre ++ mid ++ post).length : Int) = .ok post := by
    unfold closeBlocks.slice'
    rw [if_pos ⟨by omega, by simp; omega, by omega⟩]
    have e1 : ((pre.length : Int) + (mid.length : Int) - 1 + 1).toNat = pre.length + mid.length := by omega
    have e2 : (((pre ++ mid ++ post).length : Int) - ((pre.length : Int) + (mid.length : Int) - 1 + 1)).toNat = post.length := by
      simp; omega
    rw [e1, e2]
    have : (pre ++ mid ++ post).drop (pre.length + mid.length) = post := by
      rw [← List.length_append, List.drop_left]
    rw [this]; simp
  by_cases hfl : ((pre.length : Int) + (mid.length : Int) - 1 == ((pre ++ mid ++ post).length : Int) - 1) = true
  · rw [if_pos hfl]
    have hpe : post = [] := by
      have : (pre.length : Int) + (mid.length : Int) - 1 = ((pre ++ mid ++ post).length : Int) - 1 := by simpa using hfl
      simp at this
      cases post with
      | nil => rfl
      | cons a as => simp at this; omega
    subst hpe
    simp only [bind, StateT.bind, liftE, hpre, Except.map, Except.bind, modPc, pure, StateT.pure, Except.pure]
    refine OKL.ok ⟨hr, by simp, hn1, ⟨hk1.tmp, hk1.fence⟩, ⟨he1.len, he1.kind, he1.linesNE⟩, ?_⟩
    intro k hk'
    have := hK1 k hk'
    exact ⟨this.lt, this.kind, this.para, this.setext, this.fenced⟩
  · rw [if_neg hfl]
    simp only [bind, StateT.bind, liftE, hpre, hpost, Except.map, Except.bind, modPc, pure, StateT.pure, Except.pure]
    refine OKL.ok ⟨hr, rfl, hn1, ⟨hk1.tmp, hk1.fence⟩, ⟨he1.len, he1.kind, he1.linesNE⟩, ?_⟩
    intro k hk'
    have := hK1 k hk'
    exact ⟨this.lt, this.kind, this.para, this.setext, this.fenced⟩

end close

/-! ### tryParsers -/

/-- the invariant of one `openBlocks` call: `old` = `openedBlocks` at its start (state `s0`), `new` = the blocks it has
    appended so far -/
structure Win (src : Bytes) (A : BP → Prop) (old : List Block) (s0 s : St) (new : List Block) : Prop where
  nodes : NodesOK src s
  keys : KeysOK s
  ext : Ext s0 s
  shape : s.pc.opened = old ++ new ∨ (old ≠ [] ∧ new ≠ [] ∧ s.pc.opened = old.dropLast ++ new)
  blocks : ∀ b ∈ s.pc.opened, BlockOK s b ∧ A b.bp
  oldlt : ∀ b ∈ old, b.node < s0.nodes.length
  leafyOld : Leafy old
  fresh : ∀ b ∈ new, s0.nodes.length ≤ b.node
  lastParent : ∀ lb, new.getLast? = some lb → (nd s lb.node).parent.isSome = true

theorem Compat.of_container_left {s : St} {k c : Block} (h : k.bp.isContainer = true) : Compat s k c :=
  ⟨fun hk => absurd hk (container_kind h).2.1, fun hk => absurd hk (container_kind h).2.2.1⟩

/-- what `tryParsers` hands back -/
def TPPost (src : Bytes) (A : BP → Prop) (old : List Block) (s0 : St) (c : RCur)
    (x : TryOutcome × OpenResult × Option Block) (s' : St) : Prop :=
  ∃ c' new', RI src s'.r c' ∧ PadOK c' ∧ c.p ≤ c'.p ∧ Win src A old s0 s' new' ∧
    ((x.2.1 = .noBlocksOpened ∧ new' = [] ∧ x.2.2 = old.getLast?) ∨ (x.2.1 = .newBlocksOpened ∧ new' ≠ [])) ∧
    (∀ k ∈ new', ∀ b ∈ old, Compat s' k b) ∧
    match x.1 with
    | .retry _ => (∀ b ∈ new', b.bp.isContainer = true) ∧ c.p < c'.p
    | .done => Leafy new'

theorem leafy_of_all {l : List Block} (h : ∀ b ∈ l, b.bp.isContainer = true) : Leafy l :=
  fun b hb => h b (List.dropLast_subset l hb)

theorem leafy_snoc {l : List Block} (h : ∀ b ∈ l, b.bp.isContainer = true) (x : Block) : Leafy (l ++ [x]) := by
  intro b hb; rw [List.dropLast_concat] at hb; exact h b hb

/-- the facts about the freshly built block `⟨id, bp⟩` and the current stack that the tail of a successful
    attempt (`AppendChild`, push) needs -/
structure Mid (src : Bytes) (A : BP → Prop) (old : List Block) (s0 : St) (id : Nat) (bp : BP) (s : St)
    (new : List Block) : Prop where
  nodes : NodesOK src s
  keys : KeysOK s
  ext : Ext s0 s
  shape : s.pc.opened = old ++ new ∨ (old ≠ [] ∧ s.pc.opened = old.dropLast ++ new)
  blocks : ∀ b ∈ s.pc.opened, BlockOK s b ∧ A b.bp
  nb : BlockOK s ⟨id, bp⟩
  abp : A bp
  idge : s0.nodes.length ≤ id
  fenceNew : bp = .fenced → ∃ f, s.pc.fence = some f ∧ f.node = id
  setextOld : bp = .setext → ∀ b ∈ old, b.bp ≠ .setext

theorem eq_dropLast_append_of_getLast? {α} (l : List α) (x : α) (h : l.getLast? = some x) : l = l.dropLast ++ [x] := by
  induction l with
  | nil => cases h
  | cons a t ih =>
    cases t with
    | nil => simp at h; subst h; rfl
    | cons b t' =>
      have : (b :: t').getLast? = some x := by simpa [List.getLast?_cons_cons] using h
      rw [List.dropLast_cons_cons, List.cons_append, ← ih this]

theorem mem_dropLast_or_last {α} (l : List α) (b : α) (h : b ∈ l) : b ∈ l.dropLast ∨ l.getLast? = some b := by
  cases hl : l.getLast? with
  | none => rw [List.getLast?_eq_none_iff] at hl; subst hl; cases h
  | some a =>
    have e := eq_dropLast_append_of_getLast? l a hl
    rw [e] at h
    rcases List.mem_append.1 h with h | h
    · exact .inl h
    · simp only [List.mem_singleton] at h; subst h; exact .inr rfl

theorem Mid.frame {src A old s0 id bp s s' new} (h : Mid src A old s0 id bp s new) (hf : FrameEq s s') :
    Mid src A old s0 id bp s' new where
  nodes := hf.nodesOK h.nodes
  keys := hf.keys h.keys
  ext := h.ext.trans hf.ext
  shape := by rw [hf.pc]; exact h.shape
  blocks := fun b hb => by rw [hf.pc] at hb; exact ⟨hf.blockOK (h.blocks b hb).1, (h.blocks b hb).2⟩
  nb := hf.blockOK h.nb
  abp := h.abp
  idge := h.idge
  fenceNew := fun hp => by rw [hf.pc]; exact h.fenceNew hp
  setextOld := h.setextOld

/-- popping the last opened block (nothing else changes) -/
theorem Mid.pop {src A old s0 id bp s} (h : Mid src A old s0 id bp s []) (hop : s.pc.opened = old) (hne : old ≠ []) :
    Mid src A old s0 id bp { s with pc := { s.pc with opened := old.dropLast } } [] where
  nodes := h.nodes
  keys := ⟨h.keys.tmp, h.keys.fence⟩
  ext := ⟨h.ext.len, h.ext.kind, h.ext.linesNE⟩
  shape := .inr ⟨hne, by simp⟩
  blocks := fun b hb => by
    have hb' : b ∈ s.pc.opened := by rw [hop]; exact List.dropLast_subset _ hb
    have := h.blocks b hb'
    exact ⟨⟨this.1.lt, this.1.kind, this.1.para, this.1.setext, this.1.fenced⟩, this.2⟩
  nb := ⟨h.nb.lt, h.nb.kind, h.nb.para, h.nb.setext, h.nb.fenced⟩
  abp := h.abp
  idge := h.idge
  fenceNew := h.fenceNew
  setextOld := h.setextOld

/-- `closeBlocks(last, last)` when the last opened block's node has no parent: the block is dropped, nothing is closed -/
theorem closeBlocks_last_skip (pre : List Block) (x : Block) (s : St) (hop : s.pc.opened = pre ++ [x])
    (hp : (nd s x.node).parent.isSome = false) :
    closeBlocks ((s.pc.opened.length : Int) - 1) ((s.pc.opened.length : Int) - 1) s =
      .ok ((), { s with pc := { s.pc with opened := pre } }) := by
  have hlen : ((s.pc.opened.length : Int) - 1) = (pre.length : Int) := by rw [hop]; simp
  rw [hlen]
  unfold closeBlocks
  simp only [bind, StateT.bind, getPc, pure, StateT.pure, Except.bind, Except.pure]
  have hcnt : ((pre.length : Int) - (pre.length : Int) + 1).toNat = 1 := by omega
  rw [hcnt, hop, closeLoop_eq (pre ++ [x]) pre.length 1 (by simp)]
  have hdt : ((pre ++ [x]).drop pre.length).take 1 = [x] := by simp
  rw [hdt]
  have hp' : (s.nodes.getD x.node default).parent.isSome = false := hp
  simp only [List.reverse_cons, List.reverse_nil, List.nil_append, closeList, bind, StateT.bind, getNode, pure, StateT.pure,
    Except.bind, Except.pure, hp', Bool.false_eq_true, if_false]
  have hfl : ((pre.length : Int) == ((pre ++ [x]).length : Int) - 1) = true := by simp
  rw [if_pos hfl]
  have hpre : closeBlocks.slice' (pre ++ [x]) 0 (pre.length : Int) = .ok pre := by
    unfold closeBlocks.slice'
    rw [if_pos ⟨by omega, by omega, by simp; omega⟩]
    simp
  rw [hpre]
  rfl

/-- an attempt that built nothing: nothing changed but the reader's caches -/
theorem open_none {src A old s0 bp parent s c st s1 new} (hO : OpenPost src bp parent s c (none, st) s1)
    (hc : LineCtx src s c) (hw : Win src A old s0 s new) :
    LineCtx src s1 c ∧ Win src A old s0 s1 new ∧ s1.pc.opened = s.pc.opened := by
  obtain ⟨c', hri, hpad, _, hcc, _⟩ := hO.ri
  have hcc := hcc rfl
  subst hcc
  have hn := hO.noNode rfl
  have htmp : s1.pc.tmpPara = s.pc.tmpPara := by
    rcases hO.tmp with ⟨_, h, _⟩ | ⟨_, h⟩
    · cases h
    · exact h
  have hfen : s1.pc.fence = s.pc.fence := by
    rcases hO.fence with ⟨_, _, _, h, _⟩ | ⟨_, h⟩
    · cases h
    · exact h
  have hext : Ext s s1 := Ext.of_nodes_eq hn
  have hnodes : NodesOK src s1 := fun n hm => hw.nodes n (by rw [← hn]; exact hm)
  refine ⟨⟨hri, hc.lt, hpad, by rw [hO.boff]; exact hc.off, hnodes⟩, ?_, hO.opened⟩
  refine ⟨hnodes, hw.keys.ext hext (.inl htmp) (.inl hfen), hw.ext.trans hext, by rw [hO.opened]; exact hw.shape, ?_,
    hw.oldlt, hw.leafyOld, hw.fresh, ?_⟩
  · intro b hb
    rw [hO.opened] at hb
    have := hw.blocks b hb
    exact ⟨this.1.ext hext (fun hp => by rw [htmp]; exact (this.1.setext hp).2) (fun hp => by rw [hfen]; exact this.1.fenced hp), this.2⟩
  · intro lb hlb
    have := hw.lastParent lb hlb
    simpa only [nd, hn] using this

/-- an attempt that built the node `id` -/
theorem open_some {src A old s0 bp parent s c st s1 new id} (hO : OpenPost src bp parent s c (some id, st) s1)
    (hw : Win src A old s0 s new) (hallc : ∀ b ∈ new, b.bp.isContainer = true) (habp : A bp) :
    Mid src A old s0 id bp s1 new ∧ id = s.nodes.length ∧ s1.pc.opened = s.pc.opened ∧
    (∀ j, j < s.nodes.length → nd s1 j = nd s j) ∧ (nd s1 id).parent = none ∧ s1.nodes.length = s.nodes.length + 1 ∧
    (st.requirePara = true → ∃ lb, s.pc.opened.getLast? = some lb ∧ (nd s lb.node).parent = some parent ∧
        lb.bp = .paragraph ∧ new = [] ∧ s.pc.opened = old) := by
  obtain ⟨hid, n, hn, hkind, hnok, hpar, hpl, hsl⟩ := hO.newNode id rfl
  have hext : Ext s s1 := Ext.of_append hn
  have hnd : ∀ j, j < s.nodes.length → nd s1 j = nd s j := fun j hj => nd_of_append_lt hn hj
  have hndid : nd s1 id = n := by
    rw [hid]; simp only [nd, hn]; exact getD_length_append _ _ _
  have hlen : s1.nodes.length = s.nodes.length + 1 := by rw [hn]; simp
  have hnodes : NodesOK src s1 := hw.nodes.of_append hn hnok
  -- the last opened block, when the setext parser answered
  have hsetext : bp = .setext → ∃ lb, s.pc.opened.getLast? = some lb ∧ (nd s lb.node).kind = .paragraph ∧
      (nd s lb.node).parent = some parent ∧ s1.pc.tmpPara = some lb.node ∧ lb.bp = .paragraph ∧ new = [] ∧ s.pc.opened = old := by
    intro hbp
    rcases hO.tmp with ⟨_, _, lb, h1, h2, h3, h4⟩ | ⟨h, _⟩
    · have hmem : lb ∈ s.pc.opened := List.mem_of_getLast? h1
      have hk := (hw.blocks lb hmem).1.kind
      rw [h2] at hk
      have hlbp := kind_paragraph hk.symm
      have hnew : new = [] := by
        cases hne : new.getLast? with
        | none => exact List.getLast?_eq_none_iff.1 hne
        | some x =>
          exfalso
          have hx : x ∈ new := List.mem_of_getLast? hne
          have : s.pc.opened.getLast? = some x := by
            rcases hw.shape with h | ⟨_, _, h⟩ <;> rw [h, List.getLast?_append, hne] <;> rfl
          rw [h1] at this; cases this
          have := hallc lb hx
          rw [hlbp] at this; cases this
      have hop : s.pc.opened = old := by
        rcases hw.shape with h | ⟨_, h, _⟩
        · rw [h, hnew, List.append_nil]
        · exact absurd hnew h
      exact ⟨lb, h1, h2, h3, h4, hlbp, hnew, hop⟩
    · rcases h with h | h
      · exact absurd hbp h
      · cases h
  have htmpS : bp = .setext → s1.pc.tmpPara.isSome = true := fun hbp => by
    obtain ⟨lb, _, _, _, h4, _⟩ := hsetext hbp; rw [h4]; rfl
  have htmpO : bp ≠ .setext → s1.pc.tmpPara = s.pc.tmpPara := fun hbp => by
    rcases hO.tmp with ⟨h, _⟩ | ⟨_, h⟩
    · exact absurd h hbp
    · exact h
  have hfenS : bp = .fenced → ∃ f, s1.pc.fence = some f ∧ f.node = id ∧ 3 ≤ f.length ∧ 0 ≤ f.indent := fun hbp => by
    rcases hO.fence with ⟨_, id', f, h1, h2, h3, h4⟩ | ⟨h, _⟩
    · cases h1; exact ⟨f, h2, h3, h4⟩
    · rcases h with h | h
      · exact absurd hbp h
      · cases h
  have hfenO : bp ≠ .fenced → s1.pc.fence = s.pc.fence := fun hbp => by
    rcases hO.fence with ⟨h, _⟩ | ⟨_, h⟩
    · exact absurd h hbp
    · exact h
  have hkeys : KeysOK s1 := by
    constructor
    · intro t ht
      by_cases hbp : bp = .setext
      · obtain ⟨lb, h1, h2, _, h4, h5, _⟩ := hsetext hbp
        rw [h4] at ht; cases ht
        have hmem : lb ∈ s.pc.opened := List.mem_of_getLast? h1
        have hb := (hw.blocks lb hmem).1
        exact ⟨by rw [hlen]; exact Nat.lt_succ_of_lt hb.lt, by rw [hnd _ hb.lt]; exact h2, by rw [hnd _ hb.lt]; exact hb.para h5⟩
      · rw [htmpO hbp] at ht
        obtain ⟨a, b, c⟩ := hw.keys.tmp t ht
        exact ⟨by rw [hlen]; exact Nat.lt_succ_of_lt a, by rw [hnd _ a]; exact b, by rw [hnd _ a]; exact c⟩
    · intro f hf
      by_cases hbp : bp = .fenced
      · obtain ⟨f', h1, h2, h3, h4⟩ := hfenS hbp
        rw [h1] at hf; cases hf
        exact ⟨h3, h4, by rw [h2, hlen, hid]; exact Nat.lt_succ_self _⟩
      · rw [hfenO hbp] at hf
        obtain ⟨a, b, c⟩ := hw.keys.fence f hf
        exact ⟨a, b, by rw [hlen]; exact Nat.lt_succ_of_lt c⟩
  have hblocks : ∀ b ∈ s1.pc.opened, BlockOK s1 b ∧ A b.bp := by
    intro b hb
    rw [hO.opened] at hb
    have := hw.blocks b hb
    refine ⟨this.1.ext hext ?_ ?_, this.2⟩
    · intro hp
      by_cases hbp : bp = .setext
      · exact htmpS hbp
      · rw [htmpO hbp]; exact (this.1.setext hp).2
    · intro hp
      by_cases hbp : bp = .fenced
      · obtain ⟨f, h1, _⟩ := hfenS hbp; rw [h1]; rfl
      · rw [hfenO hbp]; exact this.1.fenced hp
  have hnb : BlockOK s1 ⟨id, bp⟩ := by
    refine ⟨by simp only; rw [hlen, hid]; exact Nat.lt_succ_self _, by simp only; rw [hndid]; exact hkind, ?_, ?_, ?_⟩
    · intro hp; simp only at hp ⊢; rw [hndid]; exact hpl hp
    · intro hp; simp only at hp ⊢; rw [hndid]; exact ⟨hsl hp, htmpS hp⟩
    · intro hp; simp only at hp ⊢; obtain ⟨f, h1, _⟩ := hfenS hp; rw [h1]; rfl
  refine ⟨⟨hnodes, hkeys, hw.ext.trans hext, ?_, hblocks, hnb, habp, ?_, ?_, ?_⟩, hid, hO.opened, hnd, by rw [hndid]; exact hpar, hlen, ?_⟩
  · rw [hO.opened]
    rcases hw.shape with h | ⟨h1, _, h2⟩
    · exact .inl h
    · exact .inr ⟨h1, h2⟩
  · rw [hid]; exact hw.ext.len
  · intro hp; obtain ⟨f, h1, h2, _⟩ := hfenS hp; exact ⟨f, h1, h2⟩
  · intro hp b hb
    obtain ⟨lb, h1, _, _, _, h5, _, h7⟩ := hsetext hp
    rcases mem_dropLast_or_last old b hb with h | h
    · intro hh; have := hw.leafyOld b h; rw [hh] at this; cases this
    · rw [h7] at h1; rw [h1] at h; cases h; rw [h5]; simp
  · intro hr
    obtain ⟨hbp, _⟩ := hO.req hr
    obtain ⟨lb, h1, _, h3, _, h5, h6, h7⟩ := hsetext hbp
    exact ⟨lb, h1, h3, h5, h6, h7⟩

section tp
variable {src : Bytes} {A : BP → Prop} (sp : Specs src A)
include sp

omit sp in
/-- the tail of a successful attempt: `parent.AppendChild(node)`, push onto `openedBlocks` -/
theorem tryTail_okl {old : List Block} {s0 : St} {c c' : RCur} (parent id : Nat) (bp : BP) (st : PState)
    (lb0 : Option Block) (s : St) (new : List Block) (hm : Mid src A old s0 id bp s new)
    (hw0 : ∀ b ∈ old, b.node < s0.nodes.length) (hleafy : Leafy old) (hfresh : ∀ b ∈ new, s0.nodes.length ≤ b.node)
    (hallc : ∀ b ∈ new, b.bp.isContainer = true)
    (hri : RI src s.r c') (hpad : PadOK c') (hle : c.p ≤ c'.p) (hprog : st.hasChildren = true → c.p < c'.p)
    (hkids : st.hasChildren = true → bp.isContainer = true) :
    OKL (TPPost src A old s0 c)
      ((do
        appendChild parent id
        modPc fun pc => { pc with opened := pc.opened ++ [{ node := id, bp := bp }] }
        if st.hasChildren then return (TryOutcome.retry id, OpenResult.newBlocksOpened, lb0)
        return (TryOutcome.done, OpenResult.newBlocksOpened, lb0) : M _) s) := by
  obtain ⟨s1, e1, hf, hpar⟩ := appendChild_okl parent id s
  simp only [bind, StateT.bind, e1, Except.bind, modPc, pure, StateT.pure, Except.pure]
  -- the final state
  generalize hs2 : ({ r := s1.r, nodes := s1.nodes, pc := { s1.pc with opened := s1.pc.opened ++ [{ node := id, bp := bp }] } } : St) = s2
  have hr2 : s2.r = s.r := by rw [← hs2]; exact hf.r
  have hn2 : s2.nodes = s1.nodes := by rw [← hs2]
  have hop2 : s2.pc.opened = s.pc.opened ++ [{ node := id, bp := bp }] := by rw [← hs2]; simp only; rw [hf.pc]
  have htmp2 : s2.pc.tmpPara = s.pc.tmpPara := by rw [← hs2]; simp only; rw [hf.pc]
  have hfen2 : s2.pc.fence = s.pc.fence := by rw [← hs2]; simp only; rw [hf.pc]
  have hnd2 : ∀ j, nd s2 j = nd s1 j := fun j => by simp only [nd, hn2]
  have hext : Ext s s2 := by
    have := hf.ext
    exact ⟨by rw [hn2]; exact this.len, fun j hj => by rw [hnd2]; exact this.kind j hj,
      fun j hj hk hl => by rw [hnd2]; exact this.linesNE j hj hk hl⟩
  have hnodes2 : NodesOK src s2 := by
    have := hf.nodesOK hm.nodes
    intro n hn; rw [hn2] at hn; exact this n hn
  have hkeys2 : KeysOK s2 := hm.keys.ext hext (.inl htmp2) (.inl hfen2)
  have hbok : ∀ b, BlockOK s b → BlockOK s2 b := fun b hb =>
    hb.ext hext (fun hp => by rw [htmp2]; exact (hb.setext hp).2) (fun hp => by rw [hfen2]; exact hb.fenced hp)
  have hwin : Win src A old s0 s2 (new ++ [{ node := id, bp := bp }]) := by
    refine ⟨hnodes2, hkeys2, hm.ext.trans hext, ?_, ?_, hw0, hleafy, ?_, ?_⟩
    · rcases hm.shape with h | ⟨h1, h2⟩
      · exact .inl (by rw [hop2, h, List.append_assoc])
      · exact .inr ⟨h1, by simp, by rw [hop2, h2, List.append_assoc]⟩
    · intro b hb
      rw [hop2] at hb
      rcases List.mem_append.1 hb with hb | hb
      · exact ⟨hbok b (hm.blocks b hb).1, (hm.blocks b hb).2⟩
      · simp only [List.mem_singleton] at hb; subst hb; exact ⟨hbok _ hm.nb, hm.abp⟩
    · intro b hb
      rcases List.mem_append.1 hb with hb | hb
      · exact hfresh b hb
      · simp only [List.mem_singleton] at hb; subst hb; exact hm.idge
    · intro lb hlb
      rw [List.getLast?_concat] at hlb
      cases hlb
      simp only
      rw [hnd2, hpar hm.nb.lt]; rfl
  have hcompat : ∀ k ∈ new ++ [{ node := id, bp := bp }], ∀ b ∈ old, Compat s2 k b := by
    intro k hk b hb
    rcases List.mem_append.1 hk with hk | hk
    · exact Compat.of_container_left (hallc k hk)
    · simp only [List.mem_singleton] at hk; subst hk
      refine ⟨fun hse => hm.setextOld hse b hb, fun hfe _ f hf2 => ?_⟩
      obtain ⟨f', hf', hfn⟩ := hm.fenceNew hfe
      rw [hfen2, hf'] at hf2
      cases hf2
      have := hw0 b hb
      have := hm.idge
      omega
  have hne : new ++ [({ node := id, bp := bp } : Block)] ≠ [] := by simp
  by_cases hc : st.hasChildren = true
  · rw [if_pos hc]
    refine OKL.ok ⟨c', _, by rw [hr2]; exact hri, hpad, hle, hwin, .inr ⟨rfl, hne⟩, hcompat, ?_, hprog hc⟩
    intro b hb
    rcases List.mem_append.1 hb with hb | hb
    · exact hallc b hb
    · simp only [List.mem_singleton] at hb; subst hb; exact hkids hc
  · rw [if_neg hc]
    exact OKL.ok ⟨c', _, by rw [hr2]; exact hri, hpad, hle, hwin, .inr ⟨rfl, hne⟩, hcompat, leafy_snoc hallc _⟩

theorem tryParsers_okl {old : List Block} {s0 : St} (parent : Nat) (blank cont : Bool) (w : Int) :
    ∀ (bps : List BP), (∀ bp ∈ bps, A bp) → ∀ (result : OpenResult) (lastBlock : Option Block) (s : St) (c : RCur)
      (new : List Block), LineCtx src s c → Win src A old s0 s new → (∀ b ∈ new, b.bp.isContainer = true) →
      ((result = .noBlocksOpened ∧ new = [] ∧ lastBlock = old.getLast?) ∨ (result = .newBlocksOpened ∧ new ≠ [])) →
      OKL (TPPost src A old s0 c) (tryParsers parent blank cont w bps result lastBlock s) := by
  intro bps
  induction bps with
  | nil =>
    intro _ result lastBlock s c new hc hw hallc hres
    unfold tryParsers
    exact OKL.ok ⟨c, new, hc.ri, hc.pad, Nat.le_refl _, hw, hres, fun k hk b _ => Compat.of_container_left (hallc k hk),
      leafy_of_all hallc⟩
  | cons bp bps ih =>
    intro hA result lastBlock s c new hc hw hallc hres
    have ih' := ih (fun b hb => hA b (List.mem_cons_of_mem _ hb))
    unfold tryParsers
    simp only []
    by_cases hs1 : (cont && result == OpenResult.noBlocksOpened && !bp.canInterruptParagraph) = true
    · rw [if_pos hs1]; exact ih' result lastBlock s c new hc hw hallc hres
    rw [if_neg hs1]
    by_cases hs2 : (decide (w > 3) && !bp.canAcceptIndentedLine) = true
    · rw [if_pos hs2]; exact ih' result lastBlock s c new hc hw hallc hres
    rw [if_neg hs2]
    refine OKL.bind (m := lastOpenedBlock) (P := fun lb s1 => lb = s.pc.opened.getLast? ∧ s1 = s) (OKL.ok ⟨rfl, rfl⟩)
      (fun lb0 sx hlb => ?_)
    obtain ⟨hlb0, hsx⟩ := hlb
    subst sx
    have habp : A bp := hA bp (List.mem_cons_self ..)
    refine OKL.bind (sp.opn bp habp parent s c hc) (fun x s1 hO => ?_)
    obtain ⟨nodeopt, st⟩ := x
    -- the value of `lastBlock` while nothing is opened
    have hlbold : result = .noBlocksOpened → lb0 = old.getLast? := by
      intro hr
      rcases hres with ⟨_, hn, _⟩ | ⟨h, _⟩
      · rcases hw.shape with h | ⟨_, h, _⟩
        · rw [hlb0, h, hn, List.append_nil]
        · exact absurd hn h
      · rw [hr] at h; cases h
    cases nodeopt with
    | none =>
      simp only []
      obtain ⟨hc1, hw1, _⟩ := open_none hO hc hw
      refine ih' result lb0 s1 c new hc1 hw1 hallc ?_
      rcases hres with ⟨h1, h2, _⟩ | h
      · exact .inl ⟨h1, h2, hlbold h1⟩
      · exact .inr h
    | some id =>
      simp only []
      obtain ⟨hm1, hid, hop1, hnd1, hpar1, hlen1, hreq⟩ := open_some hO hw hallc habp
      obtain ⟨c', hri, hpad, hle, _, hprog⟩ := hO.ri
      have hkids : st.hasChildren = true → bp.isContainer = true := fun h => (hO.kids h).1
      -- the tail: AppendChild, push
      have tail : ∀ (sX : St) (newX : List Block), Mid src A old s0 id bp sX newX → sX.r = s1.r →
          (∀ b ∈ newX, s0.nodes.length ≤ b.node) → (∀ b ∈ newX, b.bp.isContainer = true) →
          OKL (TPPost src A old s0 c)
            ((do
              appendChild parent id
              modPc fun pc => { pc with opened := pc.opened ++ [{ node := id, bp := bp }] }
              if st.hasChildren then return (TryOutcome.retry id, OpenResult.newBlocksOpened, lb0)
              return (TryOutcome.done, OpenResult.newBlocksOpened, lb0) : M _) sX) := by
        intro sX newX hmX hrX hfX haX
        exact tryTail_okl parent id bp st lb0 sX newX hmX hw.oldlt hw.leafyOld hfX haX (by rw [hrX]; exact hri) hpad hle
          hprog hkids
      -- the middle: blank flag, the `last.Parent() == nil` test; `K` = the tail
      have mid : ∀ (K : M (TryOutcome × OpenResult × Option Block)),
          (∀ (sX : St) (newX : List Block), Mid src A old s0 id bp sX newX → sX.r = s1.r →
            (∀ b ∈ newX, s0.nodes.length ≤ b.node) → (∀ b ∈ newX, b.bp.isContainer = true) →
            OKL (TPPost src A old s0 c) (K sX)) →
          ∀ (sX : St), Mid src A old s0 id bp sX new → sX.r = s1.r →
          (∀ lb, lb0 = some lb → (nd sX lb.node).parent.isSome = true ∨
              (new = [] ∧ sX.pc.opened = old ∧ old.getLast? = some lb)) →
          OKL (TPPost src A old s0 c)
            ((modNode id (fun n => { n with blankPrev := blank }) >>= fun _ =>
              match Option.map (fun x => x.node) lb0 with
              | some l => getNode l >>= fun n =>
                  if n.parent.isNone = true then
                    getPc >>= fun pc =>
                      closeBlocks ((pc.opened.length : Int) - 1) ((pc.opened.length : Int) - 1) >>= fun _ => K
                  else K
              | none => K) sX) := by
        intro K hK sX hmX hrX hcase
        have hfr : FrameEq sX (upd sX id fun n => { n with blankPrev := blank }) :=
          upd_frame sX id (f := fun n => { n with blankPrev := blank }) (fun n => ⟨rfl, rfl, rfl⟩)
        have hm3 := hmX.frame hfr
        have hpar3 : ∀ j, (nd (upd sX id fun n => { n with blankPrev := blank }) j).parent = (nd sX j).parent := by
          intro j; rw [nd_upd]; split
          · rename_i h; obtain ⟨rfl, _⟩ := h; rfl
          · rfl
        refine OKL.bind (m := modNode id fun n => { n with blankPrev := blank })
          (P := fun _ s3 => s3 = upd sX id fun n => { n with blankPrev := blank }) (OKL.ok rfl) (fun _ s3 h3 => ?_)
        subst h3
        cases hl : lb0 with
        | none => exact hK _ new hm3 (by rw [hfr.r, hrX]) hw.fresh hallc
        | some lb =>
          simp only [Option.map]
          refine OKL.bind (m := getNode lb.node)
            (P := fun n s4 => n = nd (upd sX id fun n => { n with blankPrev := blank }) lb.node ∧
              s4 = upd sX id fun n => { n with blankPrev := blank }) (OKL.ok ⟨rfl, rfl⟩) (fun n s4 h4 => ?_)
          obtain ⟨h4n, h4s⟩ := h4
          subst h4n h4s
          by_cases hnn : (nd (upd sX id fun n => { n with blankPrev := blank }) lb.node).parent.isNone = true
          · rw [if_pos hnn]
            rcases hcase lb hl with hsome | ⟨hnew, hopX, hlast⟩
            · exfalso
              rw [hpar3] at hnn
              cases hh : (nd sX lb.node).parent with
              | none => rw [hh] at hsome; cases hsome
              | some _ => rw [hh] at hnn; cases hnn
            · refine OKL.bind (m := getPc)
                (P := fun pc s5 => pc = (upd sX id fun n => { n with blankPrev := blank }).pc ∧
                  s5 = upd sX id fun n => { n with blankPrev := blank }) (OKL.ok ⟨rfl, rfl⟩) (fun pc s5 h5 => ?_)
              obtain ⟨h5p, h5s⟩ := h5
              subst h5p h5s
              have hop3 : (upd sX id fun n => { n with blankPrev := blank }).pc.opened = old.dropLast ++ [lb] := by
                rw [hfr.pc, hopX]; exact eq_dropLast_append_of_getLast? old lb hlast
              have hp3 : (nd (upd sX id fun n => { n with blankPrev := blank }) lb.node).parent.isSome = false := by
                cases hh : (nd (upd sX id fun n => { n with blankPrev := blank }) lb.node).parent with
                | none => rfl
                | some _ => rw [hh] at hnn; cases hnn
              subst hnew
              have hne : old ≠ [] := by intro h; rw [h] at hlast; cases hlast
              have hm4 := hm3.pop (by rw [hfr.pc, hopX]) hne
              refine OKL.bind (P := fun _ s6 => s6 = { (upd sX id fun n => { n with blankPrev := blank }) with
                  pc := { (upd sX id fun n => { n with blankPrev := blank }).pc with opened := old.dropLast } })
                (by rw [closeBlocks_last_skip old.dropLast lb _ hop3 hp3]; exact OKL.ok rfl) (fun _ s6 h6 => ?_)
              subst h6
              exact hK _ [] hm4 (by simp only; rw [hfr.r, hrX]) (fun _ h => by cases h) (fun _ h => by cases h)
          · rw [if_neg hnn]
            exact hK _ new hm3 (by rw [hfr.r, hrX]) hw.fresh hallc
      -- the `last` of the non-RequireParagraph path
      have hcase1 : ∀ lb, lb0 = some lb → (nd s1 lb.node).parent.isSome = true ∨
          (new = [] ∧ s1.pc.opened = old ∧ old.getLast? = some lb) := by
        intro lb hl
        by_cases hnew : new = []
        · right
          have hop : s.pc.opened = old := by
            rcases hw.shape with h | ⟨_, h, _⟩
            · rw [h, hnew, List.append_nil]
            · exact absurd hnew h
          exact ⟨hnew, by rw [hop1, hop], by rw [← hop, ← hlb0, hl]⟩
        · left
          have hlast : new.getLast? = some lb := by
            have : s.pc.opened.getLast? = new.getLast? := by
              cases hne : new.getLast? with
              | none => exact absurd (List.getLast?_eq_none_iff.1 hne) hnew
              | some x => rcases hw.shape with h | ⟨_, _, h⟩ <;> rw [h, List.getLast?_append, hne] <;> rfl
            rw [← this, ← hlb0, hl]
          have hmem : lb ∈ s.pc.opened := by
            rcases hw.shape with h | ⟨_, _, h⟩ <;> rw [h] <;> exact List.mem_append_right _ (List.mem_of_getLast? hlast)
          rw [hnd1 _ (hw.blocks lb hmem).1.lt]
          exact hw.lastParent lb hlast
      by_cases hrq : st.requirePara = true
      · rw [if_pos hrq]
        obtain ⟨lb, hlb1, hlbpar, hlbbp, hnew, hopold⟩ := hreq hrq
        have hl : lb0 = some lb := by rw [hlb0, hlb1]
        have hmem : lb ∈ s.pc.opened := List.mem_of_getLast? hlb1
        have hlblt := (hw.blocks lb hmem).1.lt
        have hpar1' : (nd s1 lb.node).parent = some parent := by rw [hnd1 _ hlblt]; exact hlbpar
        refine OKL.bind (m := getNode parent) (P := fun pn sy => pn = nd s1 parent ∧ sy = s1) (OKL.ok ⟨rfl, rfl⟩)
          (fun pn sy hy => ?_)
        obtain ⟨hpn, hsy⟩ := hy
        subst pn sy
        by_cases heq : (Option.map (fun x => x.node) lb0 == (nd s1 parent).children.getLast?) = true
        · rw [if_pos heq]
          subst hl
          simp only []
          -- lastBlock.Parser.Close
          have hmem1 : lb ∈ s1.pc.opened := by rw [hop1]; exact hmem
          have hcl := sp.close lb.bp (hm1.blocks lb hmem1).2 lb.node s1 hri.source hm1.nodes hm1.keys (hm1.blocks lb hmem1).1
          refine OKL.bind hcl (fun _ s2 h2 => ?_)
          have htmp2 : s2.pc.tmpPara = s1.pc.tmpPara := by
            rcases h2.tmp with h | ⟨h, _⟩
            · exact h
            · rw [hlbbp] at h; cases h
          have hfen2 : s2.pc.fence = s1.pc.fence := by
            rcases h2.fence with h | ⟨h, _⟩
            · exact h
            · rw [hlbbp] at h; cases h
          have hbok2 : ∀ b, BlockOK s1 b → BlockOK s2 b := fun b hb =>
            hb.ext h2.ext (fun hp => by rw [htmp2]; exact (hb.setext hp).2) (fun hp => by rw [hfen2]; exact hb.fenced hp)
          have hm2 : Mid src A old s0 id bp s2 new :=
            ⟨h2.nodes, hm1.keys.ext h2.ext (.inl htmp2) (.inl hfen2), hm1.ext.trans h2.ext,
              by rw [h2.opened]; exact hm1.shape,
              fun b hb => by rw [h2.opened] at hb; exact ⟨hbok2 b (hm1.blocks b hb).1, (hm1.blocks b hb).2⟩,
              hbok2 _ hm1.nb, hm1.abp, hm1.idge, fun hp => by rw [hfen2]; exact hm1.fenceNew hp, hm1.setextOld⟩
          have hop2 : s2.pc.opened = old := by rw [h2.opened, hop1, hopold]
          have hne : old ≠ [] := by rw [← hopold]; intro h; rw [h] at hmem; cases hmem
          refine OKL.bind (m := getPc) (P := fun pc sy => pc = s2.pc ∧ sy = s2) (OKL.ok ⟨rfl, rfl⟩) (fun pc sy hy => ?_)
          obtain ⟨hpc, hsy⟩ := hy
          subst pc sy
          have hlen2 : (s2.pc.opened.length == 0) = false := by
            rw [hop2]; cases old with
            | nil => exact absurd rfl hne
            | cons _ _ => rfl
          rw [if_neg (by rw [hlen2]; simp)]
          refine OKL.bind (m := modPc _) (P := fun _ sy => sy = { s2 with pc := { s2.pc with opened := old.dropLast } })
            (OKL.ok (by rw [hop2])) (fun _ sy hy => ?_)
          subst hy
          refine OKL.bind (m := getNode lb.node)
            (P := fun n sy => n = nd s2 lb.node ∧ sy = { s2 with pc := { s2.pc with opened := old.dropLast } })
            (OKL.ok ⟨rfl, rfl⟩) (fun n sy hy => ?_)
          obtain ⟨hn, hsy⟩ := hy
          subst n sy
          have hkind2 : (nd s2 lb.node).kind = Kind.paragraph := by
            have h1 := (hm2.blocks lb (by rw [hop2, ← hopold]; exact hmem)).1.kind
            rw [h1, hlbbp]; rfl
          rw [if_neg (by rw [hkind2]; simp)]
          subst hnew
          have hm2' := (show Mid src A old s0 id bp s2 [] from hm2).pop hop2 hne
          refine mid _ tail _ hm2' (by simp only; rw [h2.r]) (fun lb' hl' => ?_)
          cases hl'
          left
          have := h2.para hlbbp
          simp only [nd] at this hpar1' ⊢
          rw [this, hpar1']; rfl
        · rw [if_neg heq]
          refine mid _ tail s1 hm1 rfl (fun lb' hl' => ?_)
          rw [hl] at hl'; cases hl'
          left; rw [hpar1']; rfl
      · rw [if_neg hrq]
        exact mid _ tail s1 hm1 rfl hcase1

/-- what `openBlocks` hands back: `new'` = the blocks it appended -/
def OBPost (src : Bytes) (A : BP → Prop) (old : List Block) (s0 : St) (c : RCur) (res : OpenResult) (s' : St) : Prop :=
  ∃ c' new', RIa src s'.r c' ∧ c.p ≤ c'.p ∧ Win src A old s0 s' new' ∧ Leafy new' ∧
    (∀ k ∈ new', ∀ b ∈ old, Compat s' k b) ∧ (res = .paragraphContinuation → new' = [])

theorem toContinuable_okl {old : List Block} {s0 : St} (cont : Bool) (result : OpenResult) (lastBlock : Option Block)
    (s : St) (c c0 : RCur) (new : List Block) (hri : RI src s.r c) (hpad : PadOK c) (hle : c0.p ≤ c.p)
    (hw : Win src A old s0 s new) (hleafy : Leafy new) (hcompat : ∀ k ∈ new, ∀ b ∈ old, Compat s k b)
    (hres : (result = .noBlocksOpened ∧ new = [] ∧ lastBlock = old.getLast?) ∨ (result = .newBlocksOpened ∧ new ≠ []))
    (hcont : cont = true → ∃ lb, old.getLast? = some lb ∧ lb.bp = .paragraph) :
    OKL (OBPost src A old s0 c0) (toContinuable cont result lastBlock s) := by
  unfold toContinuable
  have fin : OKL (OBPost src A old s0 c0) ((pure result : M OpenResult) s) := by
    refine OKL.ok ⟨c, new, hri.toRIa, hle, hw, hleafy, hcompat, fun h => ?_⟩
    rcases hres with ⟨h', _⟩ | ⟨h', _⟩ <;> rw [h'] at h <;> cases h
  by_cases hc : (result == OpenResult.noBlocksOpened && cont) = true
  · rw [if_pos hc]
    simp only [Bool.and_eq_true, beq_iff_eq] at hc
    obtain ⟨hr, hct⟩ := hc
    obtain ⟨lb, hlast, hbp⟩ := hcont hct
    rcases hres with ⟨_, hnew, hlb⟩ | ⟨h', _⟩
    · subst hnew
      rw [hlb, hlast]
      simp only []
      have hop : s.pc.opened = old := by
        rcases hw.shape with h | ⟨_, h, _⟩
        · rw [h, List.append_nil]
        · exact absurd rfl h
      have hmem : lb ∈ s.pc.opened := by rw [hop]; exact List.mem_of_getLast? hlast
      obtain ⟨lnode, lbp⟩ := lb
      simp only at hbp
      subst hbp
      have hpc := sp.paraCont (hw.blocks _ hmem).2 lnode s c hri hpad hw.nodes hw.keys (hw.blocks _ hmem).1
      refine OKL.bind (m := bpContinue .paragraph lnode) hpc (fun st s1 h1 => ?_)
      obtain ⟨c1, hria, _, hle1, _, _⟩ := h1.ria
      have hwin : Win src A old s0 s1 [] := by
        refine ⟨h1.nodes, hw.keys.ext h1.ext (.inl (by rw [h1.pc])) (.inl (by rw [h1.pc])), hw.ext.trans h1.ext,
          by rw [h1.pc]; exact hw.shape, ?_, hw.oldlt, hw.leafyOld, by simp, by intro lb h; simp at h⟩
        intro b hb
        rw [h1.pc] at hb
        have := hw.blocks b hb
        exact ⟨this.1.ext h1.ext (fun hp => by rw [h1.pc]; exact (this.1.setext hp).2)
          (fun hp => by rw [h1.pc]; exact this.1.fenced hp), this.2⟩
      have fin' : ∀ r : OpenResult, OKL (OBPost src A old s0 c0) ((pure r : M OpenResult) s1) := fun r =>
        OKL.ok ⟨c1, [], hria, Nat.le_trans hle hle1, hwin, by intro b hb; simp at hb, by simp, fun _ => rfl⟩
      by_cases hst : st.cont = true
      · rw [if_pos hst]; exact fin' _
      · rw [if_neg hst]; exact fin' _
    · rw [hr] at h'; cases h'
  · rw [if_neg hc]; exact fin

omit sp in
theorem Win.congr {old s0 s s' new} (h : Win src A old s0 s new) (hn : s'.nodes = s.nodes)
    (ho : s'.pc.opened = s.pc.opened) (ht : s'.pc.tmpPara = s.pc.tmpPara) (hf : s'.pc.fence = s.pc.fence) :
    Win src A old s0 s' new := by
  have hext : Ext s s' := Ext.of_nodes_eq hn
  refine ⟨fun n hm => h.nodes n (by rw [← hn]; exact hm), h.keys.ext hext (.inl ht) (.inl hf), h.ext.trans hext,
    by rw [ho]; exact h.shape, ?_, h.oldlt, h.leafyOld, h.fresh, ?_⟩
  · intro b hb
    rw [ho] at hb
    have := h.blocks b hb
    exact ⟨this.1.ext hext (fun hp => by rw [ht]; exact (this.1.setext hp).2) (fun hp => by rw [hf]; exact this.1.fenced hp), this.2⟩
  · intro lb hlb
    have := h.lastParent lb hlb
    simpa only [nd, hn] using this

omit sp in
theorem mem_view_src {c : RCur} {ch : UInt8} (h : ch ∈ (RCur.view src c).getD []) : ch ∈ src ∨ ch = 32 := by
  unfold RCur.view at h
  split at h
  · simp only [Option.getD_some, List.mem_append] at h
    rcases h with h | h
    · right; unfold spaces at h; exact (List.mem_replicate.1 h).2
    · left; unfold sub at h; exact List.mem_of_mem_drop (List.mem_of_mem_take h)
  · simp at h

theorem openBlocksLoop_okl {old : List Block} {s0 : St} {c0 : RCur}
    (hT : ∀ ch ∈ src, ∀ bps, triggered ch = some bps → ∀ bp ∈ bps, A bp) (hFree : ∀ bp ∈ freeParsers, A bp)
    (blank cont : Bool) (hcont : cont = true → ∃ lb, old.getLast? = some lb ∧ lb.bp = .paragraph) :
    ∀ (fuel parent : Nat) (result : OpenResult) (lb : Option Block) (s : St) (c : RCur) (new : List Block),
      RI src s.r c → PadOK c → c0.p ≤ c.p → Win src A old s0 s new → (∀ b ∈ new, b.bp.isContainer = true) →
      ((result = .noBlocksOpened ∧ new = [] ∧ lb = old.getLast?) ∨ (result = .newBlocksOpened ∧ new ≠ [])) →
      OKL (OBPost src A old s0 c0) (openBlocksLoop blank cont fuel parent result lb s) := by
  intro fuel
  induction fuel with
  | zero => intro _ _ _ _ _ _ _ _ _ _ _ _; exact .inr rfl
  | succ fuel ih =>
    intro parent result lb s c new hri hpad hle hw hallc hres
    have hcompat0 : ∀ (sX : St), ∀ k ∈ new, ∀ b ∈ old, Compat sX k b :=
      fun _ k hk _ _ => Compat.of_container_left (hallc k hk)
    unfold openBlocksLoop
    refine OKL.bind (peekLine_okl hri) (fun x s1 hx => ?_)
    obtain ⟨hx, r1, hs1, h1⟩ := hx
    subst hx hs1
    simp only
    refine OKL.bind (lineOffset_okl (s := { s with r := r1 }) h1) (fun lo s2 hlo => ?_)
    obtain ⟨_, r2, hs2, h2⟩ := hlo
    subst hs2
    generalize hline : (RCur.view src c).getD [] = line
    have hb := indentWidthI_bounds line lo
    generalize hpos : (indentWidthI line lo).2 = pos at hb
    generalize hwd : (indentWidthI line lo).1 = wd
    refine OKL.bind (m := modPc _)
      (P := fun _ s3 => s3.r = r2 ∧ s3.nodes = s.nodes ∧ s3.pc.opened = s.pc.opened ∧ s3.pc.tmpPara = s.pc.tmpPara ∧
        s3.pc.fence = s.pc.fence ∧ s3.pc.blockOffset = (if pos ≥ (line.length : Int) then -1 else pos))
      (OKL.ok ⟨rfl, rfl, by simp only; split <;> rfl, by simp only; split <;> rfl, by simp only; split <;> rfl,
        by simp only; split <;> rfl⟩) (fun _ s3 h3 => ?_)
    obtain ⟨h3r, h3n, h3o, h3t, h3f, h3b⟩ := h3
    have hri3 : RI src s3.r c := by rw [h3r]; exact h2
    have hw3 : Win src A old s0 s3 new := hw.congr h3n h3o h3t h3f
    have exit : ∀ (r : OpenResult) (l : Option Block),
        ((r = .noBlocksOpened ∧ new = [] ∧ l = old.getLast?) ∨ (r = .newBlocksOpened ∧ new ≠ [])) →
        OKL (OBPost src A old s0 c0) (toContinuable cont r l s3) := fun r l hr =>
      toContinuable_okl sp cont r l s3 c c0 new hri3 hpad hle hw3 (leafy_of_all hallc) (hcompat0 s3) hr hcont
    by_cases hnone : (RCur.view src c).isNone = true
    · rw [if_pos hnone]; exact exit _ _ hres
    rw [if_neg hnone]
    have hp : c.p < src.length := by
      rcases Nat.lt_or_ge c.p src.length with hp | hp
      · exact hp
      · rw [view_none src c (by omega)] at hnone; simp at hnone
    have hvl := view_length src c hp (view_eq src c hp)
    have hlen : 1 ≤ line.length := by rw [← hline, view_eq src c hp]; simp only [Option.getD_some]; omega
    obtain ⟨b0, hb0, _⟩ := idx_ok line 0 (by omega) (by omega)
    refine OKL.bind (liftE_okl (P := fun a s' => a = b0 ∧ s' = s3) hb0 ⟨rfl, rfl⟩) (fun a sy hy => ?_)
    obtain ⟨ha, hsy⟩ := hy
    subst a sy
    by_cases hnl : (b0 == 10) = true
    · rw [if_pos hnl]; exact exit _ _ hres
    rw [if_neg hnl]
    have hctx : LineCtx src s3 c := by
      refine ⟨hri3, hp, hpad, ?_, hw3.nodes⟩
      rw [h3b, hline]
      split
      · omega
      · omega
    -- the rest of the iteration, for the parser list `bps`
    have tail : ∀ bps : List BP, (∀ bp ∈ bps, A bp) → OKL (OBPost src A old s0 c0)
        ((get >>= fun sb =>
          tryParsers parent blank cont wd bps result lb >>= fun __x =>
          match __x.1 with
          | TryOutcome.retry parent' =>
            get >>= fun s1 =>
              if (!decide (retryMeasure s1 < retryMeasure sb)) = true then
                (throw Panic.pre : M PUnit) >>= fun _ => openBlocksLoop blank cont fuel parent' __x.2.1 __x.2.2
              else openBlocksLoop blank cont fuel parent' __x.2.1 __x.2.2
          | TryOutcome.done => toContinuable cont __x.2.1 __x.2.2) s3) := by
      intro bps hbps
      refine OKL.bind (m := get) (P := fun sb sy => sb = s3 ∧ sy = s3) (OKL.ok ⟨rfl, rfl⟩) (fun sb sy hy => ?_)
      obtain ⟨hsb, hsy⟩ := hy
      subst sb sy
      refine OKL.bind (tryParsers_okl sp parent blank cont wd bps hbps result lb s3 c new hctx hw3 hallc hres) (fun x s4 h4 => ?_)
      obtain ⟨outcome, res, lb'⟩ := x
      obtain ⟨c', new', hri4, hpad4, hle4, hw4, hres4, hcompat4, hout⟩ := h4
      cases outcome with
      | retry p' =>
        simp only at hout ⊢
        refine OKL.bind (m := get) (P := fun sb sy => sb = s4 ∧ sy = s4) (OKL.ok ⟨rfl, rfl⟩) (fun sb sy hy => ?_)
        obtain ⟨hsb, hsy⟩ := hy
        subst sb sy
        have hlt : retryMeasure s4 < retryMeasure s3 := by
          unfold retryMeasure
          rw [hri4.source, hri3.source, hri4.pos, hri3.pos]
          simp only [Int.toNat_natCast]
          have := hri4.inRange
          have := hout.2
          split <;> split <;> omega
        rw [if_neg (by simp [hlt])]
        exact ih p' res lb' s4 c' new' hri4 hpad4 (Nat.le_trans hle hle4) hw4 hout.1 hres4
      | done =>
        simp only at hout ⊢
        exact toContinuable_okl sp cont res lb' s4 c' c0 new' hri4 hpad4 (Nat.le_trans hle hle4) hw4 hout hcompat4 hres4 hcont
    by_cases hpl : pos < (line.length : Int)
    · rw [if_pos hpl]
      obtain ⟨b1, hb1, hb1'⟩ := idx_ok line pos hb.1 hpl
      refine OKL.bind (liftE_okl (P := fun a s' => a = b1 ∧ s' = s3) hb1 ⟨rfl, rfl⟩) (fun a sy hy => ?_)
      obtain ⟨ha, hsy⟩ := hy
      subst a sy
      simp only [pure_bind]
      refine tail _ ?_
      intro bp hbp
      cases htr : triggered b1 with
      | none => rw [htr] at hbp; exact hFree bp hbp
      | some l =>
        rw [htr] at hbp
        have hmem : b1 ∈ line := List.mem_of_getElem? hb1'
        rw [← hline] at hmem
        rcases mem_view_src hmem with h | h
        · exact hT b1 h l htr bp hbp
        · subst h; have : triggered 32 = none := by decide
          rw [this] at htr; cases htr
    · rw [if_neg hpl]
      simp only [pure_bind]
      exact tail _ hFree

/-- the state invariant at line boundaries -/
structure Stable (src : Bytes) (A : BP → Prop) (s : St) : Prop where
  nodes : NodesOK src s
  keys : KeysOK s
  blocks : ∀ b ∈ s.pc.opened, BlockOK s b ∧ A b.bp
  leafy : Leafy s.pc.opened

theorem openBlocks_okl (hT : ∀ ch ∈ src, ∀ bps, triggered ch = some bps → ∀ bp ∈ bps, A bp) (hFree : ∀ bp ∈ freeParsers, A bp)
    (parent : Nat) (blank : Bool) (s : St) (c : RCur) (hri : RI src s.r c) (hpad : PadOK c) (hst : Stable src A s) :
    OKL (OBPost src A s.pc.opened s c) (openBlocks parent blank s) := by
  unfold openBlocks
  refine OKL.bind (m := lastOpenedBlock) (P := fun lb s1 => lb = s.pc.opened.getLast? ∧ s1 = s) (OKL.ok ⟨rfl, rfl⟩)
    (fun lb0 sx hlb => ?_)
  obtain ⟨hlb0, hsx⟩ := hlb
  subst sx
  have hw : Win src A s.pc.opened s s [] :=
    ⟨hst.nodes, hst.keys, Ext.refl s, .inl (by simp), hst.blocks, fun b hb => (hst.blocks b hb).1.lt, hst.leafy, by simp,
      by intro lb h; simp at h⟩
  have run : ∀ cont : Bool, (cont = true → ∃ lb, s.pc.opened.getLast? = some lb ∧ lb.bp = .paragraph) →
      OKL (OBPost src A s.pc.opened s c)
        ((do let v ← source; openBlocksLoop blank cont (retryFuel v) parent OpenResult.noBlocksOpened lb0) s) := by
    intro cont hcont
    refine OKL.bind (m := source) (P := fun v sy => v = s.r.source ∧ sy = s) (OKL.ok ⟨rfl, rfl⟩) (fun v sy hy => ?_)
    obtain ⟨hv, hsy⟩ := hy
    subst v sy
    exact openBlocksLoop_okl sp hT hFree blank cont hcont _ parent .noBlocksOpened lb0 s c [] hri hpad (Nat.le_refl _) hw
      (by simp) (.inl ⟨rfl, rfl, hlb0⟩)
  cases hl : lb0 with
  | none =>
    simp only [pure_bind]
    rw [← hl]
    exact run false (fun h => by cases h)
  | some lb =>
    simp only []
    refine OKL.bind (m := getNode lb.node)
      (P := fun v sy => v = nd s lb.node ∧ sy = s) (OKL.ok ⟨rfl, rfl⟩) (fun v sy hy => ?_)
    obtain ⟨hv, hsy⟩ := hy
    subst v sy
    simp only [pure_bind]
    rw [← hl]
    refine run _ (fun h => ?_)
    have hlast : s.pc.opened.getLast? = some lb := by rw [← hlb0, hl]
    have hk := (hst.blocks lb (List.mem_of_getLast? hlast)).1.kind
    have : (nd s lb.node).kind = Kind.paragraph := by simpa using h
    rw [this] at hk
    exact ⟨lb, hlast, kind_paragraph hk.symm⟩

omit sp in
theorem leafy_append {pre new : List Block} (hp : ∀ b ∈ pre, b.bp.isContainer = true) (hn : Leafy new) :
    Leafy (pre ++ new) := by
  intro b hb
  cases new with
  | nil => rw [List.append_nil] at hb; exact hp b (List.dropLast_subset _ hb)
  | cons x xs =>
    rw [List.dropLast_append_of_ne_nil (by simp)] at hb
    rcases List.mem_append.1 hb with h | h
    · exact hp b h
    · exact hn b h

omit sp in
theorem leafy_split {pre : List Block} {be : Block} {rest : List Block} (h : Leafy (pre ++ be :: rest)) :
    (∀ b ∈ pre, b.bp.isContainer = true) ∧ (rest ≠ [] → be.bp.isContainer = true) ∧ Leafy (be :: rest) ∧
    (∀ b ∈ (be :: rest).dropLast, b.bp.isContainer = true) := by
  have e : (pre ++ be :: rest).dropLast = pre ++ (be :: rest).dropLast := List.dropLast_append_of_ne_nil (by simp)
  refine ⟨fun b hb => h b (by rw [e]; exact List.mem_append_left _ hb), ?_, fun b hb => h b (by rw [e]; exact List.mem_append_right _ hb),
    fun b hb => h b (by rw [e]; exact List.mem_append_right _ hb)⟩
  intro hr
  refine h be (by rw [e]; refine List.mem_append_right _ ?_; cases rest with
    | nil => exact absurd rfl hr
    | cons r rs => simp [List.dropLast])

/-- what one pass over the opened blocks (`lineLoop`) hands back -/
def LLPost (src : Bytes) (A : BP → Prop) (_x : LineOutcome × List LineStat) (s' : St) : Prop :=
  ∃ c', RIa src s'.r c' ∧ Stable src A s'

omit sp in
theorem RIa.source {r : Reader} {c : RCur} (h : RIa src r c) : r.source = src := by
  obtain ⟨r0, h0, e⟩ := h
  have e1 : r.advanceLine.source = r.source := by unfold Reader.advanceLine; simp only; split <;> rfl
  have e2 : r0.advanceLine.source = r0.source := by unfold Reader.advanceLine; simp only; split <;> rfl
  rw [← e1, e, e2, h0.source]

/-- the end of an iteration of the `for i` loop: `openBlocks`, then `closeBlocks(lastIndex, i)` -/
theorem lineTail_okl (hT : ∀ ch ∈ src, ∀ bps, triggered ch = some bps → ∀ bp ∈ bps, A bp) (hFree : ∀ bp ∈ freeParsers, A bp)
    (pre : List Block) (be : Block) (rest : List Block) (ob : List Block) (li i : Int)
    (hob : ob = pre ++ be :: rest) (hli : li = (ob.length : Int) - 1) (hi : i = (pre.length : Int))
    (thisParent : Nat) (blank : Bool) (bl' : List LineStat) (s : St) (c : RCur)
    (hop : s.pc.opened = ob) (hri : RI src s.r c) (hpad : PadOK c) (hst : Stable src A s) :
    OKL (LLPost src A)
      ((do
        let lastNode ← liftE (blockAt ob li)
        let result ← openBlocks thisParent blank
        if (result != OpenResult.paragraphContinuation) = true then do
            let __do_lift ← getPc
            closeBlocks
                (if (Option.map (fun x => x.node) (slotAfter ob __do_lift.opened li.toNat) != some lastNode.node) = true then
                  li - 1
                else li)
                i
            pure (LineOutcome.next, bl')
          else pure (LineOutcome.next, bl') : M _) s) := by
  have hlen : ob.length = pre.length + rest.length + 1 := by rw [hob]; simp; omega
  have hliN : li = ((pre.length + rest.length : Nat) : Int) := by rw [hli, hlen]; omega
  have hlt : pre.length + rest.length < ob.length := by omega
  have hba : blockAt ob li = .ok ob[pre.length + rest.length] := by rw [hliN]; exact blockAt_ok ob _ hlt
  refine OKL.bind (liftE_okl (P := fun a s' => a = ob[pre.length + rest.length] ∧ s' = s) hba ⟨rfl, rfl⟩) (fun ln sy hy => ?_)
  obtain ⟨hln, hsy⟩ := hy
  subst sy
  have hlastmem : ln ∈ ob := by rw [hln]; exact List.getElem_mem _
  have hlast : ob.getLast? = some ln := by
    rw [hln, List.getLast?_eq_getElem?]
    have : ob.length - 1 = pre.length + rest.length := by omega
    rw [this]; exact List.getElem?_eq_getElem hlt
  have hob' := hop ▸ openBlocks_okl sp hT hFree thisParent blank s c hri hpad hst
  refine OKL.bind hob' (fun res s1 h1 => ?_)
  obtain ⟨c1, new1, hria1, _, hw1, hleafy1, hcompat1, hpc1⟩ := h1
  obtain ⟨hprec, hbec, hleafmid, hmidc⟩ := leafy_split (hob ▸ hop ▸ hst.leafy)
  by_cases hres : (res != OpenResult.paragraphContinuation) = true
  · rw [if_pos hres]
    refine OKL.bind (m := getPc) (P := fun pc sy => pc = s1.pc ∧ sy = s1) (OKL.ok ⟨rfl, rfl⟩) (fun pc sy hy => ?_)
    obtain ⟨hpc, hsy⟩ := hy
    subst pc sy
    have fin : ∀ s2 : St, (s2.r = s1.r ∧ s2.pc.opened = pre ++ new1 ∧ NodesOK src s2 ∧ KeysOK s2 ∧ Ext s1 s2 ∧
        ∀ k ∈ pre ++ new1, BlockOK s2 k) → OKL (LLPost src A) ((pure (LineOutcome.next, bl') : M _) s2) := by
      intro s2 ⟨h2r, h2o, h2n, h2k, _, h2b⟩
      refine OKL.ok ⟨c1, by rw [h2r]; exact hria1, h2n, h2k, ?_, by rw [h2o]; exact leafy_append hprec hleafy1⟩
      intro b hb
      rw [h2o] at hb
      refine ⟨h2b b hb, ?_⟩
      rcases List.mem_append.1 hb with h | h
      · exact (hst.blocks b (by rw [hop, hob]; exact List.mem_append_left _ h)).2
      · refine (hw1.blocks b ?_).2
        rcases hw1.shape with e | ⟨_, _, e⟩ <;> rw [e] <;> exact List.mem_append_right _ h
    rcases hw1.shape with e | ⟨hne, hnew, e⟩
    · -- nothing was popped: the stale slot still holds the old last block
      have hslot : slotAfter ob s1.pc.opened li.toNat = some ln := by
        unfold slotAfter
        rw [e, hliN, Int.toNat_natCast, List.getElem?_append_left hlt, List.getElem?_eq_getElem hlt, hln]
      rw [hslot]
      simp only [Option.map, bne_self_eq_false, Bool.false_eq_true, if_false]
      have hcb := closeBlocks_okl sp pre (be :: rest) new1 s1 (by rw [e, hob, List.append_assoc]) hria1.source hw1.nodes hw1.keys
        (fun b hb => hw1.blocks b (by rw [e, hob]; exact List.mem_append_left _ (List.mem_append_right _ hb))) hleafmid
        (fun k hk => ⟨(hw1.blocks k (by
            rw [e, hob]; rcases List.mem_append.1 hk with h | h
            · exact List.mem_append_left _ (List.mem_append_left _ h)
            · exact List.mem_append_right _ h)).1, fun top htop => by
          rcases List.mem_append.1 hk with h | h
          · exact Compat.of_container_left (hprec k h)
          · refine hcompat1 k h top ?_
            rw [hob]; exact List.mem_append_right _ (List.mem_of_getLast? htop)⟩)
      have harg : li = (pre.length : Int) + ((be :: rest).length : Int) - 1 := by rw [hliN]; simp; omega
      rw [harg, hi]
      exact OKL.bind hcb (fun _ s2 h2 => fin s2 h2)
    · -- the old last block was popped: the stale slot holds the first new block
      obtain ⟨x, xs, hx⟩ : ∃ x xs, new1 = x :: xs := by
        cases new1 with
        | nil => exact absurd rfl hnew
        | cons x xs => exact ⟨x, xs, rfl⟩
      have hdl : ob.dropLast.length = pre.length + rest.length := by rw [List.length_dropLast]; omega
      have hslot : slotAfter ob s1.pc.opened li.toNat = some x := by
        unfold slotAfter
        rw [e, hliN, Int.toNat_natCast, List.getElem?_append_right (by omega), hdl, Nat.sub_self, hx]
        rfl
      have hxne : (x.node == ln.node) = false := by
        have h1 := hw1.fresh x (by rw [hx]; simp)
        have h2 := hw1.oldlt ln hlastmem
        exact beq_false_of_ne (by omega)
      rw [hslot]
      have hcond : (Option.map (fun x => x.node) (some x) != some ln.node) = true := by
        simp only [Option.map, bne, Option.some_beq_some, hxne, Bool.not_false]
      rw [if_pos hcond]
      have hdrop : ob.dropLast = pre ++ (be :: rest).dropLast := by
        rw [hob]; exact List.dropLast_append_of_ne_nil (by simp)
      have hcb := closeBlocks_okl sp pre (be :: rest).dropLast new1 s1 (by rw [e, hdrop]) hria1.source hw1.nodes hw1.keys
        (fun b hb => hw1.blocks b (by rw [e, hdrop]; exact List.mem_append_left _ (List.mem_append_right _ hb)))
        (leafy_of_all hmidc)
        (fun k hk => ⟨(hw1.blocks k (by
            rw [e, hdrop]; rcases List.mem_append.1 hk with h | h
            · exact List.mem_append_left _ (List.mem_append_left _ h)
            · exact List.mem_append_right _ h)).1, fun top htop =>
          Compat.of_container (hmidc top (List.mem_of_getLast? htop))⟩)
      have harg : li - 1 = (pre.length : Int) + ((be :: rest).dropLast.length : Int) - 1 := by
        rw [hliN, List.length_dropLast]; simp
      rw [harg, hi]
      exact OKL.bind hcb (fun _ s2 h2 => fin s2 h2)
  · rw [if_neg hres]
    have hpcn : new1 = [] := hpc1 (by simpa using hres)
    subst hpcn
    have hop1 : s1.pc.opened = ob := by
      rcases hw1.shape with e | ⟨_, h, _⟩
      · rw [e, List.append_nil]
      · exact absurd rfl h
    exact OKL.ok ⟨c1, hria1, hw1.nodes, hw1.keys, hw1.blocks, by rw [hop1, ← hop]; exact hst.leafy⟩

/-- the fall-through part of an iteration of the `for i` loop (the block at `i` did not continue, or is a paragraph) -/
theorem lineF_okl (hT : ∀ ch ∈ src, ∀ bps, triggered ch = some bps → ∀ bp ∈ bps, A bp) (hFree : ∀ bp ∈ freeParsers, A bp)
    (parent : Nat) (pre : List Block) (be : Block) (rest : List Block) (ob : List Block) (li i : Int)
    (hob : ob = pre ++ be :: rest) (hli : li = (ob.length : Int) - 1) (hi : i = (pre.length : Int))
    (blank : Bool) (bl' : List LineStat) (s : St) (c : RCur)
    (hop : s.pc.opened = ob) (hri : RI src s.r c) (hpad : PadOK c) (hst : Stable src A s) :
    OKL (LLPost src A)
      ((if (i != 0) = true then do
          let b ← liftE (blockAt ob (i - 1))
          let thisParent ← pure b.node
          let lastNode ← liftE (blockAt ob li)
          let result ← openBlocks thisParent blank
          if (result != OpenResult.paragraphContinuation) = true then do
              let __do_lift ← getPc
              closeBlocks
                  (if (Option.map (fun x => x.node) (slotAfter ob __do_lift.opened li.toNat) != some lastNode.node) = true then
                    li - 1
                  else li)
                  i
              pure (LineOutcome.next, bl')
            else pure (LineOutcome.next, bl')
        else do
          let thisParent ← pure parent
          let lastNode ← liftE (blockAt ob li)
          let result ← openBlocks thisParent blank
          if (result != OpenResult.paragraphContinuation) = true then do
              let __do_lift ← getPc
              closeBlocks
                  (if (Option.map (fun x => x.node) (slotAfter ob __do_lift.opened li.toNat) != some lastNode.node) = true then
                    li - 1
                  else li)
                  i
              pure (LineOutcome.next, bl')
            else pure (LineOutcome.next, bl') : M _) s) := by
  by_cases hi0 : (i != 0) = true
  · rw [if_pos hi0]
    have hpos : 1 ≤ pre.length := by
      have : i ≠ 0 := by simpa using hi0
      omega
    have hlt : pre.length - 1 < ob.length := by rw [hob]; simp; omega
    have hba : blockAt ob (i - 1) = .ok ob[pre.length - 1] := by
      have : i - 1 = ((pre.length - 1 : Nat) : Int) := by omega
      rw [this]; exact blockAt_ok ob _ hlt
    refine OKL.bind (liftE_okl (P := fun a s' => a = ob[pre.length - 1] ∧ s' = s) hba ⟨rfl, rfl⟩) (fun b sy hy => ?_)
    obtain ⟨_, hsy⟩ := hy
    subst sy
    simp only [pure_bind]
    exact lineTail_okl sp hT hFree pre be rest ob li i hob hli hi b.node blank bl' s c hop hri hpad hst
  · rw [if_neg hi0]
    simp only [pure_bind]
    exact lineTail_okl sp hT hFree pre be rest ob li i hob hli hi parent blank bl' s c hop hri hpad hst

omit sp in
theorem advanceLine_eq (s : St) : advanceLine s = .ok ((), { s with r := s.r.advanceLine }) := rfl

theorem lineLoop_okl (hT : ∀ ch ∈ src, ∀ bps, triggered ch = some bps → ∀ bp ∈ bps, A bp) (hFree : ∀ bp ∈ freeParsers, A bp)
    (parent : Nat) (ob : List Block) (li : Int) (hli : li = (ob.length : Int) - 1) :
    ∀ (rest pre : List Block) (i : Int) (bl : List LineStat) (s : St) (c : RCur), ob = pre ++ rest → i = (pre.length : Int) →
      s.pc.opened = ob → RI src s.r c → PadOK c → Stable src A s →
      OKL (LLPost src A) (lineLoop parent ob li rest i bl s) := by
  intro rest
  induction rest with
  | nil =>
    intro pre i bl s c _ _ _ hri _ hst
    unfold lineLoop
    exact OKL.ok ⟨c, hri.toRIa, hst⟩
  | cons be rest ih =>
    intro pre i bl s c hob hi hop hri hpad hst
    unfold lineLoop
    simp only []
    refine OKL.bind (peekLine_okl hri) (fun x s1 hx => ?_)
    obtain ⟨hx, r1, hs1, h1⟩ := hx
    subst hx hs1
    simp only
    have hst1 : Stable src A { s with r := r1 } := ⟨hst.nodes, ⟨hst.keys.tmp, hst.keys.fence⟩,
      fun b hb => ⟨⟨(hst.blocks b hb).1.lt, (hst.blocks b hb).1.kind, (hst.blocks b hb).1.para, (hst.blocks b hb).1.setext,
        (hst.blocks b hb).1.fenced⟩, (hst.blocks b hb).2⟩, hst.leafy⟩
    cases hv : RCur.view src c with
    | none =>
      simp only []
      have hcb := closeBlocks_okl sp [] ob [] { s with r := r1 } (by simp [hop]) h1.source hst1.nodes hst1.keys
        (fun b hb => hst1.blocks b (by simpa [hop] using hb)) (hop ▸ hst.leafy) (by simp)
      have e1 : ((([] : List Block).length : Int) + (ob.length : Int) - 1) = li := by simp [hli]
      rw [e1] at hcb
      refine OKL.bind (m := closeBlocks li 0) hcb (fun _ s2 h2 => ?_)
      obtain ⟨h2r, h2o, h2n, h2k, _, h2b⟩ := h2
      simp only [bind, StateT.bind, advanceLine_eq, Except.bind, pure, StateT.pure, Except.pure]
      have hri2 : RI src s2.r c := by rw [h2r]; exact h1
      refine OKL.ok ⟨_, (ri_advanceLine hri2).toRIa, h2n, ⟨h2k.tmp, h2k.fence⟩, ?_, ?_⟩
      · intro b hb; simp only [h2o, List.append_nil] at hb; cases hb
      · simp only [h2o, List.append_nil]; intro b hb; cases hb
    | some line =>
      simp only []
      have hp : c.p < src.length := view_some_lt src c hv
      refine OKL.bind (m := position) (P := fun _ sy => sy = { s with r := r1 }) (OKL.ok rfl) (fun pos sy hy => ?_)
      subst hy
      refine OKL.bind (m := getNode be.node) (P := fun n sy => n = nd { s with r := r1 } be.node ∧ sy = { s with r := r1 })
        (OKL.ok ⟨rfl, rfl⟩) (fun n sy hy => ?_)
      obtain ⟨hn, hsy⟩ := hy
      subst n sy
      have hbemem : be ∈ s.pc.opened := by rw [hop, hob]; simp
      by_cases hkind : ((nd { s with r := r1 } be.node).kind != Kind.paragraph) = true
      · rw [if_pos hkind]
        have hcs := sp.cont be.bp (hst.blocks be hbemem).2 be.node { s with r := r1 } c h1 hpad hp hst1.nodes hst1.keys
          (hst1.blocks be hbemem).1
        refine OKL.bind hcs (fun st s2 h2 => ?_)
        obtain ⟨c2, hria2, hpad2, _, _, hcase2⟩ := h2.ria
        have hop2 : s2.pc.opened = ob := by rw [h2.pc]; exact hop
        have hst2 : Stable src A s2 := ⟨h2.nodes, hst1.keys.ext h2.ext (.inl (by rw [h2.pc])) (.inl (by rw [h2.pc])),
          fun b hb => by
            rw [h2.pc] at hb
            have := hst1.blocks b hb
            exact ⟨this.1.ext h2.ext (fun hp' => by rw [h2.pc]; exact (this.1.setext hp').2)
              (fun hp' => by rw [h2.pc]; exact this.1.fenced hp'), this.2⟩,
          by rw [h2.pc]; exact hst1.leafy⟩
        by_cases hcont : st.cont = true
        · rw [if_pos hcont]
          by_cases hch : (st.hasChildren && i == li) = true
          · rw [if_pos hch]
            simp only [Bool.and_eq_true] at hch
            have hri2 : RI src s2.r c2 := by
              rcases hcase2 with ⟨_, h⟩ | h
              · rw [hch.1] at h; cases h
              · exact h
            have hobk := openBlocks_okl sp hT hFree be.node
              (isBlankLine (pos.fst - 1) i (bl ++ [{ lineNum := pos.fst, level := i, isBlank := isBlank line }])) s2 c2 hri2 hpad2 hst2
            refine OKL.bind hobk (fun res s3 h3 => ?_)
            obtain ⟨c3, new3, hria3, _, hw3, hleafy3, _, _⟩ := h3
            -- `be` is the last opened block and a container: everything old is a container
            have hbec : be.bp.isContainer = true := by
              cases hc : be.bp.isContainer with
              | true => rfl
              | false => have := h2.leaf hc; rw [hch.1] at this; cases this
            have hrest : rest = [] := by
              have hii : i = li := by simpa using hch.2
              have : (ob.length : Int) = pre.length + rest.length + 1 := by rw [hob]; simp; omega
              have : rest.length = 0 := by omega
              exact List.length_eq_zero_iff.1 this
            have hallold : ∀ b ∈ ob, b.bp.isContainer = true := by
              intro b hb
              obtain ⟨hprec, _, _, _⟩ := leafy_split (hob ▸ hop ▸ hst.leafy)
              rw [hob, hrest] at hb
              rcases List.mem_append.1 hb with h | h
              · exact hprec b h
              · simp only [List.mem_singleton] at h; rw [h]; exact hbec
            refine OKL.ok ⟨c3, hria3, hw3.nodes, hw3.keys, hw3.blocks, ?_⟩
            rw [hop2] at hw3
            rcases hw3.shape with e | ⟨_, _, e⟩
            · rw [e]; exact leafy_append hallold hleafy3
            · rw [e]; exact leafy_append (fun b hb => hallold b (List.dropLast_subset _ hb)) hleafy3
          · rw [if_neg hch]
            rw [if_pos (by rfl)]
            by_cases hhc : st.hasChildren = true
            · have hri2 : RI src s2.r c2 := by
                rcases hcase2 with ⟨_, h⟩ | h
                · rw [hhc] at h; cases h
                · exact h
              exact ih (pre ++ [be]) (i + 1) _ s2 c2 (by rw [hob]; simp) (by simp; omega) hop2 hri2 hpad2 hst2
            · -- a leaf that continues is the last opened block
              have hbec : be.bp.isContainer = false := by
                cases hc : be.bp.isContainer with
                | false => rfl
                | true => exact absurd (h2.cont hc hcont) hhc
              have hrest : rest = [] := by
                obtain ⟨_, hbe, _, _⟩ := leafy_split (hob ▸ hop ▸ hst.leafy)
                cases rest with
                | nil => rfl
                | cons r rs => have := hbe (by simp); rw [hbec] at this; cases this
              subst hrest
              unfold lineLoop
              exact OKL.ok ⟨c2, hria2, hst2⟩
        · rw [if_neg hcont]
          rw [if_neg (by decide)]
          have hri2 : RI src s2.r c2 := by
            rcases hcase2 with ⟨h, _⟩ | h
            · exact absurd h hcont
            · exact h
          exact lineF_okl sp hT hFree parent pre be rest ob li i hob hli hi _ _ s2 c2 hop2 hri2 hpad2 hst2
      · rw [if_neg hkind]
        rw [if_neg (by decide)]
        exact lineF_okl sp hT hFree parent pre be rest ob li i hob hli hi _ _ { s with r := r1 } c hop h1 hpad hst1

omit sp in
theorem padOK_advanceLine (c : RCur) : PadOK (RCur.advanceLine src c) := by
  intro h; simp [RCur.advanceLine] at h

omit sp in
/-- `AdvanceLine` after a pass over the opened blocks -/
theorem advanceLine_ria {r : Reader} {c : RCur} (h : RIa src r c) : RI src r.advanceLine (RCur.advanceLine src c) := by
  obtain ⟨r0, h0, e⟩ := h
  rw [e]; exact ri_advanceLine h0

omit sp in
theorem Stable.congr_r {s : St} (h : Stable src A s) (r' : Reader) : Stable src A { s with r := r' } :=
  ⟨h.nodes, ⟨h.keys.tmp, h.keys.fence⟩,
    fun b hb => ⟨⟨(h.blocks b hb).1.lt, (h.blocks b hb).1.kind, (h.blocks b hb).1.para, (h.blocks b hb).1.setext,
      (h.blocks b hb).1.fenced⟩, (h.blocks b hb).2⟩, h.leafy⟩

theorem linesLoop_okl (hT : ∀ ch ∈ src, ∀ bps, triggered ch = some bps → ∀ bp ∈ bps, A bp) (hFree : ∀ bp ∈ freeParsers, A bp)
    (parent : Nat) : ∀ (fuel : Nat) (bl : List LineStat) (s : St) (c : RCur), RI src s.r c → PadOK c → Stable src A s →
      OKL (fun x s' => Stable src A s' ∧ (x.1 = false → s'.pc.opened = [] ∧ ∃ c', RI src s'.r c' ∧ PadOK c')) (linesLoop parent fuel bl s) := by
  intro fuel
  induction fuel with
  | zero => intro _ _ _ _ _ _; exact .inr rfl
  | succ fuel ih =>
    intro bl s c hri hpad hst
    unfold linesLoop
    refine OKL.bind (m := getPc) (P := fun pc sy => pc = s.pc ∧ sy = s) (OKL.ok ⟨rfl, rfl⟩) (fun pc sy hy => ?_)
    obtain ⟨hpc, hsy⟩ := hy
    subst pc sy
    simp only []
    by_cases hl : (s.pc.opened.length == 0) = true
    · rw [if_pos hl]
      exact OKL.ok ⟨hst, fun _ => ⟨List.length_eq_zero_iff.1 (by simpa using hl), c, hri, hpad⟩⟩
    · rw [if_neg hl]
      have hll := lineLoop_okl sp hT hFree parent s.pc.opened ((s.pc.opened.length : Int) - 1) rfl s.pc.opened [] 0 bl s c
        (by simp) (by simp) rfl hri hpad hst
      refine OKL.bind hll (fun x s1 h1 => ?_)
      obtain ⟨c1, hria1, hst1⟩ := h1
      obtain ⟨outcome, bl1⟩ := x
      cases outcome with
      | eof => exact OKL.ok ⟨hst1, fun h => by cases h⟩
      | next =>
        simp only []
        simp only [bind, StateT.bind, advanceLine_eq, Except.bind]
        exact ih bl1 _ _ (advanceLine_ria hria1) (padOK_advanceLine c1) (hst1.congr_r _)

omit sp in
theorem skipBlankLines_ri : ∀ (fuel : Nat) (lines : Int) (r : Reader) (c : RCur), RI src r c → PadOK c →
    (∃ x r' c', skipBlankLines readerOps fuel lines r = .ok (x, r') ∧ RI src r' c' ∧ PadOK c') ∨
    skipBlankLines readerOps fuel lines r = .error .loop := by
  intro fuel
  induction fuel with
  | zero => intro _ _ _ _ _; exact .inr rfl
  | succ fuel ih =>
    intro lines r c hri hpad
    obtain ⟨r1, e1, h1⟩ := ri_peekLine hri
    unfold skipBlankLines
    simp only [readerOps, e1, bind, Except.bind, pure, Except.pure]
    cases hv : RCur.view src c with
    | none => exact .inl ⟨_, _, c, rfl, h1, hpad⟩
    | some l =>
      simp only []
      by_cases hb : isBlank l = true
      · rw [if_pos hb]
        exact ih (lines + 1) r1.advanceLine _ (ri_advanceLine h1) (padOK_advanceLine c)
      · rw [if_neg hb]
        exact .inl ⟨_, _, c, rfl, h1, hpad⟩

theorem blocksLoop_okl (hT : ∀ ch ∈ src, ∀ bps, triggered ch = some bps → ∀ bp ∈ bps, A bp) (hFree : ∀ bp ∈ freeParsers, A bp)
    (parent : Nat) : ∀ (fuel : Nat) (bl : List LineStat) (s : St) (c : RCur), RI src s.r c → PadOK c → Stable src A s →
      s.pc.opened = [] → OKL (fun _ s' => Stable src A s') (blocksLoop parent fuel bl s) := by
  intro fuel
  induction fuel with
  | zero => intro _ _ _ _ _ _ _; exact .inr rfl
  | succ fuel ih =>
    intro bl s c hri hpad hst hemp
    unfold blocksLoop
    have hskip : OKL (fun (_ : Segment × Int × Bool) s1 => ∃ r1 c1, s1 = { s with r := r1 } ∧ RI src r1 c1 ∧ PadOK c1)
        (skipBlankLinesR s) := by
      unfold skipBlankLinesR
      rcases skipBlankLines_ri (src := src) (loopFuel s.r.source) 0 s.r c hri hpad with ⟨x, r', c', e, h1, h2⟩ | e
      · simp only [e, bind, Except.bind, pure, Except.pure]
        exact OKL.ok ⟨r', c', rfl, h1, h2⟩
      · simp only [e, bind, Except.bind]
        exact .inr rfl
    refine OKL.bind hskip (fun x s1 h1 => ?_)
    obtain ⟨r1, c1, hs1, hri1, hpad1⟩ := h1
    subst hs1
    obtain ⟨seg, lines, ok⟩ := x
    have hst1 := hst.congr_r r1
    by_cases hok : (!ok) = true
    · simp only [hok, if_true]; exact OKL.ok hst1
    simp only [hok, Bool.false_eq_true, if_false]
    refine OKL.bind (m := position) (P := fun _ sy => sy = { s with r := r1 }) (OKL.ok rfl) (fun pos sy hy => ?_)
    subst hy
    refine OKL.bind (m := getPc) (P := fun pc sy => pc = s.pc ∧ sy = { s with r := r1 }) (OKL.ok ⟨rfl, rfl⟩) (fun pc sy hy => ?_)
    obtain ⟨hpc, hsy⟩ := hy
    subst pc sy
    refine OKL.bind (openBlocks_okl sp hT hFree parent _ { s with r := r1 } c1 hri1 hpad1 hst1) (fun res s2 h2 => ?_)
    obtain ⟨c2, new2, hria2, _, hw2, hleafy2, _, _⟩ := h2
    have hop2 : s2.pc.opened = new2 := by
      rcases hw2.shape with e | ⟨h, _, _⟩
      · rw [e]; simp only [hemp, List.nil_append]
      · exact absurd hemp h
    have hst2 : Stable src A s2 := ⟨hw2.nodes, hw2.keys, hw2.blocks, by rw [hop2]; exact hleafy2⟩
    by_cases hres : (res != OpenResult.newBlocksOpened) = true
    · rw [if_pos hres]; exact OKL.ok hst2
    rw [if_neg hres]
    refine OKL.bind (m := advanceLine) (P := fun _ sy => sy = { s2 with r := s2.r.advanceLine }) (OKL.ok rfl) (fun _ sy hy => ?_)
    subst hy
    refine OKL.bind (linesLoop_okl sp hT hFree parent fuel _ { s2 with r := s2.r.advanceLine } _ (advanceLine_ria hria2)
      (padOK_advanceLine c2) (hst2.congr_r _)) (fun x s3 h3 => ?_)
    obtain ⟨hst3, hret3⟩ := h3
    obtain ⟨ret, bl3⟩ := x
    by_cases hret : ret = true
    · simp only [hret, if_true]; exact OKL.ok hst3
    · simp only [hret, Bool.false_eq_true, if_false]
      obtain ⟨hemp3, c3, hri3, hpad3⟩ := hret3 (by simpa using hret)
      exact ih bl3 s3 c3 hri3 hpad3 hst3 hemp3

/-- **the block phase ends normally** (no Go panic, no contract-monitor failure) or runs out of fuel, and every line
    segment of every node lies inside the source -/
theorem run_okl (hT : ∀ ch ∈ src, ∀ bps, triggered ch = some bps → ∀ bp ∈ bps, A bp) (hFree : ∀ bp ∈ freeParsers, A bp) :
    (∃ s, run src = .ok s ∧ NodesOK src s) ∨ run src = .error .loop := by
  unfold run parseBlocks
  have hinit : Stable src A { (initSt src) with pc := { (initSt src).pc with opened := [] } } := by
    refine ⟨?_, ⟨?_, ?_⟩, ?_, ?_⟩
    · intro n hn
      simp only [initSt, List.mem_singleton] at hn
      subst hn
      exact ⟨by intro t ht; simp at ht, fun _ => rfl⟩
    · intro t h; simp [initSt] at h
    · intro f h; simp [initSt] at h
    · intro b hb; simp at hb
    · intro b hb; simp at hb
  have := blocksLoop_okl sp hT hFree 0 (linesFuel src) [] { (initSt src) with pc := { (initSt src).pc with opened := [] } }
    RCur.init (ri_init src) (fun h => absurd rfl h) hinit rfl
  simp only [bind, StateT.bind, modPc, source, Except.bind, pure, StateT.pure, Except.pure]
  rcases this with ⟨_, s', e, hs'⟩ | e
  · left
    refine ⟨s', ?_, hs'.nodes⟩
    have e' : blocksLoop 0 (linesFuel (initSt src).r.source) []
        { r := (initSt src).r, nodes := (initSt src).nodes, pc := { (initSt src).pc with opened := [] } } = .ok ((), s') := e
    rw [e']; rfl
  · right
    have e' : blocksLoop 0 (linesFuel (initSt src).r.source) []
        { r := (initSt src).r, nodes := (initSt src).nodes, pc := { (initSt src).pc with opened := [] } } = .error .loop := e
    rw [e']; rfl

end tp

end GM.Blocks
