/-
  GM.Proof.CMFrag8Defs — stage 8 (code spans inside the text lines): lines made of text atoms and code-span atoms, as
  source bytes, as renderer nodes and as HTML. (Definitions only.)
-/
import GM.Proof.CMFrag7Inl

namespace GM.Proof.CMFrag
open GM GM.Text

/-- a piece of a line: literal text (source bytes that never consult an inline parser), or a code span -/
inductive Atom where
  | txt (bs : Bytes)
  | code (bs : Bytes)
deriving Repr, Inhabited

/-- the source bytes of an atom: a code span is written with one backtick on each side -/
def atomSrc : Atom → Bytes
  | .txt bs => bs
  | .code bs => [96] ++ bs ++ [96]

def lineSrc (as : List Atom) : Bytes := as.flatMap atomSrc

def Atom.isTxt : Atom → Bool
  | .txt _ => true
  | .code _ => false

/-- text and code atoms alternate -/
def alternating : List Atom → Bool
  | a :: b :: rest => (a.isTxt != b.isTxt) && alternating (b :: rest)
  | _ => true

/-- an atom is well formed: text = non-empty bytes that are quiet at every position of a line; code = non-empty
    letters and digits -/
def AtomOK : Atom → Prop
  | .txt bs => bs ≠ [] ∧ (∀ i, quiet bs i false = true) ∧ escAfter bs false = false
  | .code bs => bs ≠ [] ∧ ∀ c ∈ bs, GM.Spec.CM.isAlnumC c = true

/-- a rich line: text atoms and code spans alternate, starting and ending with text; the first byte is a letter, the
    last byte neither white space nor a backslash -/
structure RichLine (as : List Atom) : Prop where
  alt : alternating as = true
  first : ∃ bs rest, as = .txt bs :: rest ∧ ∀ c, bs.head? = some c → GM.Spec.CM.isLetter c = true
  last : ∃ init bs, as = init ++ [.txt bs] ∧ (∀ c, bs.getLast? = some c → isSpace c = false ∧ c ≠ 92)
  ok : ∀ a ∈ as, AtomOK a

/-- the nodes of one line as the renderer reads them; `soft`: the line is not the last of its paragraph -/
def atomNodes (soft : Bool) : List Atom → List GM.Node
  | [] => []
  | [.txt bs] => [.mk (.text bs soft false false false) none []]
  | .txt bs :: rest => .mk (.text bs false false false false) none [] :: atomNodes soft rest
  | .code bs :: rest => .mk .codeSpan none [.mk (.text bs false false true false) none []] :: atomNodes soft rest

def richNodes : List (List Atom) → List GM.Node
  | [] => []
  | [l] => atomNodes false l
  | l :: l' :: rest => atomNodes true l ++ richNodes (l' :: rest)

/-- the HTML of one line -/
def atomHtml : Atom → Bytes
  | .txt bs => GM.write false bs
  | .code bs => strBytes "<code>" ++ GM.rawWrite bs ++ strBytes "</code>"

def richLineHtml (as : List Atom) : Bytes := as.flatMap atomHtml

end GM.Proof.CMFrag
