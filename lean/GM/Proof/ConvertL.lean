/-
  GM.Proof.ConvertL — lemmas for GM.Props.ConvertL: with Linkify off `convertL` is `convertX`; the Linkify parser of the
  concrete loop declines on a peeked line without ':', '@' and `www.` (state untouched but for the reader's line cache).
-/
import GM.Model.ConvertL
import GM.Proof.ConvertX
import GM.Proof.ExtDecline

namespace GM.Proof.ConvertL
open GM GM.Text GM.Convert GM.ConvertX GM.Inl

theorem inlineTblL_off (c : XCfg) (inItem : Bool) : inlineTblL { base := c, linkify := false } inItem = inlineTbl c inItem := by
  funext b; simp [inlineTblL]

theorem inlineLinesL_off (c : XCfg) (g : Bool) (env : Env) (src : Bytes) (inItem : Bool) (lines : List Segment) :
    inlineLinesL { base := c, linkify := false } g env src inItem lines = inlineLines c g env src inItem lines := by
  simp only [inlineLinesL, inlineLines, inlineTblL_off]

theorem inlinePhaseL_off (c : XCfg) (g : Bool) (env : Env) (src : Bytes) (inItem : Bool) (n : GM.Blocks.Node) :
    inlinePhaseL { base := c, linkify := false } g env src inItem n = inlinePhaseX c g env src inItem n := by
  simp only [inlinePhaseL, inlinePhaseX, inlineLinesL_off]

mutual
theorem inlineTreeL_off (c : XCfg) (src : Bytes) : ∀ n : Inl.Node,
    inlineTreeL { base := c, linkify := false } src n = inlineTreeX c src n
  | .text .. => by simp [inlineTreeL, inlineTreeX]
  | .codeSpan ks => by simp [inlineTreeL, inlineTreeX, inlineTreesL_off c src ks]
  | .emphasis lv ks => by simp [inlineTreeL, inlineTreeX, inlineTreesL_off c src ks]
  | .link im d t ks => by simp [inlineTreeL, inlineTreeX, inlineTreesL_off c src ks]
  | .autoLink .. => by simp [inlineTreeL, inlineTreeX]
  | .rawHTML .. => by simp [inlineTreeL, inlineTreeX]
  | .delim .. => by simp [inlineTreeL, inlineTreeX]
  | .label .. => by simp [inlineTreeL, inlineTreeX]
theorem inlineTreesL_off (c : XCfg) (src : Bytes) : ∀ ns : List Inl.Node,
    inlineTreesL { base := c, linkify := false } src ns = inlineTreesX c src ns
  | [] => by simp [inlineTreesL, inlineTreesX]
  | n :: rest => by simp [inlineTreesL, inlineTreesX, inlineTreeL_off c src n, inlineTreesL_off c src rest]
end

mutual
theorem docTreeL_off (c : XCfg) (g : Bool) (env : Env) (src : Bytes) (escs : List Int) (inItem : Bool) :
    ∀ t : GM.Blocks.Tree, docTreeL { base := c, linkify := false } g env src escs inItem t = docTreeX c g env src escs inItem t
  | .node n cs => by
    unfold docTreeL docTreeX
    rw [docTreesL_off c g env src escs _ _ cs, inlinePhaseL_off]
    simp only [inlineTreesL_off]
theorem docTreesL_off (c : XCfg) (g : Bool) (env : Env) (src : Bytes) (escs : List Int) (pi first : Bool) :
    ∀ ts : List GM.Blocks.Tree,
    docTreesL { base := c, linkify := false } g env src escs pi first ts = docTreesX c g env src escs pi first ts
  | [] => by unfold docTreesL docTreesX; rfl
  | t :: rest => by
    unfold docTreesL docTreesX
    rw [docTreeL_off c g env src escs _ t, docTreesL_off c g env src escs _ _ rest]
end

theorem convertLWith_off (c : XCfg) (g : Bool) (uc : List (Nat × (Bool × Bool))) (o : ROpts) (src : Bytes) :
    convertLWith { base := c, linkify := false } g uc o src = convertXWith c g uc o src := by
  unfold convertLWith convertXWith parseDocL parseDocX
  simp only [docTreeL_off]

/-! ### Linkify declines -/

theorem isPrefix_mem {p l : Bytes} {x : UInt8} (h : p.isPrefixOf l = true) (hx : x ∈ p) : x ∈ l :=
  GM.Ext.mem_of_isPrefixOf h hx

theorem matchURL_no_colon {l : Bytes} (h : (58 : UInt8) ∉ l) : matchURL l = none := by
  unfold matchURL
  have h1 : lkHTTP.isPrefixOf l = false := by
    cases hh : lkHTTP.isPrefixOf l with
    | false => rfl
    | true => exact absurd (isPrefix_mem hh (by decide)) h
  have h2 : lkHTTPS.isPrefixOf l = false := by
    cases hh : lkHTTPS.isPrefixOf l with
    | false => rfl
    | true => exact absurd (isPrefix_mem hh (by decide)) h
  have h3 : lkFTP.isPrefixOf l = false := by
    cases hh : lkFTP.isPrefixOf l with
    | false => rfl
    | true => exact absurd (isPrefix_mem hh (by decide)) h
  simp [h1, h2, h3]

theorem lkEmailEnd_no_at {l : Bytes} (h : (64 : UInt8) ∉ l) : lkEmailEnd l = .ok none := by
  unfold lkEmailEnd
  simp only [GM.Ext.findEmailIndex_no_at h]
  split <;> simp

/-- LINKIFY DECLINES, on the concrete loop: whatever the state, when the peeked line has no ':', no '@' and no `www.`, Parse
    returns nil and leaves children, id counter and link-bottom stack as they are (the reader is the one PeekLine leaves) -/
theorem parseLinkify_declines (env : Env) (st : St) (line : Bytes) (seg : Segment) (rd : BlockReader)
    (hp : st.rd.peekLine = .ok ((some line, seg), rd)) (hne : line ≠ [])
    (hcolon : (58 : UInt8) ∉ line) (hat : (64 : UInt8) ∉ line) (hwww : GM.Ext.hasInfix GM.Ext.domainWWW line = false) :
    parseLinkify env st = .ok (none, st) ∨ parseLinkify env st = .ok (none, { st with rd := rd }) := by
  unfold parseLinkify
  split
  · exact Or.inl rfl
  · right
    simp only [hp, bind, Except.bind, Option.getD_some]
    cases line with
    | nil => exact absurd rfl hne
    | cons c rest =>
      simp only []
      by_cases hs : GM.Ext.linkifyStrip c = true
      · have k1 := matchURL_no_colon (l := rest) (fun h => hcolon (by simp [h]))
        have k2 : GM.Ext.domainWWW.isPrefixOf rest = false := by simpa using GM.Ext.no_prefix_of_drop hwww 1
        have k3 := lkEmailEnd_no_at (l := rest) (fun h => hat (by simp [h]))
        simp [hs, k1, k2, k3, pure, Except.pure]
      · have hs' : GM.Ext.linkifyStrip c = false := by simpa using hs
        have k1 := matchURL_no_colon (l := c :: rest) hcolon
        have k2 : GM.Ext.domainWWW.isPrefixOf (c :: rest) = false := by simpa using GM.Ext.no_prefix_of_drop hwww 0
        have k3 := lkEmailEnd_no_at (l := c :: rest) hat
        simp [hs', k1, k2, k3, pure, Except.pure]

end GM.Proof.ConvertL
