import GM.Model.Once

namespace GM.Once

def isInit : Pc → Bool | .init _ => true | _ => false
/-- has not yet returned from `Do` and is not the initialiser -/
def quiet : Pc → Bool | .start => true | .blocked => true | _ => false

def partialTable (cfg : List Nat) (k : Nat) : List (Option Nat) :=
  (cfg.take k).map some ++ List.replicate (cfg.length - k) none

theorem partialTable_zero (cfg : List Nat) : partialTable cfg 0 = List.replicate cfg.length none := by
  simp [partialTable]

theorem partialTable_full (cfg : List Nat) : partialTable cfg cfg.length = cfg.map some := by
  simp [partialTable]

theorem partialTable_length (cfg : List Nat) (k : Nat) (h : k ≤ cfg.length) :
    (partialTable cfg k).length = cfg.length := by
  simp [partialTable]; omega

theorem partialTable_set (cfg : List Nat) (k : Nat) (h : k < cfg.length) :
    (partialTable cfg k).set k (some (cfg.getD k 0)) = partialTable cfg (k + 1) := by
  induction cfg generalizing k with
  | nil => simp at h
  | cons c cs ih =>
    cases k with
    | zero => simp [partialTable, List.replicate_succ]
    | succ k =>
      have hk : k < cs.length := by simpa using h
      have := ih k hk
      simp only [partialTable, List.take_succ_cons, List.map_cons, List.cons_append, List.set_cons_succ,
        List.length_cons, Nat.add_sub_add_right, List.getD_cons_succ] at this ⊢
      rw [this]

structure Inv (p : Params) (s : Sys) : Prop where
  ns : s.once = .notStarted → (∀ (i : Nat) (a : Pc), s.pcs[i]? = some a → a = Pc.start) ∧ s.table = partialTable p.cfg 0
  rn : s.once = .running → ∃ (o k : Nat), s.pcs[o]? = some (Pc.init k) ∧ k ≤ p.cfg.length ∧
        (∀ (j : Nat) (a : Pc), j ≠ o → s.pcs[j]? = some a → quiet a = true) ∧ s.table = partialTable p.cfg k
  fn : s.once = .finished → (∀ (i : Nat) (a : Pc), s.pcs[i]? = some a → isInit a = false) ∧ s.table = built p

theorem inv_initial (p : Params) (n : Nat) : Inv p (initial p n) := by
  refine ⟨?_, ?_, ?_⟩
  · intro _
    refine ⟨?_, by simp [initial, partialTable_zero]⟩
    intro i a h
    simp only [initial] at h
    rw [List.getElem?_replicate] at h
    split at h <;> simp_all
  · intro h; simp [initial] at h
  · intro h; simp [initial] at h

theorem getElem?_set_cases {α} (l : List α) (i j : Nat) (v a : α) (h : (l.set i v)[j]? = some a) :
    (j = i ∧ a = v) ∨ (j ≠ i ∧ l[j]? = some a) := by
  by_cases hji : j = i
  · subst hji
    left
    rw [List.getElem?_set_self'] at h
    cases hl : l[j]? with
    | none => simp [hl] at h
    | some x => simp [hl] at h; exact ⟨rfl, h.symm⟩
  · right
    rw [List.getElem?_set_ne (Ne.symm hji)] at h
    exact ⟨hji, h⟩

theorem inv_step (p : Params) (x : Nat → Nat) (s s' : Sys) (i : Nat) (hinv : Inv p s)
    (hs : step p x s i = some s') : Inv p s' := by
  unfold step at hs
  cases hpc : s.pcs[i]? with
  | none => simp [hpc] at hs
  | some pc =>
    simp only [hpc] at hs
    cases pc with
    | start =>
      simp only [stepPc] at hs
      cases ho : s.once with
      | notStarted =>
        simp only [ho] at hs; cases hs
        obtain ⟨hall, htab⟩ := hinv.ns ho
        refine ⟨by simp, ?_, by simp⟩
        intro _
        refine ⟨i, 0, ?_, Nat.zero_le _, ?_, htab⟩
        · have : i < s.pcs.length := by
            rcases Nat.lt_or_ge i s.pcs.length with h | h
            · exact h
            · rw [List.getElem?_eq_none h] at hpc; cases hpc
          simp [List.getElem?_set_self this]
        · intro j a hj hget
          rcases getElem?_set_cases _ _ _ _ _ hget with ⟨h1, _⟩ | ⟨_, h2⟩
          · exact absurd h1 hj
          · rw [hall j a h2]; rfl
      | running =>
        simp only [ho] at hs; cases hs
        obtain ⟨o, k, hok, hk, hq, htab⟩ := hinv.rn ho
        have hio : i ≠ o := by
          intro h; subst h; rw [hpc] at hok; cases hok
        refine ⟨by simp [ho], ?_, by simp [ho]⟩
        intro _
        refine ⟨o, k, ?_, hk, ?_, htab⟩
        · rw [List.getElem?_set_ne hio]; exact hok
        · intro j a hj hget
          rcases getElem?_set_cases _ _ _ _ _ hget with ⟨_, h1⟩ | ⟨_, h2⟩
          · subst h1; rfl
          · exact hq j a hj h2
      | finished =>
        simp only [ho] at hs; cases hs
        obtain ⟨hall, htab⟩ := hinv.fn ho
        refine ⟨by simp [ho], by simp [ho], ?_⟩
        intro _
        refine ⟨?_, htab⟩
        intro j a hget
        rcases getElem?_set_cases _ _ _ _ _ hget with ⟨_, h1⟩ | ⟨_, h2⟩
        · subst h1; rfl
        · exact hall j a h2
    | blocked =>
      simp only [stepPc] at hs
      split at hs
      · rename_i ho; cases hs
        obtain ⟨hall, htab⟩ := hinv.fn ho
        refine ⟨by simp [ho], by simp [ho], ?_⟩
        intro _
        refine ⟨?_, htab⟩
        intro j a hget
        rcases getElem?_set_cases _ _ _ _ _ hget with ⟨_, h1⟩ | ⟨_, h2⟩
        · subst h1; rfl
        · exact hall j a h2
      · cases hs
    | init k =>
      simp only [stepPc] at hs
      -- the initialiser: once must be running
      have ho : s.once = .running := by
        cases h : s.once with
        | notStarted => have := (hinv.ns h).1 i _ hpc; cases this
        | running => rfl
        | finished => have := (hinv.fn h).1 i _ hpc; simp [isInit] at this
      obtain ⟨o, k', hok, hk, hq, htab⟩ := hinv.rn ho
      have hio : i = o := by
        by_cases h : i = o
        · exact h
        · have := hq i _ h hpc; simp [quiet] at this
      subst hio
      rw [hpc] at hok; cases hok
      split at hs
      · rename_i hlt; cases hs
        refine ⟨by simp [ho], ?_, by simp [ho]⟩
        intro _
        refine ⟨i, k + 1, ?_, hlt, ?_, ?_⟩
        · have : i < s.pcs.length := by
            rcases Nat.lt_or_ge i s.pcs.length with h | h
            · exact h
            · rw [List.getElem?_eq_none h] at hpc; cases hpc
          simp [List.getElem?_set_self this]
        · intro j a hj hget
          rcases getElem?_set_cases _ _ _ _ _ hget with ⟨h1, _⟩ | ⟨_, h2⟩
          · exact absurd h1 hj
          · exact hq j a hj h2
        · show s.table.set k _ = _
          rw [htab]; exact partialTable_set p.cfg k hlt
      · rename_i hge; cases hs
        have hkeq : k = p.cfg.length := by omega
        refine ⟨by simp, by simp, ?_⟩
        intro _
        refine ⟨?_, ?_⟩
        · intro j a hget
          rcases getElem?_set_cases _ _ _ _ _ hget with ⟨_, h1⟩ | ⟨hj, h2⟩
          · subst h1; rfl
          · have := hq j a hj h2
            cases a <;> simp_all [quiet, isInit]
        · show s.table = built p
          rw [htab, hkeq, partialTable_full]; rfl
    | ready =>
      simp only [stepPc] at hs
      cases hs
      have ho : s.once = .finished := by
        cases h : s.once with
        | notStarted => have := (hinv.ns h).1 i _ hpc; cases this
        | running =>
          obtain ⟨o, k, hok, _, hq, _⟩ := hinv.rn h
          by_cases hio : i = o
          · subst hio; rw [hpc] at hok; cases hok
          · have := hq i _ hio hpc; simp [quiet] at this
        | finished => rfl
      obtain ⟨hall, htab⟩ := hinv.fn ho
      refine ⟨by simp [ho], by simp [ho], ?_⟩
      intro _
      refine ⟨?_, htab⟩
      intro j a hget
      rcases getElem?_set_cases _ _ _ _ _ hget with ⟨_, h1⟩ | ⟨_, h2⟩
      · subst h1; rfl
      · exact hall j a h2
    | reading k =>
      simp only [stepPc] at hs
      have ho : s.once = .finished := by
        cases h : s.once with
        | notStarted => have := (hinv.ns h).1 i _ hpc; cases this
        | running =>
          obtain ⟨o, k, hok, _, hq, _⟩ := hinv.rn h
          by_cases hio : i = o
          · subst hio; rw [hpc] at hok; cases hok
          · have := hq i _ hio hpc; simp [quiet] at this
        | finished => rfl
      obtain ⟨hall, htab⟩ := hinv.fn ho
      split at hs <;> cases hs
      all_goals
        refine ⟨by simp [ho], by simp [ho], ?_⟩
        intro _
        refine ⟨?_, htab⟩
        intro j a hget
        rcases getElem?_set_cases _ _ _ _ _ hget with ⟨_, h1⟩ | ⟨_, h2⟩
        · subst h1; rfl
        · exact hall j a h2
    | done r => simp only [stepPc] at hs; cases hs

theorem inv_run (p : Params) (x : Nat → Nat) (s : Sys) (sched : List Nat) (hinv : Inv p s) :
    Inv p (run p x s sched) := by
  induction sched generalizing s with
  | nil => exact hinv
  | cons i rest ih =>
    simp only [run]
    cases h : step p x s i with
    | none => simpa using ih s hinv
    | some s' => simpa using ih s' (inv_step p x s s' i hinv h)

theorem inv_no_conflict (p : Params) (s : Sys) (hinv : Inv p s) : ¬ conflict p s := by
  rintro ⟨i, j, a, b, hij, hi, hj, hw, hrest⟩
  -- a writer is an `init k` with k < length: once must be running and `i` the owner
  have ha : ∃ k, a = .init k := by cases a <;> simp [writesNext] at hw; exact ⟨_, rfl⟩
  obtain ⟨k, rfl⟩ := ha
  have ho : s.once = .running := by
    cases h : s.once with
    | notStarted => have := (hinv.ns h).1 i _ hi; cases this
    | running => rfl
    | finished => have := (hinv.fn h).1 i _ hi; simp [isInit] at this
  obtain ⟨o, k', hok, _, hq, _⟩ := hinv.rn ho
  have hio : i = o := by
    by_cases h : i = o
    · exact h
    · have := hq i _ h hi; simp [quiet] at this
  subst hio
  have hqb := hq j b (Ne.symm hij) hj
  cases b <;> simp [quiet, writesNext, readsNext] at hqb hrest

/-- every finished call computed its result from the fully built table -/
def resultsOK (p : Params) (x : Nat → Nat) (s : Sys) : Prop :=
  ∀ i r, s.pcs[i]? = some (.done r) → r = p.compute (built p) (x i)

theorem resultsOK_step (p : Params) (x : Nat → Nat) (s s' : Sys) (i : Nat) (hinv : Inv p s)
    (hr : resultsOK p x s) (hs : step p x s i = some s') : resultsOK p x s' := by
  intro j r hget
  unfold step at hs
  cases hpc : s.pcs[i]? with
  | none => simp [hpc] at hs
  | some pc =>
    simp only [hpc] at hs
    have key : ∀ (v : Pc) (tbl : List (Option Nat)) (o : OnceSt),
        s' = { once := o, table := tbl, pcs := s.pcs.set i v } → (∀ r', v ≠ .done r') → r = p.compute (built p) (x j) := by
      intro v tbl o hs' hv
      subst hs'
      rcases getElem?_set_cases _ _ _ _ _ hget with ⟨_, h1⟩ | ⟨_, h2⟩
      · exact absurd h1.symm (hv r)
      · exact hr j r h2
    cases pc with
    | start =>
      simp only [stepPc] at hs
      cases ho : s.once <;> simp only [ho] at hs <;> cases hs
      · exact key _ _ _ rfl (by intro r' h; cases h)
      · exact key _ _ _ rfl (by intro r' h; cases h)
      · exact key _ _ _ rfl (by intro r' h; cases h)
    | blocked =>
      simp only [stepPc] at hs
      split at hs
      · cases hs; exact key _ _ _ rfl (by intro r' h; cases h)
      · cases hs
    | init k =>
      simp only [stepPc] at hs
      split at hs <;> cases hs
      · exact key _ _ _ rfl (by intro r' h; cases h)
      · exact key _ _ _ rfl (by intro r' h; cases h)
    | ready => cases hs; exact key _ _ _ rfl (by intro r' h; cases h)
    | reading k =>
      simp only [stepPc] at hs
      split at hs
      · cases hs; exact key _ _ _ rfl (by intro r' h; cases h)
      · cases hs
        have ho : s.once = .finished := by
          cases h : s.once with
          | notStarted => have := (hinv.ns h).1 i _ hpc; cases this
          | running =>
            obtain ⟨o, k, hok, _, hq, _⟩ := hinv.rn h
            by_cases hio : i = o
            · subst hio; rw [hpc] at hok; cases hok
            · have := hq i _ hio hpc; simp [quiet] at this
          | finished => rfl
        have htab := (hinv.fn ho).2
        rcases getElem?_set_cases _ _ _ _ _ hget with ⟨h0, h1⟩ | ⟨_, h2⟩
        · cases h1; subst h0; rw [htab]
        · exact hr j r h2
    | done r' => simp only [stepPc] at hs; cases hs

theorem resultsOK_run (p : Params) (x : Nat → Nat) (s : Sys) (sched : List Nat) (hinv : Inv p s)
    (hr : resultsOK p x s) : resultsOK p x (run p x s sched) := by
  induction sched generalizing s with
  | nil => exact hr
  | cons i rest ih =>
    simp only [run]
    cases h : step p x s i with
    | none => simpa using ih s hinv hr
    | some s' => simpa using ih s' (inv_step p x s s' i hinv h) (resultsOK_step p x s s' i hinv hr h)

theorem resultsOK_initial (p : Params) (x : Nat → Nat) (n : Nat) : resultsOK p x (initial p n) := by
  intro i r h
  simp only [initial] at h
  rw [List.getElem?_replicate] at h
  split at h <;> simp_all

end GM.Once
