/-
  GM.Proof.CMFragSpec8 — the stage-8 fragment (paragraphs whose lines contain code spans) of GM.Spec.CMFrag inside
  the spec model GM.Spec.CommonMark:
  * `expectedR_eq_expected`: the prescribed HTML of a stage-8 document is `expected` of the embedded document;
  * `spellR_eq_spell`: for a NON-EMPTY stage-8 document without extra blank lines the source is `spell` of the
    embedded document, byte for byte (a code span of letters and digits is spelled with one backtick on each side:
    `spellCode_alnum8`).
-/
import GM.Proof.CMFragSpec7
namespace GM.Proof.CMFrag
open GM GM.Spec.CM GM.Spec.CMFrag

/-! ### S1: prescribed HTML -/

theorem expIs_append8 (a b : List Inline) : expIs (a ++ b) = expIs a ++ expIs b := by
  induction a with
  | nil => simp [expIs]
  | cons x rest ih => simp [expIs, ih]

theorem render_expI_atom8 (a : RAtom) : render (expI (rembedAtom a)) = expRAtom a := by
  cases a with
  | txt cs => simp [rembedAtom, expI, render, renderPiece, expRAtom]
  | code c =>
    have h1 : strBytes "<code>" = [60] ++ strBytes "code" ++ [62] := by decide +kernel
    have h2 : strBytes "</code>" = [60, 47] ++ strBytes "code" ++ [62] := by decide +kernel
    simp [rembedAtom, expI, wrap, render, renderPiece, expRAtom, h1, h2]

theorem render_expIs_line8 (l : RLine) : render (expIs (l.map rembedAtom)) = expRLine l := by
  induction l with
  | nil => simp [expIs, render, expRLine]
  | cons a rest ih =>
    rw [List.map_cons, expIs, render_append, ih, render_expI_atom8]
    simp [expRLine]

theorem render_expIs_rembedLines8 (ls : List RLine) :
    render (expIs (rembedLines ls)) = GM.Spec.CMFrag.joinNl (ls.map expRLine) := by
  induction ls with
  | nil => simp [rembedLines, expIs, render, GM.Spec.CMFrag.joinNl]
  | cons l rest ih =>
    cases rest with
    | nil => simp [rembedLines, GM.Spec.CMFrag.joinNl, render_expIs_line8]
    | cons l' rest =>
      have e : rembedLines (l :: l' :: rest) = l.map rembedAtom ++ .softBreak :: rembedLines (l' :: rest) := rfl
      rw [e, expIs_append8, render_append, render_expIs_line8, expIs, render_append, ih]
      simp [expI, render, renderPiece, nl, GM.Spec.CMFrag.joinNl]

theorem render_expB_rpara8 (ls : List RLine) (g : Nat) :
    render (expB false false (.para {} (rembedLines ls) 0)) = expRItem ⟨g, ls⟩ := by
  rw [expB]
  simp only [wrap, Bool.false_eq_true, if_false, List.cons_append]
  have h1 : strBytes "<p>" = [60] ++ strBytes "p" ++ [62] := by decide +kernel
  have h2 : strBytes "</p>\n" = [60, 47] ++ strBytes "p" ++ [62] ++ [10] := by decide +kernel
  rw [expRItem, h1, h2, ← render_expIs_rembedLines8]
  simp [render, renderPiece, nl]

theorem render_expBs_rembed8 (its : List RItem) :
    render (expBs false false (its.map fun it => .para {} (rembedLines it.lines) 0)) = its.flatMap expRItem := by
  induction its with
  | nil => simp [expBs, render]
  | cons it rest ih =>
    obtain ⟨g, ls⟩ := it
    rw [List.map_cons, expBs, render_append, ih]
    simp [render_expB_rpara8 ls g]

theorem expectedR_eq_expected_any8 (d : RDoc) : expectedR d = expected (rembed d) := by
  rw [expected, expectedPieces, rembed, expectedR, render_expBs_rembed8]

/-- S1 -/
theorem expectedR_eq_expected (d : RDoc) (_h : RFrag d) : expectedR d = expected (rembed d) :=
  expectedR_eq_expected_any8 d

/-! ### S2: source -/

/-! #### a code span of letters and digits: one backtick on each side -/

theorem maxRun_none8 (c : UInt8) (b : Bytes) (h : ∀ x ∈ b, x ≠ c) (acc : Nat × Nat) :
    (b.foldl (fun (acc : Nat × Nat) x => if x == c then (acc.1 + 1, max acc.2 (acc.1 + 1)) else (0, acc.2)) acc).2 =
      acc.2 := by
  induction b generalizing acc with
  | nil => rfl
  | cons x rest ih =>
    have hx : (x == c) = false := by simpa using h x (by simp)
    rw [List.foldl_cons, ih (fun y hy => h y (by simp [hy]))]
    simp [hx]

theorem alnum_facts8 : ∀ c : UInt8, isAlnumC c = true → c ≠ 96 ∧ c ≠ 32 ∧ printable c = true := by
  apply forall_uint8; decide +kernel

theorem spellCode_alnum8 (c : Bytes) (h : ∀ x ∈ c, isAlnumC x = true) : spellCode c 0 false = [96] ++ c ++ [96] := by
  have hr : maxRun 96 c = 0 := by
    rw [maxRun, maxRun_none8 96 c (fun x hx => (alnum_facts8 x (h x hx)).1)]
  have hh : (c.head? == some 96) = false := by
    cases c with
    | nil => rfl
    | cons x rest => simpa using (alnum_facts8 x (h x (by simp))).1
  have hl : (c.getLast? == some 96) = false := by
    cases hg : c.getLast? with
    | none => rfl
    | some z =>
      obtain ⟨ys, hys⟩ := List.getLast?_eq_some_iff.mp hg
      simpa using (alnum_facts8 z (h z (by rw [hys]; simp))).1
  have hs : (c.head? == some 32) = false := by
    cases c with
    | nil => rfl
    | cons x rest => simpa using (alnum_facts8 x (h x (by simp))).2.1
  simp [spellCode, hr, hh, hl, hs]

/-! #### `spellIs` on text, code spans and soft breaks: no dependence on the neighbours -/

def simple8 : Inline → Bool
  | .text _ => true
  | .code .. => true
  | .softBreak => true
  | _ => false

theorem spellI_simple8 (x : Inline) (h : simple8 x = true) (pa na : Bool) : spellI pa na x = spellI false false x := by
  cases x <;> first | (cases h; done) | simp only [spellI]

theorem spellIs_simple8 (ks : List Inline) (h : ∀ x ∈ ks, simple8 x = true) (pa : Bool) :
    spellIs pa ks = ks.flatMap (spellI false false) := by
  induction ks generalizing pa with
  | nil => simp [spellIs]
  | cons x rest ih =>
    simp only [spellIs]
    rw [spellI_simple8 x (h x (by simp)), ih (fun y hy => h y (by simp [hy]))]
    simp

theorem simple_rembedAtom8 (a : RAtom) : simple8 (rembedAtom a) = true := by cases a <;> rfl

theorem simple_rembedLines8 (ls : List RLine) : ∀ x ∈ rembedLines ls, simple8 x = true := by
  induction ls with
  | nil => simp [rembedLines]
  | cons l rest ih =>
    cases rest with
    | nil =>
      intro x hx
      simp only [rembedLines, List.mem_map] at hx
      obtain ⟨a, _, rfl⟩ := hx
      exact simple_rembedAtom8 a
    | cons l' rest =>
      have e : rembedLines (l :: l' :: rest) = l.map rembedAtom ++ .softBreak :: rembedLines (l' :: rest) := rfl
      intro x hx
      rw [e] at hx
      rcases List.mem_append.mp hx with hx | hx
      · obtain ⟨a, _, rfl⟩ := List.mem_map.mp hx
        exact simple_rembedAtom8 a
      · rcases List.mem_cons.mp hx with rfl | hx
        · rfl
        · exact ih x hx

theorem spellI_rembedAtom8 (a : RAtom) (h : ratomOK a = true) : spellI false false (rembedAtom a) = spellRAtom a := by
  cases a with
  | txt cs => simp only [rembedAtom, spellI, spellRAtom]
  | code c =>
    simp only [ratomOK, Bool.and_eq_true, List.all_eq_true] at h
    simp only [rembedAtom, spellI, spellRAtom, spellCode_alnum8 c h.2]

theorem flat_line8 (l : RLine) (h : ∀ a ∈ l, ratomOK a = true) :
    (l.map rembedAtom).flatMap (spellI false false) = spellRLine l := by
  induction l with
  | nil => rfl
  | cons a rest ih =>
    simp only [List.map_cons, List.flatMap_cons, spellRLine] at ih ⊢
    rw [spellI_rembedAtom8 a (h a (by simp)), ih (fun x hx => h x (by simp [hx]))]

theorem flat_rembedLines8 (ls : List RLine) (h : ∀ l ∈ ls, ∀ a ∈ l, ratomOK a = true) :
    (rembedLines ls).flatMap (spellI false false) = GM.Spec.CMFrag.joinNl (ls.map spellRLine) := by
  induction ls with
  | nil => simp [rembedLines, GM.Spec.CMFrag.joinNl]
  | cons l rest ih =>
    cases rest with
    | nil => simp [rembedLines, GM.Spec.CMFrag.joinNl, flat_line8 l (h l (by simp))]
    | cons l' rest =>
      have e : rembedLines (l :: l' :: rest) = l.map rembedAtom ++ .softBreak :: rembedLines (l' :: rest) := rfl
      rw [e, List.flatMap_append, List.flatMap_cons, flat_line8 l (h l (by simp)),
        ih (fun x hx => h x (by simp [hx]))]
      simp [spellI, GM.Spec.CMFrag.joinNl]

theorem spellIs_rembedLines8 (ls : List RLine) (h : ∀ l ∈ ls, ∀ a ∈ l, ratomOK a = true) (pa : Bool) :
    spellIs pa (rembedLines ls) = GM.Spec.CMFrag.joinNl (ls.map spellRLine) := by
  rw [spellIs_simple8 _ (simple_rembedLines8 ls), flat_rembedLines8 ls h]

/-! #### the lines of a document -/

theorem rlineOK_atoms_s8 (l : RLine) (h : rlineOK l = true) : ∀ a ∈ l, ratomOK a = true := by
  simp only [rlineOK, Bool.and_eq_true, List.all_eq_true] at h
  exact h.2

theorem spellRAtom_printable8 (a : RAtom) (h : ratomOK a = true) : (spellRAtom a).all printable = true := by
  cases a with
  | txt cs =>
    simp only [ratomOK, Bool.and_eq_true, List.all_eq_true] at h
    exact escSpell_printable cs (fun t ht => charOK_printable t (h.2 t ht))
  | code c =>
    simp only [ratomOK, Bool.and_eq_true, List.all_eq_true] at h
    simp only [spellRAtom, List.all_append, Bool.and_eq_true, List.all_eq_true]
    refine ⟨⟨by decide, fun x hx => (alnum_facts8 x (h.2 x hx)).2.2⟩, by decide⟩

theorem spellRLine_printable8 (l : RLine) (h : rlineOK l = true) : ∀ c ∈ spellRLine l, printable c = true := by
  intro c hc
  simp only [spellRLine, List.mem_flatMap] at hc
  obtain ⟨a, ha, hca⟩ := hc
  exact List.all_eq_true.mp (spellRAtom_printable8 a (rlineOK_atoms_s8 l h a ha)) c hca

theorem paraLines_rembed8 (ls : List RLine) (hne : ls ≠ []) (hok : ∀ l ∈ ls, rlineOK l = true) :
    (paraLines 0 0 (spellIs false (rembedLines ls))).map (renderLine 0 0 0 0) = ls.map spellRLine := by
  have hpr : ∀ b ∈ ls.map spellRLine, ∀ c ∈ b, printable c = true := by
    intro b hb c hc
    obtain ⟨l, hl, rfl⟩ := List.mem_map.mp hb
    exact spellRLine_printable8 l (hok l hl) c hc
  have hsplit := splitLines_joinNl (ls.map spellRLine) (by simpa using hne)
    (fun b hb c hc => (printable_facts c (hpr b hb c hc)).1)
  rw [paraLines, spellIs_rembedLines8 ls (fun l hl => rlineOK_atoms_s8 l (hok l hl)), hsplit]
  cases hls : ls.map spellRLine with
  | nil => simp at hls; exact absurd hls hne
  | cons f rest =>
    rw [hls] at hpr
    simp only [List.map_cons, List.map_map]
    congr 1
    · exact renderLine_plain f (fun c hc => (printable_facts c (hpr f (by simp) c hc)).2)
    · conv => rhs; rw [← List.map_id rest]
      apply List.map_congr_left
      intro b hb
      exact renderLine_plain b (fun c hc => (printable_facts c (hpr b (by simp [hb]) c hc)).2)

/-- the source lines of the items (a blank line in front of every item but the first) -/
def docLinesR8 (first : Bool) : List RItem → List Bytes
  | [] => []
  | it :: rest => (if first then [] else [[]]) ++ it.lines.map spellRLine ++ docLinesR8 false rest

theorem ritemOK_parts8 (it : RItem) (h : ritemOK it = true) : it.lines ≠ [] ∧ ∀ l ∈ it.lines, rlineOK l = true := by
  simp only [ritemOK, Bool.and_eq_true, Bool.not_eq_true', List.isEmpty_eq_false_iff, List.all_eq_true] at h
  exact h

theorem spellBs_rembed8 (its : List RItem) (hok : ∀ it ∈ its, ritemOK it = true) (prev pm : Nat) :
    (spellBs false false prev pm (its.map fun it => .para {} (rembedLines it.lines) 0)).map (renderLine 0 0 0 0) =
      docLinesR8 (prev == 0) its := by
  induction its generalizing prev pm with
  | nil => simp [spellBs, docLinesR8]
  | cons it rest ih =>
    obtain ⟨hne, hls⟩ := ritemOK_parts8 it (hok it (by simp))
    have hp := paraLines_rembed8 it.lines hne hls
    have ih' := ih (fun x hx => hok x (by simp [hx])) 1 0
    rw [List.map_cons, spellBs_para, List.map_append, List.map_append, hp, ih', docLinesR8]
    by_cases h0 : prev = 0
    · subst h0; simp
    · have : (prev == 0) = false := by simpa using h0
      simp [this, renderLine_blank]

theorem docLinesR_flatMap8 (its : List RItem) (hg : ∀ it ∈ its, it.gap = 0) (first : Bool) :
    (docLinesR8 first its).flatMap (· ++ [10]) = spellRItems first its := by
  induction its generalizing first with
  | nil => simp [docLinesR8, spellRItems]
  | cons it rest ih =>
    obtain ⟨g, ls⟩ := it
    have hg0 : g = 0 := hg ⟨g, ls⟩ (by simp)
    subst hg0
    rw [docLinesR8, spellRItems, List.flatMap_append, List.flatMap_append, ih (fun x hx => hg x (by simp [hx]))]
    cases first
    · simp [blanks, List.flatMap_map]
    · simp [blanks, List.flatMap_map]

theorem docLinesR_ne8 (it : RItem) (rest : List RItem) (h : ritemOK it = true) :
    docLinesR8 true (it :: rest) ≠ [] := by
  obtain ⟨hne, _⟩ := ritemOK_parts8 it h
  obtain ⟨g, ls⟩ := it
  cases ls with
  | nil => exact absurd rfl hne
  | cons l ls => simp [docLinesR8]

/-- S2: a non-empty stage-8 document without extra blank lines is spelled byte for byte like the embedded one -/
theorem spellR_eq_spell (d : RDoc) (h : RFrag d) (hb : rnoExtraBlanks d = true) (hne : d.items ≠ []) :
    spellR d = spell (rembed d) := by
  obtain ⟨items, trail⟩ := d
  simp only [rnoExtraBlanks, Bool.and_eq_true, beq_iff_eq, List.all_eq_true] at hb
  obtain ⟨ht, hg⟩ := hb
  simp only at ht hne; subst ht
  have hok : ∀ it ∈ items, ritemOK it = true := by
    have := h; simp only [RFrag, rfragB, List.all_eq_true] at this; exact this
  have hl := spellBs_rembed8 items hok 0 0
  cases items with
  | nil => exact absurd rfl hne
  | cons it rest =>
    have hdn := docLinesR_ne8 it rest (hok it (by simp))
    simp only [spell, rembed, spellR, blanks, List.replicate_zero, List.append_nil, if_true]
    rw [hl]
    simp only [beq_self_eq_true]
    rw [joinLines_flatMap _ hdn, docLinesR_flatMap8 _ hg]

end GM.Proof.CMFrag
