/-
  GM.Proof.ShiftSimEndD — C09 first half END TO END for an empty document `A` and EVERY `b` (lists included):
  `IndependentBlocks [] h b` for all `h`, `b`. As GM.Proof.ShiftSimEndC, over the shift invariance for all ten block
  parsers (GM.Proof.ShiftSimMainL).
-/
import GM.Proof.ShiftSimEndC
import GM.Proof.ShiftSimMainL

namespace GM.Blocks.Sh
open GM GM.Text GM.Spec GM.Proof.Reader GM.Blocks

/-- the two dumps that `indepPair [] h b` compares are equal: EVERY heading text `h`, EVERY `b` (lists included) -/
theorem independent_blocks_empty_all (h b : Bytes) :
    ∀ e g, indepPair [] h b = some (e, g) → e = g := by
  intro e g hp
  unfold indepPair at hp
  have hok : indepBytesOK [] h b = true := by
    cases hq : indepBytesOK [] h b with
    | true => rfl
    | false => rw [hq] at hp; simp at hp
  have hh := noLF_of_bytesOK hok
  simp only [hok, Bool.not_true, Bool.false_eq_true, if_false] at hp
  obtain ⟨sa, hsa, hna⟩ := run_nil
  obtain ⟨sh, hsh, _⟩ := run_ok_all (headingLine h)
  obtain ⟨sb, hsb, _⟩ := run_ok_all b
  obtain ⟨sd, hsd, _⟩ := run_ok_all (indepDoc [] h b)
  rw [hsa, hsh, hsb] at hp
  simp only at hp
  obtain ⟨hraw, hka⟩ := docKids_nil sa hna
  rw [hraw] at hp
  simp only [Bool.false_eq_true, if_false, hka] at hp
  rw [hsd] at hp
  -- the heading line alone
  rw [headingLine_eq] at hsh
  obtain ⟨n0, hn0, hnh⟩ := run_heading_line hh sh hsh
  -- the joined document
  rw [indepDoc_nil] at hsd
  obtain ⟨n1, stats'', s'', fuel'', dl, hn1, hnodes'', hstart, hcont⟩ := run_joined hh b sd hsd
  -- shift invariance from the line behind the blank line
  obtain ⟨sb', hsb', hrel⟩ := shift_invariance_all (frameB h n1 dl) (frameB_ok h n1 dl) (by simp [frameB]) b hstart fuel'' sd hcont
  rw [hsb] at hsb'
  cases hsb'
  -- the two headings: same node, line moved by one byte
  have hmove : n1 = { n0 with lines := n0.lines.map (moveSeg 1) } := by
    have := atxNodeOf_move (hlB h) { start := 0, stop := ((h.length + 3 : Nat) : Int) } 0 1
    have e : moveSeg 1 { start := 0, stop := ((h.length + 3 : Nat) : Int) } =
        ({ start := 1, stop := ((h.length + 4 : Nat) : Int) } : Segment) := by
      simp only [moveSeg, Segment.mk.injEq, and_true]
      omega
    rw [e, hn1, hn0] at this
    simp only [Except.map, Option.map_some, Except.ok.injEq, Option.some.injEq] at this
    exact this
  obtain ⟨hk0, hc0, _, _⟩ := atxNodeOf_shape hn0
  obtain ⟨hacb, hdlb, _⟩ := run_acyc b sb hsb
  have hold : sd.nodes.getD 1 default = { n1 with parent := some 0, blankPrev := true } := by
    have := hrel.old 1 (Nat.le_refl 1) (by simp [frameB])
    rw [this]
    simp [frameB, headStore]
  have hstr := indep_strings (frameB h n1 dl) sh sb sb.nodes sd.nodes
    { n0 with parent := some 0, blankPrev := true } { n1 with parent := some 0, blankPrev := true }
    (by rw [hnh]; rfl) rfl hrel (by simp [frameB]) (by simp [frameB]) hacb.1 hdlb hold
    (by simp [hc0]) (by rw [hmove]; simp [hc0]) (by rw [hmove]) (by rw [hmove]) rfl (by simp [hk0])
    (by rw [hmove])
  -- the shift of the `b` part is the length the statement uses
  have hd : (frameB h n1 dl).d = (([] : Bytes) ++ indepSep [] ++ headingLine h ++ [10]).length := by
    simp [Frame.d, frameB, hlB, indepSep, headingLine]
  have hk1 : ((([] : Bytes) ++ indepSep []).length : Int) = 1 := by simp [indepSep]
  rw [hd] at hstr
  split at hp
  · cases hp
  · simp only [Option.some.injEq, Prod.mk.injEq] at hp
    obtain ⟨he, hg⟩ := hp
    rw [← he, ← hg, hk1]
    exact hstr

end GM.Blocks.Sh
