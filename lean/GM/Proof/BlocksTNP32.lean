/-
  GM.Proof.BlocksTNP32 — GM.Proof.BlocksTNP24 (one `openBlocksT` call (both contract monitors)) for the wide transformer contract `PTsSpecX`
  (namespace `GM.Blocks.L.G.X`; same proofs over GM.Proof.BlocksTNP30/31).
-/
import GM.Proof.BlocksTNP31

namespace GM.Blocks.L.G.X
open GM GM.Text GM.Spec GM.Proof.Reader GM.Blocks.T GM.Blocks.TR


/-- what `openBlocksT` hands back (cf. `L.OBPostL`) -/
def OBPostG (src : Bytes) (old pre : List Block) (root : Nat) (s0 : St) (c : RCur) (res : OpenResult) (s' : St) : Prop :=
  ∃ c' new', RIa src s'.r c' ∧ c.p ≤ c'.p ∧ WinL src old pre root s0 s' new' ∧ Leafy new' ∧
    (∀ k ∈ new', ∀ b ∈ old, CompatT s' k b) ∧ (res = .paragraphContinuation → new' = [] ∧ s'.pc.opened = old) ∧
    (nd s' (lastNode root (pre ++ new'))).kind ≠ .list ∧ (new' = [] → s'.pc.opened = old → TreeSame s0 s') ∧ TL s' ∧
    (∀ k ∈ new', k.bp = .setext → s'.pc.opened = old.dropLast ++ new') ∧
    (∀ y, new'.getLast? = some y → y.bp.isContainer = false → LK s' y.node (lastNode root (pre ++ new'.dropLast))) ∧
    (old ≠ [] → s'.pc.opened = old.dropLast ++ new' → new' ≠ [])

/-- the state invariant at line boundaries -/
structure StableG (src : Bytes) (root : Nat) (s : St) : Prop where
  nodes : NodesOK src s
  keys : W.KeysOKF s
  blocks : ∀ b ∈ s.pc.opened, BlockOK s b
  leafy : Leafy s.pc.opened
  ls : LStore s root
  chain : ChainedO s root s.pc.opened
  endOK : (nd s (lastNode root s.pc.opened)).kind ≠ .list
  tl : TL s
  tree : TreeOK s
  leafLast : ∀ lb, s.pc.opened.getLast? = some lb → lb.bp.isContainer = false → ∃ q, LK s lb.node q
  tmplt : ∀ t, s.pc.tmpPara = some t → t < s.nodes.length

/-- what the retry loop carries besides the window -/
structure LoopInv (old pre : List Block) (root : Nat) (tdone cont : Bool) (s : St) (new : List Block) : Prop where
  tl : TL s
  sp : ∀ k ∈ new, k.bp = .setext → s.pc.opened = old.dropLast ++ new
  lk : ∀ y, new.getLast? = some y → y.bp.isContainer = false → LK s y.node (lastNode root (pre ++ new.dropLast))
  cop : cont = true → new = [] → s.pc.opened = old
  td : tdone = true → old ≠ [] ∧ s.pc.opened = old.dropLast ++ new
  np : tdone = false → new = [] → s.pc.opened = old
  tdc : tdone = true → cont = false

/-- what the retry behind a transformed paragraph knows about the (unchanged) line: it was a setext underline -/
structure BarInv (src : Bytes) (c : RCur) : Prop where
  vs : (RCur.view src c).isNone = false
  nl : ∀ b, ((RCur.view src c).getD [])[0]? = some b → (b == 10) = false
  w3 : ¬ (indentWidthI ((RCur.view src c).getD []) (loVal src c)).1 > 3
  nb : NonBlankSeg src (RCur.seg src c)

theorem para_mem_triggered (ch : UInt8) : BP.paragraph ∈ (triggered ch).getD freeParsers := by
  unfold triggered
  repeat' split
  all_goals simp [freeParsers]

theorem dropLast_ne {α} (l : List α) (h : l ≠ []) : l.dropLast ≠ l := by
  intro e
  have := congrArg List.length e
  rw [List.length_dropLast] at this
  have : l.length ≠ 0 := fun h0 => h (List.length_eq_zero_iff.1 h0)
  omega

theorem LoopInv.congr {old pre : List Block} {root : Nat} {tdone cont : Bool} {s s' : St} {new : List Block}
    (h : LoopInv old pre root tdone cont s new) (hn : s'.nodes = s.nodes) (ho : s'.pc.opened = s.pc.opened)
    (ht : s'.pc.tmpPara = s.pc.tmpPara) : LoopInv old pre root tdone cont s' new where
  tl := h.tl.ext (Ext.of_nodes_eq hn) ht (fun b hb hs => ⟨b, by rw [← ho]; exact hb, hs⟩)
  sp := fun k hk hs => by rw [ho]; exact h.sp k hk hs
  lk := fun y hy hl => (lk_tinv _ _).ts (TreeSame.of_nodes_eq hn) (h.lk y hy hl)
  cop := fun hc hn' => by rw [ho]; exact h.cop hc hn'
  td := fun ht' => by rw [ho]; exact h.td ht'
  np := fun a b => by rw [ho]; exact h.np a b
  tdc := h.tdc

variable {e : Panic} {pts : List PT}

section tp2
variable {src : Bytes} (lsp : LSp src) (hpts : PTsSpecX src e pts)
include lsp

theorem toContinuableL {old pre : List Block} {root : Nat} {s0 : St} {tdone : Bool} (cont : Bool) (result : OpenResult)
    (lastBlock : Option Block) (s : St) (c c0 : RCur) (new : List Block) (hri : RI src s.r c) (hpad : PadOK c)
    (hle : c0.p ≤ c.p) (hw : WinL src old pre root s0 s new) (hleafy : Leafy new)
    (hcompat : ∀ k ∈ new, ∀ b ∈ old, CompatT s k b)
    (hres : (result = .noBlocksOpened ∧ new = [] ∧ (s.pc.opened = old → lastBlock = old.getLast?)) ∨ (result = .newBlocksOpened ∧ new ≠ []))
    (hcont : cont = true → ∃ lb, old.getLast? = some lb ∧ lb.bp = .paragraph)
    (hend : (nd s (lastNode root (pre ++ new))).kind ≠ .list) (hplt : lastNode root (pre ++ new) < s.nodes.length)
    (htmp : LoopInv old pre root tdone cont s new)
    (hnpop : old ≠ [] → s.pc.opened = old.dropLast ++ new → new ≠ []) :
    OKE e (OBPostG src old pre root s0 c0) (toContinuable cont result lastBlock s) := by
  unfold toContinuable
  have fin : OKE e (OBPostG src old pre root s0 c0) ((pure result : M OpenResult) s) := by
    refine OKE.ok ⟨c, new, hri.toRIa, hle, hw, hleafy, hcompat, fun h => ?_, hend, hw.tsame, htmp.tl, htmp.sp, htmp.lk, hnpop⟩
    rcases hres with ⟨h', _⟩ | ⟨h', _⟩ <;> rw [h'] at h <;> cases h
  by_cases hc : (result == OpenResult.noBlocksOpened && cont) = true
  · rw [if_pos hc]
    simp only [Bool.and_eq_true, beq_iff_eq] at hc
    obtain ⟨hr, hct⟩ := hc
    obtain ⟨lb, hlast, hbp⟩ := hcont hct
    rcases hres with ⟨_, hnew, hlb⟩ | ⟨h', _⟩
    · subst hnew
      have hop : s.pc.opened = old := htmp.cop hct rfl
      rw [hlb hop, hlast]
      simp only []
      have hmem : lb ∈ s.pc.opened := by rw [hop]; exact List.mem_of_getLast? hlast
      obtain ⟨lnode, lbp⟩ := lb
      simp only at hbp
      subst hbp
      have hpc := W.paragraphContinue_spec' src lnode s c hri hpad hw.nodes hw.keys (hw.blocks _ hmem)
      have hpc' : OKL (fun st s1 => ContPost src .paragraph s c st s1 ∧ TreeSame s s1) (bpContinue .paragraph lnode s) := by
        rcases hpc with ⟨a, s1, e1, h1⟩ | e1
        · exact .inl ⟨a, s1, e1, h1, lsp.contTS .paragraph lnode s a s1 e1⟩
        · exact .inr e1
      refine OKE.bind (m := bpContinue .paragraph lnode) (OKE.of_okl hpc') (fun st s1 h1 => ?_)
      obtain ⟨h1, hts⟩ := h1
      obtain ⟨c1, hria, _, hle1, _, _⟩ := h1.ria
      have hwin : WinL src old pre root s0 s1 [] :=
        hw.same h1.ext h1.nodes hts (by rw [h1.pc]) (by rw [h1.pc]) (by rw [h1.pc])
      have fin' : ∀ r : OpenResult, OKE e (OBPostG src old pre root s0 c0) ((pure r : M OpenResult) s1) := fun r =>
        OKE.ok ⟨c1, [], hria, Nat.le_trans hle hle1, hwin, by intro b hb; simp at hb, by simp, fun _ => ⟨rfl, by rw [h1.pc]; exact hop⟩,
          by rw [(hts.same _).1]; exact hend, hwin.tsame,
          htmp.tl.ext h1.ext (by rw [h1.pc]) (fun b hb hs => ⟨b, by rw [← h1.pc]; exact hb, hs⟩),
          (fun k hk => by cases hk), (fun y hy => by cases hy),
          (fun hne ho' => absurd (by have := ho'; rw [h1.pc, hop] at this; simpa using this.symm) (dropLast_ne old hne))⟩
      by_cases hst : st.cont = true
      · rw [if_pos hst]; exact fin' _
      · rw [if_neg hst]; exact fin' _
    · rw [hr] at h'; cases h'
  · rw [if_neg hc]; exact fin



include hpts

theorem openBlocksLoopL {old pre : List Block} {root : Nat} {s0 : St} {c0 : RCur} (cl : Call old pre)
    (hll : ∀ lb, old.getLast? = some lb → lb.bp.isContainer = false → ∃ q, LK s0 lb.node q) (blank : Bool) :
    ∀ (fuel : Nat) (tdone cont : Bool) (parent : Nat) (result : OpenResult) (lb : Option Block) (s : St) (c : RCur) (new : List Block),
      (cont = true → ∃ lb, old.getLast? = some lb ∧ lb.bp = .paragraph) → RI src s.r c → PadOK c → c0.p ≤ c.p → WinL src old pre root s0 s new → LoopInv old pre root tdone cont s new → (tdone = true → new ≠ [] ∨ BarInv src c) → (∀ b ∈ new, b.bp.isContainer = true) →
      parent = lastNode root (pre ++ new) →
      ((result = .noBlocksOpened ∧ new = [] ∧ (s.pc.opened = old → lb = old.getLast?)) ∨ (result = .newBlocksOpened ∧ new ≠ [])) →
      ((nd s parent).kind = .list → Due src s c parent) →
      OKE e (OBPostG src old pre root s0 c0) (openBlocksLoopT pts blank fuel tdone cont parent result lb s) := by
  intro fuel
  induction fuel with
  | zero => intro _ _ _ _ _ _ _ _ _ _ _ _ _ _ _ _ _ _ _; exact .inl (.inr rfl)
  | succ fuel ih =>
    intro tdone cont parent result lb s c new hcont hri hpad hle hw htmp hbar hallc hq hres hmode
    have hcompat0 : ∀ (sX : St), ∀ k ∈ new, ∀ b ∈ old, CompatT sX k b :=
      fun _ k hk _ _ => CompatT.of_container_left (hallc k hk)
    unfold openBlocksLoopT
    refine OKE.bind (OKE.of_okl (peekLine_okl hri)) (fun x s1 hx => ?_)
    obtain ⟨hx, r1, hs1, h1⟩ := hx
    subst hx hs1
    simp only
    refine OKE.bind (OKE.of_okl (lineOffset_okl (s := { s with r := r1 }) h1)) (fun lo s2 hlo => ?_)
    obtain ⟨hlo, r2, hs2, h2⟩ := hlo
    subst hs2
    generalize hline : (RCur.view src c).getD [] = line
    have hb := indentWidthI_bounds line lo
    generalize hpos : (indentWidthI line lo).2 = pos at hb
    generalize hwd : (indentWidthI line lo).1 = wd
    refine OKE.bind (m := modPc _)
      (P := fun _ s3 => s3.r = r2 ∧ s3.nodes = s.nodes ∧ s3.pc.opened = s.pc.opened ∧ s3.pc.tmpPara = s.pc.tmpPara ∧
        s3.pc.fence = s.pc.fence ∧ s3.pc.skipList = s.pc.skipList ∧
        s3.pc.blockOffset = (if pos ≥ (line.length : Int) then -1 else pos))
      (OKE.ok ⟨rfl, rfl, by simp only; split <;> rfl, by simp only; split <;> rfl, by simp only; split <;> rfl,
        by simp only; split <;> rfl, by simp only; split <;> rfl⟩) (fun _ s3 h3 => ?_)
    obtain ⟨h3r, h3n, h3o, h3t, h3f, h3s, h3b⟩ := h3
    have hri3 : RI src s3.r c := by rw [h3r]; exact h2
    have hw3 : WinL src old pre root s0 s3 new := hw.congr h3n h3o h3t h3f
    have htmp3 : LoopInv old pre root tdone cont s3 new := htmp.congr h3n h3o h3t
    have hres3 : (result = .noBlocksOpened ∧ new = [] ∧ (s3.pc.opened = old → lb = old.getLast?)) ∨ (result = .newBlocksOpened ∧ new ≠ []) := by
      rw [h3o]; exact hres
    have hk3 : (nd s3 parent).kind = (nd s parent).kind := by rw [nd_eq_of_nodes_eq h3n]
    have hmode3 : (nd s3 parent).kind = .list → Due src s3 c parent := fun hk =>
      (hmode (by rw [← hk3]; exact hk)).congr' h3n h3o h3s
    have hplt3 : lastNode root (pre ++ new) < s3.nodes.length := by
      rcases lastNode_mem root (pre ++ new) with e | ⟨b, hb', e⟩
      · rw [e]; exact hw3.ls.rootLt
      · rw [e]
        obtain ⟨suf, es⟩ := hw3.stack
        refine (hw3.blocks b ?_).lt
        rw [es]
        rcases List.mem_append.1 hb' with h | h
        · exact List.mem_append_left _ (List.mem_append_left _ h)
        · exact List.mem_append_right _ h
    -- the exits before the parsers are tried: only when the parent is not a List
    have exit : (nd s3 parent).kind ≠ .list → (tdone = true → new = [] → False) → ∀ (r : OpenResult) (l : Option Block),
        ((r = .noBlocksOpened ∧ new = [] ∧ (s3.pc.opened = old → l = old.getLast?)) ∨ (r = .newBlocksOpened ∧ new ≠ [])) →
        OKE e (OBPostG src old pre root s0 c0) (toContinuable cont r l s3) := fun hk hx r l hr =>
      toContinuableL lsp cont r l s3 c c0 new hri3 hpad hle hw3 (leafy_of_all hallc) (hcompat0 s3) hr hcont
        (by rw [← hq]; exact hk) hplt3 htmp3 (fun hne ho' hn0 => by
          cases htdv : tdone with
          | true => exact hx htdv hn0
          | false =>
            have := htmp3.np htdv hn0
            rw [this, hn0, List.append_nil] at ho'
            exact dropLast_ne old hne ho'.symm)
    -- in a `Due` state the line is a list item: facts about it
    have hdueLine : (nd s3 parent).kind = .list → ∃ (m : M6) (typ : ListTyp) (ch : UInt8) (pre0 : List BP),
        matchesListItem line false = (m, typ) ∧ typ ≠ .notList ∧ pos = m.r1 ∧ wd = m.r1 ∧ m.r1 ≤ 3 ∧ 0 ≤ m.r1 ∧
        line[m.r1.toNat]? = some ch ∧ triggered ch = some (pre0 ++ [BP.list, BP.listItem] ++ freeParsers) ∧
        (∀ q ∈ pre0, q = BP.setext ∨ q = BP.thematic) ∧ (∀ i : Nat, (i : Int) < m.r1 → line[i]? = some 32) ∧ lo = loVal src c := by
      intro hk
      have hd := hmode3 hk
      have hlo' : lo = loVal src c := hlo hd.lt
      cases hmt : matchesListItem line false with
      | mk m typ =>
        have hmt' : matchesListItem (lineOf src c) false = (m, typ) := by rw [← hmt, ← hline]
        obtain ⟨htyp, _⟩ := hd.m m typ hmt'
        have ok := matchesListItem_ok line false m typ hmt htyp
        have hiw := det_indent_of_item line m typ lo hmt htyp
        obtain ⟨ch, l, hch, htg, pre0, hl, hp0⟩ := det_trigger_of_item line m typ hmt htyp
        refine ⟨m, typ, ch, pre0, rfl, htyp, ?_, ?_, ok.r1_le, ok.r1_ge, hch, by rw [htg, hl], hp0, ok.spaces, hlo'⟩
        · rw [← hpos, hiw]
        · rw [← hwd, hiw]
    by_cases hnone : (RCur.view src c).isNone = true
    · rw [if_pos hnone]
      refine exit (fun hk => ?_) (fun htd hn0 => by
        rcases hbar htd with h | h
        · exact h hn0
        · rw [h.vs] at hnone; cases hnone) _ _ hres3
      have := (hmode3 hk).lt
      rw [view_eq src c this] at hnone; simp at hnone
    rw [if_neg hnone]
    have hp : c.p < src.length := by
      rcases Nat.lt_or_ge c.p src.length with hp | hp
      · exact hp
      · rw [view_none src c (by omega)] at hnone; simp at hnone
    have hvl := view_length src c hp (view_eq src c hp)
    have hlen : 1 ≤ line.length := by rw [← hline, view_eq src c hp]; simp only [Option.getD_some]; omega
    obtain ⟨b0, hb0, hb0'⟩ := idx_ok line 0 (by omega) (by omega)
    refine OKE.bind (OKE.of_okl (liftE_okl (P := fun a s' => a = b0 ∧ s' = s3) hb0 ⟨rfl, rfl⟩)) (fun a sy hy => ?_)
    obtain ⟨ha, hsy⟩ := hy
    subst a sy
    by_cases hnl : (b0 == 10) = true
    · rw [if_pos hnl]
      refine exit (fun hk => ?_) (fun htd hn0 => by
        rcases hbar htd with h | h
        · exact h hn0
        · have := h.nl b0 (by rw [hline]; simpa using hb0')
          rw [this] at hnl; cases hnl) _ _ hres3
      obtain ⟨m, typ, ch, pre0, _, _, _, _, _, h0, hch, htg, _, hsp, _⟩ := hdueLine hk
      have hb10 : b0 = 10 := by simpa using hnl
      rcases Int.lt_or_le 0 m.r1 with hlt | hge
      · have := hsp 0 (by simpa using hlt)
        simp only [Int.toNat_zero] at hb0'
        rw [this] at hb0'; cases hb0'; cases hb10
      · have e0 : m.r1 = 0 := by omega
        rw [e0] at hch
        simp only [Int.toNat_zero] at hb0' hch
        rw [hch] at hb0'; cases hb0'
        rw [hb10, triggered_nl] at htg; cases htg
    rw [if_neg hnl]
    have hctx : LineCtx src s3 c := by
      refine ⟨hri3, hp, hpad, ?_, hw3.nodes⟩
      rw [h3b, hline]
      split
      · omega
      · omega
    -- the rest of the iteration, for the parser list `bps`
    have tail : ∀ bps : List BP,
        (((nd s3 parent).kind ≠ .list ∧
            (BP.list ∈ bps → ∃ pre0, bps = pre0 ++ [BP.list, BP.listItem] ++ freeParsers ∧
              ∀ q ∈ pre0, q = BP.setext ∨ q = BP.thematic) ∧
            (∀ (ch : UInt8) (l : List BP),
              (lineOf src c)[(indentWidthI (lineOf src c) (loVal src c)).2.toNat]? = some ch → triggered ch = some l →
                BP.list ∈ bps → l = bps)) ∨
          ((nd s3 parent).kind = .list ∧ ∃ (ch : UInt8) (pre0 : List BP),
            (lineOf src c)[(indentWidthI (lineOf src c) (loVal src c)).2.toNat]? = some ch ∧
            triggered ch = some (pre0 ++ [BP.list, BP.listItem] ++ freeParsers) ∧
            (∀ q ∈ pre0, q = BP.setext ∨ q = BP.thematic) ∧ bps = pre0 ++ [BP.list, BP.listItem] ++ freeParsers ∧ ¬ wd > 3)) →
        BP.paragraph ∈ bps →
        OKE e (OBPostG src old pre root s0 c0)
        (retryStepT pts blank tdone cont parent wd bps result lb (openBlocksLoopT pts blank fuel) s3) := by
      intro bps hbps hpb
      unfold retryStepT
      refine OKE.bind (m := get) (P := fun sb sy => sb = s3 ∧ sy = s3) (OKE.ok ⟨rfl, rfl⟩) (fun sb sy hy => ?_)
      obtain ⟨hsb, hsy⟩ := hy
      subst sb sy
      have htp : OKE e (TPPostG src old pre root s0 s3 c (tdone = true) new wd) (tryParsersT pts parent blank cont wd bps result lb s3) := by
        rcases hbps with ⟨hk, hst, htr⟩ | ⟨hk, ch, pre0, hch, htg, hp0, hbe, hw3'⟩
        · exact tryParsersL lsp hpts cl hll parent blank cont wd c bps hst htr bps [] rfl result lb s3 new hctx hw3 htmp3.tl
            (fun h => (htmp3.td h).2) (fun h => by
              rcases hbar h with h1 | h1
              · exact .inl h1
              · refine .inr ⟨hpb, htmp3.tdc h, ?_, h1.nb⟩
                have := h1.w3
                rw [hline, ← hlo hp, hwd] at this
                exact this) hallc hq hres3 hk
            rfl rfl (fun h => by cases h)
        · rw [hbe]
          exact tryItemL lsp hpts cl hll parent blank cont wd c pre0 hp0 ch hch htg hw3' pre0 [] rfl result lb s3 new hctx hw3 htmp3.tl
            (fun h => (htmp3.td h).2) hallc hq hres3 (hmode3 hk)
      refine OKE.bind htp (fun x s4 h4 => ?_)
      obtain ⟨outcome, res, lb'⟩ := x
      obtain ⟨c', new', hri4, hpad4, hle4, hw4, hres4, hcompat4, htl4, hsp4, hlk4, hdone4, hpp4, hnb4, hmust4, hout⟩ := h4
      have hplt4 : lastNode root (pre ++ new') < s4.nodes.length := by
        rcases lastNode_mem root (pre ++ new') with e | ⟨b, hb', e⟩
        · rw [e]; exact hw4.ls.rootLt
        · rw [e]
          obtain ⟨suf, es⟩ := hw4.stack
          refine (hw4.blocks b ?_).lt
          rw [es]
          rcases List.mem_append.1 hb' with h | h
          · exact List.mem_append_left _ (List.mem_append_left _ h)
          · exact List.mem_append_right _ h
      cases outcome with
      | retry p' =>
        simp only at hout ⊢
        obtain ⟨hallc4, hp4, hprog4, hne4⟩ := hout
        refine OKE.bind (m := get) (P := fun sb sy => sb = s4 ∧ sy = s4) (OKE.ok ⟨rfl, rfl⟩) (fun sb sy hy => ?_)
        obtain ⟨hsb, hsy⟩ := hy
        subst sb sy
        have hlt : retryMeasure s4 < retryMeasure s3 := by
          rcases hprog4 with ⟨hpr, _⟩ | ⟨hcc, hdn⟩
          · unfold retryMeasure
            rw [hri4.source, hri3.source, hri4.pos, hri3.pos]
            simp only [Int.toNat_natCast]
            have := hri4.inRange
            split <;> split <;> omega
          · subst hcc
            unfold retryMeasure
            rw [hri4.source, hri3.source, hri4.pos, hri3.pos]
            have h4l : lastIsList s4 = true := by
              obtain ⟨lbx, hl1, hl2⟩ := hdn.isLast
              unfold lastIsList
              rw [hl1]
              simp only
              have := hdn.kind
              rw [← hl2] at this
              simp only [nd] at this
              rw [this]; rfl
            rw [h4l, hdn.wasNotList]
            simp
        rw [if_neg (by simp [hlt])]
        refine ih tdone cont p' res lb' s4 c' new' hcont hri4 hpad4 (Nat.le_trans hle hle4) hw4
          ⟨htl4, hsp4, hlk4, fun _ hn => absurd hn hne4, fun h => ⟨(htmp3.td h).1, hpp4 h⟩, fun _ hn => absurd hn hne4,
            htmp3.tdc⟩ (fun _ => .inl hne4) hallc4 hp4 hres4 (fun hk => ?_)
        rcases hprog4 with ⟨_, hnk⟩ | ⟨hcc, hdn⟩
        · exact absurd hk hnk
        · subst hcc
          refine ⟨hp, hdn.kind, fun m typ he => ?_, hdn.th, .inr ?_⟩
          · obtain ⟨m', typ', he', ht', hr'⟩ := hdn.m
            rw [he'] at he; cases he
            have : li_lastOff s4 p' = 0 := by unfold li_lastOff; rw [hdn.noKids]; rfl
            rw [this]
            exact ⟨ht', by omega⟩
          · obtain ⟨lbx, hl1, hl2⟩ := hdn.isLast
            exact ⟨lbx, hl1, by rw [hl2]; exact hdn.kind⟩
      | retryTransformed =>
        simp only at hout ⊢
        obtain ⟨hn4, hne4, hop4, hsb4, hlil4, ⟨lbp, hlbp1, hlbp2⟩, hkl4, hcc4, ⟨chb, hbarm⟩, hw34⟩ := hout
        subst hcc4
        refine OKE.bind (m := get) (P := fun sb sy => sb = s4 ∧ sy = s4) (OKE.ok ⟨rfl, rfl⟩) (fun sb sy hy => ?_)
        obtain ⟨hsb, hsy⟩ := hy
        subst sb sy
        have hdl : old.dropLast ≠ old := dropLast_ne old hne4
        have htdf : tdone = false := by
          cases htd : tdone with
          | false => rfl
          | true =>
            exfalso
            obtain ⟨_, hpo⟩ := htmp3.td htd
            rw [hsb4] at hpo
            cases hgl : new.getLast? with
            | none =>
              have : new = [] := List.getLast?_eq_none_iff.1 hgl
              rw [this, List.append_nil] at hpo
              exact hdl hpo.symm
            | some y =>
              have h1 : old.getLast? = some y := by
                rw [hpo, List.getLast?_append, hgl]; rfl
              rw [hlbp1] at h1; cases h1
              have := hallc lbp (List.mem_of_getLast? hgl)
              rw [hlbp2] at this; cases this
        have hle2 : retryMeasure s4 ≤ retryMeasure s3 := by
          unfold retryMeasure
          rw [hri4.source, hri3.source, hri4.pos, hri3.pos, hlil4]
          simp only [Int.toNat_natCast]
          split <;> simp <;> omega
        rw [if_neg (by simp [htdf, hle2])]
        subst hn4
        have hnew0 : new = [] := hnb4 rfl
        subst hnew0
        exact ih true false parent res lb' s4 c' [] (fun h => by cases h) hri4 hpad4 (Nat.le_trans hle hle4) hw4
          ⟨htl4, (fun k hk => by cases hk), (fun y hy => by cases hy), (fun h => by cases h), (fun _ => ⟨hne4, by rw [hop4]; simp⟩),
            (fun h => by cases h), (fun _ => rfl)⟩
          (fun _ => .inr ⟨Bool.eq_false_iff.2 hnone, fun b hb => by
              rw [hline] at hb
              have : b = b0 := by simpa [hb] using hb0'
              rw [this]; simpa using hnl, by
              have := hw34
              rw [← hwd, hlo hp, ← hline] at this
              exact this, bar_nonblank src c' hp chb hbarm⟩)
          (by simp) hq hres4 (fun hk => absurd (hq ▸ hk) hkl4)
      | done =>
        simp only at hout ⊢
        exact toContinuableL lsp cont res lb' s4 c' c0 new' hri4 hpad4 (Nat.le_trans hle hle4) hw4 hout.1 hcompat4 hres4 hcont
          hout.2 hplt4 ⟨htl4, hsp4, hlk4, fun hc hn' => by rw [hdone4 hn' rfl]; exact htmp3.cop hc (hnb4 hn'),
            fun h => ⟨(htmp3.td h).1, hpp4 h⟩, fun h hn' => by rw [hdone4 hn' rfl]; exact htmp3.np h (hnb4 hn'), htmp3.tdc⟩
          (fun hne ho' hn0 => by
            cases htdv : tdone with
            | true => exact hmust4 htdv (by simp) hn0
            | false =>
              have h1 := hdone4 hn0 rfl
              rw [htmp3.np htdv (hnb4 hn0)] at h1
              rw [h1, hn0, List.append_nil] at ho'
              exact dropLast_ne old hne ho'.symm)
    -- which parsers
    have hlineOf : lineOf src c = line := hline
    by_cases hpl : pos < (line.length : Int)
    · rw [if_pos hpl]
      obtain ⟨b1, hb1, hb1'⟩ := idx_ok line pos hb.1 hpl
      refine OKE.bind (OKE.of_okl (liftE_okl (P := fun a s' => a = b1 ∧ s' = s3) hb1 ⟨rfl, rfl⟩)) (fun a sy hy => ?_)
      obtain ⟨ha, hsy⟩ := hy
      subst a sy
      simp only [pure_bind]
      refine tail _ ?_ (para_mem_triggered b1)
      by_cases hk : (nd s3 parent).kind = .list
      · right
        obtain ⟨m, typ, ch, pre0, _, _, hpm, hwm, hr3, _, hch, htg, hp0, _, hlo'⟩ := hdueLine hk
        have hchb : ch = b1 := by rw [← hpm] at hch; rw [hch] at hb1'; cases hb1'; rfl
        subst hchb
        refine ⟨hk, ch, pre0, ?_, htg, hp0, by rw [htg]; rfl, by rw [hwm]; omega⟩
        rw [hlineOf, ← hlo', hpos, hpm]; exact hch
      · left
        refine ⟨hk, ?_, ?_⟩
        · intro hl
          cases htr : triggered b1 with
          | none => rw [htr] at hl; exact absurd hl (by decide)
          | some l => rw [htr] at hl; exact det_triggered_list b1 l htr hl
        · intro ch l hch htg hl
          by_cases hlo' : lo = loVal src c
          · rw [hlineOf, ← hlo', hpos] at hch
            rw [hch] at hb1'; cases hb1'
            rw [htg]; rfl
          · exact absurd (hlo hp) hlo'
    · rw [if_neg hpl]
      simp only [pure_bind]
      refine tail _ ?_ (by decide)
      by_cases hk : (nd s3 parent).kind = .list
      · exfalso
        obtain ⟨m, typ, ch, pre0, _, _, hpm, _, _, h0, hch, _⟩ := hdueLine hk
        have : m.r1.toNat < line.length := by
          rcases Nat.lt_or_ge m.r1.toNat line.length with h | h
          · exact h
          · rw [List.getElem?_eq_none h] at hch; cases hch
        omega
      · left
        exact ⟨hk, fun hl => absurd hl (by decide), fun _ _ _ _ hl => absurd hl (by decide)⟩



theorem openBlocksL {root : Nat} (pre : List Block) (parent : Nat) (blank : Bool) (s : St) (c : RCur)
    (hri : RI src s.r c) (hpad : PadOK c) (hst : StableG src root s) (cl : Call s.pc.opened pre)
    (hpar : parent = lastNode root pre) (hmode : (nd s parent).kind = .list → Due src s c parent) :
    OKE e (OBPostG src s.pc.opened pre root s c) (openBlocksT pts parent blank s) := by
  unfold openBlocksT
  refine OKE.bind (m := lastOpenedBlock) (P := fun lb s1 => lb = s.pc.opened.getLast? ∧ s1 = s) (OKE.ok ⟨rfl, rfl⟩)
    (fun lb0 sx hlb => ?_)
  obtain ⟨hlb0, hsx⟩ := hlb
  subst sx
  have hw : WinL src s.pc.opened pre root s s [] := by
    obtain ⟨suf0, e0, _⟩ := cl.pref
    refine ⟨hst.nodes, hst.keys, ExtW.refl s, .inl (by simp), hst.blocks, fun b hb => (hst.blocks b hb).lt, hst.leafy, by simp,
      hst.ls, ?_, ⟨suf0, by simp [← e0]⟩, fun _ _ => TreeSame.refl s, hst.tree, hst.tmplt⟩
    rw [List.append_nil]
    have := hst.chain
    rw [e0, chainedO_append] at this
    exact this.1
  have run : ∀ cont : Bool, (cont = true → ∃ lb, s.pc.opened.getLast? = some lb ∧ lb.bp = .paragraph) →
      OKE e (OBPostG src s.pc.opened pre root s c)
        ((do let v ← source; openBlocksLoopT pts blank (retryFuel v) false cont parent OpenResult.noBlocksOpened lb0) s) := by
    intro cont hcont
    refine OKE.bind (m := source) (P := fun v sy => v = s.r.source ∧ sy = s) (OKE.ok ⟨rfl, rfl⟩) (fun v sy hy => ?_)
    obtain ⟨hv, hsy⟩ := hy
    subst v sy
    exact openBlocksLoopL lsp hpts cl hst.leafLast blank _ false cont parent .noBlocksOpened lb0 s c [] hcont hri hpad (Nat.le_refl _) hw
      ⟨hst.tl, (fun k hk => by cases hk), (fun y hy => by cases hy), (fun _ _ => rfl), (fun h => by cases h), (fun _ _ => rfl), (fun h => by cases h)⟩ (fun h => by cases h) (by simp) (by rw [List.append_nil]; exact hpar) (.inl ⟨rfl, rfl, fun _ => hlb0⟩) hmode
  cases hl : lb0 with
  | none =>
    simp only [pure_bind]
    rw [← hl]
    exact run false (fun h => by cases h)
  | some lb =>
    simp only []
    refine OKE.bind (m := getNode lb.node)
      (P := fun v sy => v = nd s lb.node ∧ sy = s) (OKE.ok ⟨rfl, rfl⟩) (fun v sy hy => ?_)
    obtain ⟨hv, hsy⟩ := hy
    subst v sy
    simp only [pure_bind]
    rw [← hl]
    refine run _ (fun h => ?_)
    have hlast : s.pc.opened.getLast? = some lb := by rw [← hlb0, hl]
    have hk := (hst.blocks lb (List.mem_of_getLast? hlast)).kind
    have : (nd s lb.node).kind = Kind.paragraph := by simpa using h
    rw [this] at hk
    exact ⟨lb, hlast, kind_paragraph hk.symm⟩


end tp2


end GM.Blocks.L.G.X
