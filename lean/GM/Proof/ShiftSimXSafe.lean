/-
  GM.Proof.ShiftSimXSafe — the POSITIONAL class of first parts: what matters for the parsers that get tried on a line is
  the byte `openBlocks` looks up (`p.blockParsers[line[pos]]`, `pos` = the first byte that is not a space / tab of what
  is left of the line). Run A's cursor is "trigger-safe" when everything of the line in front of it is quote markers
  and spaces (so that byte is the first byte of the line that is not ` `, tab or `>`), or when the rest of the line is
  blank. `PlainL b`: the first byte of every line that is not a space, a tab or `>` is not a trigger of a list parser,
  the setext parser or the fenced-code parser. Digits, dashes, equal signs … INSIDE lines are allowed.
-/
import GM.Proof.ShiftSimXPara

namespace GM.Blocks.Xs
open GM GM.Text GM.Spec GM.Proof.Reader GM.Blocks

/-- a space, a tab or `>` -/
def QuoteByte (x : UInt8) : Prop := x = 32 ∨ x = 9 ∨ x = 62

/-- all bytes of the cursor's line in front of the cursor are spaces, tabs or `>` -/
def PreC (b : Bytes) (c : RCur) : Prop :=
  ∀ i, lineStart b c.p ≤ i → i < c.p → ∃ x, b[i]? = some x ∧ QuoteByte x

/-- the cursor is trigger-safe -/
def TSafe (b : Bytes) (c : RCur) : Prop := PreC b c ∨ isBlank ((RCur.view b c).getD []) = true

/-- run A's reader is well-formed and trigger-safe -/
def TS (b : Bytes) (s : St) : Prop := ∃ c, RI b s.r c ∧ TSafe b c

/-- run A has a line and its cursor is trigger-safe: what the driver of the right-extension simulation threads -/
def HL (b : Bytes) (s : St) : Prop := HasLine b s ∧ TS b s

/-- not a trigger of listParser / listItemParser / setextHeadingParser / fencedCodeBlockParser -/
def NonTrig (ch : UInt8) : Prop :=
  ch ≠ 45 ∧ ch ≠ 42 ∧ ch ≠ 43 ∧ isNumeric ch = false ∧ ch ≠ 61 ∧ ch ≠ 96 ∧ ch ≠ 126

/-- **the positional class**: a byte whose line consists of spaces, tabs and `>` in front of it is not a trigger — i.e.
    no line starts, after its quote markers and indentation, with `- * + 0-9 = ` ~` -/
def PlainL (b : Bytes) : Prop :=
  ∀ j ch, b[j]? = some ch → (∀ i, lineStart b j ≤ i → i < j → ∃ x, b[i]? = some x ∧ QuoteByte x) → NonTrig ch

/-- at a trigger-safe cursor the byte `openBlocks` looks up selects covered parsers only -/
def TrigAt (b : Bytes) (Cov : BP → Prop) : Prop :=
  (∀ bp ∈ freeParsers, Cov bp) ∧
  ∀ (c : RCur) (l : Bytes) (lo : Int) (ch : UInt8), c.p ≤ b.length → TSafe b c → RCur.view b c = some l →
    idx l (indentWidthI l lo).2 = .ok ch → ∀ bp ∈ (triggered ch).getD freeParsers, Cov bp

end GM.Blocks.Xs
