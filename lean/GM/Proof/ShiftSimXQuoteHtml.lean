/-
  GM.Proof.ShiftSimXQuoteHtml — the block quote parser (parser/blockquote.go) and the HTML block parser
  (parser/html_block.go) under the shift simulation (contracts of GM.Proof.ShiftSimXPara).
-/
import GM.Proof.ShiftSimXPara
import GM.Proof.BlocksInv
import GM.Proof.BlocksQuote

namespace GM.Blocks.Xs
open GM GM.Text GM.Spec GM.Proof.Reader GM.Blocks

theorem qh_indentWidthGo_pos_nonneg (cur : Int) : ∀ (bs : Bytes) (w p : Int), 0 ≤ p → 0 ≤ (indentWidthGo cur bs w p).2 := by
  intro bs
  induction bs with
  | nil => intro w p hp; exact hp
  | cons c cs ih =>
    intro w p hp
    unfold indentWidthGo
    split
    · exact ih _ _ (by omega)
    · split
      · exact ih _ _ (by omega)
      · exact hp

theorem qh_indentWidthI_pos_nonneg (bs : Bytes) (cur : Int) : 0 ≤ (indentWidthI bs cur).2 :=
  qh_indentWidthGo_pos_nonneg cur bs 0 0 (by omega)

theorem qh_SRLim_of_l {F b sA sB sA' sB'} (h : SRLim F b sA sB) (h' : SRL F b sA.r sB.r sA' sB') : SRLim F b sA' sB' := by
  have ea := h'.ra
  have eb := h'.rb
  unfold SRLim
  rw [ea, eb]
  exact ⟨h', h.2⟩

/-! ### cursor-tracking forms of the reader primitives, and the last byte of a line -/

theorem qh_lineOffset_p2c {F b sA sB} (h : SR F b sA sB) {c : RCur} (hc : RI b sA.r c) :
    P2 (fun x y sA' sB' => y = x ∧ RI b sA'.r c ∧ SR F b sA' sB') (lineOffset sA) (lineOffset sB) := by
  obtain ⟨v, r', h1, h2, _⟩ := ri_lineOffset hc
  have hB : sB.r.lineOffsetOp = .ok (v, shR F r') := by
    rw [h.r, lineOffsetOp_sh F _ hc.head
      (.inr (by have := hc.inRange; rw [hc.source, hc.pos]; simp only; omega)), h1]; rfl
  unfold GM.Blocks.lineOffset
  rw [h1, hB]
  exact P2.ok ⟨rfl, h2, h.withR h2⟩

theorem qh_peekLine_p2c {F b sA sB} (h : SR F b sA sB) {c : RCur} (hc : RI b sA.r c)
    (hq : F.q = [] ∨ c.p < b.length) :
    P2 (fun x y sA' sB' => RI b sA'.r c ∧ x = (RCur.view b c, RCur.seg b c) ∧ y = (x.1, moveSeg F.d x.2) ∧
        SR F b sA' sB') (peekLine sA) (peekLine sB) := by
  obtain ⟨r', h1, h2⟩ := ri_peekLine hc
  have hB : sB.r.peekLine = .ok ((RCur.view b c, moveSeg F.d (RCur.seg b c)), shR F r') := by
    rw [h.r, peekLine_sh F _ (RI.start_nonneg hc) (RI.peek_hq hc (hq.imp id (fun x => ⟨c, hc, x⟩))), h1]; rfl
  unfold GM.Blocks.peekLine
  rw [h1, hB]
  exact P2.ok ⟨h2, rfl, rfl, h.withR h2⟩

theorem qh_advance_p2c {F b sA sB} (h : SR F b sA sB) {c : RCur} (hc : RI b sA.r c) {n : Int} (hn : 0 ≤ n)
    (hq : F.q = [] ∨ (sA.r.pos.start < sA.r.pos.stop ∧ sA.r.pos.start + n < sA.r.pos.stop + sA.r.pos.padding)) :
    P2 (fun _ _ sA' sB' => RI b sA'.r (RCur.advN b n.toNat c) ∧ SR F b sA' sB') (advance n sA) (advance n sB) := by
  obtain ⟨r', h1, h2⟩ := ri_advance hc hn
  have hB : sB.r.advance n = .ok (shR F r') := by
    rw [h.r, advance_sh F _ n (RI.start_nonneg hc) (RI.stop_nonneg hc) (hq.imp id (RI.noLF hc)), h1]; rfl
  unfold GM.Blocks.advance
  rw [h1, hB]
  exact P2.ok ⟨h2, h.withR h2⟩

theorem qh_lineLen_last : ∀ l : Bytes, l.getLast? = some 10 → 1 ≤ lineLen l ∧ l[lineLen l - 1]? = some 10 := by
  intro l
  induction l with
  | nil => intro h; cases h
  | cons c cs ih =>
    intro h
    simp only [lineLen]
    by_cases hc : (c == 10) = true
    · rw [if_pos hc]; simp only [beq_iff_eq] at hc; subst hc; exact ⟨Nat.le_refl _, rfl⟩
    · rw [if_neg hc]
      cases cs with
      | nil => simp only [List.getLast?_singleton, Option.some.injEq] at h; subst h; exact absurd rfl hc
      | cons d ds =>
        obtain ⟨h1, h2⟩ := ih (by rw [List.getLast?_cons_cons] at h; exact h)
        refine ⟨by omega, ?_⟩
        have : 1 + lineLen (d :: ds) - 1 = (lineLen (d :: ds) - 1) + 1 := by omega
        rw [this, List.getElem?_cons_succ]; exact h2

theorem qh_lineEnd_last (b : Bytes) (hnl : b.getLast? = some 10) {p : Nat} (hp : p < b.length) :
    b[lineEnd b p - 1]? = some 10 := by
  have h := qh_lineLen_last (b.drop p) (by rw [List.getLast?_drop, if_neg (by omega)]; exact hnl)
  unfold lineEnd
  rw [if_pos (by omega)]
  have h2 := h.2
  rw [List.getElem?_drop] at h2
  have e : p + lineLen (b.drop p) - 1 = p + (lineLen (b.drop p) - 1) := by omega
  rw [e]; exact h2

/-- the last byte of a line view is the line feed when the source ends with one -/
theorem qh_view_last (b : Bytes) (hnl : b.getLast? = some 10) (c : RCur) (hp : c.p < b.length) :
    ((RCur.view b c).getD [])[c.pad + (lineEnd b c.p - c.p) - 1]? = some 10 := by
  have hle := lineEnd_le b c.p
  have hlt := lt_lineEnd b hp
  rw [view_eq b c hp]
  simp only [Option.getD_some]
  rw [List.getElem?_append_right (by simp [spaces]; omega)]
  simp only [spaces, List.length_replicate, sub]
  rw [List.getElem?_take_of_lt (by omega), List.getElem?_drop]
  have e : c.p + (c.pad + (lineEnd b c.p - c.p) - 1 - c.pad) = lineEnd b c.p - 1 := by omega
  rw [e]; exact qh_lineEnd_last b hnl hp

theorem qh_view_not_last (b : Bytes) (hnl : b.getLast? = some 10) (c : RCur) (hp : c.p < b.length) {i : Nat} {x : UInt8}
    (hx : ((RCur.view b c).getD [])[i]? = some x) (hne : x ≠ 10) : i + 2 ≤ ((RCur.view b c).getD []).length := by
  have hlen := view_getD_length_nat b c hp
  have hlast := qh_view_last b hnl c hp
  obtain ⟨hi, _⟩ := List.getElem?_eq_some_iff.mp hx
  apply Decidable.byContradiction
  intro hcon
  have e : c.pad + (lineEnd b c.p - c.p) - 1 = i := by omega
  rw [e, hx] at hlast
  cases hlast
  exact hne rfl

theorem qh_trimRight_pos (l : Bytes) (h : l.getLast? = some 10) : 1 ≤ trimRightSpaceLength l := by
  unfold trimRightSpaceLength
  rw [List.getLast?_eq_head?_reverse] at h
  cases hr : l.reverse with
  | nil => rw [hr] at h; cases h
  | cons a t =>
    rw [hr] at h
    simp only [List.head?_cons, Option.some.injEq] at h
    subst h
    simp [List.takeWhile_cons, isSpace]

theorem qh_view_trimRight_pos (b : Bytes) (hnl : b.getLast? = some 10) (c : RCur) (hp : c.p < b.length) :
    1 ≤ trimRightSpaceLength ((RCur.view b c).getD []) := by
  apply qh_trimRight_pos
  rw [List.getLast?_eq_getElem?, view_getD_length_nat b c hp]
  exact qh_view_last b hnl c hp

theorem qh_idx_ok {l : Bytes} {i : Int} {c : UInt8} (h : idx l i = .ok c) : 0 ≤ i ∧ l[i.toNat]? = some c := by
  unfold idx getByte at h
  by_cases hn : i < 0
  · rw [if_pos hn] at h; cases h
  · rw [if_neg hn] at h
    cases hx : l[i.toNat]? with
    | none => rw [hx] at h; cases h
    | some x => rw [hx] at h; cases h; exact ⟨by omega, rfl⟩

theorem qh_QNL_of_NL {F : Frame} {b : Bytes} {s : St} (hl : HasLine b s) (hnl : NL b) : b.getLast? = some 10 := by
  obtain ⟨c, _, hp⟩ := hl
  rcases hnl with e | e
  · subst e; simp at hp
  · exact e

/-! ### blockquote.go -/

theorem blockquoteProcess_p2 {F b sA sB} (hq : QNL F b) (h : SR F b sA sB) (hl : HasLine b sA) :
    P2 (fun x y sA' sB' => y = x ∧ SR F b sA' sB') (blockquoteProcess sA) (blockquoteProcess sB) := by
  unfold blockquoteProcess
  obtain ⟨c, hc0, hp⟩ := hl
  refine P2.bind (qh_peekLine_p2c h hc0 (.inr hp)) (fun x y sA1 sB1 ⟨hc, hx, hy, h1⟩ => ?_)
  subst hx hy
  simp only
  refine P2.bind (qh_lineOffset_p2c h1 hc) (fun lo lo' sA2 sB2 ⟨hlo, hri2, h2⟩ => ?_)
  subst hlo
  have hlen := view_getD_length_nat b c hp
  have hlast : b.getLast? = some 10 → ∀ (i : Nat) (x : UInt8), ((RCur.view b c).getD [])[i]? = some x → x ≠ 10 →
      i + 2 ≤ ((RCur.view b c).getD []).length := fun hnl i x hx hne => qh_view_not_last b hnl c hp hx hne
  have hle0 := lt_lineEnd b hp
  generalize (RCur.view b c).getD [] = line at hlen hlast ⊢
  have hpos : 0 ≤ (indentWidthI line lo').2 + 1 := by have := qh_indentWidthI_pos_nonneg line lo'; omega
  have hpos0 : 0 ≤ (indentWidthI line lo').2 := qh_indentWidthI_pos_nonneg line lo'
  generalize (indentWidthI line lo').2 = pos at hpos hpos0
  generalize (indentWidthI line lo').1 = w
  have hrange : ∀ sA3 : St, RI b sA3.r c → pos + 1 < (line.length : Int) →
      (sA3.r.pos.start < sA3.r.pos.stop ∧ sA3.r.pos.start + (pos + 1) < sA3.r.pos.stop + sA3.r.pos.padding) := by
    intro sA3 hc3 hlt
    rw [hc3.pos]; simp only; omega
  have advT : ∀ sA3 sB3, SR F b sA3 sB3 → RI b sA3.r c → (F.q = [] ∨ pos + 1 < (line.length : Int)) →
      P2 (fun x y sA' sB' => y = x ∧ SR F b sA' sB')
      ((do advance (pos + 1); pure true : M Bool) sA3) ((do advance (pos + 1); pure true : M Bool) sB3) := by
    intro sA3 sB3 h3 hc3 hq3
    refine P2.bind (advance_p2 h3 rfl hpos (hq3.imp id (hrange _ hc3))) (fun _ _ sA4 sB4 h4 => ?_)
    exact P2.pure ⟨rfl, h4⟩
  by_cases hc1 : (decide (w > 3) || decide (pos ≥ (line.length : Int))) = true
  · rw [if_pos hc1]; exact P2.pure ⟨rfl, h2⟩
  rw [if_neg hc1]
  refine P2.bind (P := fun s t sA' sB' => (t = s ∧ idx line pos = .ok s) ∧ sA' = sA2 ∧ sB' = sB2)
    (P2.liftE_same (fun a e => ⟨⟨rfl, e⟩, rfl, rfl⟩)) (fun ch ch' sA3 sB3 ⟨⟨ht, hch⟩, e1, e2⟩ => ?_)
  subst ht e1 e2
  by_cases hc2 : (ch' != 62) = true
  · rw [if_pos hc2]; exact P2.pure ⟨rfl, h2⟩
  rw [if_neg hc2]
  have hq1 : F.q = [] ∨ pos + 1 < (line.length : Int) := by
    refine hq.imp id (fun hnl => ?_)
    have h62 : ch' = 62 := by simpa using hc2
    have := hlast hnl pos.toNat ch' (qh_idx_ok hch).2 (by rw [h62]; decide)
    omega
  by_cases hc3 : pos + 1 ≥ (line.length : Int)
  · rw [if_pos hc3]; exact advT _ _ h2 hri2 hq1
  rw [if_neg hc3]
  refine P2.bind (P := fun s t sA' sB' => (t = s ∧ idx line (pos + 1) = .ok s) ∧ sA' = sA3 ∧ sB' = sB3)
    (P2.liftE_same (fun a e => ⟨⟨rfl, e⟩, rfl, rfl⟩)) (fun c1 c1' sA4 sB4 ⟨⟨ht, hch1⟩, e1, e2⟩ => ?_)
  subst ht e1 e2
  by_cases hc4 : (c1' == 10) = true
  · rw [if_pos hc4]; exact advT _ _ h2 hri2 (.inr (by omega))
  rw [if_neg hc4]
  refine P2.bind (qh_advance_p2c h2 hri2 hpos (.inr (hrange _ hri2 (by omega)))) (fun _ _ sA5 sB5 ⟨hc5, h5⟩ => ?_)
  have hw1 := advN_within b (pos + 1).toNat c hp (by omega)
  generalize RCur.advN b (pos + 1).toNat c = c4 at hc5 hw1
  obtain ⟨i1, i2, _, i4, _, i6⟩ := hw1
  have hq2 : F.q = [] ∨ pos + 2 < (line.length : Int) := by
    refine hq.imp id (fun hnl => ?_)
    have := hlast hnl (pos + 1).toNat c1' (qh_idx_ok hch1).2 (by simpa using hc4)
    omega
  have hr2 : ∀ sA6 : St, RI b sA6.r c4 → pos + 2 < (line.length : Int) →
      (sA6.r.pos.start < sA6.r.pos.stop ∧ sA6.r.pos.start + 1 < sA6.r.pos.stop + sA6.r.pos.padding) := by
    intro sA6 hc6 hlt
    have := lt_lineEnd b i6
    rw [hc6.pos]; simp only; omega
  by_cases hc5' : (c1' == 32 || c1' == 9) = true
  · rw [if_pos hc5']
    by_cases hc6 : (c1' == 9) = true
    · rw [if_pos hc6]
      refine P2.bind (qh_lineOffset_p2c h5 hc5) (fun l2 l2' sA6 sB6 ⟨hl2, hc6', h6⟩ => ?_)
      subst hl2
      refine P2.bind (P := fun s t sA' sB' => t = s ∧ RI b sA'.r c4 ∧ SR F b sA' sB') (P2.pure ⟨rfl, hc6', h6⟩)
        (fun pd pd' sA7 sB7 ⟨hpd, hc7, h7⟩ => ?_)
      subst hpd
      refine P2.bind (advanceAndSetPadding_p2 h7 rfl rfl (by omega) (hq2.imp id (hr2 _ hc7))) (fun _ _ sA8 sB8 h8 => ?_)
      exact P2.pure ⟨rfl, h8⟩
    · rw [if_neg hc6]
      refine P2.bind (P := fun s t sA' sB' => t = s ∧ RI b sA'.r c4 ∧ SR F b sA' sB') (P2.pure ⟨rfl, hc5, h5⟩)
        (fun pd pd' sA7 sB7 ⟨hpd, hc7, h7⟩ => ?_)
      subst hpd
      refine P2.bind (advanceAndSetPadding_p2 h7 rfl rfl (by omega) (hq2.imp id (hr2 _ hc7))) (fun _ _ sA8 sB8 h8 => ?_)
      exact P2.pure ⟨rfl, h8⟩
  · rw [if_neg hc5']; exact P2.pure ⟨rfl, h5⟩

theorem blockquoteOpen_sim (F : Frame) (b : Bytes) (hq : QNL F b) : OpenSim F b .blockquote := by
  intro parent sA sB h hl
  show P2 _ (blockquoteOpen parent sA) (blockquoteOpen (F.ι parent) sB)
  unfold blockquoteOpen
  refine P2.bind (blockquoteProcess_p2 hq h hl) (fun x y sA1 sB1 ⟨hy, h1⟩ => ?_)
  subst hy
  by_cases hx : y = true
  · rw [if_pos hx]
    refine P2.bind (newNode_p2 h1 _ _ (by simp [shN, shClosure])) (fun n m sA4 sB4 ⟨_, hm, _, h4⟩ => ?_)
    subst hm
    exact P2.pure ⟨rfl, h4.limbo hq, fun _ => h4, fun hh => by cases hh <;> contradiction⟩
  · rw [if_neg hx]
    exact P2.pure ⟨rfl, h1.limbo hq, fun _ => h1, fun hh => by cases hh <;> contradiction⟩

theorem blockquoteContinue_sim (F : Frame) (b : Bytes) : ContinueSim F b .blockquote := by
  intro node sA sB h hl hnl
  show P2 _ (blockquoteContinue node sA) (blockquoteContinue (F.ι node) sB)
  unfold blockquoteContinue
  refine P2.bind (blockquoteProcess_p2 (.inr (qh_QNL_of_NL (F := F) hl hnl)) h hl) (fun x y sA1 sB1 ⟨hy, h1⟩ => ?_)
  subst hy
  by_cases hx : y = true
  · rw [if_pos hx]; exact P2.pure ⟨rfl, h1⟩
  · rw [if_neg hx]; exact P2.pure ⟨rfl, h1⟩

/-! ### html_block.go -/

theorem htmlOpen_sim (F : Frame) (b : Bytes) (hq : QNL F b) : OpenSim F b .html := by
  intro parent sA sB h hl
  show P2 _ (htmlOpen parent sA) (htmlOpen (F.ι parent) sB)
  unfold htmlOpen
  obtain ⟨c, hc0, hp⟩ := hl
  refine P2.bind (qh_peekLine_p2c h hc0 (.inr hp)) (fun x y sA1 sB1 ⟨hc, hx, hy, h1⟩ => ?_)
  subst hx hy
  simp only
  have hT : F.q = [] ∨ 1 ≤ trimRightSpaceLength ((RCur.view b c).getD []) :=
    hq.imp id (fun hnl => qh_view_trimRight_pos b hnl c hp)
  have hS : (RCur.seg b c).len = (c.pad : Int) + (lineEnd b c.p : Int) - (c.p : Int) := by
    simp only [RCur.seg, Segment.len]; omega
  have hle0 := lt_lineEnd b hp
  generalize (RCur.view b c).getD [] = line at hT ⊢
  generalize RCur.seg b c = segment at hS ⊢
  have tail : ∀ (lip : Bool) sA3 sB3, SR F b sA3 sB3 → RI b sA3.r c →
      P2 (fun x y sA' sB' => y = (x.1.map F.ι, x.2) ∧ SRLim F b sA' sB' ∧
        ((x.2.hasChildren = true ∨ x.1 = none) → SR F b sA' sB') ∧
        ((BP.html = .list ∨ BP.html = .listItem) → x.1.isSome = true → sB'.pc.emptyItemBlank = sA'.pc.emptyItemBlank))
      ((do
        let pos := (← getPc).blockOffset
        if pos < 0 then return (none, stNoChildren)
        if (← liftE (idx line pos)) != 60 then return (none, stNoChildren)
        match htmlOpenType line lip with
        | some t =>
          let node ← newNode { kind := .htmlBlock, htmlType := t }
          advance (segment.len - trimRightSpaceLength line)
          appendLine node segment
          return (some node, stNoChildren)
        | none => return (none, stNoChildren) : M (Option Nat × PState)) sA3)
      ((do
        let pos := (← getPc).blockOffset
        if pos < 0 then return (none, stNoChildren)
        if (← liftE (idx line pos)) != 60 then return (none, stNoChildren)
        match htmlOpenType line lip with
        | some t =>
          let node ← newNode { kind := .htmlBlock, htmlType := t }
          advance ((moveSeg F.d segment).len - trimRightSpaceLength line)
          appendLine node (moveSeg F.d segment)
          return (some node, stNoChildren)
        | none => return (none, stNoChildren) : M (Option Nat × PState)) sB3) := by
    intro lip sA3 sB3 h3 hc3
    refine P2.bind (getPc_p2 h3) (fun pc pc' sA4 sB4 ⟨_, _, hpc, e1, e2⟩ => ?_)
    subst e1 e2
    rw [hpc.blockOffset]
    have hnone : ∀ sA5 sB5, SR F b sA5 sB5 →
        P2 (fun x y sA' sB' => y = (x.1.map F.ι, x.2) ∧ SRLim F b sA' sB' ∧
          ((x.2.hasChildren = true ∨ x.1 = none) → SR F b sA' sB') ∧
          ((BP.html = .list ∨ BP.html = .listItem) → x.1.isSome = true → sB'.pc.emptyItemBlank = sA'.pc.emptyItemBlank))
        ((pure (none, stNoChildren) : M (Option Nat × PState)) sA5)
        ((pure (none, stNoChildren) : M (Option Nat × PState)) sB5) := fun sA5 sB5 h5 =>
      P2.pure ⟨rfl, h5.limbo hq, fun _ => h5, fun hh => by cases hh <;> contradiction⟩
    by_cases hc1 : pc.blockOffset < 0
    · rw [if_pos hc1, if_pos hc1]; exact hnone _ _ h3
    rw [if_neg hc1, if_neg hc1]
    refine P2.bind (P := fun s t sA' sB' => t = s ∧ sA' = sA4 ∧ sB' = sB4)
      (P2.liftE_same (fun a _ => ⟨rfl, rfl, rfl⟩)) (fun ch ch' sA5 sB5 ⟨ht, e1, e2⟩ => ?_)
    subst ht e1 e2
    by_cases hc2 : (ch' != 60) = true
    · rw [if_pos hc2, if_pos hc2]; exact hnone _ _ h3
    rw [if_neg hc2, if_neg hc2]
    cases htmlOpenType line lip with
    | none => exact hnone _ _ h3
    | some t =>
      simp only
      refine P2.bind (newNode_l h3.l _ _ (by simp [shN, shClosure])) (fun n m sA6 sB6 ⟨_, hm, _, h6l⟩ => ?_)
      subst hm
      have h6 := h6l.sr h3
      rw [moveSeg_len]
      have hr : F.q = [] ∨ segment.len - (trimRightSpaceLength line : Int) < 0 ∨
          (sA6.r.pos.start < sA6.r.pos.stop ∧
            sA6.r.pos.start + (segment.len - (trimRightSpaceLength line : Int)) < sA6.r.pos.stop + sA6.r.pos.padding) := by
        refine hT.imp id (fun t => .inr ?_)
        rw [h6l.ra, hc3.pos]; simp only; omega
      refine P2.bind (advance_limbo h6 _ hq hr) (fun _ _ sA7 sB7 h7 => ?_)
      refine P2.bind (appendLine_l h7.1 n rfl) (fun _ _ sA8 sB8 h8 => ?_)
      exact P2.pure ⟨rfl, qh_SRLim_of_l h7 h8, fun hh => by rcases hh with hh | hh <;> simp [stNoChildren] at hh,
        fun hh => by cases hh <;> contradiction⟩
  refine P2.bind (lastOpenedBlock_p2 h1) (fun lb lb' sA2 sB2 ⟨_, hlb, e1, e2⟩ => ?_)
  subst hlb e1 e2
  cases lb with
  | none => 
    refine P2.bind (P := fun s t sA' sB' => t = s ∧ RI b sA'.r c ∧ SR F b sA' sB') (P2.pure ⟨rfl, hc, h1⟩)
      (fun lp lp' sA7 sB7 ⟨hlp, hc7, h7⟩ => ?_)
    subst hlp
    exact tail _ _ _ h7 hc7
  | some lb =>
    simp only [Option.map_some]
    refine P2.bind (getNode_p2 h1 lb.node) (fun n m sA3 sB3 ⟨_, hm, e1, e2⟩ => ?_)
    subst hm e1 e2
    refine P2.bind (P := fun s t sA' sB' => t = s ∧ RI b sA'.r c ∧ SR F b sA' sB') (P2.pure ⟨by rw [shN_kind], hc, h1⟩)
      (fun lp lp' sA7 sB7 ⟨hlp, hc7, h7⟩ => ?_)
    subst hlp
    exact tail _ _ _ h7 hc7

/-- the `closes` test of htmlBlockParser.Continue -/
def qh_htmlCloses (ty : Nat) (v : Bytes) : Bool :=
  if ty == 1 then type1Close v
  else if ty == 2 then containsSub (strBytes "-->") v
  else if ty == 3 then containsSub (strBytes "?>") v
  else if ty == 4 then containsSub (strBytes ">") v
  else containsSub (strBytes "]]>") v

theorem qh_length_takeWhile_le {α} (p : α → Bool) (l : List α) : (l.takeWhile p).length ≤ l.length := by
  induction l with
  | nil => simp
  | cons a l ih =>
    simp only [List.takeWhile_cons]
    split
    · simp only [List.length_cons]; omega
    · simp

theorem qh_trimRight_le (l : Bytes) : trimRightSpaceLength l ≤ l.length := by
  unfold trimRightSpaceLength
  have := qh_length_takeWhile_le isSpace l.reverse
  simpa using this

theorem qh_html_adv_nonneg {b : Bytes} {r : Reader} {c : RCur} (hc : RI b r c) :
    0 ≤ (RCur.seg b c).len - (trimRightSpaceLength ((RCur.view b c).getD []) : Int) := by
  by_cases hp : c.p < b.length
  · obtain ⟨l, hv, h3, _, _, _⟩ := view_some_facts hp
    have := qh_trimRight_le l
    rw [hv]
    simp only [Option.getD_some]
    omega
  · rw [view_none b c hp]
    have h1 := hc.inRange
    have h2 := lineEnd_ge b h1
    have : trimRightSpaceLength ([] : Bytes) = 0 := by decide
    simp only [Option.getD_none, this, RCur.seg, Segment.len]
    omega

theorem htmlContinue_sim (F : Frame) (b : Bytes) : ContinueSim F b .html := by
  intro node sA sB h hl hnl0
  show P2 _ (htmlContinue node sA) (htmlContinue (F.ι node) sB)
  unfold htmlContinue
  have hnl := qh_QNL_of_NL (F := F) hl hnl0
  obtain ⟨c, hc0, hp⟩ := hl
  refine P2.bind (getNode_p2 h node) (fun n m sA0 sB0 ⟨_, hm, e1, e2⟩ => ?_)
  subst hm e1 e2
  refine P2.bind (qh_peekLine_p2c h hc0 (.inr hp)) (fun x y sA1 sB1 ⟨hc, hx, hy, h1⟩ => ?_)
  subst hx hy
  simp only
  have hty : (shN F (node == 0) n).htmlType = n.htmlType := rfl
  rw [hty, shN_lines, List.length_map]
  have hn := qh_html_adv_nonneg hc
  have hs0 : ¬ (RCur.seg b c).start < 0 := by simp [RCur.seg]
  have hT : 1 ≤ trimRightSpaceLength ((RCur.view b c).getD []) := qh_view_trimRight_pos b hnl c hp
  have hS : (RCur.seg b c).len = (c.pad : Int) + (lineEnd b c.p : Int) - (c.p : Int) := by
    simp only [RCur.seg, Segment.len]; omega
  have hle0 := lt_lineEnd b hp
  generalize (RCur.view b c).getD [] = line at hn hT ⊢
  generalize RCur.seg b c = segment at hn hs0 hS ⊢
  have hrange : ∀ sA3 : St, sA3.r = sA1.r → (sA3.r.pos.start < sA3.r.pos.stop ∧
      sA3.r.pos.start + (segment.len - (trimRightSpaceLength line : Int)) < sA3.r.pos.stop + sA3.r.pos.padding) := by
    intro sA3 e
    rw [e, hc.pos]; simp only; omega
  have hcl : ∀ v, (if (n.htmlType == 1) = true then type1Close v
      else if (n.htmlType == 2) = true then containsSub (strBytes "-->") v
      else if (n.htmlType == 3) = true then containsSub (strBytes "?>") v
      else if (n.htmlType == 4) = true then containsSub (strBytes ">") v
      else containsSub (strBytes "]]>") v) = qh_htmlCloses n.htmlType v := fun v => rfl
  simp only [hcl]
  have fin : ∀ sA2 sB2, SR F b sA2 sB2 → sA2.r = sA1.r → P2 (fun x y sA' sB' => y = x ∧ SR F b sA' sB')
      ((do appendLine node segment
           advance (segment.len - trimRightSpaceLength line)
           pure stContinueNoChildren : M PState) sA2)
      ((do appendLine (F.ι node) (moveSeg F.d segment)
           advance ((moveSeg F.d segment).len - trimRightSpaceLength line)
           pure stContinueNoChildren : M PState) sB2) := by
    intro sA2 sB2 h2 hr2
    refine P2.bind (appendLine_l h2.l node rfl) (fun _ _ sA3 sB3 h3l => ?_)
    have h3 := h3l.sr h2
    refine P2.bind (advance_p2 h3 (by rw [moveSeg_len]) hn (.inr (hrange _ (by rw [h3l.ra, hr2]))))
      (fun _ _ sA4 sB4 h4 => ?_)
    exact P2.pure ⟨rfl, h4⟩
  have mid : ∀ sA2 sB2, SR F b sA2 sB2 → sA2.r = sA1.r → P2 (fun x y sA' sB' => y = x ∧ SR F b sA' sB')
      ((if qh_htmlCloses n.htmlType line = true then do
            modNode node fun n => { n with closure := segment }
            advance (segment.len - trimRightSpaceLength line)
            pure stClose
          else do
            appendLine node segment
            advance (segment.len - trimRightSpaceLength line)
            pure stContinueNoChildren : M PState) sA2)
      ((if qh_htmlCloses n.htmlType line = true then do
            modNode (F.ι node) fun n => { n with closure := moveSeg F.d segment }
            advance ((moveSeg F.d segment).len - trimRightSpaceLength line)
            pure stClose
          else do
            appendLine (F.ι node) (moveSeg F.d segment)
            advance ((moveSeg F.d segment).len - trimRightSpaceLength line)
            pure stContinueNoChildren : M PState) sB2) := by
    intro sA2 sB2 h2 hr2
    by_cases hc1 : qh_htmlCloses n.htmlType line = true
    · rw [if_pos hc1, if_pos hc1]
      refine P2.bind (modNode_l h2.l node _ _ (fun a => by simp [shN, shClosure, hs0]) (fun _ => rfl))
        (fun _ _ sA3 sB3 h3l => ?_)
      have h3 := h3l.sr h2
      refine P2.bind (advance_p2 h3 (by rw [moveSeg_len]) hn (.inr (hrange _ (by rw [h3l.ra, hr2]))))
        (fun _ _ sA4 sB4 h4 => ?_)
      exact P2.pure ⟨rfl, h4⟩
    · rw [if_neg hc1, if_neg hc1]; exact fin _ _ h2 hr2
  by_cases hc0 : (decide (1 ≤ n.htmlType) && decide (n.htmlType ≤ 5)) = true
  · rw [if_pos hc0, if_pos hc0]
    by_cases hc1 : (n.lines.length == 1) = true
    · rw [if_pos hc1, if_pos hc1]
      refine P2.bind (P := fun s t sA' sB' => t = moveSeg F.d s ∧ sA' = sA1 ∧ sB' = sB1)
        (P2.liftE (fun s t e1 e2 => ?_)) (fun l1 l1' sA3 sB3 ⟨ht, e1, e2⟩ => ?_)
      · rw [lineAt_sh F.d e1] at e2; cases e2; exact ⟨rfl, rfl, rfl⟩
      subst ht e1 e2
      refine P2.bind (source_p2 h1) (fun a a' sA2 sB2 ⟨ha, hb, e1, e2⟩ => ?_)
      subst e1 e2
      rw [ha, hb]
      refine P2.bind (P := fun s t sA' sB' => t = s ∧ sA' = sA2 ∧ sB' = sB2)
        (P2.liftE (fun s t e1 e2 => ?_)) (fun v v' sA3 sB3 ⟨ht, e1, e2⟩ => ?_)
      · rw [value_ok_shift F b e1] at e2; cases e2; exact ⟨rfl, rfl, rfl⟩
      subst ht e1 e2
      by_cases hc2 : qh_htmlCloses n.htmlType v' = true
      · rw [if_pos hc2, if_pos hc2]; exact P2.pure ⟨rfl, h1⟩
      · rw [if_neg hc2, if_neg hc2]; exact mid _ _ h1 rfl
    · rw [if_neg hc1, if_neg hc1]; exact mid _ _ h1 rfl
  · rw [if_neg hc0, if_neg hc0]
    by_cases hc1 : (n.htmlType == 6 || n.htmlType == 7) = true
    · rw [if_pos hc1, if_pos hc1]
      by_cases hc2 : isBlank line = true
      · rw [if_pos hc2, if_pos hc2]; exact P2.pure ⟨rfl, h1⟩
      · rw [if_neg hc2, if_neg hc2]; exact fin _ _ h1 rfl
    · rw [if_neg hc1, if_neg hc1]; exact fin _ _ h1 rfl

/-! ### run A alone: the block quote parser leaves the line feed of its line unread -/

theorem qh_blockquoteProcess_line {b : Bytes} (hnl : b.getLast? = some 10) {s : St} {c : RCur} (h : RI b s.r c)
    (hp : c.p < b.length) : OKL (fun _ s' => HasLine b s') (blockquoteProcess s) := by
  unfold blockquoteProcess
  refine OKL.bind (peekLine_okl h) (fun x s1 hx => ?_)
  obtain ⟨hx, r1, hs1, h1⟩ := hx
  subst hx hs1
  simp only
  refine OKL.bind (lineOffset_okl (s := { s with r := r1 }) h1) (fun lo s2 hlo => ?_)
  obtain ⟨_, r2, hs2, h2⟩ := hlo
  subst hs2
  simp only
  have hlen := view_getD_length_nat b c hp
  have hlast : ∀ (i : Nat) (x : UInt8), ((RCur.view b c).getD [])[i]? = some x → x ≠ 10 →
      i + 2 ≤ ((RCur.view b c).getD []).length := fun i x hx hne => qh_view_not_last b hnl c hp hx hne
  generalize (RCur.view b c).getD [] = line at hlen hlast ⊢
  have hb := indentWidthI_bounds line lo
  generalize (indentWidthI line lo).2 = pos at hb ⊢
  generalize (indentWidthI line lo).1 = w
  by_cases hc1 : (decide (w > 3) || decide (pos ≥ (line.length : Int))) = true
  · rw [if_pos hc1]
    exact OKL.ok ⟨c, h2, hp⟩
  · rw [if_neg hc1]
    have hposlt : pos < line.length := by
      rcases Int.lt_or_le pos line.length with hh | hh
      · exact hh
      · exfalso; apply hc1; simp [hh]
    obtain ⟨b0, hb0, hb0'⟩ := idx_ok line pos hb.1 hposlt
    refine OKL.bind (liftE_okl (P := fun a s' => a = b0 ∧ s' = { s with r := r2 }) hb0 ⟨rfl, rfl⟩) (fun a s3 ha => ?_)
    obtain ⟨ha, hs3⟩ := ha
    subst ha hs3
    by_cases hc2 : (a != 62) = true
    · rw [if_pos hc2]
      exact OKL.ok ⟨c, h2, hp⟩
    · rw [if_neg hc2]
      have ha62 : a = 62 := by simpa using hc2
      have h2lt : pos + 1 < (line.length : Int) := by
        have := hlast pos.toNat a hb0' (by rw [ha62]; decide)
        omega
      have hadv : 0 ≤ pos + 1 := by omega
      have hw1 := advN_within b (pos + 1).toNat c hp (by omega)
      by_cases hc3 : (pos + 1 ≥ (line.length : Int))
      · exfalso; omega
      · rw [if_neg (by simpa using hc3)]
        obtain ⟨b1, hb1, hb1'⟩ := idx_ok line (pos + 1) (by omega) (by omega)
        refine OKL.bind (liftE_okl (P := fun a s' => a = b1 ∧ s' = { s with r := r2 }) hb1 ⟨rfl, rfl⟩) (fun a1 s5 ha1 => ?_)
        obtain ⟨ha1, hs5⟩ := ha1
        subst ha1 hs5
        by_cases hc4 : (a1 == 10) = true
        · rw [if_pos hc4]
          refine OKL.bind (advance_okl (s := { s with r := r2 }) h2 hadv) (fun _ s4 h4 => ?_)
          obtain ⟨r4, hs4, h4⟩ := h4
          subst hs4
          exact OKL.ok ⟨_, h4, hw1.2.2.2.2.2⟩
        · rw [if_neg hc4]
          refine OKL.bind (advance_okl (s := { s with r := r2 }) h2 hadv) (fun _ s4 h4 => ?_)
          obtain ⟨r4, hs4, h4⟩ := h4
          subst hs4
          generalize RCur.advN b (pos + 1).toNat c = c4 at h4 hw1
          obtain ⟨i1, i2, _, i4, _, i6⟩ := hw1
          by_cases hc5 : (a1 == 32 || a1 == 9) = true
          · rw [if_pos hc5]
            have h3lt : pos + 2 < (line.length : Int) := by
              have := hlast (pos + 1).toNat a1 hb1' (by simpa using hc4)
              omega
            have hw2 := advN_within b 1 c4 i6 (by omega)
            have hfin : ∀ p : Int, (advPadCur b 1 p c4).p < b.length := by
              intro p
              unfold advPadCur
              simp only
              split <;> simpa using hw2.2.2.2.2.2
            by_cases hc6 : (a1 == 9) = true
            · simp only [hc6, if_true]
              refine OKL.bind (lineOffset_okl (s := { s with r := r4 }) h4) (fun lo2 s6 h6 => ?_)
              obtain ⟨_, r6, hs6, h6⟩ := h6
              subst hs6
              refine OKL.bind (m := Pure.pure (tabWidthI lo2 - 1)) (P := fun a s' => s' = { s with r := r6 }) (OKL.ok rfl) (fun pd s7 h7 => ?_)
              subst h7
              refine OKL.bind (advanceAndSetPadding_okl (s := { s with r := r6 }) h6 (by decide) pd) (fun _ s8 h8 => ?_)
              obtain ⟨r8, hs8, h8⟩ := h8
              subst hs8
              exact OKL.ok ⟨_, h8, hfin pd⟩
            · simp only [hc6, Bool.false_eq_true, if_false]
              refine OKL.bind (m := Pure.pure (0 : Int)) (P := fun a s' => s' = { s with r := r4 }) (OKL.ok rfl) (fun pd s7 h7 => ?_)
              subst h7
              refine OKL.bind (advanceAndSetPadding_okl (s := { s with r := r4 }) h4 (by decide) pd) (fun _ s8 h8 => ?_)
              obtain ⟨r8, hs8, h8⟩ := h8
              subst hs8
              exact OKL.ok ⟨_, h8, hfin pd⟩
          · rw [if_neg hc5]
            exact OKL.ok ⟨_, h4, i6⟩

theorem qh_okl_run {α} {P : α → St → Prop} {m : Except Panic (α × St)} {a : α} {s' : St} (h : OKL P m)
    (e : m = .ok (a, s')) : P a s' := by
  rcases h with ⟨a0, s0, h1, h2⟩ | h1
  · rw [h1] at e; cases e; exact h2
  · rw [h1] at e; cases e

theorem blockquoteOpen_hasLine (b : Bytes) (hnl : b.getLast? = some 10) (parent : Nat) (s s' : St)
    (x : Option Nat × PState) (hl : HasLine b s) (e : bpOpen .blockquote parent s = .ok (x, s')) : HasLine b s' := by
  obtain ⟨c, hc, hp⟩ := hl
  have hokl : OKL (fun _ s' => HasLine b s') (blockquoteOpen parent s) := by
    unfold blockquoteOpen
    refine OKL.bind (qh_blockquoteProcess_line hnl hc hp) (fun t s1 h1 => ?_)
    cases t with
    | true =>
      simp only [if_true, bind, StateT.bind, newNode, pure, StateT.pure, Except.bind, Except.pure]
      exact OKL.ok h1
    | false =>
      simp only [Bool.false_eq_true, if_false, pure, StateT.pure, Except.pure]
      exact OKL.ok h1
  exact qh_okl_run (P := fun _ s' => HasLine b s') hokl e

theorem blockquoteContinue_hasLine (b : Bytes) (hnl : b.getLast? = some 10) (node : Nat) (s s' : St) (st : PState)
    (hl : HasLine b s) (e : bpContinue .blockquote node s = .ok (st, s')) (_hc : st.cont = true) : HasLine b s' := by
  obtain ⟨c, hc, hp⟩ := hl
  have hokl : OKL (fun _ s' => HasLine b s') (blockquoteContinue node s) := by
    unfold blockquoteContinue
    refine OKL.bind (qh_blockquoteProcess_line hnl hc hp) (fun t s1 h1 => ?_)
    cases t with
    | true =>
      simp only [if_true, pure, StateT.pure, Except.pure]
      exact OKL.ok h1
    | false =>
      simp only [Bool.false_eq_true, if_false, pure, StateT.pure, Except.pure]
      exact OKL.ok h1
  exact qh_okl_run (P := fun _ s' => HasLine b s') hokl e

end GM.Blocks.Xs
