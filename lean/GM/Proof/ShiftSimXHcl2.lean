/-
  GM.Proof.ShiftSimXHcl2 — the lemmas of GM.Proof.ShiftSimXHcl for `HL` (run A has a line and its cursor is
  trigger-safe).
-/
import GM.Proof.ShiftSimXHcl
import GM.Proof.ShiftSimXSafe

namespace GM.Blocks.Xs
open GM GM.Text GM.Spec GM.Proof.Reader GM.Blocks

/-! ### geometry -/

theorem h2x_ri_unique {b : Bytes} {r : Reader} {c c' : RCur} (h : RI b r c) (h' : RI b r c') : c = c' := by
  have e1 := h.pos
  have e2 := h'.pos
  rw [e1] at e2
  have l1 := h.abs.line
  have l2 := h'.abs.line
  simp only [clearLo] at l1 l2
  cases c; cases c'
  simp only [Segment.mk.injEq] at e2
  simp only at l1 l2
  obtain ⟨p1, _, p3, _⟩ := e2
  congr 1
  · omega
  · omega
  · omega

theorem h2x_hl_mk {b : Bytes} {s : St} {c : RCur} (h : RI b s.r c) (hp : c.p < b.length) (ht : TSafe b c) : HL b s :=
  ⟨⟨c, h, hp⟩, ⟨c, h, ht⟩⟩

theorem h2x_hl_cur {b : Bytes} {s : St} (h : HL b s) : ∃ c, RI b s.r c ∧ c.p < b.length ∧ TSafe b c := by
  obtain ⟨⟨c, hc, hp⟩, ⟨c', hc', ht⟩⟩ := h
  have := h2x_ri_unique hc hc'
  subst this
  exact ⟨c, hc, hp, ht⟩

/-- the bytes of a line view -/
theorem h2x_view_get (b : Bytes) (c : RCur) (hp : c.p < b.length) (i : Nat)
    (hi : i < c.pad + (lineEnd b c.p - c.p)) :
    ((RCur.view b c).getD [])[i]? = if i < c.pad then some 32 else b[c.p + (i - c.pad)]? := by
  rw [view_eq b c hp]
  simp only [Option.getD_some]
  by_cases h : i < c.pad
  · rw [if_pos h, List.getElem?_append_left (by simp [spaces]; exact h)]
    simp [spaces, h]
  · rw [if_neg h, List.getElem?_append_right (by simp [spaces]; omega)]
    simp only [spaces, List.length_replicate, sub]
    rw [List.getElem?_take_of_lt (by omega), List.getElem?_drop]

/-- the view at a cursor further on in the same line is a suffix of the view -/
theorem h2x_view_drop (b : Bytes) (c c' : RCur) (n : Nat) (hp : c.p < b.length)
    (hn : n + 1 ≤ c.pad + (lineEnd b c.p - c.p))
    (h1 : c'.p = c.p + (n - c.pad)) (h2 : c'.pad = c.pad - n) (h3 : lineEnd b c'.p = lineEnd b c.p)
    (hp' : c'.p < b.length) :
    (RCur.view b c').getD [] = ((RCur.view b c).getD []).drop n := by
  have hl := view_getD_length_nat b c hp
  have hl' := view_getD_length_nat b c' hp'
  have hle := lt_lineEnd b hp
  have hle' := lt_lineEnd b hp'
  apply List.ext_getElem?
  intro k
  rw [List.getElem?_drop]
  by_cases hk : k < c'.pad + (lineEnd b c'.p - c'.p)
  · rw [h2x_view_get b c' hp' k hk, h2x_view_get b c hp (n + k) (by omega)]
    by_cases hk2 : k < c'.pad
    · rw [if_pos hk2, if_pos (by omega)]
    · rw [if_neg hk2, if_neg (by omega)]
      congr 1; omega
  · rw [List.getElem?_eq_none (by omega), List.getElem?_eq_none (by omega)]

theorem h2x_quote_space {x : UInt8} (h : QuoteByte x) (hs : isSpace x = true) : x = 32 ∨ x = 9 := by
  rcases h with h | h | h
  · exact .inl h
  · exact .inr h
  · subst h; cases hs

/-- stepping over quote bytes keeps `PreC` -/
theorem h2x_prec_step (b : Bytes) (c c' : RCur) (n : Nat) (hp : c.p < b.length)
    (hn : n + 1 ≤ c.pad + (lineEnd b c.p - c.p))
    (h1 : c'.p = c.p + (n - c.pad)) (h5 : lineStart b c'.p = lineStart b c.p)
    (hpre : PreC b c)
    (hq : ∀ i, i < n → ∃ x, ((RCur.view b c).getD [])[i]? = some x ∧ QuoteByte x) : PreC b c' := by
  intro i hi1 hi2
  rw [h5] at hi1
  by_cases hlt : i < c.p
  · exact hpre i hi1 hlt
  · have hle := lt_lineEnd b hp
    obtain ⟨x, hx, hqx⟩ := hq (c.pad + (i - c.p)) (by omega)
    rw [h2x_view_get b c hp _ (by omega), if_neg (by omega)] at hx
    have e : c.p + (c.pad + (i - c.p) - c.pad) = i := by omega
    rw [e] at hx
    exact ⟨x, hx, hqx⟩

theorem h2x_all_of_drop (l : Bytes) (n : Nat)
    (h : ∀ i x, n ≤ i → l[i]? = some x → isSpace x = true) : isBlank (l.drop n) = true := by
  unfold isBlank
  rw [List.all_eq_true]
  intro x hx
  obtain ⟨k, hk⟩ := List.getElem?_of_mem hx
  rw [List.getElem?_drop] at hk
  exact h (n + k) x (by omega) hk

theorem h2x_takeWhile_all {α} (p : α → Bool) : ∀ (l : List α) x, x ∈ l.takeWhile p → p x = true := by
  intro l
  induction l with
  | nil => intro x hx; cases hx
  | cons a t ih =>
    intro x hx
    rw [List.takeWhile_cons] at hx
    by_cases ha : p a = true
    · rw [if_pos ha] at hx
      rcases List.mem_cons.mp hx with e | e
      · rw [e]; exact ha
      · exact ih x e
    · rw [if_neg ha] at hx; cases hx

theorem h2x_trim_blank (l : Bytes) : isBlank (l.drop (l.length - trimRightSpaceLength l)) = true := by
  unfold isBlank trimRightSpaceLength
  have e := List.takeWhile_append_dropWhile (p := isSpace) (l := l.reverse)
  have e2 : l = (l.reverse.dropWhile isSpace).reverse ++ (l.reverse.takeWhile isSpace).reverse := by
    rw [← List.reverse_append, e, List.reverse_reverse]
  have hall : ∀ x ∈ l.reverse.takeWhile isSpace, isSpace x = true := h2x_takeWhile_all isSpace l.reverse
  generalize l.reverse.takeWhile isSpace = tw at e2 hall ⊢
  generalize l.reverse.dropWhile isSpace = dw at e2
  subst e2
  have e3 : (dw.reverse ++ tw.reverse).length - tw.length = dw.reverse.length := by simp
  rw [e3, List.drop_left, List.all_eq_true]
  intro x hx
  exact hall x (List.mem_reverse.mp hx)

theorem h2x_advN_blank (b : Bytes) (c : RCur) (n : Nat) (hp : c.p < b.length)
    (hn : n + 1 ≤ c.pad + (lineEnd b c.p - c.p))
    (hb : isBlank (((RCur.view b c).getD []).drop n) = true) :
    (RCur.advN b n c).p < b.length ∧ TSafe b (RCur.advN b n c) := by
  obtain ⟨i1, i2, _, i4, _, i6⟩ := advN_within b n c hp hn
  refine ⟨i6, .inr ?_⟩
  rw [h2x_view_drop b c _ n hp hn i1 i2 i4 i6]; exact hb

theorem h2x_advN_prec (b : Bytes) (c : RCur) (n : Nat) (hp : c.p < b.length)
    (hn : n + 1 ≤ c.pad + (lineEnd b c.p - c.p)) (hpre : PreC b c)
    (hq : ∀ i, i < n → ∃ x, ((RCur.view b c).getD [])[i]? = some x ∧ QuoteByte x) :
    PreC b (RCur.advN b n c) := by
  obtain ⟨i1, _, _, _, i5, _⟩ := advN_within b n c hp hn
  exact h2x_prec_step b c _ n hp hn i1 i5 hpre hq

theorem h2x_advPad_p (b : Bytes) (n p : Int) (c : RCur) : (advPadCur b n p c).p = (RCur.advN b n.toNat c).p := by
  unfold advPadCur
  simp only
  split <;> rfl

theorem h2x_prec_of_p {b : Bytes} {c c' : RCur} (e : c'.p = c.p) (h : PreC b c) : PreC b c' := by
  unfold PreC at *
  rw [e]; exact h

theorem h2x_iw (cur : Int) : ∀ (bs : Bytes) (w p : Int) (i : Nat), (i : Int) + p < (indentWidthGo cur bs w p).2 →
    ∃ x, bs[i]? = some x ∧ (x = 32 ∨ x = 9) := by
  intro bs
  induction bs with
  | nil => intro w p i h; simp only [indentWidthGo] at h; omega
  | cons c cs ih =>
    intro w p i h
    unfold indentWidthGo at h
    by_cases h32 : (c == 32) = true
    · rw [if_pos h32] at h
      cases i with
      | zero => exact ⟨c, rfl, .inl (by simpa using h32)⟩
      | succ j =>
        obtain ⟨x, hx, hq⟩ := ih (w + 1) (p + 1) j (by omega)
        exact ⟨x, by simpa using hx, hq⟩
    · rw [if_neg h32] at h
      by_cases h9 : (c == 9) = true
      · rw [if_pos h9] at h
        cases i with
        | zero => exact ⟨c, rfl, .inr (by simpa using h9)⟩
        | succ j =>
          obtain ⟨x, hx, hq⟩ := ih (w + tabWidthI (cur + w)) (p + 1) j (by omega)
          exact ⟨x, by simpa using hx, hq⟩
      · rw [if_neg h9] at h; simp only at h; omega

theorem h2x_blank_get {l : Bytes} (h : isBlank l = true) {i : Nat} {x : UInt8} (hx : l[i]? = some x) : isSpace x = true := by
  unfold isBlank at h
  rw [List.all_eq_true] at h
  exact h x (List.mem_of_getElem? hx)

/-! ### the block quote parser -/

theorem h2x_blockquoteProcess {b : Bytes} (hnl : b.getLast? = some 10) {s : St} {c : RCur} (h : RI b s.r c)
    (hp : c.p < b.length) (ht : TSafe b c) : OKL (fun _ s' => HL b s') (blockquoteProcess s) := by
  unfold blockquoteProcess
  refine OKL.bind (peekLine_okl h) (fun x s1 hx => ?_)
  obtain ⟨hx, r1, hs1, h1⟩ := hx
  subst hx hs1
  simp only
  refine OKL.bind (lineOffset_okl (s := { s with r := r1 }) h1) (fun lo s2 hlo => ?_)
  obtain ⟨_, r2, hs2, h2⟩ := hlo
  subst hs2
  simp only
  have hlen := view_getD_length_nat b c hp
  have hlast : ∀ (i : Nat) (x : UInt8), ((RCur.view b c).getD [])[i]? = some x → x ≠ 10 →
      i + 2 ≤ ((RCur.view b c).getD []).length := fun i x hx hne => qh_view_not_last b hnl c hp hx hne
  have hstep : ∀ n, n + 1 ≤ ((RCur.view b c).getD []).length → PreC b c →
      (∀ i, i < n → ∃ x, ((RCur.view b c).getD [])[i]? = some x ∧ QuoteByte x) → PreC b (RCur.advN b n c) :=
    fun n hn hpre hq => h2x_advN_prec b c n hp (by omega) hpre hq
  have hdrop : ∀ n, n + 1 ≤ ((RCur.view b c).getD []).length →
      (RCur.view b (RCur.advN b n c)).getD [] = ((RCur.view b c).getD []).drop n := by
    intro n hn
    obtain ⟨i1, i2, _, i4, _, i6⟩ := advN_within b n c hp (by omega)
    exact h2x_view_drop b c _ n hp (by omega) i1 i2 i4 i6
  have hpre0 : isBlank ((RCur.view b c).getD []) = false → PreC b c := by
    intro hb
    rcases ht with h | h
    · exact h
    · rw [h] at hb; cases hb
  generalize (RCur.view b c).getD [] = line at hlen hlast hstep hdrop hpre0 ⊢
  have hb := indentWidthI_bounds line lo
  have hiw : ∀ i : Nat, (i : Int) < (indentWidthI line lo).2 → ∃ x, line[i]? = some x ∧ (x = 32 ∨ x = 9) :=
    fun i hi => h2x_iw lo line 0 0 i (by unfold indentWidthI at hi; omega)
  generalize (indentWidthI line lo).2 = pos at hb hiw ⊢
  generalize (indentWidthI line lo).1 = w
  by_cases hc1 : (decide (w > 3) || decide (pos ≥ (line.length : Int))) = true
  · rw [if_pos hc1]
    exact OKL.ok (h2x_hl_mk h2 hp ht)
  · rw [if_neg hc1]
    have hposlt : pos < line.length := by
      rcases Int.lt_or_le pos line.length with hh | hh
      · exact hh
      · exfalso; apply hc1; simp [hh]
    obtain ⟨b0, hb0, hb0'⟩ := idx_ok line pos hb.1 hposlt
    refine OKL.bind (liftE_okl (P := fun a s' => a = b0 ∧ s' = { s with r := r2 }) hb0 ⟨rfl, rfl⟩) (fun a s3 ha => ?_)
    obtain ⟨ha, hs3⟩ := ha
    subst ha hs3
    by_cases hc2 : (a != 62) = true
    · rw [if_pos hc2]
      exact OKL.ok (h2x_hl_mk h2 hp ht)
    · rw [if_neg hc2]
      have ha62 : a = 62 := by simpa using hc2
      have hpre : PreC b c := by
        apply hpre0
        cases hbl : isBlank line with
        | false => rfl
        | true =>
          have := h2x_blank_get hbl hb0'
          rw [ha62] at this; cases this
      have h2lt : pos + 1 < (line.length : Int) := by
        have := hlast pos.toNat a hb0' (by rw [ha62]; decide)
        omega
      have hadv : 0 ≤ pos + 1 := by omega
      have hw1 := advN_within b (pos + 1).toNat c hp (by omega)
      have hq1 : ∀ i, i < (pos + 1).toNat → ∃ x, line[i]? = some x ∧ QuoteByte x := by
        intro i hi
        by_cases hip : (i : Int) < pos
        · obtain ⟨x, hx, hq⟩ := hiw i hip
          exact ⟨x, hx, hq.elim .inl (fun e => .inr (.inl e))⟩
        · have e : i = pos.toNat := by omega
          rw [e]; exact ⟨a, hb0', .inr (.inr ha62)⟩
      have hpre4 : PreC b (RCur.advN b (pos + 1).toNat c) := hstep _ (by omega) hpre hq1
      have hdrop4 := hdrop (pos + 1).toNat (by omega)
      by_cases hc3 : (pos + 1 ≥ (line.length : Int))
      · exfalso; omega
      · rw [if_neg (by simpa using hc3)]
        obtain ⟨b1, hb1, hb1'⟩ := idx_ok line (pos + 1) (by omega) (by omega)
        refine OKL.bind (liftE_okl (P := fun a s' => a = b1 ∧ s' = { s with r := r2 }) hb1 ⟨rfl, rfl⟩) (fun a1 s5 ha1 => ?_)
        obtain ⟨ha1, hs5⟩ := ha1
        subst ha1 hs5
        by_cases hc4 : (a1 == 10) = true
        · rw [if_pos hc4]
          refine OKL.bind (advance_okl (s := { s with r := r2 }) h2 hadv) (fun _ s4 h4 => ?_)
          obtain ⟨r4, hs4, h4⟩ := h4
          subst hs4
          exact OKL.ok (h2x_hl_mk h4 hw1.2.2.2.2.2 (.inl hpre4))
        · rw [if_neg hc4]
          refine OKL.bind (advance_okl (s := { s with r := r2 }) h2 hadv) (fun _ s4 h4 => ?_)
          obtain ⟨r4, hs4, h4⟩ := h4
          subst hs4
          generalize RCur.advN b (pos + 1).toNat c = c4 at h4 hw1 hpre4 hdrop4
          obtain ⟨i1, i2, _, i4, _, i6⟩ := hw1
          by_cases hc5 : (a1 == 32 || a1 == 9) = true
          · rw [if_pos hc5]
            have h3lt : pos + 2 < (line.length : Int) := by
              have := hlast (pos + 1).toNat a1 hb1' (by simpa using hc4)
              omega
            have hw2 := advN_within b 1 c4 i6 (by omega)
            have hpre5 : PreC b (RCur.advN b 1 c4) := by
              refine h2x_advN_prec b c4 1 i6 (by omega) hpre4 ?_
              intro i hi
              have e : i = 0 := by omega
              subst e
              rw [hdrop4, List.getElem?_drop]
              refine ⟨a1, hb1', ?_⟩
              simp only [Bool.or_eq_true, beq_iff_eq] at hc5
              exact hc5.elim .inl (fun e => .inr (.inl e))
            have hfin : ∀ p : Int, (advPadCur b 1 p c4).p < b.length ∧ TSafe b (advPadCur b 1 p c4) := by
              intro p
              have e := h2x_advPad_p b 1 p c4
              refine ⟨?_, .inl (h2x_prec_of_p e hpre5)⟩
              rw [e]; simpa using hw2.2.2.2.2.2
            by_cases hc6 : (a1 == 9) = true
            · simp only [hc6, if_true]
              refine OKL.bind (lineOffset_okl (s := { s with r := r4 }) h4) (fun lo2 s6 h6 => ?_)
              obtain ⟨_, r6, hs6, h6⟩ := h6
              subst hs6
              refine OKL.bind (m := Pure.pure (tabWidthI lo2 - 1)) (P := fun a s' => s' = { s with r := r6 }) (OKL.ok rfl) (fun pd s7 h7 => ?_)
              subst h7
              refine OKL.bind (advanceAndSetPadding_okl (s := { s with r := r6 }) h6 (by decide) pd) (fun _ s8 h8 => ?_)
              obtain ⟨r8, hs8, h8⟩ := h8
              subst hs8
              exact OKL.ok (h2x_hl_mk h8 (hfin pd).1 (hfin pd).2)
            · simp only [hc6, Bool.false_eq_true, if_false]
              refine OKL.bind (m := Pure.pure (0 : Int)) (P := fun a s' => s' = { s with r := r4 }) (OKL.ok rfl) (fun pd s7 h7 => ?_)
              subst h7
              refine OKL.bind (advanceAndSetPadding_okl (s := { s with r := r4 }) h4 (by decide) pd) (fun _ s8 h8 => ?_)
              obtain ⟨r8, hs8, h8⟩ := h8
              subst hs8
              exact OKL.ok (h2x_hl_mk h8 (hfin pd).1 (hfin pd).2)
          · rw [if_neg hc5]
            exact OKL.ok (h2x_hl_mk h4 i6 (.inl hpre4))

theorem h2x_blockquoteOpen_any (b : Bytes) (hnl : b.getLast? = some 10) (parent : Nat) (s s' : St)
    (x : Option Nat × PState) (hl : HL b s) (e : bpOpen .blockquote parent s = .ok (x, s')) : HL b s' := by
  obtain ⟨c, hc, hp, ht⟩ := h2x_hl_cur hl
  have hokl : OKL (fun _ s' => HL b s') (blockquoteOpen parent s) := by
    unfold blockquoteOpen
    refine OKL.bind (h2x_blockquoteProcess hnl hc hp ht) (fun t s1 h1 => ?_)
    cases t with
    | true =>
      simp only [if_true, bind, StateT.bind, newNode, pure, StateT.pure, Except.bind, Except.pure]
      exact OKL.ok h1
    | false =>
      simp only [Bool.false_eq_true, if_false, pure, StateT.pure, Except.pure]
      exact OKL.ok h1
  exact qh_okl_run (P := fun _ s' => HL b s') hokl e

theorem h2x_blockquoteContinue_any (b : Bytes) (hnl : b.getLast? = some 10) (node : Nat) (s s' : St) (st : PState)
    (hl : HL b s) (e : bpContinue .blockquote node s = .ok (st, s')) : HL b s' := by
  obtain ⟨c, hc, hp, ht⟩ := h2x_hl_cur hl
  have hokl : OKL (fun _ s' => HL b s') (blockquoteContinue node s) := by
    unfold blockquoteContinue
    refine OKL.bind (h2x_blockquoteProcess hnl hc hp ht) (fun t s1 h1 => ?_)
    cases t with
    | true =>
      simp only [if_true, pure, StateT.pure, Except.pure]
      exact OKL.ok h1
    | false =>
      simp only [Bool.false_eq_true, if_false, pure, StateT.pure, Except.pure]
      exact OKL.ok h1
  exact qh_okl_run (P := fun _ s' => HL b s') hokl e

theorem strictO6' (b : Bytes) (hnl : b.getLast? = some 10) : ∀ bp, Cov6 bp → ∀ (parent : Nat) (s s' : St)
    (x : Option Nat × PState), HL b s → bpOpen bp parent s = .ok (x, s') → x.2.hasChildren = true → HL b s' := by
  intro bp h parent s s' x hl e hc
  have := open_children_container bp h parent s s' x e hc
  subst this
  exact h2x_blockquoteOpen_any b hnl parent s s' x hl e

theorem strictC6' (b : Bytes) (hnl : b.getLast? = some 10) : ∀ bp, Cov6 bp → ∀ (node : Nat) (s s' : St) (st : PState),
    HL b s → bpContinue bp node s = .ok (st, s') → st.cont = true → st.hasChildren = true → HL b s' := by
  intro bp h node s s' st hl e _ hk
  have := continue_children_container bp h node s s' st e hk
  subst this
  exact h2x_blockquoteContinue_any b hnl node s s' st hl e

/-! ### Close -/

def h2x_CL (b : Bytes) : PState → St → Prop := fun st s' => st.cont = false → HL b s'
def h2x_KL (b : Bytes) : PState → St → Prop := fun st s' => st.cont = true → HL b s'

theorem h2x_cl_of_ret {b : Bytes} {m : M PState} (h : Ret m (fun st => st.cont = true)) (s : St) :
    xh_Post (h2x_CL b) (m s) :=
  (xh_Post.of_ret h s).mono (fun a _ ha hf => by rw [ha] at hf; cases hf)

theorem h2x_cl_pure {b : Bytes} {st : PState} {s : St} (h : HL b s) :
    xh_Post (h2x_CL b) ((Pure.pure st : M PState) s) := xh_Post.pure (fun _ => h)

theorem h2x_kl_of_ret {b : Bytes} {m : M PState} (h : Ret m (fun st => st.cont = false)) (s : St) :
    xh_Post (h2x_KL b) (m s) :=
  (xh_Post.of_ret h s).mono (fun a _ ha hf => by rw [ha] at hf; cases hf)

theorem h2x_kl_pure {b : Bytes} {st : PState} {s : St} (h : HL b s) :
    xh_Post (h2x_KL b) ((Pure.pure st : M PState) s) := xh_Post.pure (fun _ => h)

theorem h2x_paragraphContinue_cl (b : Bytes) (node : Nat) (s : St) (hl : HL b s) :
    xh_Post (h2x_CL b) (paragraphContinue node s) := by
  obtain ⟨c, hc, hp, ht⟩ := h2x_hl_cur hl
  unfold paragraphContinue
  refine xh_Post.bind (xh_Post.of_okl (peekLine_okl hc)) (fun x s1 ⟨hx, r1, hs1, h1⟩ => ?_)
  subst hx hs1
  simp only
  split
  · exact h2x_cl_pure (h2x_hl_mk h1 hp ht)
  · apply h2x_cl_of_ret; ret

theorem h2x_codeContinue_cl (b : Bytes) (node : Nat) (s : St) (hl : HL b s) :
    xh_Post (h2x_CL b) (codeContinue node s) := by
  obtain ⟨c, hc, hp, ht⟩ := h2x_hl_cur hl
  unfold codeContinue
  refine xh_Post.bind (xh_Post.of_okl (peekLine_okl hc)) (fun x s1 ⟨hx, r1, hs1, h1⟩ => ?_)
  subst hx hs1
  simp only
  split
  · apply h2x_cl_of_ret; ret
  · refine xh_Post.bind (xh_Post.of_okl (lineOffset_okl (s := { s with r := r1 }) h1)) (fun lo s2 ⟨_, r2, hs2, h2⟩ => ?_)
    subst hs2
    simp only
    split
    · exact h2x_cl_pure (h2x_hl_mk h2 hp ht)
    · apply h2x_cl_of_ret; ret

/-- the cursor behind `advance (len − trimRight)`: the rest of the line is blank -/
theorem h2x_html_adv (b : Bytes) (hnl : b.getLast? = some 10) (c : RCur) (hp : c.p < b.length) {r : Reader}
    (hc : RI b r c) :
    (RCur.advN b ((RCur.seg b c).len - (trimRightSpaceLength ((RCur.view b c).getD []) : Int)).toNat c).p < b.length ∧
    TSafe b (RCur.advN b ((RCur.seg b c).len - (trimRightSpaceLength ((RCur.view b c).getD []) : Int)).toNat c) := by
  have hn := qh_html_adv_nonneg hc
  have hT : 1 ≤ trimRightSpaceLength ((RCur.view b c).getD []) := qh_view_trimRight_pos b hnl c hp
  have hS : (RCur.seg b c).len = (c.pad : Int) + (lineEnd b c.p : Int) - (c.p : Int) := by
    simp only [RCur.seg, Segment.len]; omega
  have hle0 := lt_lineEnd b hp
  have hlen := view_getD_length_nat b c hp
  have e : ((RCur.seg b c).len - (trimRightSpaceLength ((RCur.view b c).getD []) : Int)).toNat =
      ((RCur.view b c).getD []).length - trimRightSpaceLength ((RCur.view b c).getD []) := by omega
  rw [e]
  exact h2x_advN_blank b c _ hp (by omega) (h2x_trim_blank _)

theorem h2x_htmlContinue_cl (b : Bytes) (hnl : b.getLast? = some 10) (node : Nat) (s : St) (hl : HL b s) :
    xh_Post (h2x_CL b) (htmlContinue node s) := by
  obtain ⟨c, hc0, hp, ht⟩ := h2x_hl_cur hl
  unfold htmlContinue
  refine xh_Post.bind (xh_getNode_post node s) (fun n s0 hs0 => ?_)
  subst hs0
  refine xh_Post.bind (xh_Post.of_okl (peekLine_okl hc0)) (fun x s1 ⟨hx, r1, hs1, hc⟩ => ?_)
  subst hx hs1
  simp only
  have hn := qh_html_adv_nonneg hc
  have hw := h2x_html_adv b hnl c hp hc
  generalize (RCur.view b c).getD [] = line at hn hw ⊢
  generalize RCur.seg b c = segment at hn hw ⊢
  have hcl : ∀ v, (if (n.htmlType == 1) = true then type1Close v
      else if (n.htmlType == 2) = true then containsSub (strBytes "-->") v
      else if (n.htmlType == 3) = true then containsSub (strBytes "?>") v
      else if (n.htmlType == 4) = true then containsSub (strBytes ">") v
      else containsSub (strBytes "]]>") v) = qh_htmlCloses n.htmlType v := fun v => rfl
  simp only [hcl]
  have fin : ∀ s2 : St, xh_Post (h2x_CL b)
      ((do appendLine node segment
           advance (segment.len - trimRightSpaceLength line)
           pure stContinueNoChildren : M PState) s2) := by
    intro s2; apply h2x_cl_of_ret; ret
  have mid : ∀ (cl : Bool) (s2 : St), s2.r = r1 → xh_Post (h2x_CL b)
      ((if cl = true then do
            modNode node fun n => { n with closure := segment }
            advance (segment.len - trimRightSpaceLength line)
            pure stClose
          else do
            appendLine node segment
            advance (segment.len - trimRightSpaceLength line)
            pure stContinueNoChildren : M PState) s2) := by
    intro cl s2 hr2
    by_cases hc1 : cl = true
    · rw [if_pos hc1]
      refine xh_Post.bind (xh_modNode_post node _ s2) (fun _ s3 h3 => ?_)
      have h3' : RI b s3.r c := by rw [h3, hr2]; exact hc
      refine xh_Post.bind (xh_Post.of_okl (advance_okl h3' hn)) (fun _ s4 ⟨r4, hs4, h4⟩ => ?_)
      subst hs4
      exact h2x_cl_pure (h2x_hl_mk h4 hw.1 hw.2)
    · rw [if_neg hc1]; exact fin _
  split
  · split
    · refine xh_Post.bind (xh_liftE_post _ _) ?_
      intro l1 s3 hs3
      subst hs3
      refine xh_Post.bind (xh_source_post _) ?_
      intro src s3 hs3
      subst hs3
      refine xh_Post.bind (xh_liftE_post _ _) ?_
      intro v s3 hs3
      subst hs3
      by_cases hc2 : qh_htmlCloses n.htmlType v = true
      · rw [if_pos hc2]; exact h2x_cl_pure (h2x_hl_mk hc hp ht)
      · rw [if_neg hc2]; exact mid _ _ rfl
    · exact mid _ _ rfl
  · split
    · split
      · exact h2x_cl_pure (h2x_hl_mk hc hp ht)
      · exact fin _
    · exact fin _

theorem hcl6' (b : Bytes) (hnl : b.getLast? = some 10) : ∀ bp, Cov6 bp → ∀ (node : Nat) (s s' : St) (st : PState),
    HL b s → bpContinue bp node s = .ok (st, s') → st.cont = false → HL b s' := by
  intro bp h node s s' st hl e hc
  cases bp
  · exact absurd rfl h.2.2.1
  · unfold bpContinue at e; cases e; exact hl
  · exact absurd rfl h.1
  · exact absurd rfl h.2.1
  · exact h2x_codeContinue_cl b node s hl st s' e hc
  · unfold bpContinue at e; cases e; exact hl
  · exact absurd rfl h.2.2.2
  · exact h2x_blockquoteContinue_any b hnl node s s' st hl e
  · exact h2x_htmlContinue_cl b hnl node s hl st s' e hc
  · exact h2x_paragraphContinue_cl b node s hl st s' e hc

/-! ### a leaf goes on -/

/-- the cursor behind `advance (len − 1)`: on the line feed -/
theorem h2x_eol_adv (b : Bytes) (hnl : b.getLast? = some 10) (c : RCur) (hp : c.p < b.length) :
    (RCur.advN b ((RCur.seg b c).len - 1).toNat c).p < b.length ∧
    TSafe b (RCur.advN b ((RCur.seg b c).len - 1).toNat c) := by
  have hS : (RCur.seg b c).len = (c.pad : Int) + (lineEnd b c.p : Int) - (c.p : Int) := by
    simp only [RCur.seg, Segment.len]; omega
  have hle0 := lt_lineEnd b hp
  have hlen := view_getD_length_nat b c hp
  have hlast := qh_view_last b hnl c hp
  have e : ((RCur.seg b c).len - 1).toNat = c.pad + (lineEnd b c.p - c.p) - 1 := by omega
  rw [e]
  refine h2x_advN_blank b c _ hp (by omega) (h2x_all_of_drop _ _ ?_)
  intro i x hi hx
  obtain ⟨hlt, _⟩ := List.getElem?_eq_some_iff.mp hx
  have e2 : i = c.pad + (lineEnd b c.p - c.p) - 1 := by omega
  rw [e2, hlast] at hx
  cases hx; rfl

theorem h2x_paragraphContinue_kl (b : Bytes) (hnl : b.getLast? = some 10) (node : Nat) (s : St) (hl : HL b s) :
    xh_Post (h2x_KL b) (paragraphContinue node s) := by
  obtain ⟨c, hc, hp, ht⟩ := h2x_hl_cur hl
  unfold paragraphContinue
  refine xh_Post.bind (xh_Post.of_okl (peekLine_okl hc)) (fun x s1 ⟨hx, r1, hs1, h1⟩ => ?_)
  subst hx hs1
  simp only
  have hle := lt_lineEnd b hp
  split
  · apply h2x_kl_of_ret; ret
  · refine xh_Post.bind (xh_appendLine_post node _ _) ?_
    intro _ s2 hs2
    have h2 : RI b s2.r c := by rw [hs2]; exact h1
    have h0 : 0 ≤ (RCur.seg b c).len - 1 := by simp only [Segment.len, RCur.seg]; omega
    refine xh_Post.bind (xh_Post.of_okl (advance_okl h2 h0)) ?_
    intro _ s3 ⟨r3, hs3, h3⟩
    subst hs3
    have hw := h2x_eol_adv b hnl c hp
    exact h2x_kl_pure (h2x_hl_mk h3 hw.1 hw.2)

theorem h2x_htmlContinue_kl (b : Bytes) (hnl : b.getLast? = some 10) (node : Nat) (s : St) (hl : HL b s) :
    xh_Post (h2x_KL b) (htmlContinue node s) := by
  obtain ⟨c, hc0, hp, ht⟩ := h2x_hl_cur hl
  unfold htmlContinue
  refine xh_Post.bind (xh_getNode_post node s) (fun n s0 hs0 => ?_)
  subst hs0
  refine xh_Post.bind (xh_Post.of_okl (peekLine_okl hc0)) (fun x s1 ⟨hx, r1, hs1, hc⟩ => ?_)
  subst hx hs1
  simp only
  have hn := qh_html_adv_nonneg hc
  have hw := h2x_html_adv b hnl c hp hc
  generalize (RCur.view b c).getD [] = line at hn hw ⊢
  generalize RCur.seg b c = segment at hn hw ⊢
  have hcl : ∀ v, (if (n.htmlType == 1) = true then type1Close v
      else if (n.htmlType == 2) = true then containsSub (strBytes "-->") v
      else if (n.htmlType == 3) = true then containsSub (strBytes "?>") v
      else if (n.htmlType == 4) = true then containsSub (strBytes ">") v
      else containsSub (strBytes "]]>") v) = qh_htmlCloses n.htmlType v := fun v => rfl
  simp only [hcl]
  have fin : ∀ s2 : St, s2.r = r1 → xh_Post (h2x_KL b)
      ((do appendLine node segment
           advance (segment.len - trimRightSpaceLength line)
           pure stContinueNoChildren : M PState) s2) := by
    intro s2 hr2
    refine xh_Post.bind (xh_appendLine_post node _ s2) (fun _ s3 h3 => ?_)
    have h3' : RI b s3.r c := by rw [h3, hr2]; exact hc
    refine xh_Post.bind (xh_Post.of_okl (advance_okl h3' hn)) (fun _ s4 ⟨r4, hs4, h4⟩ => ?_)
    subst hs4
    exact h2x_kl_pure (h2x_hl_mk h4 hw.1 hw.2)
  have mid : ∀ (cl : Bool) (s2 : St), s2.r = r1 → xh_Post (h2x_KL b)
      ((if cl = true then do
            modNode node fun n => { n with closure := segment }
            advance (segment.len - trimRightSpaceLength line)
            pure stClose
          else do
            appendLine node segment
            advance (segment.len - trimRightSpaceLength line)
            pure stContinueNoChildren : M PState) s2) := by
    intro cl s2 hr2
    by_cases hc1 : cl = true
    · rw [if_pos hc1]; apply h2x_kl_of_ret; ret
    · rw [if_neg hc1]; exact fin _ hr2
  split
  · split
    · refine xh_Post.bind (xh_liftE_post _ _) ?_
      intro l1 s3 hs3
      subst hs3
      refine xh_Post.bind (xh_source_post _) ?_
      intro src s3 hs3
      subst hs3
      refine xh_Post.bind (xh_liftE_post _ _) ?_
      intro v s3 hs3
      subst hs3
      by_cases hc2 : qh_htmlCloses n.htmlType v = true
      · rw [if_pos hc2]; apply h2x_kl_of_ret; ret
      · rw [if_neg hc2]; exact mid _ _ rfl
    · exact mid _ _ rfl
  · split
    · split
      · apply h2x_kl_of_ret; ret
      · exact fin _ rfl
    · exact fin _ rfl

/-- the code block parser is left out: `codeTakeLine` may stop short of the line feed when `preserveLeadingTab`
    rewrites the segment -/
theorem hcn6' (b : Bytes) (hnl : b.getLast? = some 10) : ∀ bp, Cov6 bp → bp ≠ .code → ∀ (node : Nat) (s s' : St) (st : PState),
    HL b s → bpContinue bp node s = .ok (st, s') → st.cont = true → st.hasChildren = false → HL b s' := by
  intro bp h hcode node s s' st hl e hc _
  cases bp
  · exact absurd rfl h.2.2.1
  · unfold bpContinue at e; cases e; exact hl
  · exact absurd rfl h.1
  · exact absurd rfl h.2.1
  · exact absurd rfl hcode
  · unfold bpContinue at e; cases e; exact hl
  · exact absurd rfl h.2.2.2
  · exact h2x_blockquoteContinue_any b hnl node s s' st hl e
  · exact h2x_htmlContinue_kl b hnl node s hl st s' e hc
  · exact h2x_paragraphContinue_kl b hnl node s hl st s' e hc

/-- `Keeps` form of `strictC6'`, `hcn6'`, `hcl6'` (the code block parser left out, as in `hcn6'`) -/
theorem hl_continue6 (b : Bytes) (hnl : b.getLast? = some 10) : ∀ bp, Cov6 bp → bp ≠ .code → ∀ n,
    Keeps (HL b) (bpContinue bp n) := by
  intro bp h hcode n s a s' hl e
  cases hc : a.cont with
  | false => exact hcl6' b hnl bp h n s s' a hl e hc
  | true =>
    cases hk : a.hasChildren with
    | false => exact hcn6' b hnl bp h hcode n s s' a hl e hc hk
    | true => exact strictC6' b hnl bp h n s s' a hl e hc hk

end GM.Blocks.Xs
