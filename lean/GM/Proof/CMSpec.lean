/-
  GM.Proof.CMSpec — lemmas for property C02 (package cmspec): the model of goldmark's text writer
  (GM.Model.Writer, tied to renderer/html/html.go by component `render`) undoes every licensed spelling of
  literal text produced by the specification-side generator (GM.Spec.CMText).
-/
import GM.Model.Writer
import GM.Spec.CMText

namespace GM.Proof.CMSpec
open GM GM.Spec.CM

/-! ### the writer, one event at a time -/

theorem writeGo_plain (es : Bool) (c : UInt8) (rest : Bytes) (h0 : c ≠ 0) (h1 : c ≠ 38) (h2 : c ≠ 92) :
    writeGo es false (c :: rest) = escByte c ++ writeGo es false rest := by
  rw [writeGo]; simp [h0, h1, h2]

theorem writeGo_backslash (es : Bool) (c : UInt8) (rest : Bytes) (hp : isPunct c = true) :
    writeGo es false (92 :: c :: rest) = escByte c ++ writeGo es false rest := by
  rw [writeGo]; simp
  rw [writeGo]; simp [hp]

theorem writeGo_ref (es : Bool) (cs out rest : Bytes) (h : tryRefW cs = some (out, rest)) :
    writeGo es false (38 :: cs) = out ++ writeGo es false rest := by
  rw [writeGo]; simp
  split
  · rename_i o r heq; rw [h] at heq; cases heq; rfl
  · rename_i heq; rw [h] at heq; cases heq

/-! ### scanning a run of class characters up to the `;` -/

theorem spanB_run (p : UInt8 → Bool) (ds rest : Bytes) (hall : ∀ d ∈ ds, p d = true) (h59 : p 59 = false) :
    spanB p (ds ++ 59 :: rest) = (ds, 59 :: rest) := by
  induction ds with
  | nil => simp [spanB, h59]
  | cons d ds ih =>
    have hd : p d = true := hall d (by simp)
    have := ih (fun x hx => hall x (by simp [hx]))
    simp [spanB, hd, this]

theorem digitsVal_zeros (base : Nat) (k : Nat) (ds : Bytes) : digitsVal base (zeros k ++ ds) = digitsVal base ds := by
  unfold digitsVal zeros
  induction k with
  | zero => simp
  | succ k ih =>
    simp only [List.replicate_succ, List.cons_append, List.foldl_cons]
    have : (0 * base + hexVal 48) = 0 := by simp [hexVal, isNumeric]
    rw [this]; exact ih

theorem zeros_all (p : UInt8 → Bool) (h : p 48 = true) (k : Nat) : ∀ d ∈ zeros k, p d = true := by
  intro d hd; simp [zeros] at hd; rw [hd.2]; exact h

/-! ### finite facts about the 95 printable characters (kernel-evaluated over all 256 bytes) -/

theorem dec_val : ∀ c : UInt8, digitsVal 10 (decDigits c.toNat) = c.toNat := by
  apply forall_uint8; decide +kernel
theorem dec_num : ∀ c : UInt8, (decDigits c.toNat).all isNumeric = true := by
  apply forall_uint8; decide +kernel
theorem dec_len : ∀ c : UInt8, 1 ≤ (decDigits c.toNat).length ∧ (decDigits c.toNat).length ≤ 3 := by
  apply forall_uint8; decide +kernel
theorem hex_val : ∀ c : UInt8, ∀ up : Bool, digitsVal 16 (hexDigits up c.toNat) = c.toNat := by
  apply forall_uint8; decide +kernel
theorem hex_hex : ∀ c : UInt8, ∀ up : Bool, (hexDigits up c.toNat).all isHex = true := by
  apply forall_uint8; decide +kernel
theorem hex_len : ∀ c : UInt8, ∀ up : Bool, 1 ≤ (hexDigits up c.toNat).length ∧ (hexDigits up c.toNat).length ≤ 2 := by
  apply forall_uint8; decide +kernel
theorem escapeRune_printable : ∀ c : UInt8, printable c = true → escapeRune c.toNat = escByte c := by
  apply forall_uint8; decide +kernel
theorem punct_eq : ∀ c : UInt8, isAsciiPunct c = isPunct c := by
  apply forall_uint8; decide +kernel
theorem mustEscape_punct : ∀ c : UInt8, mustEscape c = true → isPunct c = true := by
  apply forall_uint8; decide +kernel
theorem lit_safe : ∀ c : UInt8, printable c = true → mustEscape c = false → c ≠ 0 ∧ c ≠ 38 ∧ c ≠ 92 := by
  apply forall_uint8; decide +kernel
theorem nonpunct_safe : ∀ c : UInt8, printable c = true → isAsciiPunct c = false → c ≠ 0 ∧ c ≠ 38 ∧ c ≠ 92 := by
  apply forall_uint8; decide +kernel

theorem num_not_x : ∀ d : UInt8, isNumeric d = true → (d == 120 || d == 88) = false := by
  apply forall_uint8; decide +kernel

/-- every name of `namedFor` is a non-empty alphanumeric word that does not start with `#` and that the
    regenerated HTML5 entity table maps to exactly that character -/
theorem named_ok : ∀ c : UInt8, ∀ n, namedFor c = some n →
    lookupEntity n = some [c] ∧ n.all isAlnum = true ∧ n ≠ [] ∧ n.head? ≠ some 35 := by
  apply forall_uint8; decide +kernel


/-! ### the three reference forms as `tryRefW` sees them -/

theorem tryRefW_dec (ds rest : Bytes) (hne : ds ≠ []) (hall : ∀ d ∈ ds, isNumeric d = true) (hlen : ds.length < 8) :
    tryRefW (35 :: (ds ++ 59 :: rest)) = some (escapeRune (parseUintDec ds), rest) := by
  cases ds with
  | nil => exact absurd rfl hne
  | cons d tl =>
    have hd : isNumeric d = true := hall d (by simp)
    have hx : (d == 120 || d == 88) = false := num_not_x d hd
    have hs := spanB_run isNumeric (d :: tl) rest hall (by decide)
    simp only [List.cons_append] at hs
    simp only [tryRefW, List.cons_append, hx, hd, hs]
    simp at hlen ⊢; omega

theorem tryRefW_hex (x : UInt8) (hx : x = 120 ∨ x = 88) (ds rest : Bytes) (hne : ds ≠ [])
    (hall : ∀ d ∈ ds, isHex d = true) (hlen : ds.length < 7) :
    tryRefW (35 :: x :: (ds ++ 59 :: rest)) = some (escapeRune (parseUintHex ds), rest) := by
  have hs := spanB_run isHex ds rest hall (by decide)
  have hx' : (x == 120 || x == 88) = true := by rcases hx with h | h <;> subst h <;> decide
  simp only [tryRefW, hx', hs]
  cases ds with
  | nil => exact absurd rfl hne
  | cons d tl => simp at hlen ⊢; omega

theorem tryRefW_named (n rest cs : Bytes) (hall : n.all isAlnum = true) (hne : n ≠ []) (h35 : n.head? ≠ some 35)
    (hl : lookupEntity n = some cs) :
    tryRefW (n ++ 59 :: rest) = some (rawWrite cs, rest) := by
  have hs := spanB_run isAlnum n rest (by simpa using hall) (by decide)
  cases n with
  | nil => exact absurd rfl hne
  | cons a tl =>
    have ha : a ≠ 35 := by intro h; subst h; simp at h35
    simp only [List.cons_append] at hs ⊢
    unfold tryRefW
    split
    · rename_i r1 heq; cases heq; exact absurd rfl ha
    · simp [hs, hl]

/-! ### one character -/

theorem write_spellChar (es : Bool) (t : TChar) (rest : Bytes) (hp : printable t.c = true) :
    writeGo es false (spellChar t ++ rest) = escByte t.c ++ writeGo es false rest := by
  obtain ⟨c, e⟩ := t
  simp only at hp
  cases e with
  | lit =>
    simp only [spellChar]
    split
    · rename_i hm; exact writeGo_backslash es c rest (mustEscape_punct c hm)
    · rename_i hm
      have := lit_safe c hp (by simpa using hm)
      exact writeGo_plain es c rest this.1 this.2.1 this.2.2
  | bs =>
    simp only [spellChar]
    split
    · rename_i hm; exact writeGo_backslash es c rest (by rw [← punct_eq]; exact hm)
    · rename_i hm
      have := nonpunct_safe c hp (by simpa using hm)
      exact writeGo_plain es c rest this.1 this.2.1 this.2.2
  | dec pad =>
    simp only [spellChar]
    have hl := dec_len c
    have hall : ∀ d ∈ zeros (min pad (7 - (decDigits c.toNat).length)) ++ decDigits c.toNat, isNumeric d = true := by
      intro d hd
      rcases List.mem_append.mp hd with h | h
      · exact zeros_all isNumeric (by decide) _ d h
      · exact List.all_eq_true.mp (dec_num c) d h
    have hne : zeros (min pad (7 - (decDigits c.toNat).length)) ++ decDigits c.toNat ≠ [] := by
      intro h; have := congrArg List.length h; simp only [List.length_append, List.length_nil] at this; omega
    have hlen : (zeros (min pad (7 - (decDigits c.toNat).length)) ++ decDigits c.toNat).length < 8 := by
      simp [zeros]; omega
    have h := tryRefW_dec _ rest hne hall hlen
    have hv : parseUintDec (zeros (min pad (7 - (decDigits c.toNat).length)) ++ decDigits c.toNat) = c.toNat := by
      unfold parseUintDec; rw [digitsVal_zeros, dec_val]
      have := c.toNat_lt; omega
    rw [hv, escapeRune_printable c hp] at h
    have := writeGo_ref es _ _ _ h
    simpa [List.append_assoc] using this
  | hex pad upX upD =>
    simp only [spellChar]
    have hl := hex_len c upD
    have hall : ∀ d ∈ zeros (min pad (6 - (hexDigits upD c.toNat).length)) ++ hexDigits upD c.toNat, isHex d = true := by
      intro d hd
      rcases List.mem_append.mp hd with h | h
      · exact zeros_all isHex (by decide) _ d h
      · exact List.all_eq_true.mp (hex_hex c upD) d h
    have hne : zeros (min pad (6 - (hexDigits upD c.toNat).length)) ++ hexDigits upD c.toNat ≠ [] := by
      intro h; have := congrArg List.length h; simp only [List.length_append, List.length_nil] at this; omega
    have hlen : (zeros (min pad (6 - (hexDigits upD c.toNat).length)) ++ hexDigits upD c.toNat).length < 7 := by
      simp [zeros]; omega
    have h := tryRefW_hex (if upX then 88 else 120) (by cases upX <;> simp) _ rest hne hall hlen
    have hv : parseUintHex (zeros (min pad (6 - (hexDigits upD c.toNat).length)) ++ hexDigits upD c.toNat) = c.toNat := by
      unfold parseUintHex; rw [digitsVal_zeros, hex_val]
      have := c.toNat_lt; omega
    rw [hv, escapeRune_printable c hp] at h
    have := writeGo_ref es _ _ _ h
    simpa [List.append_assoc] using this
  | named =>
    simp only [spellChar]
    split
    · rename_i n hn
      have hk := named_ok c n hn
      have h := tryRefW_named n rest [c] hk.2.1 hk.2.2.1 hk.2.2.2 hk.1
      have := writeGo_ref es _ _ _ h
      simpa [List.append_assoc, rawWrite, escapeHTML] using this
    · split
      · rename_i hm; exact writeGo_backslash es c rest (mustEscape_punct c hm)
      · rename_i hm
        have := lit_safe c hp (by simpa using hm)
        exact writeGo_plain es c rest this.1 this.2.1 this.2.2

theorem write_escSpell_append (es : Bool) (cs : List TChar) (rest : Bytes) (hp : ∀ t ∈ cs, printable t.c = true) :
    writeGo es false (escSpell cs ++ rest) = rawWrite (plain cs) ++ writeGo es false rest := by
  induction cs with
  | nil => simp [escSpell, plain, rawWrite, escapeHTML]
  | cons t ts ih =>
    have h1 := write_spellChar es t (escSpell ts ++ rest) (hp t (by simp))
    have h2 := ih (fun x hx => hp x (by simp [hx]))
    simp only [escSpell, List.flatMap_cons, List.append_assoc] at h1 h2 ⊢
    rw [h1, h2]
    simp [plain, rawWrite, escapeHTML]

/-- DESIGN's `write_undoes_spelling` -/
theorem escSpell_decodes (es : Bool) (cs : List TChar) (hp : ∀ t ∈ cs, printable t.c = true) :
    write es (escSpell cs) = rawWrite (plain cs) := by
  have := write_escSpell_append es cs [] hp
  simpa [write, writeGo] using this


theorem escHtmlByte_eq : ∀ c : UInt8, escHtmlByte c = escByte c := by
  apply forall_uint8; decide +kernel

theorem escHtml_eq_rawWrite (b : Bytes) : escHtml b = rawWrite b := by
  simp only [escHtml, rawWrite, escapeHTML]
  congr 1; funext c; exact escHtmlByte_eq c

end GM.Proof.CMSpec
