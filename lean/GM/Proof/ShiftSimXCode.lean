/-
  GM.Proof.ShiftSimXCode — the indented code block parser (parser/code_block.go) under the shift simulation.
-/
import GM.Proof.ShiftSimXPara
import GM.Proof.BlocksSpecFenced
import GM.Proof.BlocksSpecCode

namespace GM.Blocks.Xs
open GM GM.Text GM.Spec GM.Proof.Reader GM.Blocks

/-! ### codeBlockParser.Close -/

theorem codeClose_sim (F : Frame) (b : Bytes) : CloseSim F b .code := by
  intro node rA rB sA sB h
  show P2 _ (codeClose node sA) (codeClose (F.ι node) sB)
  unfold codeClose
  refine P2.bind (getNode_l h node) (fun n m sA1 sB1 ⟨hn, hm, e1, e2⟩ => ?_)
  subst e1 e2 hm
  refine P2.bind (source_l h) (fun a a' sA2 sB2 ⟨ha, hb, e1, e2⟩ => ?_)
  subst e1 e2
  rw [ha, hb]
  rw [shN_lines, shN_linesNil, List.length_map]
  refine P2.bind (P := fun s t sA' sB' => t = s ∧ sA2 = sA' ∧ sB2 = sB')
    (P2.liftE (fun s t e1 e2 => ?_)) (fun s t sA3 sB3 ⟨ht, e1, e2⟩ => ?_)
  · rw [codeTrimLoop_sh F _ _ _ e1] at e2; cases e2; exact ⟨rfl, rfl, rfl⟩
  subst ht e1 e2
  by_cases hc : (n.linesNil && t + 1 != 0) = true
  · rw [if_pos hc, if_pos hc]; exact P2.bind (P := fun _ _ _ _ => False) P2.throwL (fun _ _ _ _ hh => hh.elim)
  · rw [if_neg hc, if_neg hc]
    exact modNode_l h node _ _ (fun a => by simp [shN, List.map_take]) (fun _ => rfl)

/-! ### preserveLeadingTabInCodeBlock -/

/-- `LineOffset()` commutes with the shift also when `head` is negative, as long as the column loop does not run -/
theorem code_lineOffsetOp_sh (F : Frame) (r : Reader) (hh : 0 ≤ r.head ∨ r.head ≥ r.pos.start)
    (hq : F.q = [] ∨ r.pos.start ≤ r.source.length) :
    (shR F r).lineOffsetOp = r.lineOffsetOp.map (fun x => (x.1, shR F x.2)) := by
  rcases Int.lt_or_le r.head 0 with hneg | hpos
  · have hge : r.head ≥ r.pos.start := by
      rcases hh with h | h
      · omega
      · exact h
    unfold Reader.lineOffsetOp
    have e0 : (shR F r).lineOffset = r.lineOffset := rfl
    rw [e0]
    by_cases hc : r.lineOffset < 0
    · rw [if_pos hc, if_pos hc]
      unfold colLoop
      rw [if_pos hge, if_pos (by simp only [shR, moveSeg]; omega)]
      rfl
    · rw [if_neg hc, if_neg hc]; rfl
  · exact lineOffsetOp_sh F r hpos hq

theorem code_lineOffsetOp_source {r r' : Reader} {v : Int} (h : r.lineOffsetOp = .ok (v, r')) : r'.source = r.source := by
  unfold Reader.lineOffsetOp at h
  split at h
  · cases hv : colLoop r.source r.head r.pos.start with
    | error e => rw [hv] at h; cases h
    | ok x => rw [hv] at h; cases h; rfl
  · cases h; rfl

theorem code_lineOffset_raw_p2 {F : Frame} {sA sB : St} (hr : sB.r = shR F sA.r)
    (hh : 0 ≤ sA.r.head ∨ sA.r.head ≥ sA.r.pos.start)
    (hq : F.q = [] ∨ sA.r.pos.start ≤ sA.r.source.length) :
    P2 (fun x y sA' sB' => y = x ∧ ∃ r3, sA' = { sA with r := r3 } ∧ sB' = { sB with r := shR F r3 } ∧
        r3.source = sA.r.source) (lineOffset sA) (lineOffset sB) := by
  intro x sA' y sB' e1 e2
  unfold GM.Blocks.lineOffset at e1 e2
  rw [hr, code_lineOffsetOp_sh F _ hh hq] at e2
  cases hl : sA.r.lineOffsetOp with
  | error e => rw [hl] at e1; cases e1
  | ok v =>
    rw [hl] at e1 e2
    cases e1; cases e2
    exact ⟨rfl, v.2, rfl, rfl, code_lineOffsetOp_source hl⟩

/-- `LineOffset()`, keeping track of A's cursor -/
theorem code_lineOffset_p2c {F b sA sB} (h : SR F b sA sB) {c : RCur} (hc : RI b sA.r c) :
    P2 (fun x y sA' sB' => y = x ∧ RI b sA'.r c ∧ SR F b sA' sB') (lineOffset sA) (lineOffset sB) := by
  obtain ⟨v, r', h1, h2, _⟩ := ri_lineOffset hc
  have hB : sB.r.lineOffsetOp = .ok (v, shR F r') := by
    rw [h.r, lineOffsetOp_sh F _ hc.head
      (.inr (by have := hc.inRange; rw [hc.source, hc.pos]; simp only; omega)), h1]; rfl
  unfold GM.Blocks.lineOffset
  rw [h1, hB]
  exact P2.ok ⟨rfl, h2, h.withR h2⟩

/-- `PeekLine()`, keeping track of A's cursor -/
theorem code_peekLine_p2c {F b sA sB} (h : SR F b sA sB) {c : RCur} (hc : RI b sA.r c)
    (hq : F.q = [] ∨ c.p < b.length) :
    P2 (fun x y sA' sB' => RI b sA'.r c ∧ x = (RCur.view b c, RCur.seg b c) ∧ y = (x.1, moveSeg F.d x.2) ∧
        SR F b sA' sB') (peekLine sA) (peekLine sB) := by
  obtain ⟨r', h1, h2⟩ := ri_peekLine hc
  have hB : sB.r.peekLine = .ok ((RCur.view b c, moveSeg F.d (RCur.seg b c)), shR F r') := by
    rw [h.r, peekLine_sh F _ (RI.start_nonneg hc) (RI.peek_hq hc (hq.imp id (fun x => ⟨c, hc, x⟩))), h1]; rfl
  unfold GM.Blocks.peekLine
  rw [h1, hB]
  exact P2.ok ⟨h2, rfl, rfl, h.withR h2⟩

theorem preserveLeadingTab_p2 {F b sA sB} (hF : F.OK) (h : SR F b sA sB) {c : RCur} (hc0 : RI b sA.r c)
    (seg : Segment) (ind : Int) :
    P2 (fun x y sA' sB' => (x = seg ∨ x = { seg with padding := 0, start := seg.start - 1 }) ∧ y = moveSeg F.d x ∧
        RI b sA'.r c ∧ SR F b sA' sB')
      (preserveLeadingTab seg ind sA) (preserveLeadingTab (moveSeg F.d seg) ind sB) := by
  unfold preserveLeadingTab
  refine P2.bind (code_lineOffset_p2c h hc0) (fun lo lo' sA1 sB1 ⟨e, hc, h1⟩ => ?_)
  subst e
  refine P2.bind (position_p2 h1) (fun x y sA2 sB2 ⟨hx, hy, e1, e2⟩ => ?_)
  subst e1 e2 hy hx
  simp only [Reader.position]
  have hpos := hc.pos
  have hin := hc.inRange
  have hst : sA2.r.pos.start = (c.p : Int) := by rw [hpos]
  generalize hr2 : sA2.r.setPosition sA2.r.line { start := sA2.r.pos.start - 1, stop := sA2.r.pos.stop } = r2
  have hB : sB2.r.setPosition (sA2.r.line + F.dl)
      { start := (moveSeg F.d sA2.r.pos).start - 1, stop := (moveSeg F.d sA2.r.pos).stop } = shR F r2 := by
    have es : ({ start := (moveSeg F.d sA2.r.pos).start - 1, stop := (moveSeg F.d sA2.r.pos).stop } : Segment) =
        moveSeg F.d { start := sA2.r.pos.start - 1, stop := sA2.r.pos.stop } := by
      simp only [moveSeg, Segment.mk.injEq, and_true]; omega
    rw [es, h1.r, setPosition_sh F hF _ _ _ (by simp only; omega)
      (.inr (by simp only; rw [hc.source]; omega)), hr2]
  refine P2.bind (P := fun _ _ sA' sB' => sA' = { sA2 with r := r2 } ∧ sB' = { sB2 with r := shR F r2 })
    (P2.ok ⟨by rw [hr2], by rw [hB]⟩) (fun _ _ sA3 sB3 ⟨e1, e2⟩ => ?_)
  subst e1 e2
  have hhead : 0 ≤ r2.head ∨ r2.head ≥ r2.pos.start := by
    rw [← hr2]; unfold Reader.setPosition; simp only
    split
    · exact .inl (by omega)
    · exact .inr (by omega)
  have hr2q : F.q = [] ∨ r2.pos.start ≤ r2.source.length := by
    right
    rw [← hr2]; simp only [Reader.setPosition]; rw [hc.source]; omega
  refine P2.bind (code_lineOffset_raw_p2 (sA := { sA2 with r := r2 }) (sB := { sB2 with r := shR F r2 }) rfl hhead hr2q)
    (fun lo2 lo2' sA4 sB4 ⟨e, r3, e1, e2, hs3⟩ => ?_)
  subst e e1 e2
  have hs3' : r3.source = b := by
    rw [hs3, ← hr2]; exact hc.source
  have hri := ri_setPosition_back hc hs3'
  have hB2 : (shR F r3).setPosition (sA2.r.line + F.dl) (moveSeg F.d sA2.r.pos) =
      shR F (r3.setPosition sA2.r.line sA2.r.pos) :=
    setPosition_sh F hF _ _ _ (by omega) (.inr (by rw [hs3']; omega))
  refine P2.bind (P := fun _ _ sA' sB' => RI b sA'.r c ∧ SR F b sA' sB')
    (P2.ok (by simp only; rw [hB2]; exact ⟨hri, h1.withR hri⟩)) (fun _ _ sA5 sB5 ⟨hc5, h5⟩ => ?_)
  refine P2.pure ⟨?_, ?_, hc5, h5⟩
  · split
    · exact .inr rfl
    · exact .inl rfl
  · split
    · simp only [moveSeg, Segment.mk.injEq, and_true]; omega
    · rfl

/-! ### the common tail of codeBlockParser.Open / Continue -/

/-- the line is not used up by `AdvanceAndSetPadding(pos, ·)`: the last `Advance(segment.Len() - 1)` goes forward -/
def CodeTakeOK (b : Bytes) (c : RCur) (pos : Int) : Prop :=
  c.p < b.length ∧ pos.toNat + 1 ≤ c.pad + (lineEnd b c.p - c.p)

theorem codeTakeLine_p2 {F b sA sB} (hF : F.OK) (hq : QNL F b) (h : SR F b sA sB) {c : RCur} (hc : RI b sA.r c)
    (node : Nat) {pos : Int} (hn : 0 ≤ pos) (pd : Int) (hk : F.q = [] ∨ CodeTakeOK b c pos) :
    P2 (fun _ _ sA' sB' => SRLim F b sA' sB' ∧ (CodeTakeOK b c pos → SR F b sA' sB'))
      (codeTakeLine node pos pd sA) (codeTakeLine (F.ι node) pos pd sB) := by
  unfold codeTakeLine
  obtain ⟨r1, e1, hr1⟩ := ri_advanceAndSetPadding hc hn pd
  have hk1 : F.q = [] ∨ NoLF sA.r pos.toNat := by
    refine hk.imp id (fun g => RI.noLF hc ?_)
    have hl := lt_lineEnd b g.1
    have g2 := g.2
    rw [hc.pos]; simp only; omega
  have hB1 : sB.r.advanceAndSetPadding pos pd = .ok (shR F r1) := by
    rw [h.r, advanceAndSetPadding_sh F _ _ _ (RI.start_nonneg hc) (RI.stop_nonneg hc) hk1, e1]; rfl
  refine P2.bind (P := fun _ _ sA' sB' => sA' = { sA with r := r1 } ∧ sB' = { sB with r := shR F r1 })
    (by unfold GM.Blocks.advanceAndSetPadding; rw [e1, hB1]; exact P2.ok ⟨rfl, rfl⟩) (fun _ _ sA1 sB1 ⟨q1, q2⟩ => ?_)
  subst q1 q2
  have hc1 : CodeTakeOK b c pos → (advPadCur b pos pd c).p < b.length := by
    intro ⟨hp, hlt⟩
    obtain ⟨_, _, _, _, _, i6⟩ := advN_within b pos.toNat c hp hlt
    unfold advPadCur
    simp only
    split <;> exact i6
  generalize advPadCur b pos pd c = c1 at hr1 hc1
  obtain ⟨r2, e2, hr2⟩ := ri_peekLine hr1
  have hB2 : (shR F r1).peekLine = .ok ((RCur.view b c1, moveSeg F.d (RCur.seg b c1)), shR F r2) := by
    rw [peekLine_sh F _ (RI.start_nonneg hr1) (RI.peek_hq hr1 (hk.imp id (fun g => ⟨c1, hr1, hc1 g⟩))), e2]; rfl
  refine P2.bind (P := fun x y sA' sB' => x = (RCur.view b c1, RCur.seg b c1) ∧
      y = (RCur.view b c1, moveSeg F.d (RCur.seg b c1)) ∧ sA' = { sA with r := r2 } ∧ sB' = { sB with r := shR F r2 })
    (by unfold GM.Blocks.peekLine; simp only; rw [e2, hB2]; exact P2.ok ⟨rfl, rfl, rfl, rfl⟩)
    (fun x y sA2 sB2 ⟨q1, q2, q3, q4⟩ => ?_)
  subst q1 q2 q3 q4
  simp only
  have h2 : SR F b { sA with r := r2 } { sB with r := shR F r2 } := h.withR hr2
  rw [moveSeg_padding]
  have tail : ∀ (x : Segment) (sA3 sB3 : St), (x = RCur.seg b c1 ∨
      (c1.pad ≠ 0 ∧ x = { RCur.seg b c1 with padding := 0, start := (RCur.seg b c1).start - 1 })) →
      RI b sA3.r c1 → SR F b sA3 sB3 →
      P2 (fun _ _ sA' sB' => SRLim F b sA' sB' ∧ (CodeTakeOK b c pos → SR F b sA' sB'))
        ((do appendLine node { x with forceNewline := true }
             advance (({ x with forceNewline := true } : Segment).len - 1)) sA3)
        ((do appendLine (F.ι node) { moveSeg F.d x with forceNewline := true }
             advance (({ moveSeg F.d x with forceNewline := true } : Segment).len - 1)) sB3) := by
    intro x sA3 sB3 hx hc3 h3
    refine P2.bind (appendLine_l h3.l node (s := { x with forceNewline := true }) rfl) (fun _ _ sA4 sB4 h4l => ?_)
    have h4 := h4l.sr h3
    have hm : ({ moveSeg F.d x with forceNewline := true } : Segment).len - 1 =
        ({ x with forceNewline := true } : Segment).len - 1 := by
      simp only [Segment.len, moveSeg]; omega
    rw [hm]
    by_cases h0 : 0 ≤ ({ x with forceNewline := true } : Segment).len - 1
    · refine (advance_p2 h4 rfl h0 (hk.imp id (fun g => ?_))).mono fun _ _ _ _ h5 => ⟨h5.limbo hq, fun _ => h5⟩
      have hp1 := hc1 g
      have hl := lt_lineEnd b hp1
      rw [h4l.ra, hc3.pos]
      rcases hx with e | ⟨e0, e⟩ <;> rw [e] <;> simp only [Segment.len, RCur.seg] <;> omega
    · refine (advance_limbo h4 _ hq (.inr (.inl (by omega)))).mono fun _ _ _ _ h5 => ⟨h5, fun g => ?_⟩
      exfalso; apply h0
      have hp1 := hc1 g
      have hl := lt_lineEnd b hp1
      rcases hx with e | ⟨_, e⟩ <;> rw [e] <;> simp only [Segment.len, RCur.seg] <;> omega
  by_cases hpd : ((RCur.seg b c1).padding != 0) = true
  · rw [if_pos hpd, if_pos hpd]
    refine P2.bind (preserveLeadingTab_p2 hF h2 (c := c1) hr2 _ 0) (fun x y sA3 sB3 ⟨hx, hy, hc3, h3⟩ => ?_)
    subst hy
    have hpad : c1.pad ≠ 0 := by
      intro e0; apply (bne_iff_ne.mp hpd); simp [RCur.seg, e0]
    exact tail x sA3 sB3 (hx.imp id (fun e => ⟨hpad, e⟩)) hc3 h3
  · rw [if_neg hpd, if_neg hpd]
    exact tail _ _ _ (.inl rfl) hr2 h2

/-! ### codeBlockParser.Open / Continue -/

theorem codeOpen_sim (F : Frame) (hF : F.OK) (b : Bytes) (hq : QNL F b) : OpenSim F b .code := by
  intro parent sA sB h hl
  show P2 _ (codeOpen parent sA) (codeOpen (F.ι parent) sB)
  unfold codeOpen
  obtain ⟨c, hc0, hp⟩ := hl
  refine P2.bind (code_peekLine_p2c h hc0 (.inr hp)) (fun x y sA1 sB1 ⟨hc, hx, hy, h1⟩ => ?_)
  subst hx hy
  refine P2.bind (code_lineOffset_p2c h1 hc) (fun lo lo' sA2 sB2 ⟨e, hc2, h2⟩ => ?_)
  subst e
  simp only
  have hvl := view_getD_length_nat b c hp
  generalize (RCur.view b c).getD [] = line at hvl ⊢
  have hbd := indentPosition_bounds line lo'
  generalize indentPosition line lo' 4 = pp at hbd ⊢
  obtain ⟨pos, pd⟩ := pp
  simp only at hbd ⊢
  by_cases hcnd : (decide (pos < 0) || isBlank line) = true
  · rw [if_pos hcnd]
    exact P2.pure ⟨rfl, h2.limbo hq, fun _ => h2, fun hh => by cases hh <;> contradiction⟩
  · rw [if_neg hcnd]
    have hpos0 : 0 ≤ pos := by
      rcases Int.lt_or_le pos 0 with hh | hh
      · exfalso; apply hcnd; simp [hh]
      · exact hh
    have hnb : isBlank line = false := by
      cases hh : isBlank line with
      | true => exfalso; apply hcnd; simp [hh]
      | false => rfl
    obtain ⟨_, _, hb3, _⟩ := hbd hpos0
    have hlt := hb3 hnb
    refine P2.bind (newNode_l h2.l _ _ (by simp [shN, shClosure])) (fun n m sA3 sB3 ⟨hn, hm, _, h3l⟩ => ?_)
    subst hm
    have h3 := h3l.sr h2
    have hc3 : RI b sA3.r c := by rw [h3l.ra]; exact hc2
    refine P2.bind (codeTakeLine_p2 hF hq h3 hc3 n hpos0 pd (.inr ⟨hp, by omega⟩)) (fun _ _ sA4 sB4 ⟨h4, _⟩ => ?_)
    exact P2.pure ⟨rfl, h4, fun hh => by rcases hh with hh | hh <;> simp [stNoChildren] at hh,
      fun hh => by cases hh <;> contradiction⟩

theorem codeContinue_sim (F : Frame) (hF : F.OK) (b : Bytes) : ContinueSim F b .code := by
  intro node sA sB h hl hnl
  show P2 _ (codeContinue node sA) (codeContinue (F.ι node) sB)
  unfold codeContinue
  obtain ⟨c, hc0, hp⟩ := hl
  have hq : QNL F b := by
    rcases hnl with e | e
    · subst e; simp at hp
    · exact .inr e
  refine P2.bind (code_peekLine_p2c h hc0 (.inr hp)) (fun x y sA1 sB1 ⟨hc, hx, hy, h1⟩ => ?_)
  subst hx hy
  simp only
  by_cases hbl : isBlank ((RCur.view b c).getD []) = true
  · rw [if_pos hbl, if_pos hbl]
    refine P2.bind (source_p2 h1) (fun a a' sA2 sB2 ⟨ha, hb, e1, e2⟩ => ?_)
    subst e1 e2
    rw [ha, hb]
    refine P2.bind (P := fun s t sA' sB' => t = moveSeg F.d s ∧ sA2 = sA' ∧ sB2 = sB')
      (P2.liftE (fun s t e1 e2 => ?_)) (fun s t sA3 sB3 ⟨ht, e1, e2⟩ => ?_)
    · rw [trimLeftSpaceWidth_sh F _ 4 e1] at e2; cases e2; exact ⟨rfl, rfl, rfl⟩
    subst ht e1 e2
    refine P2.bind (appendLine_p2 h1 node rfl) (fun _ _ sA4 sB4 h4 => ?_)
    exact P2.pure ⟨rfl, h4⟩
  · rw [if_neg hbl, if_neg hbl]
    refine P2.bind (code_lineOffset_p2c h1 hc) (fun lo lo' sA2 sB2 ⟨e, hc2, h2⟩ => ?_)
    subst e
    have hvl := view_getD_length_nat b c hp
    generalize (RCur.view b c).getD [] = line at hvl hbl ⊢
    have hbd := indentPosition_bounds line lo'
    generalize indentPosition line lo' 4 = pp at hbd ⊢
    obtain ⟨pos, pd⟩ := pp
    simp only at hbd ⊢
    by_cases hneg : pos < 0
    · rw [if_pos hneg, if_pos hneg]
      exact P2.pure ⟨rfl, h2⟩
    · rw [if_neg hneg, if_neg hneg]
      have hnb : isBlank line = false := by
        cases hh : isBlank line with
        | true => exact absurd hh hbl
        | false => rfl
      obtain ⟨_, _, hb3, _⟩ := hbd (by omega)
      have hlt := hb3 hnb
      have hok : CodeTakeOK b c pos := ⟨hp, by omega⟩
      refine P2.bind (codeTakeLine_p2 hF hq h2 hc2 node (by omega) pd (.inr hok)) (fun _ _ sA4 sB4 ⟨_, h4⟩ => ?_)
      exact P2.pure ⟨rfl, h4 hok⟩

end GM.Blocks.Xs
