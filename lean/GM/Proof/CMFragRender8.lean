/-
  GM.Proof.CMFragRender8 — the renderer half of the conformance proof for stage 8 (code spans inside the text lines):
  * `renderDoc_rich8`: the renderer model on Document[Paragraph[rich nodes]…] writes every paragraph as `<p>` + its
    lines (`richLineHtml`) joined by a line feed + `</p>` and never panics — for lines that END WITH A TEXT atom and
    whose code atoms do not end with a line feed (`LineShape8`; both follow from `RichLine`: `renderDoc_richLines8`);
  * the bridge to the spec side: `atomOfR`, `richLineHtml_atomOfR8` (the prescribed HTML of a line),
    `lineSrc_atomOfR8` (the source of a line), `richLine_atomOfR8` (`RichLine` from `rlineOK`),
    `docHtml_atomOfR8` (the whole prescribed HTML `expectedR`).
-/
import GM.Proof.CMFrag8Defs
import GM.Proof.CMFragRender5
namespace GM.Proof.CMFrag
open GM GM.Spec.CM GM.Spec.CMFrag

/-! ### the renderer on the nodes of a line -/

/-- what the renderer needs of a line: it ends with a text atom (the soft line break is a flag of the last Text
    node), and no code atom ends with a line feed (`renderCodeSpan` would write a space instead) -/
structure LineShape8 (l : List Atom) : Prop where
  last : ∃ init bs, l = init ++ [.txt bs]
  code : ∀ bs, Atom.code bs ∈ l → bs.getLast? ≠ some 10

theorem handled_codeSpan8 (e : Exts) : handled e .codeSpan = true := rfl

theorem renderNode_code8 (rc : RCfg) (ph : Bool) (next : Option Node) (bs : Bytes) (h : bs.getLast? ≠ some 10) :
    renderNode rc ph next (.mk .codeSpan none [.mk (.text bs false false true false) none []]) =
      strBytes "<code>" ++ GM.rawWrite bs ++ strBytes "</code>" := by
  rw [renderNode]
  have h1 : strBytes "<code>" = [60] ++ strBytes "code" ++ [62] := by decide +kernel
  have h2 : (bs.getLast? == some 10) = false := by simpa using h
  simp [enter, leave, handled_codeSpan8, skipsChildren, openTag, codeSpanBody, h1, h2]

theorem atomNodes_txt_cons8 (soft : Bool) (b : Bytes) (rest : List Atom) (h : rest ≠ []) :
    atomNodes soft (.txt b :: rest) = .mk (.text b false false false false) none [] :: atomNodes soft rest := by
  cases rest with
  | nil => exact absurd rfl h
  | cons a rest => rfl

/-- the nodes of one line, followed by any other nodes -/
theorem renderNodes_atoms8 (rc : RCfg) (hes : rc.core.escSpace = false) (hhw : rc.core.hardWraps = false)
    (hea : rc.core.ea = 0) (ph soft : Bool) (init : List Atom) (bs : Bytes) (tail : List Node)
    (hc : ∀ b, Atom.code b ∈ init → b.getLast? ≠ some 10) :
    renderNodes rc ph (atomNodes soft (init ++ [.txt bs]) ++ tail) =
      richLineHtml (init ++ [.txt bs]) ++ (if soft then [10] else []) ++ renderNodes rc ph tail := by
  induction init with
  | nil =>
    simp only [List.nil_append, atomNodes, List.cons_append, renderNodes, renderNode_text rc hes hhw hea,
      richLineHtml, List.flatMap_cons, List.flatMap_nil, atomHtml, List.append_nil]
  | cons a init ih =>
    have ih' := ih (fun b hb => hc b (by simp [hb]))
    cases a with
    | txt b =>
      rw [List.cons_append, atomNodes_txt_cons8 soft b _ (by simp), List.cons_append, renderNodes,
        renderNode_text rc hes hhw hea, ih']
      simp [richLineHtml, atomHtml]
    | code b =>
      rw [List.cons_append, atomNodes, List.cons_append, renderNodes,
        renderNode_code8 rc ph _ b (hc b (by simp)), ih']
      simp [richLineHtml, atomHtml]

theorem renderNodes_rich8 (rc : RCfg) (hes : rc.core.escSpace = false) (hhw : rc.core.hardWraps = false)
    (hea : rc.core.ea = 0) (ph : Bool) (ls : List (List Atom)) (hl : ∀ l ∈ ls, LineShape8 l) :
    renderNodes rc ph (richNodes ls) = GM.Proof.CMFrag.joinNl (ls.map richLineHtml) := by
  induction ls with
  | nil => simp [richNodes, renderNodes, GM.Proof.CMFrag.joinNl]
  | cons l rest ih =>
    obtain ⟨⟨init, bs, rfl⟩, hc⟩ := hl l (by simp)
    have hc' : ∀ b, Atom.code b ∈ init → b.getLast? ≠ some 10 := fun b hb => hc b (by simp [hb])
    cases rest with
    | nil =>
      have := renderNodes_atoms8 rc hes hhw hea ph false init bs [] hc'
      simp only [List.append_nil] at this
      simp [richNodes, GM.Proof.CMFrag.joinNl, this, renderNodes]
    | cons l' rest =>
      rw [richNodes, renderNodes_atoms8 rc hes hhw hea ph true init bs _ hc',
        ih (fun x hx => hl x (by simp [hx]))]
      simp [GM.Proof.CMFrag.joinNl]

/-- a paragraph of rich lines as the renderer reads it -/
def richPara8 (ls : List (List Atom)) : GM.Node := .mk .paragraph none (richNodes ls)

def richParaHtml8 (ls : List (List Atom)) : Bytes :=
  strBytes "<p>" ++ GM.Proof.CMFrag.joinNl (ls.map richLineHtml) ++ strBytes "</p>\n"

theorem renderNode_richPara8 (rc : RCfg) (hes : rc.core.escSpace = false) (hhw : rc.core.hardWraps = false)
    (hea : rc.core.ea = 0) (ph : Bool) (next : Option Node) (ls : List (List Atom)) (hl : ∀ l ∈ ls, LineShape8 l) :
    renderNode rc ph next (richPara8 ls) = richParaHtml8 ls := by
  rw [richPara8, renderNode]
  simp only [enter, leave, handled_para, skipsChildren, openTag, Kind.isTableHeader,
    renderNodes_rich8 rc hes hhw hea _ ls hl, richParaHtml8]
  have h1 : strBytes "<p>" = [60] ++ strBytes "p" ++ [62] := by decide +kernel
  rw [h1]; simp

theorem renderNodes_richParas8 (rc : RCfg) (hes : rc.core.escSpace = false) (hhw : rc.core.hardWraps = false)
    (hea : rc.core.ea = 0) (ph : Bool) (ps : List (List (List Atom))) (hl : ∀ ls ∈ ps, ∀ l ∈ ls, LineShape8 l) :
    renderNodes rc ph (ps.map richPara8) = ps.flatMap richParaHtml8 := by
  induction ps with
  | nil => simp [renderNodes]
  | cons p rest ih =>
    rw [List.map_cons, renderNodes, renderNode_richPara8 rc hes hhw hea _ _ p (hl p (by simp)),
      ih (fun x hx => hl x (by simp [hx]))]
    simp

/-! ### no panic -/

theorem renderPanicsNodes_atoms8 (rc : RCfg) (soft : Bool) (l : List Atom) (tail : List Node)
    (ht : renderPanicsNodes rc tail = none) :
    renderPanicsNodes rc (atomNodes soft l ++ tail) = none := by
  induction l with
  | nil => simpa [atomNodes] using ht
  | cons a rest ih =>
    cases a with
    | txt b =>
      cases rest with
      | nil => simp [atomNodes, renderPanicsNodes, renderPanicsNode, nodePanic, ht]
      | cons a' rest' =>
        rw [atomNodes_txt_cons8 soft b _ (by simp), List.cons_append, renderPanicsNodes, ih]
        simp [renderPanicsNode, nodePanic, renderPanicsNodes]
    | code b =>
      rw [atomNodes, List.cons_append, renderPanicsNodes, ih]
      simp [renderPanicsNode, nodePanic, handled_codeSpan8, skipsChildren, codeSpanChildrenText, Node.kind, Kind.isText]

theorem renderPanicsNodes_rich8 (rc : RCfg) (ls : List (List Atom)) : renderPanicsNodes rc (richNodes ls) = none := by
  induction ls with
  | nil => simp [richNodes, renderPanicsNodes]
  | cons l rest ih =>
    cases rest with
    | nil =>
      have := renderPanicsNodes_atoms8 rc false l [] (by simp [renderPanicsNodes])
      simpa [richNodes] using this
    | cons l' rest =>
      rw [richNodes]
      exact renderPanicsNodes_atoms8 rc true l _ ih

theorem renderPanicsNodes_richParas8 (rc : RCfg) (ps : List (List (List Atom))) :
    renderPanicsNodes rc (ps.map richPara8) = none := by
  induction ps with
  | nil => simp [renderPanicsNodes]
  | cons p rest ih =>
    rw [List.map_cons, renderPanicsNodes, ih]
    simp [richPara8, renderPanicsNode, nodePanic, renderPanicsNodes_rich8]

/-! ### the document -/

theorem renderDoc_rich8_any (o : GM.Convert.ROpts) (ho : o.hardWraps = false) (ps : List (List (List Atom)))
    (hl : ∀ ls ∈ ps, ∀ l ∈ ls, LineShape8 l) :
    GM.Convert.renderDoc o (.mk .document none (ps.map fun ls => .mk .paragraph none (richNodes ls))) =
      .ok (ps.flatMap fun ls =>
        strBytes "<p>" ++ GM.Proof.CMFrag.joinNl (ls.map richLineHtml) ++ strBytes "</p>\n") := by
  have hp : renderPanics o.rcfg (.mk .document none (ps.map richPara8)) = none := by
    simp [renderPanics, renderPanicsNode, nodePanic, renderPanicsNodes_richParas8]
  have hr : render o.rcfg (.mk .document none (ps.map richPara8)) = ps.flatMap richParaHtml8 := by
    rw [render, renderNode]
    simp [enter, leave, handled_doc, skipsChildren, Kind.isTableHeader,
      renderNodes_richParas8 o.rcfg (rcfg_escSpace o) (by rw [rcfg_hardWraps, ho]) (rcfg_ea o) _ ps hl]
  have e1 : (ps.map fun ls => GM.Node.mk .paragraph none (richNodes ls)) = ps.map richPara8 := rfl
  rw [e1, GM.Convert.renderDoc, hp, hr]
  rfl

/-- the renderer on a document of paragraphs of rich lines -/
theorem renderDoc_rich8 (ps : List (List (List Atom))) (hl : ∀ ls ∈ ps, ∀ l ∈ ls, LineShape8 l) :
    GM.Convert.renderDoc cmOpts (.mk .document none (ps.map fun ls => .mk .paragraph none (richNodes ls))) =
      .ok (ps.flatMap fun ls =>
        strBytes "<p>" ++ GM.Proof.CMFrag.joinNl (ls.map richLineHtml) ++ strBytes "</p>\n") :=
  renderDoc_rich8_any cmOpts rfl ps hl

theorem alnum_ne_lf8 : ∀ c : UInt8, isAlnumC c = true → c ≠ 10 := by
  apply forall_uint8; decide +kernel

theorem lineShape_of_richLine8 (l : List Atom) (h : RichLine l) : LineShape8 l := by
  obtain ⟨init, bs, hl, _⟩ := h.last
  refine ⟨⟨init, bs, hl⟩, ?_⟩
  intro b hb hlast
  have hok := h.ok _ hb
  obtain ⟨ys, hys⟩ := List.getLast?_eq_some_iff.mp hlast
  exact alnum_ne_lf8 10 (hok.2 10 (by rw [hys]; simp)) rfl

theorem renderDoc_richLines8 (ps : List (List (List Atom))) (hl : ∀ ls ∈ ps, ∀ l ∈ ls, RichLine l) :
    GM.Convert.renderDoc cmOpts (.mk .document none (ps.map fun ls => .mk .paragraph none (richNodes ls))) =
      .ok (ps.flatMap fun ls =>
        strBytes "<p>" ++ GM.Proof.CMFrag.joinNl (ls.map richLineHtml) ++ strBytes "</p>\n") :=
  renderDoc_rich8 ps (fun ls hls l hlm => lineShape_of_richLine8 l (hl ls hls l hlm))

/-! ### the bridge to the spec side -/

/-- a spec-side atom as source bytes -/
def atomOfR : RAtom → Atom
  | .txt cs => .txt (escSpell cs)
  | .code c => .code c

theorem atomSrc_atomOfR8 (a : RAtom) : atomSrc (atomOfR a) = spellRAtom a := by
  cases a <;> rfl

theorem lineSrc_atomOfR8 (l : RLine) : lineSrc (l.map atomOfR) = spellRLine l := by
  simp only [lineSrc, spellRLine, List.flatMap_map]
  congr 1; funext a; exact atomSrc_atomOfR8 a

theorem ratomOK_txt8 (cs : List TChar) (h : ratomOK (.txt cs) = true) : cs ≠ [] ∧ ∀ t ∈ cs, charOK t = true := by
  simp only [ratomOK, Bool.and_eq_true, Bool.not_eq_true', List.isEmpty_eq_false_iff, List.all_eq_true] at h
  exact h

theorem ratomOK_code8 (c : Bytes) (h : ratomOK (.code c) = true) : c ≠ [] ∧ ∀ x ∈ c, isAlnumC x = true := by
  simp only [ratomOK, Bool.and_eq_true, Bool.not_eq_true', List.isEmpty_eq_false_iff, List.all_eq_true] at h
  exact h

theorem atomHtml_atomOfR8 (a : RAtom) (h : ratomOK a = true) : atomHtml (atomOfR a) = expRAtom a := by
  cases a with
  | txt cs =>
    exact write_spelled cs (fun t ht => charOK_printable t ((ratomOK_txt8 cs h).2 t ht))
  | code c =>
    simp only [atomOfR, atomHtml, expRAtom, GM.Proof.CMSpec.escHtml_eq_rawWrite]

theorem richLineHtml_atomOfR8 (l : RLine) (h : ∀ a ∈ l, ratomOK a = true) :
    richLineHtml (l.map atomOfR) = expRLine l := by
  simp only [richLineHtml, expRLine, List.flatMap_map]
  induction l with
  | nil => rfl
  | cons a rest ih =>
    simp only [List.flatMap_cons]
    rw [atomHtml_atomOfR8 a (h a (by simp)), ih (fun x hx => h x (by simp [hx]))]

/-! #### the `escaped` flag behind a spelled text -/

theorem escAfter_append8 (a b : Bytes) (e : Bool) : escAfter (a ++ b) e = escAfter b (escAfter a e) := by
  induction a generalizing e with
  | nil => rfl
  | cons c cs ih => simp only [List.cons_append, escAfter]; exact ih _

theorem escAfter_lit8 : ∀ c : UInt8, escAfter (spellChar ⟨c, .lit⟩) false = false := by
  apply forall_uint8; decide +kernel
theorem escAfter_bs8 : ∀ c : UInt8, escAfter (spellChar ⟨c, .bs⟩) false = false := by
  apply forall_uint8; decide +kernel
theorem escAfter_named8 : ∀ c : UInt8, escAfter (spellChar ⟨c, .named⟩) false = false := by
  apply forall_uint8; decide +kernel

/-- no spelling of a character ends in an unescaped backslash -/
theorem escAfter_spellChar8 (t : TChar) : escAfter (spellChar t) false = false := by
  obtain ⟨c, e⟩ := t
  cases e with
  | lit => exact escAfter_lit8 c
  | bs => exact escAfter_bs8 c
  | named => exact escAfter_named8 c
  | dec pad =>
    simp only [spellChar]
    rw [escAfter_concat]; simp
  | hex pad upX upD =>
    simp only [spellChar]
    rw [escAfter_concat]; simp

theorem escAfter_escSpell8 (cs : List TChar) : escAfter (escSpell cs) false = false := by
  induction cs with
  | nil => rfl
  | cons t ts ih =>
    simp only [escSpell, List.flatMap_cons] at ih ⊢
    rw [escAfter_append8, escAfter_spellChar8, ih]

/-! #### `RichLine` of the spelled atoms -/

theorem escSpell_ne_nil8 (cs : List TChar) (h : cs ≠ []) : escSpell cs ≠ [] := by
  cases cs with
  | nil => exact absurd rfl h
  | cons t ts =>
    have : spellChar t ≠ [] := by
      obtain ⟨c, e⟩ := t
      cases e <;> simp only [spellChar] <;> (try split) <;> (try split) <;> simp
    simp [escSpell, this]

theorem atomOK_atomOfR8 (a : RAtom) (h : ratomOK a = true) : AtomOK (atomOfR a) := by
  cases a with
  | txt cs =>
    obtain ⟨hne, hall⟩ := ratomOK_txt8 cs h
    exact ⟨escSpell_ne_nil8 cs hne, fun i => quiet_escSpell cs hall i, escAfter_escSpell8 cs⟩
  | code c => exact ratomOK_code8 c h

theorem isTxt_atomOfR8 (a : RAtom) : (atomOfR a).isTxt = a.isTxt := by cases a <;> rfl

theorem alternating_atomOfR8 (l : RLine) : alternating (l.map atomOfR) = ralternating l := by
  induction l with
  | nil => rfl
  | cons a rest ih =>
    cases rest with
    | nil => rfl
    | cons b rest =>
      simp only [List.map_cons, alternating, ralternating, isTxt_atomOfR8] at ih ⊢
      rw [ih]

theorem richLine_atomOfR8 (l : RLine) (h : rlineOK l = true) : RichLine (l.map atomOfR) := by
  simp only [rlineOK, Bool.and_eq_true, List.all_eq_true] at h
  obtain ⟨⟨⟨halt, hfirst⟩, hlast⟩, hok⟩ := h
  refine ⟨by rw [alternating_atomOfR8]; exact halt, ?_, ?_, ?_⟩
  · -- first
    unfold rfirstOK at hfirst
    split at hfirst
    · rename_i t ts rest
      obtain ⟨tc, te⟩ := t
      obtain ⟨sp, lt⟩ := spell_first tc te hfirst
      refine ⟨escSpell (⟨tc, te⟩ :: ts), rest.map atomOfR, rfl, ?_⟩
      intro c hc
      simp only [escSpell, List.flatMap_cons, sp, List.cons_append, List.nil_append, List.head?_cons,
        Option.some.injEq] at hc
      subst hc; exact lt
    · cases hfirst
  · -- last
    unfold rlastOK at hlast
    split at hlast
    · rename_i cs hl
      split at hlast
      · rename_i z hz
        obtain ⟨zc, ze⟩ := z
        obtain ⟨sp, nsp, nbs⟩ := spell_last zc ze hlast
        obtain ⟨init, hinit⟩ := List.getLast?_eq_some_iff.mp hl
        obtain ⟨cinit, hcs⟩ := List.getLast?_eq_some_iff.mp hz
        refine ⟨init.map atomOfR, escSpell cs, by rw [hinit]; simp [atomOfR], ?_⟩
        intro c hc
        have e : escSpell cs = escSpell cinit ++ [zc] := by rw [hcs]; simp [escSpell, sp]
        rw [e] at hc
        simp at hc
        subst hc; exact ⟨nsp, nbs⟩
      · cases hlast
    · cases hlast
  · intro a ha
    obtain ⟨r, hr, rfl⟩ := List.mem_map.mp ha
    exact atomOK_atomOfR8 r (hok r hr)

/-! #### the prescribed HTML of a whole document -/

theorem rlineOK_atoms8 (l : RLine) (h : rlineOK l = true) : ∀ a ∈ l, ratomOK a = true := by
  simp only [rlineOK, Bool.and_eq_true, List.all_eq_true] at h
  exact h.2

theorem ritemOK_lines8 (it : RItem) (h : ritemOK it = true) : it.lines ≠ [] ∧ ∀ l ∈ it.lines, rlineOK l = true := by
  simp only [ritemOK, Bool.and_eq_true, Bool.not_eq_true', List.isEmpty_eq_false_iff, List.all_eq_true] at h
  exact h

/-- the paragraphs of a stage-8 document as lists of proof-side atoms -/
def atomsOfR (d : RDoc) : List (List (List Atom)) := d.items.map fun it => it.lines.map (·.map atomOfR)

theorem flatMap_congr8 {α : Type} (l : List α) (f g : α → Bytes) (h : ∀ x ∈ l, f x = g x) :
    l.flatMap f = l.flatMap g := by
  induction l with
  | nil => rfl
  | cons x rest ih =>
    simp only [List.flatMap_cons]
    rw [h x (by simp), ih (fun y hy => h y (by simp [hy]))]

theorem docHtml_atomOfR8 (d : RDoc) (h : RFrag d) :
    ((atomsOfR d).flatMap fun ls =>
      strBytes "<p>" ++ GM.Proof.CMFrag.joinNl (ls.map richLineHtml) ++ strBytes "</p>\n") = expectedR d := by
  simp only [RFrag, rfragB, List.all_eq_true] at h
  simp only [atomsOfR, expectedR, List.flatMap_map]
  apply flatMap_congr8
  intro it hit
  have hls := (ritemOK_lines8 it (h it hit)).2
  have : (it.lines.map (·.map atomOfR)).map richLineHtml = it.lines.map expRLine := by
    rw [List.map_map]
    apply List.map_congr_left
    intro l hl
    exact richLineHtml_atomOfR8 l (rlineOK_atoms8 l (hls l hl))
  rw [this, joinNl_eq, expRItem]

theorem richLines_atomsOfR8 (d : RDoc) (h : RFrag d) : ∀ ls ∈ atomsOfR d, ∀ l ∈ ls, RichLine l := by
  simp only [RFrag, rfragB, List.all_eq_true] at h
  intro ls hls l hl
  simp only [atomsOfR, List.mem_map] at hls
  obtain ⟨it, hit, rfl⟩ := hls
  obtain ⟨r, hr, rfl⟩ := List.mem_map.mp hl
  exact richLine_atomOfR8 r ((ritemOK_lines8 it (h it hit)).2 r hr)

/-- the renderer on the nodes of a stage-8 document writes the prescribed HTML -/
theorem renderDoc_expectedR8 (d : RDoc) (h : RFrag d) :
    GM.Convert.renderDoc cmOpts
        (.mk .document none ((atomsOfR d).map fun ls => .mk .paragraph none (richNodes ls))) =
      .ok (expectedR d) := by
  rw [renderDoc_richLines8 _ (richLines_atomsOfR8 d h), docHtml_atomOfR8 d h]

end GM.Proof.CMFrag
