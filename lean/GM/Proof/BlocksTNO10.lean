/-
  GM.Proof.BlocksTNO10 — whole runs of the block phase WITH the link-reference paragraph transformer, EVERY source: the
  run-time check of `guardE` / `guardedTransform` never fires, so the run with the bare `GM.LinkRef.transform` ends
  normally; in the final store the lines of every non-raw block are ordered / `WFSegs` and every line of a Paragraph holds
  a non-space byte.
-/
import GM.Proof.BlocksTNO9

namespace GM.Blocks.TO
open GM GM.Text GM.Spec GM.Proof.Reader GM.Blocks.L GM.Blocks.T GM.LinkRef
open GM.Proof.BlocksWF0 (isRaw)

theorem agreeP_guardE (src : Bytes) (e : Panic) : AgreeP src [guardE e] [transform] :=
  agreeP_of_passes src _ (fun node s h => GM.Proof.LinkRefTot2.guardE_passes e node s h)

theorem agreeP_guarded (src : Bytes) : AgreeP src [guardedTransform] [transform] :=
  agreeP_of_passes src _ guardedTransform_passes

section run
variable {src : Bytes} {e : Panic} {pts1 pts2 : List PT}

/-- the two runs are the same, and a normal end satisfies the order invariant -/
theorem runT_eqg (hag : AgreeP src pts1 pts2) (hsp : PTsSpec src e pts1) :
    runT pts1 src = runT pts2 src ∧ ∀ s, runT pts1 src = .ok s → ∃ E, InvG src E s := by
  have hnd0 : ∀ i, nd ({ (initSt src) with pc := { (initSt src).pc with opened := [] } } : St) i =
      if i = 0 then { kind := .document } else default := by
    intro i
    cases i with
    | zero => rfl
    | succ n => rfl
  have hnodes0 : NodesOK src { (initSt src) with pc := { (initSt src).pc with opened := [] } } := by
    intro n hn
    simp only [initSt, List.mem_singleton] at hn
    subst hn
    exact ⟨by intro t ht; simp at ht, fun _ => rfl⟩
  have hinit : GM.Blocks.L.G.StableG src 0 { (initSt src) with pc := { (initSt src).pc with opened := [] } } := by
    refine ⟨hnodes0, ⟨?_⟩, ?_, ?_, ⟨⟨?_, ?_, ?_⟩, ?_, ?_, ?_, ?_, ?_⟩, ?_, ?_, (fun ⟨b, hb, _⟩ => by simp at hb), ?tree,
      (fun lb hlb _ => by simp at hlb), (fun t h => by simp [initSt] at h)⟩
    case tree =>
      refine ⟨fun i p hp => ?_, fun p i hi => ?_, fun p => ?_⟩
      · rw [hnd0] at hp; split at hp <;> cases hp
      · rw [hnd0] at hi; split at hi <;> cases hi
      · rw [hnd0]; split <;> exact List.nodup_nil
    · intro f h; simp [initSt] at h
    · intro b hb; simp at hb
    · intro b hb; simp at hb
    · intro i lc hk; rw [hnd0] at hk; split at hk <;> cases hk
    · intro i hk; rw [hnd0] at hk; split at hk <;> cases hk
    · intro i p hp; rw [hnd0] at hp; split at hp <;> cases hp
    · intro i p hp; rw [hnd0] at hp; split at hp <;> cases hp
    · rw [hnd0]; rfl
    · simp [initSt]
    · intro b hb; simp at hb
    · simp
    · trivial
    · show (nd _ (lastNode 0 [])).kind ≠ .list
      rw [lastNode_nil, hnd0]; decide
  have hinv0 : InvG src ((RCur.init).p : Int) { (initSt src) with pc := { (initSt src).pc with opened := [] } } := by
    refine ⟨fun i _ => ?_, List.Pairwise.nil, fun i hk => ?_, fun t ht => ?_, fun b hb => ?_, hnodes0, fun t ht => ?_,
      fun i _ => ?_⟩
    · rw [hnd0]; split
      · exact ⟨trivial, fun _ => Below.nil _, fun t ht => by cases ht⟩
      · exact ⟨trivial, fun _ => Below.nil _, fun t ht => by cases ht⟩
    · rw [hnd0] at hk; split at hk <;> cases hk
    · simp [initSt] at ht
    · simp at hb
    · simp [initSt] at ht
    · rw [hnd0]; split
      · exact ⟨trivial, Below.nil _⟩
      · exact ⟨trivial, Below.nil _⟩
  have hb := blocksLoopT_eqg (lsp_all src) hag hsp 0 rfl (linesFuel src) []
    { (initSt src) with pc := { (initSt src).pc with opened := [] } } RCur.init (ri_init src)
    (fun h => absurd rfl h) hinit rfl hinv0 rfl
  have hp : ∀ pts : List PT, parseBlocksT pts 0 (initSt src) = blocksLoopT pts 0 (linesFuel src) []
      { (initSt src) with pc := { (initSt src).pc with opened := [] } } := fun pts => rfl
  unfold runT
  rw [hp pts1, hp pts2, ← hb.1]
  refine ⟨rfl, fun s hs => ?_⟩
  cases hx : blocksLoopT pts1 0 (linesFuel src) [] { (initSt src) with pc := { (initSt src).pc with opened := [] } } with
  | error e' => rw [hx] at hs; cases hs
  | ok p =>
    obtain ⟨u, s1⟩ := p
    rw [hx] at hs
    have : s1 = s := by simpa [Except.map] using hs
    subst this
    exact hb.2 u s1 hx

end run

/-- **the run-time check never fires**, for every source: the block phase with `guardE e` and the block phase with the
    bare transformer are the same run -/
theorem guard_never_fires (src : Bytes) (e : Panic) : runT [guardE e] src = runT [transform] src :=
  (runT_eqg (agreeP_guardE src e) (GM.Proof.LinkRefTot2.guardE_ptsSpec src e)).1

/-- **the block phase with the bare link-reference transformer ends normally for every source**
    (= `GM.Convert.blockPhase false src`) -/
theorem runT_transform_total (src : Bytes) : ∃ s, runT [transform] src = .ok s ∧ NodesOK src s := by
  have h1 := GM.Blocks.T.runT_total src .nil [guardE .nil] (GM.Proof.LinkRefTot2.guardE_ptsSpec src .nil)
    (GM.Proof.LinkRefTot2.guardE_ptsOK .nil (by decide))
  have h2 := GM.Blocks.T.runT_total src .slice [guardE .slice] (GM.Proof.LinkRefTot2.guardE_ptsSpec src .slice)
    (GM.Proof.LinkRefTot2.guardE_ptsOK .slice (by decide))
  rw [guard_never_fires src] at h1 h2
  rcases h1 with ⟨s, a, b, _⟩ | h1
  · exact ⟨s, a, b⟩
  · rcases h2 with ⟨s, a, b, _⟩ | h2
    · exact ⟨s, a, b⟩
    · rw [h1] at h2; cases h2

/-- the check of the default transformer list of `GM.Convert.blockPhase true` (`guardedTransform`) never fires -/
theorem blockPhase_guard_irrelevant (src : Bytes) : GM.Convert.blockPhase true src = GM.Convert.blockPhase false src := by
  have hsp : PTsSpec src .pre [guardedTransform] := by
    have := GM.Proof.LinkRefTot2.paragraphTransformers_spec src
    simpa [GM.Convert.paragraphTransformers] using this
  have := (runT_eqg (agreeP_guarded src) hsp).1
  simpa [GM.Convert.blockPhase, GM.Convert.paragraphTransformers] using this

theorem blockPhase_total (src : Bytes) : ∃ s, GM.Convert.blockPhase true src = .ok s ∧ NodesOK src s := by
  rw [blockPhase_guard_irrelevant src]
  have := runT_transform_total src
  simpa [GM.Convert.blockPhase, GM.Convert.paragraphTransformers] using this

/-- the order invariant of the final store of the block phase with the transformer -/
theorem runT_transform_inv (src : Bytes) (s : St) (hr : runT [transform] src = .ok s) : ∃ E, InvG src E s := by
  rw [← guard_never_fires src .nil] at hr
  exact (runT_eqg (agreeP_guardE src .nil) (GM.Proof.LinkRefTot2.guardE_ptsSpec src .nil)).2 s hr

/-- **order clause / `WFSegs` for the final store of the run WITH the transformer, every source** (the analogue of wf0's
    `run_ordered`, `run_segs_nonempty`, `run_wfsegs`): every non-raw block's lines increase, every segment is non-empty
    without ForceNewline; a non-raw block that has lines has `WFSegs` lines; every line of a Paragraph holds a non-space
    byte -/
theorem runT_transform_wfsegs (src : Bytes) (s : St) (hr : runT [transform] src = .ok s) :
    (∀ n ∈ s.nodes, isRaw n.kind = false → OrdFrom 0 n.lines ∧ (∀ t ∈ n.lines, t.start < t.stop ∧ t.forceNewline = false) ∧
      (n.lines ≠ [] → WFSegs src n.lines)) ∧
    (∀ n ∈ s.nodes, n.kind = .paragraph → ∀ t ∈ n.lines, NonBlankSeg src t) := by
  obtain ⟨E, hE⟩ := runT_transform_inv src s hr
  refine ⟨fun n hn hraw => ?_, fun n hn hk => ?_⟩
  · obtain ⟨i, _, rfl⟩ := mem_nodes_nd hn
    obtain ⟨a1, _, a3⟩ := hE.nrb i hraw
    have hok := (nodeOK_nd hE.nodes i).lines
    exact ⟨a1, a3, fun hne => ⟨hne, (wfSegsFrom_iff src _ 0).2 ⟨a1, fun t ht =>
      ⟨(a3 t ht).1, (hok t ht).2.2.1, (hok t ht).2.2.2, (a3 t ht).2⟩⟩⟩⟩
  · obtain ⟨i, _, rfl⟩ := mem_nodes_nd hn
    exact hE.pnb i hk

/-- **order clause for the three raw kinds** in the final store of the run with the transformer (the analogue of wf0's
    `run_ordered_raw`): the line segments of every CodeBlock, FencedCodeBlock and HTMLBlock increase as well -/
theorem runT_transform_ordered_raw (src : Bytes) (s : St) (hr : runT [transform] src = .ok s) :
    ∀ n ∈ s.nodes, isRaw n.kind = true → OrdFrom 0 n.lines := by
  obtain ⟨E, hE⟩ := runT_transform_inv src s hr
  intro n hn hraw
  obtain ⟨i, _, rfl⟩ := mem_nodes_nd hn
  exact (hE.raw i hraw).1

/-! ### witnesses (kernel-evaluated) -/

/-- `a⏎[b]: /u⏎===⏎` — RequireParagraph, KEEP: the definition goes, `a` becomes the setext heading -/
def exSetextKeep : Bytes := [97, 10, 91, 98, 93, 58, 32, 47, 117, 10, 61, 61, 61, 10]
/-- `[a]: /u⏎===⏎x⏎` — RequireParagraph, GONE (`.retryTransformed`): the Heading node is abandoned, `===` starts a paragraph -/
def exSetextGone : Bytes := [91, 97, 93, 58, 32, 47, 117, 10, 61, 61, 61, 10, 120, 10]

example : ∃ s, runT [transform] exSetextKeep = .ok s ∧ NodesOK exSetextKeep s := runT_transform_total _
example : ∃ s, runT [transform] exSetextGone = .ok s ∧ NodesOK exSetextGone s := runT_transform_total _

end GM.Blocks.TO
