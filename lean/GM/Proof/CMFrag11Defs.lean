/-
  GM.Proof.CMFrag11Defs — stage 11 (simple emphasis inside the text lines): lines made of text atoms, code spans,
  `*emphasis*` and `**strong emphasis**` atoms, as source bytes, as renderer nodes and as HTML. (Definitions only.)
-/
import GM.Proof.CMFrag8Inl

namespace GM.Proof.CMFrag
open GM GM.Text

/-- a piece of a line: literal text, a code span, `*bs*`, `**bs**` -/
inductive EAtom where
  | txt (bs : Bytes)
  | code (bs : Bytes)
  | em (bs : Bytes)
  | strong (bs : Bytes)
deriving Repr, Inhabited

def eatomSrc : EAtom → Bytes
  | .txt bs => bs
  | .code bs => [96] ++ bs ++ [96]
  | .em bs => [42] ++ bs ++ [42]
  | .strong bs => [42, 42] ++ bs ++ [42, 42]

def elineSrc (as : List EAtom) : Bytes := as.flatMap eatomSrc

def EAtom.isTxt : EAtom → Bool
  | .txt _ => true
  | _ => false

/-- text atoms and non-text atoms alternate -/
def ealternating : List EAtom → Bool
  | a :: b :: rest => (a.isTxt != b.isTxt) && ealternating (b :: rest)
  | _ => true

/-- text = as `AtomOK (.txt bs)`; code, em, strong = non-empty letters and digits -/
def EAtomOK : EAtom → Prop
  | .txt bs => bs ≠ [] ∧ (∀ i, quiet bs i false = true) ∧ escAfter bs false = false
  | .code bs => bs ≠ [] ∧ ∀ c ∈ bs, GM.Spec.CM.isAlnumC c = true
  | .em bs => bs ≠ [] ∧ ∀ c ∈ bs, GM.Spec.CM.isAlnumC c = true
  | .strong bs => bs ≠ [] ∧ ∀ c ∈ bs, GM.Spec.CM.isAlnumC c = true

/-- a rich line with emphasis: text atoms alternate with non-text atoms, starting and ending with text; the first
    byte is a letter, the last byte neither white space nor a backslash. (No condition on the bytes next to a `*`
    run is needed: the content is alphanumeric, so the opening run can open and the closing run can close whatever
    stands outside.) -/
structure ERichLine (as : List EAtom) : Prop where
  alt : ealternating as = true
  first : ∃ bs rest, as = .txt bs :: rest ∧ ∀ c, bs.head? = some c → GM.Spec.CM.isLetter c = true
  last : ∃ init bs, as = init ++ [.txt bs] ∧ (∀ c, bs.getLast? = some c → isSpace c = false ∧ c ≠ 92)
  ok : ∀ a ∈ as, EAtomOK a

/-- the nodes of one line as the renderer reads them; `soft`: the line is not the last of its paragraph -/
def eatomNodes (soft : Bool) : List EAtom → List GM.Node
  | [] => []
  | [.txt bs] => [.mk (.text bs soft false false false) none []]
  | .txt bs :: rest => .mk (.text bs false false false false) none [] :: eatomNodes soft rest
  | .code bs :: rest => .mk .codeSpan none [.mk (.text bs false false true false) none []] :: eatomNodes soft rest
  | .em bs :: rest => .mk (.emphasis 1) none [.mk (.text bs false false false false) none []] :: eatomNodes soft rest
  | .strong bs :: rest =>
    .mk (.emphasis 2) none [.mk (.text bs false false false false) none []] :: eatomNodes soft rest

def erichNodes : List (List EAtom) → List GM.Node
  | [] => []
  | [l] => eatomNodes false l
  | l :: l' :: rest => eatomNodes true l ++ erichNodes (l' :: rest)

/-- the HTML of one atom -/
def eatomHtml : EAtom → Bytes
  | .txt bs => GM.write false bs
  | .code bs => strBytes "<code>" ++ GM.rawWrite bs ++ strBytes "</code>"
  | .em bs => strBytes "<em>" ++ GM.write false bs ++ strBytes "</em>"
  | .strong bs => strBytes "<strong>" ++ GM.write false bs ++ strBytes "</strong>"

def erichLineHtml (as : List EAtom) : Bytes := as.flatMap eatomHtml

end GM.Proof.CMFrag
