/-
  GM.Proof.ExtWriter — html.WithEscapedSpace (CJK) is invisible on text without backslash-space:
  the two writers of GM.Model.Writer (`write true` / `write false`) agree on every byte string that does not
  contain the two bytes `\` ` `. (C11, CJK clause "pure ASCII input without backslash-space".)
-/
import GM.Model.Writer
import GM.Proof.ExtDecline
import GM.Proof.ExtLoop

namespace GM.Ext
open GM

theorem spanB_snd_suffix (p : UInt8 → Bool) (l : Bytes) : (spanB p l).2 <:+ l :=
  ⟨(spanB p l).1, spanB_append p l⟩

theorem suffix_of_cons_eq {a : UInt8} {r l : Bytes} (h : l = a :: r) : r <:+ l := by
  subst h
  exact List.suffix_cons a r

theorem tryRefW_suffix {rest out r : Bytes} (h : tryRefW rest = some (out, r)) : r <:+ rest := by
  unfold tryRefW at h
  split at h
  · rename_i r1
    split at h
    · cases h
    · rename_i nc r2
      split at h
      · split at h
        · rename_i r4 heq
          split at h
          · cases h
            exact ((suffix_of_cons_eq heq).trans (spanB_snd_suffix isHex r2)).trans
              ((List.suffix_cons nc r2).trans (List.suffix_cons 35 (nc :: r2)))
          · cases h
        · cases h
      · split at h
        · split at h
          · rename_i r4 heq
            split at h
            · cases h
              exact ((suffix_of_cons_eq heq).trans (spanB_snd_suffix isNumeric (nc :: r2))).trans (List.suffix_cons 35 (nc :: r2))
            · cases h
          · cases h
        · cases h
  · split at h
    · rename_i r4 heq
      split at h
      · cases h
      · simp [Option.map] at h
        split at h
        · cases h
          exact (suffix_of_cons_eq heq).trans (spanB_snd_suffix isAlnum rest)
        · cases h
    · cases h

theorem hasInfix_suffix {pat s l : Bytes} (h : hasInfix pat l = false) (hs : s <:+ l) : hasInfix pat s = false := by
  obtain ⟨t, rfl⟩ := hs
  have := GM.Proof.ExtLoop.hasInfix_drop h t.length
  simpa using this

/-- the byte pair backslash, space -/
def escSp : Bytes := [92, 32]

theorem writeGo_escSpace : ∀ (n : Nat) (esc : Bool) (v : Bytes), v.length ≤ n → hasInfix escSp v = false →
    (esc = true → v.head? ≠ some 32) → writeGo true esc v = writeGo false esc v := by
  intro n
  induction n with
  | zero =>
    intro esc v hl _ _
    have : v = [] := List.length_eq_zero_iff.mp (Nat.le_zero.mp hl)
    subst this
    rw [writeGo, writeGo]
  | succ n ih =>
    intro esc v hl hv he
    cases v with
    | nil => rw [writeGo, writeGo]
    | cons c cs =>
      have hcs : hasInfix escSp cs = false := hasInfix_suffix hv (List.suffix_cons c cs)
      have hlen : cs.length ≤ n := by simp at hl; omega
      have ihF : writeGo true false cs = writeGo false false cs := ih false cs hlen hcs (by simp)
      rw [writeGo, writeGo]
      have hsp : (esc && true && c == 32) = false := by
        cases esc with
        | false => rfl
        | true =>
          have := he rfl
          simp at this
          simp [this]
      simp only [hsp, Bool.and_false, Bool.false_and, Bool.false_eq_true, if_false]
      split
      · rw [ihF]
      · congr 1
        split
        · rw [ihF]
        · split
          · split
            · rename_i out rest hr
              have hsuf := tryRefW_suffix hr
              have hl2 : rest.length ≤ n := by
                have := tryRefW_len hr
                omega
              rw [ih false rest hl2 (hasInfix_suffix hcs hsuf) (by simp)]
            · rw [ihF]
          · split
            · rename_i h92
              have hc : c = 92 := by simpa using h92
              subst hc
              have hh : cs.head? ≠ some 32 := by
                intro hh
                cases cs with
                | nil => simp at hh
                | cons d ds =>
                  simp at hh
                  subst hh
                  simp [escSp, hasInfix, List.isPrefixOf] at hv
              rw [ih true cs hlen hcs (fun _ => hh)]
            · rw [ihF]

/-- CJK, writer side: `html.NewWriter(html.WithEscapedSpace())` writes exactly what the default writer writes for
    every byte string without the two bytes backslash, space. -/
theorem write_escSpace (v : Bytes) (h : hasInfix escSp v = false) : write true v = write false v :=
  writeGo_escSpace v.length false v (Nat.le_refl _) h (by simp)

end GM.Ext
