/-
  GM.Proof.QuoteSimRInd — the Close functions of the block parsers and `closeBlocks` are independent of
  the reader: they never move it and read nothing of it except its `source`.
  `RInd m`: running `m` from a state whose reader is replaced by any reader `r'` with the same `source`
  gives the same answer (same value / same panic) and the same final state up to the reader, which stays
  `r'`; and a successful run of `m` leaves the reader alone. `RInd` is closed under `pure` / `bind` / `if` /
  `match` / `throw`, so a proof for a parser function is a syntactic walk over its `do` block (tactic
  `rind`, in the style of `keeps` in GM.Proof.QuoteSimFrame). `get` is not reader independent;
  `get >>= f` is when `f st` does not look at `st.r` (`RInd.get_bind`, used by `listClose`).
-/
import GM.Proof.QuoteSimFrame

namespace GM.Blocks
open GM GM.Text

/-- `m` reads nothing of the reader except its `source` and does not move it -/
def RInd {α : Type} (m : M α) : Prop :=
  ∀ (s : St) (r' : Reader), r'.source = s.r.source →
    (m { s with r := r' } = (m s).map (fun x => (x.1, { x.2 with r := r' }))) ∧
    (∀ a s1, m s = .ok (a, s1) → s1.r = s.r)

section calculus

theorem RInd.eq {α} {m : M α} (hm : RInd m) (s : St) (r' : Reader) (hr : r'.source = s.r.source) :
    m { s with r := r' } = (m s).map (fun x => (x.1, { x.2 with r := r' })) := (hm s r' hr).1

theorem RInd.keeps_r {α} {m : M α} (hm : RInd m) {s : St} {a : α} {s1 : St} (h : m s = .ok (a, s1)) :
    s1.r = s.r := (hm s s.r rfl).2 a s1 h

theorem RInd.pure {α} (a : α) : RInd (pure a : M α) := by
  intro s r' _
  refine ⟨rfl, ?_⟩
  intro b s1 h
  cases h
  rfl

theorem RInd.bind {α β} {m : M α} {f : α → M β} (hm : RInd m) (hf : ∀ a, RInd (f a)) :
    RInd (m >>= f) := by
  intro s r' hr
  have h1 := hm s r' hr
  constructor
  · show (m >>= f) { s with r := r' } = ((m >>= f) s).map _
    simp only [Bind.bind, StateT.bind]
    rw [h1.1]
    cases hms : m s with
    | error e => rfl
    | ok p =>
      have hp : p.2.r = s.r := h1.2 p.1 p.2 hms
      have hr2 : r'.source = p.2.r.source := by rw [hp]; exact hr
      simp only [Except.map, Except.bind]
      exact ((hf p.1) p.2 r' hr2).1
  · intro b s2 h
    simp only [Bind.bind, StateT.bind] at h
    cases hms : m s with
    | error e => rw [hms] at h; simp [Except.bind] at h
    | ok p =>
      rw [hms] at h
      simp only [Except.bind] at h
      have hp : p.2.r = s.r := h1.2 p.1 p.2 hms
      have := ((hf p.1) p.2 p.2.r rfl).2 b s2 h
      rw [this, hp]

theorem RInd.ite {α} {c : Prop} [Decidable c] {a b : M α} (ha : c → RInd a) (hb : ¬c → RInd b) :
    RInd (if c then a else b) := by
  split
  · exact ha ‹_›
  · exact hb ‹_›

theorem RInd.throw {α} (e : Panic) : RInd (throw e : M α) := by
  intro s r' _
  refine ⟨rfl, ?_⟩
  intro a s1 h
  cases h

/-- `get` followed by a continuation that does not look at the reader of the state it is given -/
theorem RInd.get_bind {β} {f : St → M β} (hf : ∀ st, RInd (f st))
    (hn : ∀ (st : St) (r' : Reader), f { st with r := r' } = f st) : RInd (get >>= f) := by
  intro s r' hr
  have h1 := hf s s r' hr
  constructor
  · show f { s with r := r' } { s with r := r' } = (f s s).map _
    rw [hn s r']
    exact h1.1
  · intro b s2 h
    exact h1.2 b s2 h

/-! primitives -/

theorem getNode_rind (id : Nat) : RInd (getNode id) := by
  intro s r' _
  refine ⟨rfl, ?_⟩
  intro a s1 h; cases h; rfl

theorem getPc_rind : RInd getPc := by
  intro s r' _
  refine ⟨rfl, ?_⟩
  intro a s1 h; cases h; rfl

theorem modNode_rind (id : Nat) (f : Node → Node) : RInd (modNode id f) := by
  intro s r' _
  refine ⟨rfl, ?_⟩
  intro a s1 h; cases h; rfl

theorem newNode_rind (n : Node) : RInd (newNode n) := by
  intro s r' _
  refine ⟨rfl, ?_⟩
  intro a s1 h; cases h; rfl

theorem modPc_rind (f : Ctx → Ctx) : RInd (modPc f) := by
  intro s r' _
  refine ⟨rfl, ?_⟩
  intro a s1 h; cases h; rfl

theorem appendLine_rind (id : Nat) (seg : Segment) : RInd (appendLine id seg) := modNode_rind _ _

theorem source_rind : RInd source := by
  intro s r' hr
  constructor
  · show Except.ok (r'.source, { s with r := r' }) = Except.ok (s.r.source, { s with r := r' })
    rw [hr]
  · intro a s1 h; cases h; rfl

theorem liftE_rind {α} (e : Except Panic α) : RInd (liftE e) := by
  intro s r' _
  cases e with
  | error x =>
    refine ⟨rfl, ?_⟩
    intro a s1 h; cases h
  | ok v =>
    refine ⟨rfl, ?_⟩
    intro a s1 h; cases h; rfl

theorem lastOpenedBlock_rind : RInd lastOpenedBlock := by
  intro s r' _
  refine ⟨rfl, ?_⟩
  intro a s1 h; cases h; rfl

end calculus

macro "rind_step" : tactic =>
  `(tactic| first
    | with_reducible apply RInd.pure
    | with_reducible apply RInd.bind
    | with_reducible apply RInd.ite
    | with_reducible apply RInd.throw
    | with_reducible apply getNode_rind
    | with_reducible apply getPc_rind
    | with_reducible apply source_rind
    | with_reducible apply liftE_rind
    | with_reducible apply lastOpenedBlock_rind
    | with_reducible apply modNode_rind
    | with_reducible apply newNode_rind
    | with_reducible apply appendLine_rind
    | with_reducible apply modPc_rind
    | apply_hyp
    | intro_pi
    | split)

/-- walk over an `M` do block -/
macro "rind" : tactic => `(tactic| repeat' rind_step)

/-! ### the tree operations -/

theorem removeChild_rind (p c : Nat) : RInd (removeChild p c) := by
  unfold removeChild; rind

theorem ensureIsolated_rind (c : Nat) : RInd (ensureIsolated c) := by
  have := removeChild_rind
  unfold ensureIsolated; rind

theorem appendChild_rind (p c : Nat) : RInd (appendChild p c) := by
  have := ensureIsolated_rind
  unfold appendChild; rind

theorem insertBefore_rind (p : Nat) (v1 : Option Nat) (ins : Nat) : RInd (insertBefore p v1 ins) := by
  have := ensureIsolated_rind
  have := appendChild_rind
  unfold insertBefore; rind

theorem nextSibling_rind (c : Nat) : RInd (nextSibling c) := by
  unfold nextSibling; rind

theorem insertAfter_rind (p : Nat) (v1 : Option Nat) (ins : Nat) : RInd (insertAfter p v1 ins) := by
  have := appendChild_rind
  have := nextSibling_rind
  have := insertBefore_rind
  unfold insertAfter; rind

theorem replaceChild_rind (p v1 ins : Nat) : RInd (replaceChild p v1 ins) := by
  have := insertBefore_rind
  have := removeChild_rind
  unfold replaceChild; rind

/-! ### the Close functions -/

theorem paragraphClose_rind (n : Nat) : RInd (paragraphClose n) := by
  have := removeChild_rind
  unfold paragraphClose; rind

theorem setextClose_rind (n : Nat) : RInd (setextClose n) := by
  have := removeChild_rind
  have := insertAfter_rind
  have := nextSibling_rind
  unfold setextClose; rind

theorem codeClose_rind (n : Nat) : RInd (codeClose n) := by
  unfold codeClose; rind

theorem fencedClose_rind (n : Nat) : RInd (fencedClose n) := by
  unfold fencedClose; rind

theorem tightenItem_rind (child : Nat) (gcs : List Nat) : RInd (tightenItem child gcs) := by
  have := replaceChild_rind
  induction gcs with
  | nil => unfold tightenItem; rind
  | cons gc gcs ih => unfold tightenItem; rind

theorem tightenItems_rind (cs : List Nat) : RInd (tightenItems cs) := by
  have := tightenItem_rind
  induction cs with
  | nil => unfold tightenItems; rind
  | cons c cs ih => unfold tightenItems; rind

theorem listClose_rind (n : Nat) : RInd (listClose n) := by
  have := tightenItems_rind
  unfold listClose
  refine RInd.bind (getNode_rind _) ?_
  intro list
  refine RInd.get_bind ?_ (fun _ _ => rfl)
  intro st
  rind

theorem bpClose_rind (bp : BP) (n : Nat) : RInd (bpClose bp n) := by
  cases bp <;> unfold bpClose
  · exact setextClose_rind n
  · exact RInd.pure _
  · exact listClose_rind n
  · exact RInd.pure _
  · exact codeClose_rind n
  · exact RInd.pure _
  · exact fencedClose_rind n
  · exact RInd.pure _
  · exact RInd.pure _
  · exact paragraphClose_rind n

theorem closeLoop_rind (blocks : List Block) (to : Int) (k : Nat) : RInd (closeLoop blocks to k) := by
  have := bpClose_rind
  induction k with
  | zero => unfold closeLoop; rind
  | succ k ih => unfold closeLoop; rind

theorem closeBlocks_isRInd (frm to : Int) : RInd (closeBlocks frm to) := by
  have := closeLoop_rind
  unfold closeBlocks; rind

/-! ### the statements -/

theorem bpClose_rind_eq (bp : BP) (n : Nat) (s : St) (r' : Reader) (hr : r'.source = s.r.source) :
    bpClose bp n { s with r := r' } = (bpClose bp n s).map (fun x => (x.1, { x.2 with r := r' })) :=
  (bpClose_rind bp n).eq s r' hr

theorem bpClose_keeps_r (bp : BP) (n : Nat) (s s' : St) (a : Unit) (h : bpClose bp n s = .ok (a, s')) :
    s'.r = s.r := (bpClose_rind bp n).keeps_r h

theorem closeLoop_rind_eq (blocks : List Block) (to : Int) (k : Nat) (s : St) (r' : Reader)
    (hr : r'.source = s.r.source) :
    closeLoop blocks to k { s with r := r' } =
      (closeLoop blocks to k s).map (fun x => (x.1, { x.2 with r := r' })) :=
  (closeLoop_rind blocks to k).eq s r' hr

theorem closeLoop_keeps_r (blocks : List Block) (to : Int) (k : Nat) (s s' : St) (a : Unit)
    (h : closeLoop blocks to k s = .ok (a, s')) : s'.r = s.r := (closeLoop_rind blocks to k).keeps_r h

theorem closeBlocks_rind (frm to : Int) (s : St) (r' : Reader) (hr : r'.source = s.r.source) :
    closeBlocks frm to { s with r := r' } =
      (closeBlocks frm to s).map (fun x => (x.1, { x.2 with r := r' })) :=
  (closeBlocks_isRInd frm to).eq s r' hr

theorem closeBlocks_keeps_r (frm to : Int) (s s' : St) (a : Unit)
    (h : closeBlocks frm to s = .ok (a, s')) : s'.r = s.r := (closeBlocks_isRInd frm to).keeps_r h

end GM.Blocks
