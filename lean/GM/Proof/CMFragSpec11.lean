/-
  GM.Proof.CMFragSpec11 — the stage-11 fragment (paragraphs whose lines contain code spans, `*x*` and `**x**`) of
  GM.Spec.CMFrag inside the spec model GM.Spec.CommonMark:
  * `expectedE_eq_expected`: the prescribed HTML of a stage-11 document is `expected` of the embedded document;
  * `spellE_eq_spell`: for a NON-EMPTY stage-11 document without extra blank lines the source is `spell` of the
    embedded document, byte for byte (emphasis that does not ask for `_` is spelled with `*` whatever the `pa` / `na`
    context arguments of `spellI` are: `spellI_simple11`).
-/
import GM.Proof.CMFragSpec8
namespace GM.Proof.CMFrag
open GM GM.Spec.CM GM.Spec.CMFrag

/-! ### S1: prescribed HTML -/

theorem expIs_append11 (a b : List Inline) : expIs (a ++ b) = expIs a ++ expIs b := by
  induction a with
  | nil => simp [expIs]
  | cons x rest ih => simp [expIs, ih]

theorem render_expIs_elits11 (c : Bytes) : render (expIs [.text (elits c)]) = escHtml c := by
  have : plain (elits c) = c := by
    induction c with
    | nil => rfl
    | cons x rest ih =>
      simp only [plain, elits, List.map_cons] at ih ⊢
      rw [ih]
  simp [expIs, expI, render, renderPiece, this]

theorem render_wrap11 (tag : Bytes) (inner : List Piece) :
    render (wrap tag [] inner) = [60] ++ tag ++ [62] ++ render inner ++ [60, 47] ++ tag ++ [62] := by
  simp [wrap, render, renderPiece]

theorem render_expI_atom11 (a : EAtomS) : render (expI (eembedAtom a)) = expEAtom a := by
  cases a with
  | txt cs => simp [eembedAtom, expI, render, renderPiece, expEAtom]
  | code c =>
    have h1 : strBytes "<code>" = [60] ++ strBytes "code" ++ [62] := by decide +kernel
    have h2 : strBytes "</code>" = [60, 47] ++ strBytes "code" ++ [62] := by decide +kernel
    simp [eembedAtom, expI, wrap, render, renderPiece, expEAtom, h1, h2]
  | em c =>
    have h1 : strBytes "<em>" = [60] ++ strBytes "em" ++ [62] := by decide +kernel
    have h2 : strBytes "</em>" = [60, 47] ++ strBytes "em" ++ [62] := by decide +kernel
    rw [eembedAtom, expI, render_wrap11, render_expIs_elits11, expEAtom, h1, h2]
    simp
  | strong c =>
    have h1 : strBytes "<strong>" = [60] ++ strBytes "strong" ++ [62] := by decide +kernel
    have h2 : strBytes "</strong>" = [60, 47] ++ strBytes "strong" ++ [62] := by decide +kernel
    rw [eembedAtom, expI, render_wrap11, render_expIs_elits11, expEAtom, h1, h2]
    simp

theorem render_expIs_line11 (l : ELine) : render (expIs (l.map eembedAtom)) = expELine l := by
  induction l with
  | nil => simp [expIs, render, expELine]
  | cons a rest ih =>
    rw [List.map_cons, expIs, render_append, ih, render_expI_atom11]
    simp [expELine]

theorem render_expIs_rembedLines11 (ls : List ELine) :
    render (expIs (eembedLines ls)) = GM.Spec.CMFrag.joinNl (ls.map expELine) := by
  induction ls with
  | nil => simp [eembedLines, expIs, render, GM.Spec.CMFrag.joinNl]
  | cons l rest ih =>
    cases rest with
    | nil => simp [eembedLines, GM.Spec.CMFrag.joinNl, render_expIs_line11]
    | cons l' rest =>
      have e : eembedLines (l :: l' :: rest) = l.map eembedAtom ++ .softBreak :: eembedLines (l' :: rest) := rfl
      rw [e, expIs_append11, render_append, render_expIs_line11, expIs, render_append, ih]
      simp [expI, render, renderPiece, nl, GM.Spec.CMFrag.joinNl]

theorem render_expB_rpara11 (ls : List ELine) (g : Nat) :
    render (expB false false (.para {} (eembedLines ls) 0)) = expEItem ⟨g, ls⟩ := by
  rw [expB]
  simp only [wrap, Bool.false_eq_true, if_false, List.cons_append]
  have h1 : strBytes "<p>" = [60] ++ strBytes "p" ++ [62] := by decide +kernel
  have h2 : strBytes "</p>\n" = [60, 47] ++ strBytes "p" ++ [62] ++ [10] := by decide +kernel
  rw [expEItem, h1, h2, ← render_expIs_rembedLines11]
  simp [render, renderPiece, nl]

theorem render_expBs_rembed11 (its : List EItem) :
    render (expBs false false (its.map fun it => .para {} (eembedLines it.lines) 0)) = its.flatMap expEItem := by
  induction its with
  | nil => simp [expBs, render]
  | cons it rest ih =>
    obtain ⟨g, ls⟩ := it
    rw [List.map_cons, expBs, render_append, ih]
    simp [render_expB_rpara11 ls g]

theorem expectedE_eq_expected_any11 (d : EDoc) : expectedE d = expected (eembed d) := by
  rw [expected, expectedPieces, eembed, expectedE, render_expBs_rembed11]

/-- S1 -/
theorem expectedE_eq_expected (d : EDoc) (_h : EFrag d) : expectedE d = expected (eembed d) :=
  expectedE_eq_expected_any11 d

/-! ### S2: source -/

/-! #### `spellIs` on text, code spans and soft breaks: no dependence on the neighbours -/

def simple11 : Inline → Bool
  | .text _ => true
  | .code .. => true
  | .softBreak => true
  | .emph us _ => !us
  | .strong us _ => !us
  | _ => false

/-- emphasis that does not ask for `_` is written with `*` whatever its neighbours are -/
theorem spellI_simple11 (x : Inline) (h : simple11 x = true) (pa na : Bool) : spellI pa na x = spellI false false x := by
  cases x with
  | emph us kids =>
    have : us = false := by simpa [simple11] using h
    subst this; simp [spellI]
  | strong us kids =>
    have : us = false := by simpa [simple11] using h
    subst this; simp [spellI]
  | text _ => simp only [spellI]
  | code _ _ _ => simp only [spellI]
  | softBreak => simp only [spellI]
  | _ => cases h

theorem spellIs_simple11 (ks : List Inline) (h : ∀ x ∈ ks, simple11 x = true) (pa : Bool) :
    spellIs pa ks = ks.flatMap (spellI false false) := by
  induction ks generalizing pa with
  | nil => simp [spellIs]
  | cons x rest ih =>
    simp only [spellIs]
    rw [spellI_simple11 x (h x (by simp)), ih (fun y hy => h y (by simp [hy]))]
    simp

theorem simple_rembedAtom11 (a : EAtomS) : simple11 (eembedAtom a) = true := by cases a <;> rfl

theorem simple_rembedLines11 (ls : List ELine) : ∀ x ∈ eembedLines ls, simple11 x = true := by
  induction ls with
  | nil => simp [eembedLines]
  | cons l rest ih =>
    cases rest with
    | nil =>
      intro x hx
      simp only [eembedLines, List.mem_map] at hx
      obtain ⟨a, _, rfl⟩ := hx
      exact simple_rembedAtom11 a
    | cons l' rest =>
      have e : eembedLines (l :: l' :: rest) = l.map eembedAtom ++ .softBreak :: eembedLines (l' :: rest) := rfl
      intro x hx
      rw [e] at hx
      rcases List.mem_append.mp hx with hx | hx
      · obtain ⟨a, _, rfl⟩ := List.mem_map.mp hx
        exact simple_rembedAtom11 a
      · rcases List.mem_cons.mp hx with rfl | hx
        · rfl
        · exact ih x hx

theorem spell_alnum_lit_s11 : ∀ c : UInt8, isAlnumC c = true → spellChar ⟨c, .lit⟩ = [c] := by
  apply forall_uint8; decide +kernel

theorem escSpell_elits_s11 (c : Bytes) (h : ∀ x ∈ c, isAlnumC x = true) : escSpell (elits c) = c := by
  induction c with
  | nil => rfl
  | cons x rest ih =>
    have := ih (fun y hy => h y (by simp [hy]))
    simp only [escSpell, elits, List.map_cons, List.flatMap_cons] at this ⊢
    rw [this, spell_alnum_lit_s11 x (h x (by simp))]
    rfl

theorem spellI_rembedAtom11 (a : EAtomS) (h : eatomOKS a = true) : spellI false false (eembedAtom a) = spellEAtom a := by
  cases a with
  | txt cs => simp only [eembedAtom, spellI, spellEAtom]
  | code c =>
    simp only [eatomOKS, Bool.and_eq_true, List.all_eq_true] at h
    simp only [eembedAtom, spellI, spellEAtom, spellCode_alnum8 c h.2]
  | em c =>
    simp only [eatomOKS, Bool.and_eq_true, List.all_eq_true] at h
    simp [eembedAtom, spellI, spellIs, spellEAtom, escSpell_elits_s11 c h.2]
  | strong c =>
    simp only [eatomOKS, Bool.and_eq_true, List.all_eq_true] at h
    simp [eembedAtom, spellI, spellIs, spellEAtom, escSpell_elits_s11 c h.2]

theorem flat_line11 (l : ELine) (h : ∀ a ∈ l, eatomOKS a = true) :
    (l.map eembedAtom).flatMap (spellI false false) = spellELine l := by
  induction l with
  | nil => rfl
  | cons a rest ih =>
    simp only [List.map_cons, List.flatMap_cons, spellELine] at ih ⊢
    rw [spellI_rembedAtom11 a (h a (by simp)), ih (fun x hx => h x (by simp [hx]))]

theorem flat_rembedLines11 (ls : List ELine) (h : ∀ l ∈ ls, ∀ a ∈ l, eatomOKS a = true) :
    (eembedLines ls).flatMap (spellI false false) = GM.Spec.CMFrag.joinNl (ls.map spellELine) := by
  induction ls with
  | nil => simp [eembedLines, GM.Spec.CMFrag.joinNl]
  | cons l rest ih =>
    cases rest with
    | nil => simp [eembedLines, GM.Spec.CMFrag.joinNl, flat_line11 l (h l (by simp))]
    | cons l' rest =>
      have e : eembedLines (l :: l' :: rest) = l.map eembedAtom ++ .softBreak :: eembedLines (l' :: rest) := rfl
      rw [e, List.flatMap_append, List.flatMap_cons, flat_line11 l (h l (by simp)),
        ih (fun x hx => h x (by simp [hx]))]
      simp [spellI, GM.Spec.CMFrag.joinNl]

theorem spellIs_rembedLines11 (ls : List ELine) (h : ∀ l ∈ ls, ∀ a ∈ l, eatomOKS a = true) (pa : Bool) :
    spellIs pa (eembedLines ls) = GM.Spec.CMFrag.joinNl (ls.map spellELine) := by
  rw [spellIs_simple11 _ (simple_rembedLines11 ls), flat_rembedLines11 ls h]

/-! #### the lines of a document -/

theorem rlineOK_atoms_s11 (l : ELine) (h : elineOKS l = true) : ∀ a ∈ l, eatomOKS a = true := by
  simp only [elineOKS, Bool.and_eq_true, List.all_eq_true] at h
  exact h.2

theorem spellRAtom_printable11 (a : EAtomS) (h : eatomOKS a = true) : (spellEAtom a).all printable = true := by
  cases a with
  | txt cs =>
    simp only [eatomOKS, Bool.and_eq_true, List.all_eq_true] at h
    exact escSpell_printable cs (fun t ht => charOK_printable t (h.2 t ht))
  | code c =>
    simp only [eatomOKS, Bool.and_eq_true, List.all_eq_true] at h
    simp only [spellEAtom, List.all_append, Bool.and_eq_true, List.all_eq_true]
    refine ⟨⟨by decide, fun x hx => (alnum_facts8 x (h.2 x hx)).2.2⟩, by decide⟩
  | em c =>
    simp only [eatomOKS, Bool.and_eq_true, List.all_eq_true] at h
    simp only [spellEAtom, List.all_append, Bool.and_eq_true, List.all_eq_true]
    refine ⟨⟨by decide, fun x hx => (alnum_facts8 x (h.2 x hx)).2.2⟩, by decide⟩
  | strong c =>
    simp only [eatomOKS, Bool.and_eq_true, List.all_eq_true] at h
    simp only [spellEAtom, List.all_append, Bool.and_eq_true, List.all_eq_true]
    refine ⟨⟨by decide, fun x hx => (alnum_facts8 x (h.2 x hx)).2.2⟩, by decide⟩

theorem spellRLine_printable11 (l : ELine) (h : elineOKS l = true) : ∀ c ∈ spellELine l, printable c = true := by
  intro c hc
  simp only [spellELine, List.mem_flatMap] at hc
  obtain ⟨a, ha, hca⟩ := hc
  exact List.all_eq_true.mp (spellRAtom_printable11 a (rlineOK_atoms_s11 l h a ha)) c hca

theorem paraLines_rembed11 (ls : List ELine) (hne : ls ≠ []) (hok : ∀ l ∈ ls, elineOKS l = true) :
    (paraLines 0 0 (spellIs false (eembedLines ls))).map (renderLine 0 0 0 0) = ls.map spellELine := by
  have hpr : ∀ b ∈ ls.map spellELine, ∀ c ∈ b, printable c = true := by
    intro b hb c hc
    obtain ⟨l, hl, rfl⟩ := List.mem_map.mp hb
    exact spellRLine_printable11 l (hok l hl) c hc
  have hsplit := splitLines_joinNl (ls.map spellELine) (by simpa using hne)
    (fun b hb c hc => (printable_facts c (hpr b hb c hc)).1)
  rw [paraLines, spellIs_rembedLines11 ls (fun l hl => rlineOK_atoms_s11 l (hok l hl)), hsplit]
  cases hls : ls.map spellELine with
  | nil => simp at hls; exact absurd hls hne
  | cons f rest =>
    rw [hls] at hpr
    simp only [List.map_cons, List.map_map]
    congr 1
    · exact renderLine_plain f (fun c hc => (printable_facts c (hpr f (by simp) c hc)).2)
    · conv => rhs; rw [← List.map_id rest]
      apply List.map_congr_left
      intro b hb
      exact renderLine_plain b (fun c hc => (printable_facts c (hpr b (by simp [hb]) c hc)).2)

/-- the source lines of the items (a blank line in front of every item but the first) -/
def docLinesE11 (first : Bool) : List EItem → List Bytes
  | [] => []
  | it :: rest => (if first then [] else [[]]) ++ it.lines.map spellELine ++ docLinesE11 false rest

theorem ritemOK_parts11 (it : EItem) (h : eitemOKS it = true) : it.lines ≠ [] ∧ ∀ l ∈ it.lines, elineOKS l = true := by
  simp only [eitemOKS, Bool.and_eq_true, Bool.not_eq_true', List.isEmpty_eq_false_iff, List.all_eq_true] at h
  exact h

theorem spellBs_rembed11 (its : List EItem) (hok : ∀ it ∈ its, eitemOKS it = true) (prev pm : Nat) :
    (spellBs false false prev pm (its.map fun it => .para {} (eembedLines it.lines) 0)).map (renderLine 0 0 0 0) =
      docLinesE11 (prev == 0) its := by
  induction its generalizing prev pm with
  | nil => simp [spellBs, docLinesE11]
  | cons it rest ih =>
    obtain ⟨hne, hls⟩ := ritemOK_parts11 it (hok it (by simp))
    have hp := paraLines_rembed11 it.lines hne hls
    have ih' := ih (fun x hx => hok x (by simp [hx])) 1 0
    rw [List.map_cons, spellBs_para, List.map_append, List.map_append, hp, ih', docLinesE11]
    by_cases h0 : prev = 0
    · subst h0; simp
    · have : (prev == 0) = false := by simpa using h0
      simp [this, renderLine_blank]

theorem docLinesR_flatMap11 (its : List EItem) (hg : ∀ it ∈ its, it.gap = 0) (first : Bool) :
    (docLinesE11 first its).flatMap (· ++ [10]) = spellEItems first its := by
  induction its generalizing first with
  | nil => simp [docLinesE11, spellEItems]
  | cons it rest ih =>
    obtain ⟨g, ls⟩ := it
    have hg0 : g = 0 := hg ⟨g, ls⟩ (by simp)
    subst hg0
    rw [docLinesE11, spellEItems, List.flatMap_append, List.flatMap_append, ih (fun x hx => hg x (by simp [hx]))]
    cases first
    · simp [blanks, List.flatMap_map]
    · simp [blanks, List.flatMap_map]

theorem docLinesR_ne11 (it : EItem) (rest : List EItem) (h : eitemOKS it = true) :
    docLinesE11 true (it :: rest) ≠ [] := by
  obtain ⟨hne, _⟩ := ritemOK_parts11 it h
  obtain ⟨g, ls⟩ := it
  cases ls with
  | nil => exact absurd rfl hne
  | cons l ls => simp [docLinesE11]

/-- S2: a non-empty stage-11 document without extra blank lines is spelled byte for byte like the embedded one -/
theorem spellE_eq_spell (d : EDoc) (h : EFrag d) (hb : enoExtraBlanks d = true) (hne : d.items ≠ []) :
    spellE d = spell (eembed d) := by
  obtain ⟨items, trail⟩ := d
  simp only [enoExtraBlanks, Bool.and_eq_true, beq_iff_eq, List.all_eq_true] at hb
  obtain ⟨ht, hg⟩ := hb
  simp only at ht hne; subst ht
  have hok : ∀ it ∈ items, eitemOKS it = true := by
    have := h; simp only [EFrag, efragB, List.all_eq_true] at this; exact this
  have hl := spellBs_rembed11 items hok 0 0
  cases items with
  | nil => exact absurd rfl hne
  | cons it rest =>
    have hdn := docLinesR_ne11 it rest (hok it (by simp))
    simp only [spell, eembed, spellE, blanks, List.replicate_zero, List.append_nil, if_true]
    rw [hl]
    simp only [beq_self_eq_true]
    rw [joinLines_flatMap _ hdn, docLinesR_flatMap11 _ hg]

end GM.Proof.CMFrag
