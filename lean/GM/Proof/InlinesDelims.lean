/-
  GM.Proof.InlinesDelims — more about ProcessDelimiters (GM.Model.Inlines), for the link parser's contract and for
  the segment-order theorem: (a) it creates no link-label node; (b) every per-node property that Text has, that an
  Emphasis inherits from its children and that a delimiter keeps when it loses characters is kept for all
  children; (c) with a `bottom` that is not among the children's delimiters no delimiter is left; (d) prefix
  locality: a prefix `P` whose last node is not a Text and whose last delimiter is `bottom` (or which has none)
  is not touched, `processDelimiters b (P ++ y) = (processDelimiters b y).map (P ++ ·)`; (e) the chain of recorded
  segments stays a chain (ConsumeCharacters shrinks a delimiter from its end, used-up delimiters are dropped,
  cleared delimiters become Text or merge into the Text in front, runs of siblings are wrapped).
-/
import GM.Proof.InlinesTotal

namespace GM.Proof.InlinesDelims
open GM GM.Text GM.Inl GM.Proof.Inlines GM.Proof.InlinesTotal

/-! ### (a) no link-label node is created -/

mutual
theorem hasLabel_flat_eq : ∀ (n : Node), hasLabel n = (flat n).any hasLabel
  | .text .. => by simp [hasLabel, flat]
  | .codeSpan ks => by simp [flat]
  | .emphasis _ ks => by simp only [hasLabel, flat]; exact hasLabelL_flat_eq ks
  | .link _ _ _ ks => by simp [flat]
  | .autoLink .. => by simp [hasLabel, flat]
  | .rawHTML .. => by simp [hasLabel, flat]
  | .delim .. => by simp [hasLabel, flat]
  | .label .. => by simp [hasLabel, flat]
theorem hasLabelL_flat_eq : ∀ (l : List Node), hasLabelL l = (flatL l).any hasLabel
  | [] => by simp [hasLabelL, flatL]
  | n :: rest => by
    simp only [hasLabelL, flatL, List.any_append]
    rw [hasLabel_flat_eq n, hasLabelL_flat_eq rest]
end

theorem processDelimiters_hasLabelL {b : Bottom} {kids res : List Node} (h : processDelimiters b kids = .ok res) :
    hasLabelL res = hasLabelL kids := by
  rw [hasLabelL_flat_eq, hasLabelL_flat_eq, processDelimiters_flat h]

theorem hasLabelL_append (a b : List Node) : hasLabelL (a ++ b) = (hasLabelL a || hasLabelL b) := by
  induction a with
  | nil => simp [hasLabelL]
  | cons x r ih => simp [hasLabelL, ih, Bool.or_assoc]

theorem hasLabelL_false_iff {l : List Node} : hasLabelL l = false ↔ ∀ n ∈ l, hasLabel n = false := by
  induction l with
  | nil => simp [hasLabelL]
  | cons a r ih => simp [hasLabelL, ih]

/-! ### (b) per-node properties -/

/-- a property of nodes that ProcessDelimiters cannot break -/
structure NodeInv (Q : Node → Prop) : Prop where
  text : ∀ s a b c, Q (.text s a b c)
  emph : ∀ c ks, (∀ k ∈ ks, Q k) → Q (.emphasis c ks)
  cons : ∀ id d n, Q (.delim id d) → Q (.delim id (d.consume n))

def allQ (Q : Node → Prop) (l : List Node) : Prop := ∀ n ∈ l, Q n

variable {Q : Node → Prop}

theorem allQ_append {a b : List Node} : allQ Q (a ++ b) ↔ allQ Q a ∧ allQ Q b := by
  simp only [allQ, List.mem_append]
  constructor
  · intro h; exact ⟨fun n hn => h n (Or.inl hn), fun n hn => h n (Or.inr hn)⟩
  · intro h n hn; rcases hn with hn | hn
    · exact h.1 n hn
    · exact h.2 n hn

theorem allQ_cons {n : Node} {l : List Node} : allQ Q (n :: l) ↔ Q n ∧ allQ Q l := by
  simp [allQ]

theorem allQ_nil : allQ Q [] := by intro n hn; simp at hn

theorem allQ_single {n : Node} : allQ Q [n] ↔ Q n := by simp [allQ]

theorem allQ_reverse {l : List Node} : allQ Q l.reverse ↔ allQ Q l := by simp [allQ]

theorem allQ_dropLast {l : List Node} (h : allQ Q l) : allQ Q l.dropLast :=
  fun n hn => h n (List.dropLast_subset _ hn)

theorem mergeOrAppend_allQ (I : NodeInv Q) {l : List Node} {s : Segment} (h : allQ Q l) : allQ Q (mergeOrAppend l s) := by
  unfold mergeOrAppend
  split
  · split
    · exact allQ_append.mpr ⟨allQ_dropLast h, allQ_single.mpr (I.text _ _ _ _)⟩
    · exact allQ_append.mpr ⟨h, allQ_single.mpr (I.text _ _ _ _)⟩
  · exact allQ_append.mpr ⟨h, allQ_single.mpr (I.text _ _ _ _)⟩

theorem removeDelim_allQ (I : NodeInv Q) {l : List Node} {d : Delim} (h : allQ Q l) : allQ Q (removeDelim l d) := by
  unfold removeDelim; split
  · exact mergeOrAppend_allQ I h
  · exact h

theorem clearInner_allQ (I : NodeInv Q) {acc mid : List Node} (ha : allQ Q acc) (hm : allQ Q mid) :
    allQ Q (clearInner acc mid) := by
  induction mid generalizing acc with
  | nil => simpa [clearInner] using ha
  | cons n rest ih =>
    have hh := allQ_cons.mp hm
    cases n with
    | delim id d => simp only [clearInner]; exact ih (removeDelim_allQ I ha) hh.2
    | _ => simp only [clearInner]; exact ih (allQ_append.mpr ⟨ha, allQ_single.mpr hh.1⟩) hh.2

theorem clearRev_allQ (I : NodeInv Q) (b : Bottom) {l : List Node} (h : allQ Q l) : allQ Q (clearRev b l) := by
  induction l with
  | nil => simpa [clearRev] using h
  | cons n rest ih =>
    have hh := allQ_cons.mp h
    have ihr := ih hh.2
    cases n with
    | delim id d =>
      simp only [clearRev]
      split
      · exact h
      · split
        · split
          · split
            · rename_i heq _
              rw [heq] at ihr
              exact allQ_cons.mpr ⟨I.text _ _ _ _, (allQ_cons.mp ihr).2⟩
            · exact allQ_cons.mpr ⟨I.text _ _ _ _, ihr⟩
          · exact allQ_cons.mpr ⟨I.text _ _ _ _, ihr⟩
        · exact ihr
    | _ => simp only [clearRev]; exact allQ_cons.mpr ⟨hh.1, ihr⟩

theorem clearDelimiters_allQ (I : NodeInv Q) (b : Bottom) {kids : List Node} (h : allQ Q kids) :
    allQ Q (clearDelimiters b kids) := by
  unfold clearDelimiters
  split
  · exact h
  · rename_i pre id d post heq
    rw [splitLastDelim_eq heq] at h
    have h1 := allQ_append.mp h
    have h2 := allQ_cons.mp h1.2
    refine allQ_append.mpr ⟨allQ_reverse.mpr (clearRev_allQ I b ?_), h2.2⟩
    exact allQ_cons.mpr ⟨h2.1, allQ_reverse.mpr h1.1⟩

theorem advanceCloser_allQ {pre post : List Node} (hp : allQ Q pre) (hq : allQ Q post) :
    allQ Q (wholeOf (advanceCloser pre post)) := by
  rw [advanceCloser_whole]; exact allQ_append.mpr ⟨hp, hq⟩

theorem closerStep_allQ (I : NodeInv Q) {b : Bottom} {pre post : List Node} {cid : Nat} {cd : Delim}
    (hp : allQ Q pre) (hcd : Q (.delim cid cd)) (hq : allQ Q post) :
    allQ Q (wholeOf (closerStep b pre cid cd post)) := by
  have hc1 : allQ Q (pre ++ [.delim cid cd]) := allQ_append.mpr ⟨hp, allQ_single.mpr hcd⟩
  unfold closerStep
  split
  · exact allQ_nil
  · split
    · exact advanceCloser_allQ hc1 hq
    · split
      · apply advanceCloser_allQ _ hq
        split
        · exact removeDelim_allQ I hp
        · exact hc1
      · rename_i p1 oid od mid consume m hf
        have e := findOpener_eq b cd _ _ _ hf
        simp only [List.reverse_reverse, List.append_nil] at e
        rw [e] at hp
        have f1 := (allQ_append.mp hp).1
        have f2 := allQ_cons.mp (allQ_append.mp hp).2
        split
        · exact allQ_nil
        · simp only
          have hpre' : allQ Q ((if ((od.consume consume).length == 0) = true then p1
              else p1 ++ [Node.delim oid (od.consume consume)]) ++ [Node.emphasis consume (clearInner [] mid)]) := by
            refine allQ_append.mpr ⟨?_, allQ_single.mpr (I.emph _ _ (clearInner_allQ I allQ_nil f2.2))⟩
            split
            · exact f1
            · exact allQ_append.mpr ⟨f1, allQ_single.mpr (I.cons _ _ _ f2.1)⟩
          split
          · exact advanceCloser_allQ hpre' hq
          · simp only [wholeOf]
            exact allQ_append.mpr ⟨hpre', allQ_cons.mpr ⟨I.cons _ _ _ hcd, hq⟩⟩

theorem closerLoop_allQ (I : NodeInv Q) (b : Bottom) (pre : List Node) (cid : Nat) (cd : Delim) (post : List Node) :
    ∀ {res : List Node}, closerLoop b pre cid cd post = .ok res → allQ Q pre → Q (.delim cid cd) → allQ Q post →
    allQ Q res := by
  fun_induction closerLoop b pre cid cd post with
  | case1 pre cid cd post kids hs =>
    intro res h hp hcd hq
    simp at h; subst h
    have := closerStep_allQ I (b := b) hp hcd hq
    rw [hs] at this
    exact this
  | case2 => intro res h; simp at h
  | case3 pre cid cd post pre' cid' cd' post' hs ih =>
    intro res h hp hcd hq
    have := closerStep_allQ I (b := b) hp hcd hq
    rw [hs] at this
    simp only [wholeOf] at this
    have h1 := allQ_append.mp this
    have h2 := allQ_cons.mp h1.2
    exact ih h h1.1 h2.1 h2.2

theorem processDelimiters_allQ (I : NodeInv Q) {b : Bottom} {kids res : List Node}
    (h : processDelimiters b kids = .ok res) (hk : allQ Q kids) : allQ Q res := by
  unfold processDelimiters at h
  split at h
  · simp at h; subst h; exact hk
  · simp only at h
    split at h
    · simp at h; subst h; exact clearDelimiters_allQ I b hk
    · split at h
      · simp at h
      · rename_i pre cd post hs
        split at h
        · rename_i kids' hl
          simp at h; subst h
          have e := splitAtDelim_eq hs
          rw [e] at hk
          have h1 := allQ_append.mp hk
          have h2 := allQ_cons.mp h1.2
          exact clearDelimiters_allQ I b (closerLoop_allQ I _ _ _ _ _ hl h1.1 h2.1 h2.2)
        · simp at h

/-! ### (c) a bottom that is not there: every delimiter is cleared -/

/-- no delimiter among the children is `bottom` -/
def bfree (b : Bottom) (l : List Node) : Prop := ∀ id d, Node.delim id d ∈ l → b ≠ .id id

theorem bfree_inv (b : Bottom) : NodeInv (fun n => ∀ id d, n = Node.delim id d → b ≠ .id id) where
  text := by intro s a b c id d h; simp at h
  emph := by intro c ks _ id d h; simp at h
  cons := by
    intro id d n h id' d' e
    simp at e
    exact h id' d (by rw [e.1])

theorem bfree_allQ {b : Bottom} {l : List Node} :
    bfree b l ↔ allQ (fun n => ∀ id d, n = Node.delim id d → b ≠ .id id) l := by
  constructor
  · intro h n hn id d e; subst e; exact h id d hn
  · intro h id d hm; exact h _ hm id d rfl

theorem clearRev_clears {b : Bottom} {l : List Node} (h : bfree b l) : ∀ n ∈ clearRev b l, n.isDelim = false := by
  induction l with
  | nil => simp [clearRev]
  | cons n rest ih =>
    have ihr := ih (fun id d hm => h id d (by simp [hm]))
    cases n with
    | delim id d =>
      simp only [clearRev]
      split
      · rename_i hb
        exact absurd (by simpa using hb) (h id d (by simp))
      · split
        · split
          · split
            · rename_i heq _
              rw [heq] at ihr
              intro m hm
              simp only [List.mem_cons] at hm
              rcases hm with rfl | hm
              · rfl
              · exact ihr m (by simp [hm])
            · intro m hm
              simp only [List.mem_cons] at hm
              rcases hm with rfl | hm
              · rfl
              · exact ihr m hm
          · intro m hm
            simp only [List.mem_cons] at hm
            rcases hm with rfl | hm
            · rfl
            · exact ihr m hm
        · exact ihr
    | _ =>
      simp only [clearRev]
      intro m hm
      simp only [List.mem_cons] at hm
      rcases hm with rfl | hm
      · rfl
      · exact ihr m hm

theorem splitLastDelim_post {l pre post : List Node} {id : Nat} {d : Delim}
    (h : splitLastDelim l = some (pre, id, d, post)) : ∀ n ∈ post, n.isDelim = false := by
  unfold splitLastDelim at h
  split at h
  · rename_i postR i dd preR hq
    simp at h; obtain ⟨rfl, rfl, rfl, rfl⟩ := h
    intro n hn
    exact splitFirstDelim_pre hq n (by simpa using hn)
  · simp at h

theorem splitLastDelim_none {l : List Node} (h : splitLastDelim l = none) : ∀ n ∈ l, n.isDelim = false := by
  unfold splitLastDelim at h
  split at h
  · simp at h
  · rename_i hnone
    intro n hn
    exact splitFirstDelim_none hnone n (by simpa using hn)

theorem clearDelimiters_clears {b : Bottom} {kids : List Node} (h : bfree b kids) :
    ∀ n ∈ clearDelimiters b kids, n.isDelim = false := by
  unfold clearDelimiters
  split
  · rename_i heq; exact splitLastDelim_none heq
  · rename_i pre id d post heq
    have e := splitLastDelim_eq heq
    intro n hn
    simp only [List.mem_append, List.mem_reverse] at hn
    rcases hn with hn | hn
    · refine clearRev_clears (b := b) (l := .delim id d :: pre.reverse) ?_ n hn
      intro i dd hm
      apply h i dd
      rw [e]
      simp only [List.mem_cons, List.mem_reverse] at hm
      rcases hm with hm | hm
      · simp [hm]
      · simp [hm]
    · exact splitLastDelim_post heq n hn

/-- ProcessDelimiters(bottom) with a `bottom` that is not a delimiter among the children clears them all -/
theorem processDelimiters_clears {b : Bottom} {kids res : List Node} (h : processDelimiters b kids = .ok res)
    (hb : bfree b kids) : ∀ n ∈ res, n.isDelim = false := by
  unfold processDelimiters at h
  split at h
  · rename_i heq; simp at h; subst h; exact splitLastDelim_none heq
  · simp only at h
    split at h
    · simp at h; subst h; exact clearDelimiters_clears hb
    · split at h
      · simp at h
      · rename_i pre cd post hs
        split at h
        · rename_i kids' hl
          simp at h; subst h
          apply clearDelimiters_clears
          have e := splitAtDelim_eq hs
          rw [e] at hb
          have hb' := bfree_allQ.mp hb
          have h1 := allQ_append.mp hb'
          have h2 := allQ_cons.mp h1.2
          exact bfree_allQ.mpr (closerLoop_allQ (bfree_inv b) _ _ _ _ _ hl h1.1 h2.1 h2.2)
        · simp at h

/-! ### (d) prefix locality -/

theorem closerLoop_done {b : Bottom} {pre post k : List Node} {cid : Nat} {cd : Delim}
    (h : closerStep b pre cid cd post = .done k) : closerLoop b pre cid cd post = .ok k := by
  rw [closerLoop]
  split
  · rename_i k' h'; rw [h] at h'; simp at h'; rw [h']
  · rename_i h'; rw [h] at h'; simp at h'
  · rename_i h'; rw [h] at h'; simp at h'

theorem closerLoop_bad {b : Bottom} {pre post : List Node} {cid : Nat} {cd : Delim}
    (h : closerStep b pre cid cd post = .bad) : closerLoop b pre cid cd post = .error .pre := by
  rw [closerLoop]
  split
  · rename_i k' h'; rw [h] at h'; simp at h'
  · rfl
  · rename_i h'; rw [h] at h'; simp at h'

theorem closerLoop_next {b : Bottom} {pre post pre' post' : List Node} {cid cid' : Nat} {cd cd' : Delim}
    (h : closerStep b pre cid cd post = .next pre' cid' cd' post') :
    closerLoop b pre cid cd post = closerLoop b pre' cid' cd' post' := by
  rw [closerLoop]
  split
  · rename_i k' h'; rw [h] at h'; simp at h'
  · rename_i h'; rw [h] at h'; simp at h'
  · rename_i a1 a2 a3 a4 h'; rw [h] at h'; simp at h'; obtain ⟨rfl, rfl, rfl, rfl⟩ := h'; rfl

/-- every right-to-left walk over the (reversed) list that stops at `bottom` stops before it has seen another
    delimiter: the first delimiter of the list is `bottom`, or the list has none -/
def stopsAt (b : Bottom) : List Node → Prop
  | [] => True
  | .delim id _ :: _ => b = .id id
  | _ :: rest => stopsAt b rest

def isTextNode : Node → Bool
  | .text .. => true
  | _ => false

/-- a prefix (given reversed) that ProcessDelimiters(bottom) cannot touch: it ends with a node that is neither a
    Text nor a delimiter (a link label), and walks stop at `bottom` inside it -/
structure Closed (b : Bottom) (PR : List Node) : Prop where
  ne : ∃ n rest, PR = n :: rest ∧ isTextNode n = false ∧ n.isDelim = false
  stops : stopsAt b PR

theorem findOpener_stops (b : Bottom) (cd : Delim) : ∀ (PR mid : List Node) (m : Bool), stopsAt b PR →
    findOpener b cd PR mid m = (none, m) := by
  intro PR
  induction PR with
  | nil => intro mid m _; rfl
  | cons n rest ih =>
    intro mid m hs
    cases n with
    | delim id d =>
      simp only [stopsAt] at hs
      simp [findOpener, hs]
    | _ => simp only [stopsAt] at hs; simp only [findOpener]; exact ih _ _ hs

/-- lift a result of the opener search over a suffix to the whole list -/
def liftOpener (P : List Node) :
    Option (List Node × Nat × Delim × List Node × Int) × Bool → Option (List Node × Nat × Delim × List Node × Int) × Bool
  | (some (p1, oid, od, mid, c), m) => (some (P ++ p1, oid, od, mid, c), m)
  | (none, m) => (none, m)

theorem findOpener_prefix (b : Bottom) (cd : Delim) (PR : List Node) (hs : stopsAt b PR) :
    ∀ (yR mid : List Node) (m : Bool),
    findOpener b cd (yR ++ PR) mid m = liftOpener PR.reverse (findOpener b cd yR mid m) := by
  intro yR
  induction yR with
  | nil => intro mid m; simp [findOpener_stops b cd PR mid m hs, findOpener, liftOpener]
  | cons n rest ih =>
    intro mid m
    cases n with
    | delim id d =>
      simp only [List.cons_append, findOpener]
      split
      · rfl
      · split
        · split
          · simp [liftOpener]
          · exact ih _ _
        · exact ih _ _
    | _ => simp only [List.cons_append, findOpener]; exact ih _ _

theorem firstCloserAfter_prefix (b : Bottom) (PR : List Node) (hs : stopsAt b PR) :
    ∀ (yR : List Node) (acc : Option Nat), firstCloserAfter b (yR ++ PR) acc = firstCloserAfter b yR acc := by
  intro yR
  induction yR with
  | nil =>
    intro acc
    simp only [List.nil_append, firstCloserAfter]
    induction PR generalizing acc with
    | nil => rfl
    | cons n rest ih =>
      cases n with
      | delim id d => simp only [stopsAt] at hs; simp [firstCloserAfter, hs]
      | _ => simp only [stopsAt] at hs; simp only [firstCloserAfter]; exact ih hs _
  | cons n rest ih =>
    intro acc
    cases n with
    | delim id d =>
      simp only [List.cons_append, firstCloserAfter]
      split
      · rfl
      · exact ih _
    | _ => simp only [List.cons_append, firstCloserAfter]; exact ih _

theorem clearRev_stops (b : Bottom) : ∀ (PR : List Node), stopsAt b PR → clearRev b PR = PR := by
  intro PR
  induction PR with
  | nil => intro _; rfl
  | cons n rest ih =>
    intro hs
    cases n with
    | delim id d => simp only [stopsAt] at hs; simp [clearRev, hs]
    | _ => simp only [stopsAt] at hs; simp only [clearRev]; rw [ih hs]

theorem clearRev_text (b : Bottom) (s : Segment) (x y z : Bool) (l : List Node) :
    clearRev b (.text s x y z :: l) = .text s x y z :: clearRev b l := by simp [clearRev]

theorem clearRev_prefix (b : Bottom) (PR : List Node) (hc : Closed b PR) :
    ∀ (yR : List Node), clearRev b (yR ++ PR) = clearRev b yR ++ PR := by
  obtain ⟨n0, PR', rfl, hn1, hn2⟩ := hc.ne
  intro yR
  induction yR with
  | nil => simp [clearRev_stops b _ hc.stops, clearRev]
  | cons n rest ih =>
    cases n with
    | delim id d =>
      simp only [List.cons_append, clearRev]
      split
      · rfl
      · split
        · rw [ih]
          cases rest with
          | nil =>
            simp only [List.nil_append, clearRev]
            cases n0 <;> simp_all [isTextNode]
          | cons t rest' =>
            cases t with
            | text s x y z =>
              simp only [List.cons_append, clearRev_text]
              split <;> rfl
            | _ => rfl
        · exact ih
    | _ => simp only [List.cons_append, clearRev]; rw [ih]


theorem splitFirstDelim_append (a b : List Node) :
    splitFirstDelim (a ++ b) = match splitFirstDelim a with
      | some (pre, id, d, post) => some (pre, id, d, post ++ b)
      | none => (splitFirstDelim b).map (fun x => (a ++ x.1, x.2.1, x.2.2.1, x.2.2.2)) := by
  induction a with
  | nil => simp [splitFirstDelim]
  | cons n rest ih =>
    cases n with
    | delim id d => simp [splitFirstDelim]
    | _ =>
      simp only [List.cons_append, splitFirstDelim, ih]
      cases splitFirstDelim rest with
      | some x => simp
      | none => simp only []; cases splitFirstDelim b <;> simp

theorem splitLastDelim_prefix_some {P y pre post : List Node} {id : Nat} {d : Delim}
    (h : splitLastDelim y = some (pre, id, d, post)) : splitLastDelim (P ++ y) = some (P ++ pre, id, d, post) := by
  unfold splitLastDelim at h ⊢
  rw [List.reverse_append, splitFirstDelim_append]
  split at h
  · rename_i postR i dd preR heq
    simp at h; obtain ⟨rfl, rfl, rfl, rfl⟩ := h
    simp [heq]
  · simp at h

theorem splitLastDelim_prefix_none {P y : List Node} (h : splitLastDelim y = none) :
    splitLastDelim (P ++ y) = (splitLastDelim P).map (fun x => (x.1, x.2.1, x.2.2.1, x.2.2.2 ++ y)) := by
  unfold splitLastDelim at h ⊢
  rw [List.reverse_append, splitFirstDelim_append]
  split at h
  · simp at h
  · rename_i hn
    simp only [hn]
    cases splitFirstDelim P.reverse <;> simp

/-- the first delimiter of a reversed list at which walks stop is `bottom` -/
theorem stopsAt_split {b : Bottom} {PR pre post : List Node} {id : Nat} {d : Delim} (hs : stopsAt b PR)
    (h : splitFirstDelim PR = some (pre, id, d, post)) : b = .id id := by
  induction PR generalizing pre with
  | nil => simp [splitFirstDelim] at h
  | cons n rest ih =>
    cases n with
    | delim i dd => simp [splitFirstDelim] at h; simp only [stopsAt] at hs; rw [hs, h.2.1]
    | _ =>
      simp only [splitFirstDelim] at h
      simp only [stopsAt] at hs
      split at h
      · rename_i heq
        simp at h; obtain ⟨_, rfl, rfl, rfl⟩ := h
        exact ih hs heq
      · simp at h

theorem getLast_append_ne {P y : List Node} (hy : y ≠ []) : (P ++ y).getLast? = y.getLast? := by
  simp [List.getLast?_append]
  cases hl : y.getLast? with
  | none => simp at hl; exact absurd hl hy
  | some v => simp

theorem mergeOrAppend_prefix {P : List Node} {n0 : Node} {P0 : List Node} (hP : P = P0 ++ [n0])
    (hn : isTextNode n0 = false) (y : List Node) (s : Segment) :
    mergeOrAppend (P ++ y) s = P ++ mergeOrAppend y s := by
  by_cases hy : y = []
  · subst hy
    subst hP
    simp only [List.append_nil, mergeOrAppend, List.getLast?_append, List.getLast?_singleton, Option.some_or,
      List.getLast?_nil]
    cases n0 <;> simp_all [isTextNode]
  · unfold mergeOrAppend
    rw [getLast_append_ne hy]
    have hd : (P ++ y).dropLast = P ++ y.dropLast := by
      rw [List.dropLast_append_of_ne_nil hy]
    split
    · split
      · rw [hd]; simp
      · simp
    · simp

theorem removeDelim_prefix {P : List Node} {n0 : Node} {P0 : List Node} (hP : P = P0 ++ [n0])
    (hn : isTextNode n0 = false) (y : List Node) (d : Delim) :
    removeDelim (P ++ y) d = P ++ removeDelim y d := by
  unfold removeDelim
  split
  · exact mergeOrAppend_prefix hP hn y _
  · rfl

/-- a round's answer with the untouched prefix put in front -/
def prefixC (P : List Node) : CStep → CStep
  | .done k => .done (P ++ k)
  | .next pre cid cd post => .next (P ++ pre) cid cd post
  | .bad => .bad

theorem advanceCloser_prefix (P pre post : List Node) :
    advanceCloser (P ++ pre) post = prefixC P (advanceCloser pre post) := by
  unfold advanceCloser
  split <;> simp [prefixC]

theorem closed_last {b : Bottom} {P : List Node} (hc : Closed b P.reverse) :
    ∃ P0 n0, P = P0 ++ [n0] ∧ isTextNode n0 = false ∧ n0.isDelim = false := by
  obtain ⟨n, rest, e, h1, h2⟩ := hc.ne
  refine ⟨rest.reverse, n, ?_, h1, h2⟩
  have := congrArg List.reverse e
  simpa using this

theorem closerStep_prefix {b : Bottom} {P : List Node} (hc : Closed b P.reverse) (y1 : List Node) (cid : Nat)
    (cd : Delim) (post : List Node) :
    closerStep b (P ++ y1) cid cd post = prefixC P (closerStep b y1 cid cd post) := by
  obtain ⟨P0, n0, hP, hn, _⟩ := closed_last hc
  unfold closerStep
  split
  · rfl
  · split
    · rw [List.append_assoc]; exact advanceCloser_prefix _ _ _
    · rw [List.reverse_append, findOpener_prefix b cd P.reverse hc.stops]
      simp only [List.reverse_reverse]
      cases hf : findOpener b cd y1.reverse [] false with
      | mk o m =>
        cases o with
        | none =>
          simp only [liftOpener]
          split
          · rw [removeDelim_prefix hP hn]; exact advanceCloser_prefix _ _ _
          · rw [List.append_assoc]; exact advanceCloser_prefix _ _ _
        | some x =>
          obtain ⟨p1, oid, od, mid, consume⟩ := x
          simp only [liftOpener]
          split
          · rfl
          · split <;> split
            all_goals first
              | exact advanceCloser_prefix _ _ _
              | (simp only [List.append_assoc]; exact advanceCloser_prefix _ _ _)
              | simp [prefixC]

theorem closerLoop_prefix {b : Bottom} {P : List Node} (hc : Closed b P.reverse) (y1 : List Node) (cid : Nat)
    (cd : Delim) (post : List Node) :
    closerLoop b (P ++ y1) cid cd post = (closerLoop b y1 cid cd post).map (P ++ ·) := by
  fun_induction closerLoop b y1 cid cd post with
  | case1 pre cid cd post kids hs =>
    have := closerStep_prefix hc pre cid cd post
    rw [hs] at this
    rw [closerLoop_done this]; rfl
  | case2 pre cid cd post hs =>
    have := closerStep_prefix hc pre cid cd post
    rw [hs] at this
    rw [closerLoop_bad this]; rfl
  | case3 pre cid cd post pre' cid' cd' post' hs ih =>
    have := closerStep_prefix hc pre cid cd post
    rw [hs] at this
    rw [closerLoop_next this]; exact ih

theorem clearDelimiters_prefix {b : Bottom} {P : List Node} (hc : Closed b P.reverse) (y : List Node) :
    clearDelimiters b (P ++ y) = P ++ clearDelimiters b y := by
  unfold clearDelimiters
  cases hy : splitLastDelim y with
  | some x =>
    obtain ⟨pre, id, d, post⟩ := x
    rw [splitLastDelim_prefix_some hy]
    simp only
    have : Node.delim id d :: (P ++ pre).reverse = (Node.delim id d :: pre.reverse) ++ P.reverse := by simp
    rw [this, clearRev_prefix b P.reverse hc]
    simp
  | none =>
    rw [splitLastDelim_prefix_none hy]
    simp only
    cases hp : splitLastDelim P with
    | none => simp
    | some x =>
      obtain ⟨pre, id, d, post⟩ := x
      simp only [Option.map_some]
      have e := splitLastDelim_eq hp
      have hb : b = .id id := by
        unfold splitLastDelim at hp
        split at hp
        · rename_i postR i dd preR heq
          simp at hp; obtain ⟨_, rfl, _, _⟩ := hp
          exact stopsAt_split hc.stops heq
        · simp at hp
      simp only [clearRev, hb, beq_self_eq_true, if_true]
      rw [e]; simp

theorem splitAtDelim_prefix {cid : Nat} {P y pre post : List Node} {cd : Delim}
    (hP : ∀ d, Node.delim cid d ∉ P) (h : splitAtDelim cid y = some (pre, cd, post)) :
    splitAtDelim cid (P ++ y) = some (P ++ pre, cd, post) := by
  induction P with
  | nil => simpa using h
  | cons n rest ih =>
    have ih' := ih (fun d hd => hP d (by simp [hd]))
    cases n with
    | delim i dd =>
      have : (i == cid) = false := by
        simp only [beq_eq_false_iff_ne, ne_eq]
        intro e; subst e; exact hP dd (by simp)
      simp [splitAtDelim, this, ih']
    | _ => simp [splitAtDelim, ih']

/-- prefix locality of ProcessDelimiters(bottom) for a non-nil `bottom` -/
theorem processDelimiters_prefix {b : Bottom} (hb : b ≠ .nil) {P : List Node} (hc : Closed b P.reverse)
    (y : List Node) (hd : ∀ id d d', Node.delim id d ∈ P → Node.delim id d' ∈ y → False) :
    processDelimiters b (P ++ y) = (processDelimiters b y).map (P ++ ·) := by
  cases hy : splitLastDelim y with
  | none =>
    have hyy : processDelimiters b y = .ok y := by simp [processDelimiters, hy]
    rw [hyy]
    have hcl := clearDelimiters_prefix hc y
    have hcy : clearDelimiters b y = y := by simp [clearDelimiters, hy]
    rw [hcy] at hcl
    unfold processDelimiters
    rw [splitLastDelim_prefix_none hy]
    cases hp : splitLastDelim P with
    | none => simp [Except.map]
    | some x =>
      obtain ⟨pre, id, d, post⟩ := x
      have hbid : b = .id id := by
        unfold splitLastDelim at hp
        split at hp
        · rename_i postR i dd preR heq
          simp at hp; obtain ⟨_, rfl, _, _⟩ := hp
          exact stopsAt_split hc.stops heq
        · simp at hp
      subst hbid
      simp [hcl, Except.map]
  | some x =>
    obtain ⟨preL, lastId, ld, lpost⟩ := x
    unfold processDelimiters
    rw [splitLastDelim_prefix_some hy, hy]
    simp only
    have hcl : ∀ z, clearDelimiters b (P ++ z) = P ++ clearDelimiters b z := clearDelimiters_prefix hc
    cases b with
    | nil => exact absurd rfl hb
    | tnil =>
      simp only [List.reverse_append, firstCloserAfter_prefix _ _ hc.stops]
      split
      · simp [hcl, Except.map]
      · rename_i cid hcid
        cases hs : splitAtDelim cid y with
        | none =>
          exfalso
          simp at hcid
          rcases firstCloserAfter_mem _ _ _ hcid with e | ⟨d, hd'⟩
          · simp at e
          · obtain ⟨r, hr⟩ := splitAtDelim_some (id := cid) (l := y) (d := d)
              (by rw [splitLastDelim_eq hy]; simp at hd'; simp [hd'])
            rw [hr] at hs; simp at hs
        | some r =>
          obtain ⟨pre, cd, post⟩ := r
          have hmem : Node.delim cid cd ∈ y := by rw [splitAtDelim_eq hs]; simp
          rw [splitAtDelim_prefix (fun d hdP => hd cid d cd hdP hmem) hs]
          simp only
          rw [closerLoop_prefix hc]
          cases closerLoop Bottom.tnil pre cid cd post with
          | ok k => simp [Except.map, hcl]
          | error e => simp [Except.map]
    | id n =>
      simp only [List.reverse_append, firstCloserAfter_prefix _ _ hc.stops]
      split
      · simp [hcl, Except.map]
      · rename_i cid hcid
        cases hs : splitAtDelim cid y with
        | none =>
          exfalso
          split at hcid
          · simp at hcid
          · rcases firstCloserAfter_mem _ _ _ hcid with e | ⟨d, hd'⟩
            · simp at e
            · obtain ⟨r, hr⟩ := splitAtDelim_some (id := cid) (l := y) (d := d)
                (by rw [splitLastDelim_eq hy]; simp at hd'; simp [hd'])
              rw [hr] at hs; simp at hs
        | some r =>
          obtain ⟨pre, cd, post⟩ := r
          have hmem : Node.delim cid cd ∈ y := by rw [splitAtDelim_eq hs]; simp
          rw [splitAtDelim_prefix (fun d hdP => hd cid d cd hdP hmem) hs]
          simp only
          rw [closerLoop_prefix hc]
          cases closerLoop (Bottom.id n) pre cid cd post with
          | ok k => simp [Except.map, hcl]
          | error e => simp [Except.map]

/-! ### (e) the chain of recorded segments -/

/-- a delimiter's segment is exactly its characters: `Segment = [Start, Start + Length)` -/
def DSeg (n : Node) : Prop := ∀ id d, n = Node.delim id d → d.seg.stop = d.seg.start + d.length

theorem dseg_inv : NodeInv DSeg where
  text := by intro s a b c id d h; simp at h
  emph := by intro c ks _ id d h; simp at h
  cons := by
    intro id d n _ id' d' e
    simp at e
    rw [← e.2]
    simp [Delim.consume, Segment.withStop]

theorem chain_text_merge {lo : Int} {kids : List Node} {s : Segment} (h : chain lo s.start (segsOfL kids))
    (hs : s.start ≤ s.stop) : chain lo s.stop (segsOfL (mergeOrAppend kids s)) := by
  unfold mergeOrAppend
  have happ : chain lo s.stop (segsOfL (kids ++ [textOf s])) := by
    rw [segsOfL_append]
    exact chain_append h (by simpa [segsOfL, segsOf, textOf] using chain_single (Int.le_refl _) hs (Int.le_refl _))
  split
  · rename_i seg so ha ra hl
    split
    · obtain ⟨ys, rfl⟩ := List.getLast?_eq_some_iff.mp hl
      rw [segsOfL_append] at h
      obtain ⟨mid, h1, h2⟩ := chain_split h
      simp only [segsOfL, segsOf, List.append_nil, chain] at h2
      simp only [List.dropLast_concat]
      rw [segsOfL_append]
      refine chain_append h1 ?_
      simp only [segsOfL, segsOf, List.append_nil, Segment.withStop]
      exact chain_single (by simp only; omega) (by simp only; omega) (by simp only; omega)
    · exact happ
  · exact happ

theorem chain_removeDelim {lo : Int} {pre : List Node} {d : Delim} (h : chain lo d.seg.start (segsOfL pre))
    (hs : d.seg.start ≤ d.seg.stop) : chain lo d.seg.stop (segsOfL (removeDelim pre d)) := by
  unfold removeDelim
  split
  · exact chain_text_merge h hs
  · exact chain_mono (Int.le_refl _) hs h

theorem chain_clearInner {lo hi : Int} : ∀ (mid acc : List Node) (m : Int), chain lo m (segsOfL acc) →
    chain m hi (segsOfL mid) → chain lo hi (segsOfL (clearInner acc mid)) := by
  intro mid
  induction mid with
  | nil =>
    intro acc m ha hm
    simp only [segsOfL, chain] at hm
    exact chain_mono (Int.le_refl _) hm ha
  | cons n rest ih =>
    intro acc m ha hm
    cases n with
    | delim id d =>
      simp only [segsOfL, segsOf, List.singleton_append, chain] at hm
      simp only [clearInner]
      exact ih _ _ (chain_removeDelim (chain_mono (Int.le_refl _) hm.1 ha) hm.2.1) hm.2.2
    | _ =>
      simp only [segsOfL] at hm
      obtain ⟨m', h1, h2⟩ := chain_split hm
      simp only [clearInner]
      refine ih _ m' ?_ h2
      rw [segsOfL_append]
      exact chain_append ha (by simpa [segsOfL] using h1)

theorem segsOfL_reverse_cons (n : Node) (l : List Node) :
    segsOfL (n :: l).reverse = segsOfL l.reverse ++ segsOf n := by
  simp [segsOfL_append, segsOfL]

theorem chain_clearRev (b : Bottom) {lo : Int} : ∀ (l : List Node) (hi : Int), chain lo hi (segsOfL l.reverse) →
    chain lo hi (segsOfL (clearRev b l).reverse) := by
  intro l
  induction l with
  | nil => intro hi h; simpa [clearRev] using h
  | cons n rest ih =>
    intro hi h
    rw [segsOfL_reverse_cons] at h
    obtain ⟨m, h1, h2⟩ := chain_split h
    have ihr := ih m h1
    cases n with
    | delim id d =>
      simp only [segsOf, chain] at h2
      simp only [clearRev]
      split
      · rw [segsOfL_reverse_cons]; exact chain_append h1 (by simpa [segsOf, chain] using h2)
      · split
        · have hdef : chain lo hi (segsOfL (textOf d.seg :: clearRev b rest).reverse) := by
            rw [segsOfL_reverse_cons]
            exact chain_append ihr (by simpa [segsOf, textOf, chain] using h2)
          split
          · rename_i seg so ha ra tl x r' heq
            split
            · rename_i hadj
              simp only [Bool.and_eq_true, beq_iff_eq] at hadj
              rw [heq, segsOfL_reverse_cons] at ihr
              rw [segsOfL_reverse_cons]
              have hx : x = Node.text seg so ha ra := by
                have := clearRev_text b seg so ha ra tl
                rw [this] at heq
                simp at heq
                exact heq.1.symm
              subst hx
              obtain ⟨m2, g1, g2⟩ := chain_split ihr
              simp only [segsOf, chain] at g2
              refine chain_append g1 ?_
              simp only [segsOf, Segment.withStop, chain]
              exact ⟨by omega, by omega, by omega⟩
            · exact hdef
          · exact hdef
        · exact chain_mono (Int.le_refl _) (by omega) ihr
    | _ =>
      simp only [clearRev]
      rw [segsOfL_reverse_cons]
      exact chain_append ihr h2

theorem chain_clearDelimiters (b : Bottom) {lo hi : Int} {kids : List Node} (h : chain lo hi (segsOfL kids)) :
    chain lo hi (segsOfL (clearDelimiters b kids)) := by
  unfold clearDelimiters
  split
  · exact h
  · rename_i pre id d post heq
    rw [splitLastDelim_eq heq, segsOfL_append] at h
    obtain ⟨m, h1, h2⟩ := chain_split h
    simp only [segsOfL] at h2
    obtain ⟨m2, h3, h4⟩ := chain_split h2
    rw [segsOfL_append]
    refine chain_append (chain_clearRev b _ m2 ?_) h4
    rw [segsOfL_reverse_cons]
    simp only [List.reverse_reverse]
    exact chain_append h1 h3

theorem chain_advanceCloser {lo hi : Int} {pre post : List Node} (h : chain lo hi (segsOfL (pre ++ post))) :
    chain lo hi (segsOfL (wholeOf (advanceCloser pre post))) := by
  rw [advanceCloser_whole]; exact h

/-- one round of the closer loop keeps the chain -/
theorem closerStep_chain {b : Bottom} {lo hi : Int} {pre post : List Node} {cid : Nat} {cd : Delim}
    (hp : posL pre) (hcd : 1 ≤ cd.length) (hD : allQ DSeg pre) (hDc : cd.seg.stop = cd.seg.start + cd.length)
    (h : chain lo hi (segsOfL (pre ++ .delim cid cd :: post))) :
    chain lo hi (segsOfL (wholeOf (closerStep b pre cid cd post))) := by
  have hc1 : chain lo hi (segsOfL ((pre ++ [.delim cid cd]) ++ post)) := by simpa using h
  unfold closerStep
  split
  · omega
  · split
    · exact chain_advanceCloser hc1
    · split
      · apply chain_advanceCloser
        split
        · rw [segsOfL_append] at h ⊢
          obtain ⟨m, h1, h2⟩ := chain_split h
          simp only [segsOfL, segsOf, List.singleton_append, chain] at h2
          exact chain_append (chain_removeDelim (chain_mono (Int.le_refl _) h2.1 h1) h2.2.1) h2.2.2
        · exact hc1
      · rename_i p1 oid od mid consume m hf
        obtain ⟨f1, f2, f3, f4, f5⟩ := findOpener_pos b cd hcd _ _ _ hf (posL_reverse.mpr hp) posL_nil
        have e := findOpener_eq b cd _ _ _ hf
        simp only [List.reverse_reverse, List.append_nil] at e
        have hDo : od.seg.stop = od.seg.start + od.length := hD _ (by rw [e]; simp) oid od rfl
        -- the pieces: p1 | od | mid | cd | post
        rw [e] at h
        simp only [List.append_assoc, List.cons_append, List.nil_append, segsOfL_append, segsOfL, segsOf] at h
        obtain ⟨a, c1, c2⟩ := chain_split h
        simp only [chain] at c2
        obtain ⟨c2a, c2b, c2c⟩ := c2
        obtain ⟨a2, c3, c4⟩ := chain_split c2c
        simp only [chain] at c4
        obtain ⟨c4a, c4b, c4c⟩ := c4
        split
        · omega
        · simp only
          have hemph : chain od.seg.stop cd.seg.start (segsOfL [Node.emphasis consume (clearInner [] mid)]) := by
            simp only [segsOfL, segsOf, List.append_nil]
            exact chain_clearInner mid [] od.seg.stop (by simp [segsOfL, chain])
              (chain_mono (Int.le_refl _) c4a c3)
          have hpre' : chain lo cd.seg.start (segsOfL ((if ((od.consume consume).length == 0) = true then p1
              else p1 ++ [Node.delim oid (od.consume consume)]) ++ [Node.emphasis consume (clearInner [] mid)])) := by
            rw [segsOfL_append]
            refine chain_append (mid := od.seg.stop) ?_ hemph
            split
            · exact chain_mono (Int.le_refl _) (by omega) c1
            · rw [segsOfL_append]
              refine chain_append c1 ?_
              simp only [segsOfL, segsOf, List.append_nil, Delim.consume, Segment.withStop, chain]
              exact ⟨by omega, by omega, by omega⟩
          split
          · apply chain_advanceCloser
            rw [segsOfL_append]
            exact chain_append hpre' (chain_mono (by omega) (Int.le_refl _) c4c)
          · simp only [wholeOf]
            rw [segsOfL_append]
            refine chain_append hpre' ?_
            simp only [segsOfL, segsOf, List.singleton_append, Delim.consume, Segment.withStop, chain]
            exact ⟨by omega, by omega, chain_mono (by omega) (Int.le_refl _) c4c⟩

theorem closerLoop_chain (b : Bottom) {lo hi : Int} (pre : List Node) (cid : Nat) (cd : Delim) (post : List Node) :
    ∀ {res : List Node}, closerLoop b pre cid cd post = .ok res → posL pre → 1 ≤ cd.length → posL post →
    allQ DSeg pre → DSeg (.delim cid cd) → allQ DSeg post →
    chain lo hi (segsOfL (pre ++ .delim cid cd :: post)) → chain lo hi (segsOfL res) := by
  fun_induction closerLoop b pre cid cd post with
  | case1 pre cid cd post kids hs =>
    intro res h hp hcd hq d1 d2 d3 hc
    simp at h; subst h
    have := closerStep_chain (b := b) (post := post) (cid := cid) hp hcd d1 (d2 cid cd rfl) hc
    rw [hs] at this
    exact this
  | case2 => intro res h; simp at h
  | case3 pre cid cd post pre' cid' cd' post' hs ih =>
    intro res h hp hcd hq d1 d2 d3 hc
    have k1 := closerStep_chain (b := b) (post := post) (cid := cid) hp hcd d1 (d2 cid cd rfl) hc
    have k2 := (closerStep_pos (b := b) (cid := cid) hp hcd hq).2
    have k3 := closerStep_allQ dseg_inv (b := b) d1 d2 d3
    rw [hs] at k1 k2 k3
    simp only [wholeOf] at k1 k2 k3
    have p1 := posL_append.mp k2
    have p2 := posL_cons.mp p1.2
    have q1 := allQ_append.mp k3
    have q2 := allQ_cons.mp q1.2
    exact ih h p1.1 (posL_delim.mp p2.1) p2.2 q1.1 q2.1 q2.2 k1

/-- ProcessDelimiters keeps the chain of recorded segments (for every `bottom`) -/
theorem processDelimiters_chain {b : Bottom} {lo hi : Int} {kids res : List Node}
    (h : processDelimiters b kids = .ok res) (hp : posL kids) (hD : allQ DSeg kids)
    (hc : chain lo hi (segsOfL kids)) : chain lo hi (segsOfL res) := by
  unfold processDelimiters at h
  split at h
  · simp at h; subst h; exact hc
  · simp only at h
    split at h
    · simp at h; subst h; exact chain_clearDelimiters b hc
    · split at h
      · simp at h
      · rename_i pre cd post hs
        split at h
        · rename_i kids' hl
          simp at h; subst h
          have e := splitAtDelim_eq hs
          rw [e] at hp hD hc
          have p1 := posL_append.mp hp
          have p2 := posL_cons.mp p1.2
          have q1 := allQ_append.mp hD
          have q2 := allQ_cons.mp q1.2
          exact chain_clearDelimiters b
            (closerLoop_chain b _ _ _ _ hl p1.1 (posL_delim.mp p2.1) p2.2 q1.1 q2.1 q2.2 hc)
        · simp at h

end GM.Proof.InlinesDelims
