/-
  GM.Proof.BlocksTNP26 — **the block phase WITH paragraph transformers ends normally for EVERY source** (or with the
  transformers' run-time guard error `e`): `runT_total`. No Go panic of `parseBlocks` / `openBlocks` / `closeBlocks` /
  `transformParagraph` and the ten default block parsers — including the RequireParagraph path (parser.go:985-997:
  `last == parent.LastChild()` always holds there, `paragraph.Close`, pop, transform, `goto retry` with
  `continuable = false`), `closeBlocks(lastIndex, i)` after a transformed retry (something is opened on the underline, so
  the stale slice read and the loop bounds are right) —, no fuel exhaustion, and neither contract monitor of `retryStepT`
  fires. The final state satisfies `NodesOK` (all line segments inside the source) and `KidsOK`.
  Assembly of GM.Proof.BlocksTNP20–25 with the per-parser lemmas (`lsp_all`) and the termination theorem `runT_noLoop`.
-/
import GM.Proof.BlocksTNP25
import GM.Proof.BlocksNoPanicAll
import GM.Proof.BlocksT

namespace GM.Blocks.T
open GM GM.Text GM.Spec GM.Proof.Reader

theorem runT_total (src : Bytes) (e : Panic) (pts : List PT) (hs : PTsSpec src e pts) (hl : PTsOK pts) :
    (∃ s, runT pts src = .ok s ∧ NodesOK src s ∧ KidsOK s) ∨ runT pts src = .error e := by
  rcases L.G.runG (lsp_all src) hs with h | h | h
  · exact .inl h
  · exact absurd h (runT_noLoop hl src)
  · exact .inr h

end GM.Blocks.T
